#!/bin/bash
# usage: seedtest.sh <patch.diff> <ID> [more IDs...]
# Applies a seeded change to a scratch worktree of /repo's HEAD, runs the given checks against it,
# prints their verdicts, removes the worktree. Evidence of these runs goes to a scratch directory.
set -u
PATCH="$1"; shift
WT=$(mktemp -d /tmp/seedwt.XXXXXX)
rmdir "$WT"
git -C /repo worktree add --detach "$WT" HEAD >/dev/null 2>&1 || { echo "worktree failed"; exit 2; }
trap 'git -C /repo worktree remove --force "$WT" >/dev/null 2>&1; rm -rf "$EV"' EXIT
EV=$(mktemp -d /tmp/seedev.XXXXXX)
if ! git -C "$WT" apply "$PATCH" 2>/dev/null; then
  if ! git -C "$WT" apply --3way "$PATCH" >/dev/null 2>&1; then
    echo "PATCH-DOES-NOT-APPLY $PATCH"; exit 3
  fi
fi
for ID in "$@"; do
  out=$(VERIF_REPO="$WT" VERIF_EVDIR="$EV" /verif/run.sh "$ID" quick 2>&1)
  rc=$?
  echo "== $ID rc=$rc"
  echo "$out" | grep -E "violation:|VIOLATION|fatal|KNOWN" | sed "s#$WT/##g" | cut -c1-400
done
