#!/usr/bin/env python3
"""Writes /verif/seeded/<id>/meta.json from the sub-agent's description (agent_meta.json), my own
confirmation run (confirm.log) and the latest seed x check matrix (argument: matrix file)."""
import json, os, re, sys
matrix = {}
if len(sys.argv) > 1 and os.path.exists(sys.argv[1]):
    for line in open(sys.argv[1]):
        parts = line.split()
        if len(parts) >= 3 and parts[1].startswith('C') and parts[2].startswith('rc='):
            sid, cid, rc = parts[0], parts[1], parts[2][3:]
            rules = [p[5:] for p in parts[3:] if p.startswith('rule=')]
            matrix.setdefault(sid, {})[cid] = {"rc": int(rc), "rules": rules}
        elif len(parts) == 2 and parts[1] == 'PATCH-DOES-NOT-APPLY':
            matrix[parts[0]] = {"_applies": False}
CROSS = {'C05-J': {'C11': ['C11-R6']}, 'C06-J': {'C18': ['C18-R4']}, 'C13-J': {'C01': ['C01-R4']}, 'C08-J': {'C02': ['C02-R7']}, 'C06-K': {'C12': ['C12-R1']}, 'C18-K': {'C05': ['C05-R5']}, 'C20-K': {'C08': ['C08-R10']}}
root = '/verif/seeded'
for sid in sorted(os.listdir(root)):
    d = os.path.join(root, sid)
    if not os.path.isdir(d):
        continue
    am = json.load(open(os.path.join(d, 'agent_meta.json'))) if os.path.exists(os.path.join(d, 'agent_meta.json')) else {}
    conf = ''
    if os.path.exists(os.path.join(d, 'confirm.log')):
        lines = open(os.path.join(d, 'confirm.log')).read().strip().split('\n')
        conf = next((l for l in reversed(lines) if l.startswith('RESULT')), '')
    notes = open(os.path.join(d, 'agent_notes.md')).read() if os.path.exists(os.path.join(d, 'agent_notes.md')) else ''
    if not am and notes:
        # round-3 seeds: the sub-agent wrote notes.md instead of a JSON description
        def section(*names):
            for nme in names:
                m2 = re.search(r'^#+\s*' + nme + r'[^\n]*\n(.*?)(?=^#+\s|\Z)', notes, re.S | re.M | re.I)
                if m2:
                    return m2.group(1).strip()[:1500]
            return ''
        am = {'summary': (section('Change', 'The change', 'What') or notes.strip()[:1200]),
              'mechanism': section('Why it breaks', 'Why', 'Effect'),
              'needs': section('Input needed', 'What it needs', 'Needs', 'Manifest', 'Schedule') or 'see agent_notes.md'}
    prop = sid.split('-')[0]
    m = matrix.get(sid, {})
    applies = m.get('_applies', True)
    own = m.get(prop, {})
    others = {c: v['rules'] for c, v in m.items() if c != prop and not c.startswith('_') and v.get('rc') == 1}
    only_own = [c for c in m if not c.startswith('_')] == [prop]
    if only_own and sid in CROSS:
        others = CROSS[sid]
    elif only_own:
        others = "not run for this seed (the last matrix ran each seed against its own property's check only)"
    meta = {
        "seed": sid,
        "breaks_property": prop,
        "summary": am.get('summary', ''),
        "mechanism": am.get('mechanism', ''),
        "needs_to_manifest": am.get('needs', ''),
        "demonstration": open(os.path.join(d, 'demo_path.txt')).read().strip() if os.path.exists(os.path.join(d, 'demo_path.txt')) else '',
        "what_i_ran": [
            "confirm_seed.sh in a scratch worktree of /repo: go build ./... ; the demonstration test on the pristine tree (must pass) and with patch.diff applied (must fail); go test -vet=off -count=1 ./... with the patch applied (only the sandbox's network tests in conn and dns may fail)",
            conf,
            "seedmatrix.sh: every claimed check (quick tier) against patch.diff applied to a scratch worktree of /repo's HEAD",
        ],
        "applies_to_current_repo_head": applies,
        "caught_by_own_property_check": bool(own.get('rc') == 1),
        "own_property_rules_fired": own.get('rules', []),
        "other_checks_that_also_fired": others,
    }
    missed = {"C01-C": "C01-R1 (one-read test only for the first read)", "C05-D": "C05-R7", "C07-C": "C07-R7", "C07-D": "C07-R6", "C08-C": "C08-R8",
              "C10-D": "C10-R7", "C11-D": "C11-R6", "C13-C": "C13-R4 (half-close not delayed)", "C18-D": "C18-R4 (refusal not narrowed)", "C20-C": "C20-R1 (cleanup removes only the temporary file)", "C20-B": "C20-R1 (success means written)",
              "C02-F": "C02-R4 (window stays closed)", "C04-E": "C04-R6", "C05-E": "C05-R8 / C11-R6 (address-change block)", "C06-F": "C06-R5", "C07-F": "C07-R8",
              "C08-F": "C08-R9", "C09-F": "C09-R6", "C11-F": "C11-R6 (fresh record)", "C13-E": "C13-R6 / C07-R4 (wrapper inner reads)", "C17-F": "C17-R1 (every record lowers expiry)",
              "C18-F": "C18-R3 (minimum assigned before Configure)", "C19-E": "C19-R7",
              "C02-G": "C02-R6 (left-over window rewound only on the chunk reader's success edge)", "C05-G": "C05-R9 (header slot = fixed + padding + sibling length of the address written)",
              "C08-G": "C08-R10 (reload short-cut content refreshed by save and load)", "C17-G": "C17-R1 (an earlier expiry is always taken)",
              "C18-G": "C18-R5 (legacy flags only tested or folded into the derived flags)", "C19-G": "C19-R4 (round publishes the best index or leaves on cur == best)",
              "C05-H": "C05-R7 (through the helpers a session is built with)", "C12-H": "C12-R8 (lock balance)", "C14-H": "C14-R5 (recorded on every exit)",
              "C06-I": "C06-R1 (wrapper built only on the ok edge of the assertion it relies on — now decided instead of reviewed)", "C08-I": "C08-R2 (both live stores follow)",
              "C12-I": "C12-R9 (registered means served)", "C17-I": "C17-R2 (TCP split offset is the start of the second length field)",
              "C01-J": "C01-R7 (identity-header chain tables)", "C04-J": "C04-R3 (generation consistency)", "C05-J": "C05-R8 (fresh record)", "C07-J": "C07-R9 (handshake result is handed on)",
              "C08-J": "C08-R12 / C02-R7 (erased-error request is fresh)", "C11-J": "C11-R7 (receive buffers not retained)", "C12-J": "C12-R3 (stop marker set at construction)",
              "C13-J": "C13-R7 = C01-R4 (copy-loop accounting)", "C17-J": "C17-R8 (done family untouched)", "C18-J": "C18-R3 (every key measured)", "C06-J": "C06-R1 (configuration gates decided inside C06)",
              "C06-K": "C06-R6 = C12-R1 (session queue lockset)", "C10-K": "C10-R8 (enumerator joins labels unconditionally)", "C16-K": "C16-R5 (written request is flushed)",
              "C18-K": "C18-R6 = C05-R5 (headroom combinators)", "C20-K": "C20-R4 = C08-R10 (remembered content is what was written)"}
    if sid in missed:
        meta["missed_when_first_run"] = True
        meta["check_strengthened_with"] = missed[sid]
    if os.path.exists(os.path.join(d, 'agent_demo_output.txt')):
        meta["demonstration"] = (meta["demonstration"] + " ; sub-agent's run: agent_demo_output.txt").strip(' ;')
    if not applies:
        meta["note"] = "the patch no longer applies to /repo HEAD because a later fix: commit changed the same lines (for C08-A: cdf0516 refuses duplicate uPSKs, which also masks this change's effect); it was confirmed against the tree it was written for"
    json.dump(meta, open(os.path.join(d, 'meta.json'), 'w'), indent=1)
print("wrote", len(os.listdir(root)), "meta.json files")
