#!/bin/bash
# usage: benignmatrix2.sh <outfile> <jobs> <patch.diff>...
# Like benignmatrix.sh, but each worker keeps ONE scratch worktree of /repo's HEAD and applies the
# patches to it one after the other (reset in between), so the Go build cache stays warm.
OUT="$1"; JOBS="$2"; shift 2; : > "$OUT"
/verif/build.sh || exit 2
BIN=$(mktemp /tmp/ssvb2.XXXXXX); cp /verif/bin/ssverif "$BIN"; chmod +x "$BIN"
export PATH=/opt/veriftools/go1.26.8/bin:$PATH GOTOOLCHAIN=local GOPROXY=off GOSUMDB=off GOWORK=off
IDS="${BENIGN_IDS:-C01 C02 C03 C04 C05 C06 C07 C08 C09 C10 C11 C12 C13 C14 C15 C16 C17 C18 C19 C20}"
worker() {
  k="$1"; list="$2"
  WT=/tmp/benw2.$k; git -C /repo worktree remove --force "$WT" >/dev/null 2>&1; rm -rf "$WT"
  git -C /repo worktree add --detach "$WT" HEAD >/dev/null 2>&1 || { echo "worker $k worktree-failed"; return; }
  EV=$(mktemp -d /tmp/benev2.XXXXXX)
  while read -r pf; do
    [ -z "$pf" ] && continue
    git -C "$WT" reset -q --hard HEAD; git -C "$WT" clean -fdq
    if ! git -C "$WT" apply "$pf" 2>/dev/null && ! git -C "$WT" apply --3way "$pf" >/dev/null 2>&1; then
      echo "$pf PATCH-DOES-NOT-APPLY"; git -C "$WT" reset -q --hard HEAD; continue
    fi
    for ID in $IDS; do
      out=$(VERIF_EVDIR="$EV" "$BIN" check -verif /verif -repo "$WT" -tier quick "$ID" 2>&1); rc=$?
      if [ $rc -ne 0 ]; then
        echo "$pf $ID rc=$rc"
        echo "$out" | grep -E "violation:|fatal|panic" | sed "s#$WT/##g" | cut -c1-600 | sed "s#^#    #"
      else
        echo "$pf $ID ok"
      fi
    done
  done < "$list"
  git -C /repo worktree remove --force "$WT" >/dev/null 2>&1; rm -rf "$EV"
}
TMPL=$(mktemp -d /tmp/benlists.XXXXXX)
i=0; for pf in "$@"; do echo "$pf" >> "$TMPL/list.$((i % JOBS))"; i=$((i+1)); done
for k in $(seq 0 $((JOBS-1))); do
  if [ -f "$TMPL/list.$k" ]; then ( worker "$k" "$TMPL/list.$k" >> "$OUT" ) & fi
done
wait
rm -rf "$BIN" "$TMPL"
echo DONE >> "$OUT"
