#!/bin/bash
# Builds /verif/bin/ssverif from /verif/checker (vendored deps, offline). Rebuilds only when sources changed.
set -eu
HERE="$(cd "$(dirname "$0")" && pwd)"
export PATH=/opt/veriftools/go1.26.8/bin:$PATH
export GOTOOLCHAIN=local GOPROXY=off GOSUMDB=off GOWORK=off GOFLAGS=-mod=vendor
unset GOOS GOARCH
mkdir -p "$HERE/bin"
BIN="$HERE/bin/ssverif"
if [ -x "$BIN" ] && [ -z "$(find "$HERE/checker" -name '*.go' -newer "$BIN" -not -path '*/vendor/*' -print -quit)" ] && [ ! "$HERE/checker/go.mod" -nt "$BIN" ]; then
  exit 0
fi
exec 9>"$HERE/bin/.lock"
flock 9
if [ -x "$BIN" ] && [ -z "$(find "$HERE/checker" -name '*.go' -newer "$BIN" -not -path '*/vendor/*' -print -quit)" ] && [ ! "$HERE/checker/go.mod" -nt "$BIN" ]; then
  exit 0
fi
cd "$HERE/checker"
go build -o "$BIN.tmp.$$" .
mv "$BIN.tmp.$$" "$BIN"
