#!/bin/bash
# usage: confirm_seed.sh <agent-out-dir e.g. /tmp/wt-out/C03/A> <seed-id e.g. C03-A>
# Confirms a seeded change on a scratch worktree of /repo's HEAD: applies, builds, runs the whole
# existing suite, runs the demonstration with and without the change. Writes /verif/seeded/<id>/.
set -u
SRC="$1"; ID="$2"
export PATH=/opt/veriftools/go1.26.8/bin:$PATH GOTOOLCHAIN=local GOFLAGS=-mod=mod GOPROXY=off GOSUMDB=off
OUT=/verif/seeded/$ID
mkdir -p "$OUT"
WT=$(mktemp -d /tmp/confwt.XXXXXX); rmdir "$WT"
git -C /repo worktree add --detach "$WT" HEAD >/dev/null 2>&1 || exit 2
trap 'git -C /repo worktree remove --force "$WT" >/dev/null 2>&1' EXIT
LOG="$OUT/confirm.log"; : > "$LOG"
cp "$SRC/patch.diff" "$OUT/patch.diff"
cp "$SRC/meta.json" "$OUT/agent_meta.json" 2>/dev/null
# demo files: every *_test.go in SRC, destination from demo_path.txt (first token ending in _test.go per file name)
cp "$SRC/demo_path.txt" "$OUT/demo_path.txt" 2>/dev/null
DEMOS=()
for f in "$SRC"/*_test.go; do
  [ -e "$f" ] || continue
  bn=$(basename "$f")
  dest=$(grep -oE "[A-Za-z0-9_/.-]*/$bn" "$SRC/demo_path.txt" | grep -v '^/' | sed 's#^\./##' | head -1)
  if [ -z "$dest" ] || [ ! -d "$WT/$(dirname "$dest")" ]; then
    pk=$(grep -m1 '^package ' "$f" | awk '{print $2}' | sed 's/_test$//')
    d=$(cd "$WT" && go list -f '{{.Name}} {{.Dir}}' ./... 2>/dev/null | awk -v n="$pk" '$1==n{print $2}' | head -1)
    dest="${d#$WT/}/$bn"
  fi
  cp "$f" "$OUT/$bn"
  DEMOS+=("$dest")
  mkdir -p "$WT/$(dirname "$dest")"; cp "$f" "$WT/$dest"
done
echo "demos: ${DEMOS[*]}" >> "$LOG"
PKGS=$(for d in "${DEMOS[@]}"; do echo "./$(dirname "$d")/"; done | sort -u | tr '\n' ' ')
RUNRE=$(grep -ohE "func (Test[A-Za-z0-9_]+)" "$SRC"/*_test.go | awk '{print $2}' | paste -sd'|')
cd "$WT"
echo "== pristine demo ($PKGS -run '$RUNRE')" >> "$LOG"
go test -vet=off -count=1 -run "^($RUNRE)\$" $PKGS >> "$LOG" 2>&1; PRISTINE=$?
if ! git apply "$OUT/patch.diff" 2>>"$LOG"; then echo "RESULT $ID patch-does-not-apply" | tee -a "$LOG"; exit 3; fi
echo "== build" >> "$LOG"
go build ./... >> "$LOG" 2>&1; BUILD=$?
echo "== mutated demo" >> "$LOG"
go test -vet=off -count=1 -run "^($RUNRE)\$" $PKGS >> "$LOG" 2>&1; MUT=$?
echo "== full suite with change (demo tests skipped)" >> "$LOG"
go test -vet=off -count=1 -skip "^($RUNRE)\$" ./... > "$OUT/suite.log" 2>&1; SUITE=$?
FAILPK=$(grep -E "^(FAIL|---)" "$OUT/suite.log" | grep -E "^FAIL\s" | awk '{print $2}' | sort -u | tr '\n' ' ')
grep -E "^(ok|FAIL|---)" "$OUT/suite.log" >> "$LOG"; rm -f "$OUT/suite.log"
echo "RESULT $ID build=$BUILD pristine_demo=$PRISTINE mutated_demo=$MUT suite_rc=$SUITE failing_pkgs=[$FAILPK]" | tee -a "$LOG"
