#!/bin/bash
# usage: seedmatrix.sh <outfile> [jobs]
# Runs every claimed check (quick tier) against every seeded change, each seed in its own scratch
# worktree of /repo's HEAD (removed afterwards). Uses a frozen copy of the checker binary so that
# editing the checker while the matrix runs does not mix versions.
OUT="$1"; JOBS="${2:-4}"; : > "$OUT"
/verif/build.sh || exit 2
BIN=$(mktemp /tmp/ssverif.matrix.XXXXXX); cp /verif/bin/ssverif "$BIN"; chmod +x "$BIN"
export PATH=/opt/veriftools/go1.26.8/bin:$PATH GOTOOLCHAIN=local GOPROXY=off GOSUMDB=off GOWORK=off
IDS="${SEED_IDS:-C01 C02 C03 C04 C05 C06 C07 C08 C09 C10 C11 C12 C13 C14 C15 C16 C17 C18 C19 C20}"
one() {
  d="$1"; sid=$(basename "$d")
  WT=$(mktemp -d /tmp/seedwt.XXXXXX); rmdir "$WT"
  git -C /repo worktree add --detach "$WT" HEAD >/dev/null 2>&1 || { echo "$sid worktree-failed"; return; }
  EV=$(mktemp -d /tmp/seedev.XXXXXX)
  if ! git -C "$WT" apply "${d}patch.diff" 2>/dev/null && ! git -C "$WT" apply --3way "${d}patch.diff" >/dev/null 2>&1; then
    echo "$sid PATCH-DOES-NOT-APPLY"
  else
    for ID in $( [ "$SEED_IDS" = own ] && echo ${sid%%-*} || echo $IDS ); do
      out=$(VERIF_EVDIR="$EV" "$BIN" check -verif /verif -repo "$WT" -tier quick "$ID" 2>&1); rc=$?
      rules=$(echo "$out" | grep -o "rule=[A-Z0-9-]*" | sort -u | tr '\n' ' ')
      echo "$sid $ID rc=$rc $rules"
    done
  fi
  git -C /repo worktree remove --force "$WT" >/dev/null 2>&1; rm -rf "$EV"
}
export -f one; export BIN IDS
ls -d /verif/seeded/*/ | xargs -P "$JOBS" -I{} bash -c 'one {}' >> "$OUT"
rm -f "$BIN"
echo DONE >> "$OUT"
