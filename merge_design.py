#!/usr/bin/env python3
"""Rebuilds section 5 of DESIGN.md from DESIGN_asbuilt.md (the working copy of the as-built notes)."""
d = open('/verif/DESIGN.md').read()
s = open('/verif/DESIGN_asbuilt.md').read()
if '## 5. As built' in d:
    d = d[:d.index('## 5. As built')]
open('/verif/DESIGN.md', 'w').write(d.rstrip('\n') + '\n\n' + s)
print("DESIGN.md section 5 rebuilt")
