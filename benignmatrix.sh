#!/bin/bash
# usage: benignmatrix.sh <outfile> <patch.diff>...   — behaviour-preserving refactorings: every check must stay silent.
OUT="$1"; shift; : > "$OUT"
/verif/build.sh || exit 2
BIN=$(mktemp /tmp/ssverif.benign.XXXXXX); cp /verif/bin/ssverif "$BIN"; chmod +x "$BIN"
export PATH=/opt/veriftools/go1.26.8/bin:$PATH GOTOOLCHAIN=local GOPROXY=off GOSUMDB=off GOWORK=off
IDS="C01 C02 C03 C04 C05 C06 C07 C08 C09 C10 C11 C12 C13 C14 C15 C16 C17 C18 C19 C20"
one() {
  pf="$1"
  WT=$(mktemp -d /tmp/benwt.XXXXXX); rmdir "$WT"
  git -C /repo worktree add --detach "$WT" HEAD >/dev/null 2>&1 || { echo "$pf worktree-failed"; return; }
  EV=$(mktemp -d /tmp/benev.XXXXXX)
  if ! git -C "$WT" apply "$pf" 2>/dev/null && ! git -C "$WT" apply --3way "$pf" >/dev/null 2>&1; then
    echo "$pf PATCH-DOES-NOT-APPLY"
  else
    for ID in $IDS; do
      out=$(VERIF_EVDIR="$EV" "$BIN" check -verif /verif -repo "$WT" -tier quick "$ID" 2>&1); rc=$?
      if [ $rc -ne 0 ]; then
        echo "$pf $ID rc=$rc"
        echo "$out" | grep -E "violation:|fatal|panic" | sed "s#$WT/##g" | cut -c1-600 | sed "s#^#    #"
      else
        echo "$pf $ID ok"
      fi
    done
  fi
  git -C /repo worktree remove --force "$WT" >/dev/null 2>&1; rm -rf "$EV"
}
export -f one; export BIN IDS
printf '%s\n' "$@" | xargs -P 8 -I{} bash -c 'one {}' >> "$OUT"
rm -f "$BIN"
echo DONE >> "$OUT"
