#!/usr/bin/env python3
"""Generates MANIFEST.json from manifest_src.json (claims) + properties.jsonl; every property not claimed is listed not_applicable."""
import json, sys
props = [json.loads(l) for l in open('/verif/properties.jsonl')]
src = json.load(open('/verif/manifest_src.json'))
checks = []
na = []
for p in props:
    pid = p['id']
    c = src['claims'].get(pid)
    if c is None:
        na.append({"property_id": pid, "reason": src['not_applicable'].get(pid, "no sound static rule implemented for this property (see DESIGN.md)")})
        continue
    checks.append({
        "property_id": pid,
        "quick_cmd": f"./run.sh {pid} quick",
        "thorough_cmd": f"./run.sh {pid} thorough",
        "evidence_file": f"/verif/evidence/{pid}.json",
        "replay_cmd_template": "cat {path}",
        "engine": "ssverif",
        "level_claimed": {"category": "other", "text": c['text'], "design_ref": c.get('design_ref', f"DESIGN.md §2 {pid}")},
        "level_note": c['note'],
        "technique": c['technique'],
    })
m = {
    "version": 1,
    "setup_cmd": "./build.sh",
    "hooks": {"guard": "verif", "enable": "none: static analysis reads /repo's source as is; no instrumentation, no build tag is used",
              "baseline_off_cmd": src['baseline_off_cmd'], "source_commits": [], "add_only": True},
    "engines": [{"name": "ssverif", "path": "/verif/checker", "serves_properties": [c['property_id'] for c in checks],
                 "kind_free_text": "repository-specific static analyser (Go, go/packages + go/types + own statement-level CFG): dominance / must-pass-through, lockset, reaching definitions, table extraction and sibling agreement, constant relations; decides from /repo's current source on every run"}],
    "checks": checks,
    "notes": src.get('notes', ''),
    "not_applicable": na,
}
json.dump(m, open('/verif/MANIFEST.json', 'w'), indent=1)
print(len(checks), "claimed;", len(na), "not applicable")
