#!/bin/bash
# usage: /verif/run.sh <property id> <quick|thorough>
# Builds the checker if needed and decides the property on /repo's current working tree.
set -u
ID="${1:?property id}"
TIER="${2:-quick}"
HERE="$(cd "$(dirname "$0")" && pwd)"
export PATH=/opt/veriftools/go1.26.8/bin:$PATH
export GOTOOLCHAIN=local GOPROXY=off GOSUMDB=off GOWORK=off
unset GOOS GOARCH
"$HERE/build.sh" >&2 || { echo "checker build failed" >&2; exit 2; }
exec "$HERE/bin/ssverif" check -verif "$HERE" -repo "${VERIF_REPO:-/repo}" -tier "$TIER" "$ID"
