package main

// region.go: exact abstract interpretation of one integer variable over the finite partition
// of the integers induced by the constants it is compared with. All predicates of the form
// `v op const` are constant on every region, so simulating one representative per region
// through the function's CFG decides, for every possible input value, which exits are
// reachable and with which final value. Conditions that do not mention the variable (or
// mention it in another form) are explored on both edges (over-approximation).

import (
	"fmt"
	"go/ast"
	"go/token"
	"go/types"
	"sort"
)

const (
	regionNegInf = -(int64(1) << 62)
	regionPosInf = int64(1) << 62
)

// regionOutcome is one way the function can finish for one input region.
type regionOutcome struct {
	In      int64 // representative input value
	Out     int64 // value of the variable at the exit
	Unknown bool  // the variable was assigned a non-constant value
	Err     ErrKind
	Exit    int // return vertex (or call-site vertex when stopping at a target)
}

type regionSpec struct {
	p   *Prog
	fc  *FuncCtx
	key string // printed form of the tracked variable in fc (e.g. "c.RelayBatchSize", "*size", "natTimeout")
	// targets: when non-nil, simulation also records an outcome on reaching these vertices.
	targets map[int]bool
	depth   int
}

// regionConstants collects the integer constants the tracked variable is compared with in fc
// (and in helpers it is passed to by address).
func (s *regionSpec) constants() []int64 {
	info := s.fc.Info()
	set := map[int64]bool{0: true}
	for _, v := range s.fc.G.V {
		switch v.Kind {
		case VCond:
			if be, ok := ast.Unparen(v.Node.(ast.Expr)).(*ast.BinaryExpr); ok {
				if exprStr(be.X) == s.key {
					if k, isC := constInt(info, be.Y); isC {
						set[k] = true
					}
				}
				if exprStr(be.Y) == s.key {
					if k, isC := constInt(info, be.X); isC {
						set[k] = true
					}
				}
			}
		case VSwitchCase:
			if v.Tag != nil && exprStr(v.Tag) == s.key {
				if k, isC := constInt(info, v.Node.(ast.Expr)); isC {
					set[k] = true
				}
			}
		}
		if v.Node != nil {
			if sub, _ := s.helperCall(v); sub != nil {
				for _, k := range sub.constants() {
					set[k] = true
				}
			}
		}
	}
	var out []int64
	for k := range set {
		out = append(out, k)
	}
	sort.Slice(out, func(i, j int) bool { return out[i] < out[j] })
	return out
}

func (s *regionSpec) representatives() []int64 {
	set := map[int64]bool{regionNegInf: true, regionPosInf: true}
	for _, c := range s.constants() {
		set[c-1], set[c], set[c+1] = true, true, true
	}
	var out []int64
	for k := range set {
		out = append(out, k)
	}
	sort.Slice(out, func(i, j int) bool { return out[i] < out[j] })
	return out
}

// helperCall: the vertex contains a call f(…, &key, …) to a function of this module whose
// body is available; returns the spec for the callee with the pointer parameter dereferenced.
func (s *regionSpec) helperCall(v *Vertex) (*regionSpec, *ast.CallExpr) {
	if s.depth > 2 {
		return nil, nil
	}
	var found *regionSpec
	var call *ast.CallExpr
	inspectNoLit(v.Node, func(n ast.Node) bool {
		c, ok := n.(*ast.CallExpr)
		if !ok {
			return true
		}
		for i, a := range c.Args {
			ue, ok := ast.Unparen(a).(*ast.UnaryExpr)
			if !ok || ue.Op != token.AND || exprStr(ue.X) != s.key {
				continue
			}
			fn := Callee(s.fc.Info(), c)
			if fn == nil {
				continue
			}
			callee := s.p.CtxOfObj(fn)
			if callee == nil {
				continue
			}
			po := callee.ParamObj(i)
			if po == nil {
				continue
			}
			found = &regionSpec{p: s.p, fc: callee, key: "*" + po.Name(), depth: s.depth + 1}
			call = c
		}
		return true
	})
	return found, call
}

type regionState struct {
	v       int
	val     int64
	unknown bool
	errKnow string // "obj-pointer:nil|nonnil" facts, canonical string
}

// run simulates every representative and returns the outcomes.
func (s *regionSpec) run() []regionOutcome {
	var out []regionOutcome
	for _, rep := range s.representatives() {
		out = append(out, s.runFrom(rep)...)
	}
	return out
}

func (s *regionSpec) runFrom(in int64) []regionOutcome {
	fc := s.fc
	info := fc.Info()
	type st struct {
		v       int
		val     int64
		unknown bool
		errs    map[types.Object]ErrKind
	}
	key := func(x st) string {
		var ks []string
		for o, k := range x.errs {
			ks = append(ks, fmt.Sprintf("%p=%d", o, k))
		}
		sort.Strings(ks)
		return fmt.Sprint(x.v, x.val, x.unknown, ks)
	}
	seen := map[string]bool{}
	var outs []regionOutcome
	var work []st
	work = append(work, st{v: fc.G.Entry, val: in, errs: map[types.Object]ErrKind{}})
	cp := func(m map[types.Object]ErrKind) map[types.Object]ErrKind {
		n := make(map[types.Object]ErrKind, len(m))
		for k, v := range m {
			n[k] = v
		}
		return n
	}
	evalCmp := func(op token.Token, a, b int64) bool {
		switch op {
		case token.LSS:
			return a < b
		case token.LEQ:
			return a <= b
		case token.GTR:
			return a > b
		case token.GEQ:
			return a >= b
		case token.EQL:
			return a == b
		case token.NEQ:
			return a != b
		}
		return false
	}
	for len(work) > 0 {
		cur := work[len(work)-1]
		work = work[:len(work)-1]
		k := key(cur)
		if seen[k] {
			continue
		}
		seen[k] = true
		v := fc.G.V[cur.v]
		if s.targets != nil && s.targets[cur.v] {
			outs = append(outs, regionOutcome{In: in, Out: cur.val, Unknown: cur.unknown, Err: ErrNil, Exit: cur.v})
		}
		// returns
		if rs, ok := v.Node.(*ast.ReturnStmt); ok && v.Kind == VStmt {
			ek := fc.ErrAtReturn(cur.v)
			// `return err` with a fact from the state
			if n := len(rs.Results); n > 0 {
				if o := objOf(info, rs.Results[n-1]); o != nil {
					if f, ok := cur.errs[o]; ok {
						ek = f
					}
				}
			}
			if s.targets == nil {
				outs = append(outs, regionOutcome{In: in, Out: cur.val, Unknown: cur.unknown, Err: ek, Exit: cur.v})
			}
			continue
		}
		next := func(e Edge, x st) {
			x.v = e.To
			work = append(work, x)
		}
		// effects of the statement at v
		nx := st{val: cur.val, unknown: cur.unknown, errs: cur.errs}
		var helperOutcomes []regionOutcome
		var helperErrObj types.Object
		if v.Node != nil && (v.Kind == VStmt) {
			if sub, call := s.helperCall(v); sub != nil {
				if !cur.unknown {
					helperOutcomes = sub.runFrom(cur.val)
				} else {
					nx.unknown = true
				}
				// which variable receives the helper's error?
				for _, cs := range fc.AllCalls() {
					if cs.Call == call {
						helperErrObj = cs.ResultVar(-1)
					}
				}
			} else {
				switch n := v.Node.(type) {
				case *ast.AssignStmt:
					for i, l := range n.Lhs {
						if exprStr(l) != s.key {
							// a redefinition of an error variable forgets its fact
							if o := objOf(info, l); o != nil {
								if _, ok := nx.errs[o]; ok {
									nx.errs = cp(nx.errs)
									delete(nx.errs, o)
								}
							}
							continue
						}
						if len(n.Lhs) != len(n.Rhs) {
							nx.unknown = true
							continue
						}
						kc, isC := constInt(info, n.Rhs[i])
						switch {
						case isC && n.Tok == token.ASSIGN, isC && n.Tok == token.DEFINE:
							nx.val, nx.unknown = kc, false
						case isC && n.Tok == token.ADD_ASSIGN && !nx.unknown:
							nx.val += kc
						case isC && n.Tok == token.SUB_ASSIGN && !nx.unknown:
							nx.val -= kc
						case !isC && (n.Tok == token.ASSIGN || n.Tok == token.DEFINE) && s.soleInputDef(cur.v):
							// the one place where the option's configured value enters the variable
							nx.val, nx.unknown = in, false
						default:
							nx.unknown = true
						}
					}
				case *ast.IncDecStmt:
					if exprStr(n.X) == s.key && !nx.unknown {
						if n.Tok == token.INC {
							nx.val++
						} else {
							nx.val--
						}
					}
				}
			}
		}
		if len(helperOutcomes) > 0 {
			for _, ho := range helperOutcomes {
				y := st{val: ho.Out, unknown: ho.Unknown, errs: cp(nx.errs)}
				if helperErrObj != nil && ho.Err != ErrUnknown {
					y.errs[helperErrObj] = ho.Err
				}
				for _, e := range v.Succs {
					next(e, y)
				}
			}
			continue
		}
		// branching
		decided := -1
		switch v.Kind {
		case VCond:
			x, y, op, ok := condParts(v)
			if ok && y != nil && !cur.unknown {
				if exprStr(x) == s.key {
					if kc, isC := constInt(info, y); isC {
						decided = b2i(evalCmp(op, cur.val, kc))
					}
				} else if exprStr(y) == s.key {
					if kc, isC := constInt(info, x); isC {
						decided = b2i(evalCmp(op, kc, cur.val))
					}
				}
			}
			if ok && decided < 0 && (op == token.EQL || op == token.NEQ) && y != nil {
				// err == nil / err != nil with a known fact
				var o types.Object
				if isNilExpr(info, y) {
					o = objOf(info, x)
				} else if isNilExpr(info, x) {
					o = objOf(info, y)
				}
				if f, has := cur.errs[o]; has && o != nil && f != ErrUnknown {
					isNil := f == ErrNil
					decided = b2i((op == token.EQL) == isNil)
				}
			}
		case VSwitchCase:
			if v.Tag != nil && exprStr(v.Tag) == s.key && !cur.unknown {
				if kc, isC := constInt(info, v.Node.(ast.Expr)); isC {
					decided = b2i(cur.val == kc)
				}
			}
		}
		for _, e := range v.Succs {
			if decided >= 0 && (e.Label == LTrue || e.Label == LFalse) && e.Label != decided {
				continue
			}
			next(e, nx)
		}
	}
	return outs
}

// soleInputDef: vertex v holds the only non-constant assignment to the tracked variable.
func (s *regionSpec) soleInputDef(v int) bool {
	info := s.fc.Info()
	n, at := 0, -1
	for _, u := range s.fc.G.V {
		as, ok := u.Node.(*ast.AssignStmt)
		if !ok || u.Kind != VStmt {
			continue
		}
		for i, l := range as.Lhs {
			if exprStr(l) != s.key {
				continue
			}
			if len(as.Lhs) == len(as.Rhs) {
				if _, isC := constInt(info, as.Rhs[i]); isC {
					continue
				}
			}
			n++
			at = u.ID
		}
	}
	return n == 1 && at == v
}

func b2i(b bool) int {
	if b {
		return LTrue
	}
	return LFalse
}

// regionCheckRange: every nil-error outcome leaves the variable in [lo, hi]. Returns the
// offending outcomes.
func regionViolations(outs []regionOutcome, lo, hi int64) (bad []regionOutcome, nOK int) {
	for _, o := range outs {
		if o.Err == ErrNonNil {
			continue
		}
		if o.Unknown || o.Out < lo || o.Out > hi {
			bad = append(bad, o)
		} else {
			nOK++
		}
	}
	return
}

func regionValStr(v int64) string {
	switch {
	case v <= regionNegInf+1:
		return "any very negative value"
	case v >= regionPosInf-1:
		return "any very large value"
	}
	return fmt.Sprint(v)
}
