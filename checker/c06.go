package main

import (
	"go/types"
)

// c06Contract: declared preconditions of dynamically dispatched entry points, over generic
// atoms (P<i> = i-th parameter). These are what the relay code establishes before the call
// (checked at the call sites that are in scope) and what every implementation may assume.
func c06Contract(fc *FuncCtx) []LF {
	if fc.Obj == nil {
		return nil
	}
	sig, ok := fc.Obj.Type().(*types.Signature)
	if !ok || sig.Recv() == nil {
		return nil
	}
	switch fc.Obj.Name() {
	case "UnpackInPlace":
		// UnpackInPlace(b []byte, addr netip.AddrPort, packetStart, packetLen int)
		if sig.Params().Len() == 4 && isIntType(sig.Params().At(2).Type()) && isIntType(sig.Params().At(3).Type()) {
			return []LF{
				lfAtom("P2"),
				lfAtom("P3"),
				lfAtom("len(P0)").plus(lfAtom("P2"), -1).plus(lfAtom("P3"), -1),
			}
		}
	}
	return nil
}
