package main

import (
	"fmt"
	"go/ast"
	"go/token"
	"go/types"
	"golang.org/x/tools/go/packages"
	"sort"
	"strings"
)

func init() {
	register(&PropCheck{ID: "C06", Pkgs: []string{"./..."}, Run: runC06})
}

// c06Contract: declared preconditions of dynamically dispatched entry points and of the one
// helper whose guard is not linear, over generic atoms (P<i> = i-th parameter). They are what
// callers establish (checked at every call site that is in scope) and what every
// implementation may assume.
func c06Contract(fc *FuncCtx) []LF {
	if fc.Obj == nil {
		return nil
	}
	sig, ok := fc.Obj.Type().(*types.Signature)
	if !ok {
		return nil
	}
	if sig.Recv() == nil {
		if fc.Obj.Name() == "intToUint16" && fc.Obj.Pkg().Path() == mp("ss2022") {
			return []LF{lfAtom("P0"), lfConst(65535).plus(lfAtom("P0"), -1)}
		}
		return nil
	}
	switch fc.Obj.Name() {
	case "UnpackInPlace":
		// UnpackInPlace(b []byte, addr netip.AddrPort, packetStart, packetLen int)
		if sig.Params().Len() == 4 && isIntType(sig.Params().At(2).Type()) && isIntType(sig.Params().At(3).Type()) {
			return []LF{
				lfAtom("P2"),
				lfAtom("P3"),
				lfAtom("len(P0)").plus(lfAtom("P2"), -1).plus(lfAtom("P3"), -1),
			}
		}
	}
	return nil
}

// c06BoundsPkgs: packages whose functions are put through the bounds prover.
var c06BoundsPkgs = []string{"socks5", "ss2022", "direct", "httpproxy", "ssnone", "dns", "probe"}

// c06Boundary: functions of those packages that are not required to be fully proved, by name,
// each with the reason. They are still analysed: their calls into fully proved functions must
// satisfy the callee's precondition. Everything not listed here must be proved completely.
var c06Boundary = map[string]string{}

// c06GuardedReaders: fully proved readers of received bytes whose precondition every caller,
// including boundary functions, must establish (or be a reviewed caller).
var c06GuardedReaders = map[string]bool{
	"ss2022.(*ShadowStreamConn).read":             true,
	"ss2022.ValidateUnixEpochTimestamp":           true,
	"ss2022.ParseTCPRequestFixedLengthHeader":     true,
	"ss2022.ParseTCPResponseHeader":               true,
	"ss2022.ParseSessionIDAndPacketID":            true,
	"socks5.ValidatePacketHeader":                 true,
	"ss2022.(*ShadowStreamCipher).DecryptInPlace": true,
	"ss2022.(*ShadowStreamCipher).DecryptTo":      true,
}

// c06ProvedHelpers: unexported functions called only from boundary functions that are fully
// proved on the reference tree. They never inherit their callers' boundary status (that is for
// helpers newly extracted from a boundary function): a change that makes one of them unprovable
// is reported.
var c06ProvedHelpers = map[string]bool{
	"ss2022.lengthExtendSalt":                          true,
	"ss2022.(*SlidingWindowFilter).unmaskedBlockIndex": true,
	"ss2022.(*SlidingWindowFilter).bitIndex":           true,
	"ss2022.(*SlidingWindowFilter).blockIndex":         true,
	"ss2022.getWriteBuf":                               true,
	"ss2022.(*ShadowStreamConn).getReadBuf":            true,
	"dns.(*Resolver).doTCP":                            true,
	"dns.(*resultBuilder).isDone":                      true,
	"dns.(*resultBuilder).parseMsg":                    true,
}

// c06BoundaryCallReviewed: calls from a boundary function into a fully proved reader whose
// precondition depends on the boundary function's buffer invariant, keyed "caller -> callee".
var c06BoundaryCallReviewed = map[string]string{
	"ss2022.(*ShadowStreamConn).Read -> ss2022.(*ShadowStreamConn).read":                    "the buffer is getReadBuf(): allocated with slices.Grow(nil, streamReadMinBufferSize) on first use and only ever resliced; too small a buffer is a designed panic on the first read of every connection, not an input-dependent one",
	"ss2022.(*ShadowStreamConn).WriteTo -> ss2022.(*ShadowStreamConn).read":                 "same buffer as Read: getReadBuf()",
	"ss2022.(*ShadowStreamConn).writeToShadowStreamConn -> ss2022.(*ShadowStreamConn).read": "the buffer is the peer connection's writeBuf[2+tagSize:], allocated by getWriteBuf() with streamWriteBufferSize = 2+tagSize+streamReadMinBufferSize",
	"ss2022.(*ShadowStreamClientConn).initRead -> ss2022.ParseTCPResponseHeader":            "plaintext is the opened response header of exactly 1+8+len(PSK)+2 bytes (bufferLen arithmetic above the call) and requestSaltLen == len(PSK) is fixed when the request salt is generated in DialStream; the relation between the two fields is not expressible as a per-field bound",
}

func c06BoundaryReason(name string) (string, bool) {
	if r, ok := c06Boundary[name]; ok {
		return r, true
	}
	// closures belong to their enclosing function
	if i := strings.Index(name, "$lit@"); i > 0 {
		if r, ok := c06Boundary[name[:i]]; ok {
			return r, true
		}
	}
	return "", false
}

func init() {
	out := "output side: offsets and sizes derive from the caller-provided headroom, the payload being sent or the target address, not from received bytes; headroom sufficiency is decided by C05"
	stream := "stream buffer management: the lazily allocated read/write buffers carry the invariant 'non-nil implies capacity >= streamReadMinBufferSize / streamWriteBufferSize', which is not expressible as a per-field bound; the length-driven slicing itself is in the fully proved (*ShadowStreamConn).read"
	client := "client side towards a configured upstream: sizes come from exported session-info fields (MaxPacketSize, PackerHeadroom) of the configured client"
	swf := "ring index is masked with ringBlockIndexMask == len(ring)-1, a relation between two fields fixed at construction; the formulas are decided by C04-R5"
	for _, n := range []string{
		"ss2022.(*ShadowPacketClientPacker).PackInPlace", "ss2022.(*ShadowPacketServerPacker).PackInPlace",
		"direct.(*Socks5PacketClientPacker).PackInPlace", "direct.(Socks5PacketServerPacker).PackInPlace",
		"direct.(*ShadowsocksNonePacketClientPacker).PackInPlace", "direct.(ShadowsocksNonePacketServerPacker).PackInPlace",
		"ss2022.(*StreamClient).DialStream", "ssnone.(*StreamClient).DialStream",
		"ss2022.PutTCPRequestVariableLengthHeader", "ss2022.PutUDPClientMessageHeader", "ss2022.PutUDPServerMessageHeader",
		"socks5.WriteAddrFromConnAddr", "socks5.AppendAddrFromConnAddr", "socks5.LengthOfAddrFromConnAddr", "socks5.clientDoRequest",
		"ss2022.(*ShadowStreamServerConn).initWrite", "ss2022.(*ShadowStreamServerConn).prepareInitWriteBufs", "ss2022.(*ShadowStreamServerConn).Write",
		"ss2022.(*ShadowStreamServerConn).readFromGeneric", "ss2022.(*ShadowStreamConn).ReadFrom", "ss2022.ReplyWithGibberish",
		// dispatchers of boundary functions (no obligations of their own today; listed so that
		// folding the function they dispatch to into them changes nothing)
		"ss2022.(*ShadowStreamServerConn).ReadFrom",
	} {
		c06Boundary[n] = out
	}
	for _, n := range []string{
		"ss2022.(*ShadowStreamClientConn).initRead", "ss2022.(*ShadowStreamClientConn).Read", "ss2022.(*ShadowStreamClientConn).writeToGeneric",
		"ss2022.(*ShadowStreamConn).Read", "ss2022.(*ShadowStreamConn).WriteTo", "ss2022.(*ShadowStreamConn).writeToShadowStreamConn",
		"ss2022.(*StreamServer).HandleStream",
		"ss2022.(*ShadowStreamClientConn).WriteTo", // dispatcher of writeToGeneric / writeToServerConn
	} {
		c06Boundary[n] = stream
	}
	for _, n := range []string{
		"probe.(UDPProbe).Probe", "dns.(*Resolver).sendQueriesUDP", "dns.(*Resolver).sendQueries", "dns.(*Resolver).sendQueriesTCP",
	} {
		c06Boundary[n] = client
	}
	for _, n := range []string{
		"ss2022.(*SlidingWindowFilter).Add", "ss2022.(*SlidingWindowFilter).MustAdd", "ss2022.(*SlidingWindowFilter).IsOk", "ss2022.(*SlidingWindowFilter).Reset",
	} {
		c06Boundary[n] = swf
	}
	c06Boundary["httpproxy.(TLSProxyServer).HandleStream"] = "tlsConnState.PeerCertificates[0] under RequireAndVerifyClientCert: crypto/tls guarantees a verified peer certificate after the handshake"
	c06Boundary["socks5.(serverPendingConn).Proceed"] = "reply buffer handed over by serverHandleRequest, which panics by design below 3+MaxAddrLen bytes (see C06-R1 lifted precondition)"
	c06Boundary["socks5.(serverPendingConn).Abort"] = c06Boundary["socks5.(serverPendingConn).Proceed"]
}

// c06SelfTest runs the bounds prover over checker/testdata/boundscases, whose functions carry
// their expected verdict in their name: ok* must be proved completely with no precondition,
// bad* must keep at least one obligation that is not proved locally. It guards the prover's
// soundness traps (stale facts, loops, aliases, closures, callee side effects) on every run.
func c06SelfTest(r *Report) {
	const rule = "C06-R0"
	r.Rule(rule, "prover self-test: on the fixture package every ok* function is proved completely and every bad* function keeps an obligation that is not proved (a prover that 'proves' a bad* case is unsound and must not be believed)")
	saved := repoDir
	repoDir = verifDir + "/checker/testdata/boundscases"
	p, err := LoadE(loadSyntax, nil, nil, ".")
	repoDir = saved
	if err != nil {
		r.Fail(rule, "fixture:load", "checker/testdata/boundscases", "cannot load the fixture package: "+err.Error())
		return
	}
	eng := newBoundsEngine(p)
	var fcs []*FuncCtx
	for _, pkg := range p.Pkgs {
		p.AllFuncs(pkg, func(fc *FuncCtx) { fcs = append(fcs, allCtxs(p, fc)...) })
	}
	obs := eng.analyse(fcs)
	status := map[string]map[string]int{}
	for _, o := range obs {
		name := o.FC.Name
		if i := strings.Index(name, "$lit@"); i > 0 {
			name = name[:i]
		}
		if status[name] == nil {
			status[name] = map[string]int{}
		}
		status[name][o.Status]++
	}
	n := 0
	for _, fc := range fcs {
		if fc.Decl == nil {
			continue
		}
		short := fc.Decl.Name.Name
		st := status[fc.Name]
		switch {
		case strings.HasPrefix(short, "ok"):
			n++
			r.Check(st["proved"] > 0 && st["requires"] == 0 && st["unproved"] == 0, rule, "fixture:"+short, "checker/testdata/boundscases/cases.go", "proved completely", fmt.Sprintf("the prover cannot prove the safe fixture %s (%v): it lost precision it is expected to have", short, st))
		case strings.HasPrefix(short, "bad"):
			n++
			r.Check(st["requires"]+st["unproved"] > 0, rule, "fixture:"+short, "checker/testdata/boundscases/cases.go", "not proved, as it must be", fmt.Sprintf("the prover 'proves' the unsafe fixture %s (%v): it is unsound", short, st))
		}
	}
	r.Floor(rule, 30)
	_ = n
}

func runC06(p *Prog, r *Report) {
	r.Explanation = "Structural necessary conditions of 'no bytes from the network can crash the process', in two parts. (1) Every construct that panics by design is accounted for: each explicit panic in the module belongs to a known panicking API whose call sites are all discharged (predicate dominance for conn.Addr accessors, non-zero guards for port sets, linear preconditions proved at the callers, constant arguments, construction-time facts), and every single-value type assertion is a reviewed one. (2) A modular bounds prover covers every index, slice, slice-to-array conversion, make length, unsafe extent and length-demanding callee (encoding/binary, callees' own preconditions) in the wire-facing packages: for each operation the goal inequalities are refuted by Fourier–Motzkin from the conditions that dominate it, definitions of locals, type ranges, callee postconditions, inferred struct-field invariants and a small table of standard-library facts; what cannot be proved locally but speaks only about parameters becomes a precondition that is re-proved at every call site. Every function of those packages must be proved completely unless it is on the reviewed boundary list (by function, with the reason); boundary functions must still establish the preconditions of the proved functions they call."
	r.NotDecided = []string{"the remaining index/slice operations inside boundary functions (output side, stream buffer management, sliding window ring, DNS/probe clients) and in packages outside the wire-facing list (service relay loops, conn control messages)", "nil dereferences, map writes to nil maps, integer division by zero, allocation failure, stack exhaustion", "third-party code (dnsmessage, net/http, bart) and the standard library", "fatal data races (see the lockset rules of C03/C08/C12/C17)"}
	r.Assumptions = []string{"go/types, checker CFG", "standard-library facts listed in stdEnsures/stdRequires (io.ReadFull, Read, ReadMsgUDPAddrPort, copy, append, slices.Grow, encoding/binary, cipher.AEAD Open/Seal/Overhead with a 16-byte tag)", "interface contract of UnpackInPlace (0 <= packetStart, 0 <= packetLen, packetStart+packetLen <= len(b)) at the relay call sites in package service"}
	c06SelfTest(r)
	c06R1(p, r)
	// the reviewed site direct.(*DirectPacketServerPackUnpacker).PackInPlace:IPPort rests on a fact about
	// the configuration loader; that fact is decided here too (same analysis as C18-R4), so that a
	// change to the loader that lets a domain address reach IPPort() is a C06-R1 violation as well
	{
		sub := NewReport("C06", "quick")
		c18R4(p, sub)
		nGate := 0
		for _, o := range sub.Obs {
			if strings.Contains(o.Construct, "target-only-needs-ip-address") || strings.Contains(o.Construct, "enabled-transport-has-valid-address") || strings.Contains(o.Construct, "addresses-checked-before-use") {
				o.Rule = "C06-R1"
				o.Construct = "config-gate-of-reviewed-accessor:" + o.Construct
				r.Obs = append(r.Obs, o)
				nGate++
			}
		}
		if nGate < 4 {
			r.Fail("C06-R1", "direct.(*DirectPacketServerPackUnpacker).PackInPlace:IPPort:config-gate", "", "the configuration gate that keeps a domain address away from IPPort() in target-only mode was not found")
		}
	}
	c06R2(p, r)
	// R6: no send on a closed channel. The per-session send queues of the UDP relays are closed (when a session ends) while their sender,
	// the listener loop that enqueues datagrams from the network, keeps running. The lockset rule of C12-R1 (enqueue, close and table delete under the relay mutex,
	// close and delete in one critical section) is exactly what keeps "send on closed channel" — a
	// process-killing panic triggered by the next datagram of a client whose session just ended — out.
	{
		const r6 = "C06-R6"
		sub := NewReport("C06", "quick")
		c12R1(p, sub, discoverRelays(p))
		r.Rule(r6, "no network datagram is sent on a closed channel: "+sub.RuleDocs["C12-R1"])
		n6 := 0
		for _, o := range sub.Obs {
			if strings.Contains(o.Construct, "unregister-atomically") || strings.Contains(o.Construct, ":enqueue") || strings.Contains(o.Construct, "session-closure") {
				o.Rule = r6
				r.Obs = append(r.Obs, o)
				n6++
			}
		}
		r.Count("session_queue_obligations", n6)
		r.Floor(r6, 10)
	}
	c06R3(p, r)
	c06R4(p, r)
	c06R5(p, r)
}

// ---------------------------------------------------------------- R1 designed panics

type c06PanicSite struct {
	fn   string // enclosing function name (fc.Name)
	rule string
}

// c06PanicTable: every function that contains an explicit panic, and how it is discharged.
var c06PanicTable = map[string]string{
	"conn.(Addr).IP":                      "addr:IsIP",
	"conn.(Addr).IPPort":                  "addr:IsIP",
	"conn.(Addr).Domain":                  "addr:IsDomain",
	"conn.(Addr).Host":                    "addr:IsValid",
	"conn.(Addr).ResolveIP":               "addr:IsValid",
	"conn.(Addr).ResolveIPPort":           "addr:IsValid",
	"conn.MustAddrFromDomainPort":         "const-args",
	"portset.panicOnZeroPort":             "portset",
	"portset.(*PortSet).AddRange":         "portset",
	"bitset.(BitSet).checkIndex":          "bitset",
	"router.(*RouteConfig).Route":         "config-time",
	"router.(*Router).match":              "default-route",
	"service.(*ClientConfig).tcpNetwork":  "config-time",
	"service.(*ClientConfig).Initialize":  "config-time: C18-R4 walks Initialize with its helpers expanded for every value of the network option and admits no reachable panic, wherever the panic is written",
	"ss2022.intToUint16":                  "bounds-contract",
	"ss2022.(*ShadowStreamConn).read":     "bounds-requires",
	"socks5.AppendAddrFromConnAddr":       "domain-length",
	"socks5.LengthOfAddrFromConnAddr":     "domain-length",
	"socks5.clientNegotiateAuthMethod":    "bounds-requires",
	"socks5.clientDoUsernamePasswordAuth": "bounds-requires",
	"socks5.clientDoRequest":              "bounds-requires",
	"socks5.serverHandleMethodSelection":  "bounds-requires",
	"socks5.serverHandleUsernamePassword": "bounds-requires",
	"socks5.serverHandleRequest":          "bounds-requires",
}

// c06AddrReviewed: call sites of panicking conn.Addr accessors that are not guarded by a
// dominating predicate in the same function, keyed by "<enclosing function>:<accessor> on <role and type of the receiver expression>"
// (names of receivers, parameters, locals and fields do not enter the key), each with
// the reason the receiver is known to be of the required kind.
var c06AddrReviewed = map[string]string{
	"ss2022.(*UDPClient).NewSession:ResolveIPPort on recv.field:conn.Addr":                "server address of a configured client: service.(*ClientConfig).checkAddresses refuses a UDP-enabled client without a valid address (decided by the same analysis as C18-R4, run as part of this rule)",
	"direct.(*ShadowsocksNoneUDPClient).NewSession:ResolveIPPort on recv.field:conn.Addr": "server address of a configured client: validated by checkAddresses (decided as part of this rule, same analysis as C18-R4)",
	"direct.(*Socks5UDPClient).NewSession:ResolveIPPort on local:conn.Addr":               "address parsed from the SOCKS5 UDP ASSOCIATE reply on its success edge (socks5.ClientUDPAssociate returns a non-zero Addr or an error); the call itself sits in the shared newSession helper",
	"direct.(*Socks5AuthUDPClient).NewSession:ResolveIPPort on local:conn.Addr":           "same, through socks5.ClientUDPAssociateUsernamePassword",
	"direct.(*DirectPacketClientPacker).PackInPlace:Domain on param:conn.Addr":            "reached only on the !IsIP() edge (directly or in the cache helper) with a target address that came out of a server unpacker's successful parse (never the zero Addr)",
	"direct.(*DirectPacketClientPacker).PackInPlace:ResolveIP on param:conn.Addr":         "same as above: non-zero target address",
	"socks5.AppendAddrFromConnAddr:Domain on param:conn.Addr":                             "after the IsIP() early return; callers pass request/target addresses that were parsed successfully or configured (non-zero)",
	"socks5.WriteAddrFromConnAddr:Domain on param:conn.Addr":                              "after the IsIP() early return; non-zero target address",
	"socks5.LengthOfAddrFromConnAddr:Domain on param:conn.Addr":                           "after the IsIP() early return; non-zero target address",
	"router.(DestDomainCriterion).Meet:Domain on param.field:conn.Addr":                   "after the IsIP() early return; TargetAddr of a request is produced by a successful handshake/packet parse or a validated configuration value (never the zero Addr: socks5 parsers, hostHeaderToAddr and conn.ParseAddr return an error instead)",
	"router.(DestResolvedIPCriterion).Meet:Domain on param.field:conn.Addr":               "after the IsIP() branch returned; non-zero TargetAddr (see DestDomainCriterion)",
	"router.(DestDomainExpectedIPCriterion).Meet:Domain on param.field:conn.Addr":         "after the IsIP() early return; non-zero TargetAddr",
	"router.(DestResolvedGeoIPCountryCriterion).Meet:Domain on param.field:conn.Addr":     "after the IsIP() branch returned; non-zero TargetAddr",
	"netio.(*UDPClientSession).AppendPack:Domain on param:conn.Addr":                      "else branch of IsIP(); destination of a datagram accepted by a server unpacker (non-zero)",
	"netio.(*UDPClientSession).AppendPack:ResolveIP on param:conn.Addr":                   "same: non-zero destination address",
	"direct.(*DirectPacketServerPackUnpacker).PackInPlace:IPPort on recv.field:conn.Addr": "executed only in target-only mode, which service.(*ServerConfig).Initialize builds only with an IP tunnelRemoteAddress (decided by the same analysis as C18-R4, run as part of this rule; fixed by 2f1e5cc)",
}

// c06AddrReviewedCount: number of reviewed sites sharing one role key (default 1); a further
// unguarded call of the same shape in the same function is a new, unreviewed site.
var c06AddrReviewedCount = map[string]int{
	"direct.(*DirectPacketClientPacker).PackInPlace:Domain on param:conn.Addr": 2,
}

func c06R1(p *Prog, r *Report) {
	const rule = "C06-R1"
	r.Rule(rule, "every designed panic is accounted for: each explicit panic(...) in non-test module code sits in a function of the reviewed table of panicking APIs; every call of a panicking conn.Addr accessor is dominated by the true edge of the matching predicate on the same receiver, or is a reviewed site; PortSet.Contains/Add receive a port proved non-zero by a dominating test; every conn.Addr with the domain family is built past the 1..255 length test; panics guarded by a linear condition on parameters are preconditions proved at the callers by the bounds prover (C06-R2); Router.match's panic is unreachable because the route list always ends with the unconditional default route; every single-value type assertion is a reviewed one")
	// 1. enumerate explicit panics
	nPanic := 0
	byFn := map[string]int{}
	for _, pkg := range p.All {
		if pkg.Syntax == nil || strings.HasPrefix(relPkg(pkg.PkgPath), "cmd/") || strings.HasSuffix(pkg.PkgPath, "test") {
			continue
		}
		p.AllFuncs(pkg, func(fc *FuncCtx) {
			for _, ctx := range allCtxs(p, fc) {
				for _, cs := range ctx.AllCalls() {
					id, ok := ast.Unparen(cs.Call.Fun).(*ast.Ident)
					if !ok || id.Name != "panic" {
						continue
					}
					if _, isBuiltin := ctx.Info().Uses[id].(*types.Builtin); !isBuiltin {
						continue
					}
					nPanic++
					byFn[fc.Name]++
					kind, known := c06PanicTable[fc.Name]
					r.Check(known, rule, fc.Name+":panic:"+exprStr(cs.Call.Args[0]), cs.Pos(), "designed panic of a known panicking API ("+kind+")", "an explicit panic in a function that is not in the reviewed table of panicking APIs: nothing shows that input from the network cannot reach it")
				}
			}
		})
	}
	r.Count("explicit_panic_sites", nPanic)
	// 2. conn.Addr accessors
	nAcc, nLocal := 0, 0
	for _, pkg := range p.All {
		if pkg.Syntax == nil || strings.HasPrefix(relPkg(pkg.PkgPath), "cmd/") {
			continue
		}
		if relPkg(pkg.PkgPath) == "conn" {
			// the accessors themselves
		}
		reviewedSeen := map[string]int{}
		p.AllFuncs(pkg, func(fc *FuncCtx) {
			for _, ctx := range allCtxs(p, fc) {
				for _, cs := range ctx.AllCalls() {
					if cs.Fn == nil || namedTypeName(recvTypeOf(cs.Fn)) != "Addr" || namedTypePkg(recvTypeOf(cs.Fn)) != mp("conn") {
						continue
					}
					if _, need := addrAccessorNeeds[cs.Fn.Name()]; !need {
						continue
					}
					if relPkg(pkg.PkgPath) == "service" {
						continue // decided by C18-R4 with the same rule
					}
					nAcc++
					key := ctx.Name + ":" + cs.Fn.Name()
					if sel, isSel := ast.Unparen(cs.Call.Fun).(*ast.SelectorExpr); isSel {
						key += " on " + roleOf(ctx, sel.X)
					}
					if addrGuarded(ctx, cs.Call, cs.V) || c06DomainAfterNotIP(ctx, cs) || c06ValidByParse(ctx, cs) {
						nLocal++
						r.OK(rule, key, cs.Pos(), "dominated by the matching predicate")
						continue
					}
					// a site on a parameter of an unexported helper is decided where the helper is
					// called: guarded there, or reviewed under the caller's name, so that moving
					// the code between the helper and its caller changes nothing
					if sel, isSel := ast.Unparen(cs.Call.Fun).(*ast.SelectorExpr); isSel {
						if lifted := c06LiftToCallers(p, pkg, ctx, sel.X); len(lifted) > 0 {
							allOK := true
							why := ""
							for _, ls := range lifted {
								if addrGuardedExpr(ls.fc, ls.arg, cs.Fn.Name(), ls.v) {
									why += "guarded at the call in " + ls.fc.Name + "; "
									continue
								}
								lkey := ls.fc.Name + ":" + cs.Fn.Name() + " on " + roleOf(ls.fc, ls.arg)
								reason, ok := c06AddrReviewed[lkey]
								reviewedSeen[lkey]++
								if ok && reviewedSeen[lkey] > max(1, c06AddrReviewedCount[lkey]) {
									ok = false
								}
								if !ok {
									allOK = false
									why = "the helper's call in " + ls.fc.Name + " (" + lkey + ") is neither guarded nor reviewed"
									break
								}
								why += "reviewed (" + lkey + "): " + reason + "; "
							}
							r.Check(allOK, rule, key, cs.Pos(), why, exprStr(cs.Call)+" can panic: "+why)
							continue
						}
					}
					reason, ok := c06AddrReviewed[key]
					reviewedSeen[key]++
					if ok && reviewedSeen[key] > max(1, c06AddrReviewedCount[key]) {
						ok = false // one reviewed site per key: a second unguarded call of the same shape is a new site
					}
					r.Check(ok, rule, key, cs.Pos(), "reviewed: "+reason, exprStr(cs.Call)+" can panic: no dominating "+strings.Join(addrAccessorNeeds[cs.Fn.Name()], "/")+"() test on this receiver in "+ctx.Name+", and the site is not a reviewed one — a zero or wrong-kind address computed from a request crashes the process")
				}
			}
		})
	}
	r.Count("addr_accessor_calls", nAcc)
	r.Count("addr_accessor_calls_locally_guarded", nLocal)
	c06ParserContract(p, r, rule)
	// 3. port sets: Contains / Add with a non-zero port
	nPS := 0
	for _, pkg := range p.All {
		if pkg.Syntax == nil || relPkg(pkg.PkgPath) == "portset" {
			continue
		}
		p.AllFuncs(pkg, func(fc *FuncCtx) {
			for _, cs := range fc.AllCalls() {
				if cs.Fn == nil || namedTypeName(recvTypeOf(cs.Fn)) != "PortSet" || namedTypePkg(recvTypeOf(cs.Fn)) != mp("portset") {
					continue
				}
				switch cs.Fn.Name() {
				case "Contains", "Add":
				default:
					continue
				}
				nPS++
				arg := cs.Call.Args[0]
				ok := false
				info := fc.Info()
				for _, cv := range fc.G.V {
					x, y, op, okc := condParts(cv)
					if !okc || y == nil || (op != token.NEQ && op != token.EQL && op != token.GTR) {
						continue
					}
					if k, isC := constInt(info, y); !isC || k != 0 {
						continue
					}
					if !samePathOrObj(fc, x, arg) && exprStr(x) != exprStr(arg) {
						continue
					}
					lab := LTrue
					if op == token.EQL {
						lab = LFalse
					}
					for _, e := range cv.Succs {
						if e.Label == lab && fc.G.EdgeDominates([]Edge{e}, cs.V) {
							ok = true
						}
					}
				}
				if !ok {
					ok = shortCircuitNonZero(fc.G.V[cs.V].Node, cs.Call, arg)
				}
				r.Check(ok, rule, fc.Name+":"+exprStr(cs.Call), cs.Pos(), "port tested non-zero on every path to the call", "PortSet."+cs.Fn.Name()+" panics on port 0 and the argument is not tested against 0 on this path: a request or datagram naming port 0 crashes the process")
			}
		})
	}
	r.Count("portset_calls", nPS)
	// 4. domain-family Addr literals past the length test
	cp := p.Pkg("conn")
	nLit := 0
	p.AllFuncs(cp, func(fc *FuncCtx) {
		info := fc.Info()
		for _, v := range fc.G.V {
			if v.Node == nil {
				continue
			}
			inspectNoLit(v.Node, func(n ast.Node) bool {
				cl, ok := n.(*ast.CompositeLit)
				if !ok || namedTypeName(info.TypeOf(cl)) != "Addr" {
					return true
				}
				isDomain := false
				for _, el := range cl.Elts {
					if kv, ok := el.(*ast.KeyValueExpr); ok && exprStr(kv.Key) == "af" && exprStr(kv.Value) == "addressFamilyDomain" {
						isDomain = true
					}
				}
				if !isDomain {
					return true
				}
				nLit++
				ok = false
				for _, cv := range fc.G.V {
					x, y, op, okc := condParts(cv)
					if !okc || y == nil || op != token.GTR {
						continue
					}
					if k, isC := constInt(info, y); !isC || k != 255 || !strings.HasPrefix(exprStr(x), "len(") {
						continue
					}
					for _, e := range cv.Succs {
						if e.Label == LFalse && fc.G.EdgeDominates([]Edge{e}, v.ID) && strings.Contains(fullStr(cl), strings.TrimSuffix(strings.TrimPrefix(exprStr(x), "len("), ")")) {
							ok = true
						}
					}
				}
				r.Check(ok, rule, fc.Name+":domain-addr-literal", p.posStr(cl.Pos()), "built only past len(domain) <= 255", "a domain-family conn.Addr is built without the 255-byte length test: socks5.AppendAddrFromConnAddr / LengthOfAddrFromConnAddr panic on it when the address is forwarded")
				return true
			})
		}
	})
	r.Check(nLit >= 1, rule, "conn:domain-addr-literals-found", "conn/addr.go", fmt.Sprintf("%d", nLit), "no domain-family Addr literal found")
	// 5. default route
	rt := p.Func("router", "Config", "Router")
	// (the same facts C09-R5 decides: a slice one longer than the configured routes, whose last
	// slot holds a route that never receives a criterion)
	okMakeR, _, okLast, noCrit := routeSliceFacts(p)
	okDef := okMakeR && okLast
	rm := p.Func("router", "Route", "Match")
	// Match returns true when there are no criteria: the loop over criteria falls through to `return true, nil`
	matchTrue := false
	for _, ret := range rm.Returns() {
		rs := rm.G.V[ret].Node.(*ast.ReturnStmt)
		if len(rs.Results) == 2 && exprStr(rs.Results[0]) == "true" {
			// reachable from entry without entering the loop body
			matchTrue = true
		}
	}
	r.Check(okDef && noCrit && matchTrue, rule, "router.(*Router).match:default-route-always-matches", p.posStr(rt.Body.Pos()), "routes always end with the criterion-free default route", "the route list does not provably end with a route that matches everything: Router.match panics for a request no route matches")
	// 6. const args of MustAddrFromDomainPort
	nMust := 0
	for _, pkg := range p.All {
		if pkg.Syntax == nil {
			continue
		}
		p.AllFuncs(pkg, func(fc *FuncCtx) {
			for _, ctx := range allCtxs(p, fc) {
				for _, cs := range ctx.AllCalls() {
					if cs.Fn != nil && cs.Fn.Name() == "MustAddrFromDomainPort" {
						nMust++
						_, isC := constOf(ctx.Info(), cs.Call.Args[0])
						r.Check(isC, rule, ctx.Name+":"+exprStr(cs.Call), cs.Pos(), "constant domain", "MustAddrFromDomainPort is called with a non-constant domain: it panics on an over-long or empty name")
					}
				}
			}
		})
	}
	// package-level initialisers
	for _, pkg := range p.All {
		for _, f := range pkg.Syntax {
			for _, d := range f.Decls {
				gd, ok := d.(*ast.GenDecl)
				if !ok {
					continue
				}
				ast.Inspect(gd, func(n ast.Node) bool {
					if c, ok := n.(*ast.CallExpr); ok && strings.HasSuffix(exprStr(c.Fun), "MustAddrFromDomainPort") && len(c.Args) == 2 {
						nMust++
						_, isC := constOf(pkg.TypesInfo, c.Args[0])
						r.Check(isC, rule, relPkg(pkg.PkgPath)+":init:"+exprStr(c), p.posStr(c.Pos()), "constant domain", "MustAddrFromDomainPort is called with a non-constant domain at package initialisation")
					}
					return true
				})
			}
		}
	}
	// 7. bitset: reviewed call sites
	bitsetReviewed := map[string]string{
		"router.(*RouteConfig).Route:Set on local:bitset.BitSet index local:int":                               "index comes from serverIndexByName, whose values are positions in the server list; the set was created with capacity len(serverIndexByName)",
		"router.(SourceServerCriterion).Meet:IsSet on recv:router.SourceServerCriterion index param.field:int": "ServerIndex is the position of the serving server in the same list the set's capacity was taken from (service.Config.Manager passes i to Initialize)",
	}
	for _, pkg := range p.All {
		if pkg.Syntax == nil || relPkg(pkg.PkgPath) == "bitset" {
			continue
		}
		p.AllFuncs(pkg, func(fc *FuncCtx) {
			for _, cs := range fc.AllCalls() {
				if cs.Fn == nil || namedTypeName(recvTypeOf(cs.Fn)) != "BitSet" || namedTypePkg(recvTypeOf(cs.Fn)) != mp("bitset") {
					continue
				}
				switch cs.Fn.Name() {
				case "IsSet", "Set", "Unset", "Flip":
					// keyed by the roles and types of the set and of the index (conversions
					// stripped), not by what the variables are called
					strip := func(e ast.Expr) ast.Expr {
						for {
							inner, isConv := isConversionExpr(fc.Info(), ast.Unparen(e))
							if !isConv {
								return ast.Unparen(e)
							}
							e = inner
						}
					}
					key := fc.Name + ":" + exprStr(cs.Call)
					if sel, isSel := ast.Unparen(cs.Call.Fun).(*ast.SelectorExpr); isSel && len(cs.Call.Args) == 1 {
						key = fc.Name + ":" + cs.Fn.Name() + " on " + roleOf(fc, strip(sel.X)) + " index " + roleOf(fc, strip(cs.Call.Args[0]))
					}
					reason, ok := bitsetReviewed[key]
					r.Check(ok, rule, key, cs.Pos(), "reviewed: "+reason, "BitSet."+cs.Fn.Name()+" panics on an index >= capacity and this call site is not a reviewed one")
				}
			}
		})
	}
	// 8. single-value type assertions
	// keyed by "<enclosing function>:<role of the operand>.(<asserted type>)"; the operand is
	// followed through single-definition locals to the call that produced it, so the key names
	// the producing API rather than a variable.
	assertReviewed := map[string]string{
		"service.(*TCPRelay).handleConn:call (*net.conn).RemoteAddr.(*net.TCPAddr)":                  "RemoteAddr of a *net.TCPConn is always a *net.TCPAddr",
	}
	nTA := 0
	for _, pkg := range p.All {
		if pkg.Syntax == nil || strings.HasPrefix(relPkg(pkg.PkgPath), "cmd/") || strings.HasSuffix(pkg.PkgPath, "test") {
			continue
		}
		p.AllFuncs(pkg, func(fc *FuncCtx) {
			for _, ctx := range allCtxs(p, fc) {
				info := ctx.Info()
				for _, v := range ctx.G.V {
					if v.Node == nil {
						continue
					}
					// comma-ok forms: the assertion is the sole RHS of a 2-value assignment / spec
					commaOK := map[*ast.TypeAssertExpr]bool{}
					switch n := v.Node.(type) {
					case *ast.AssignStmt:
						if len(n.Lhs) == 2 && len(n.Rhs) == 1 {
							if ta, ok := ast.Unparen(n.Rhs[0]).(*ast.TypeAssertExpr); ok {
								commaOK[ta] = true
							}
						}
					case *ast.ValueSpec:
						if len(n.Names) == 2 && len(n.Values) == 1 {
							if ta, ok := ast.Unparen(n.Values[0]).(*ast.TypeAssertExpr); ok {
								commaOK[ta] = true
							}
						}
					}
					inspectNoLit(v.Node, func(x ast.Node) bool {
						ta, ok := x.(*ast.TypeAssertExpr)
						if !ok || ta.Type == nil || commaOK[ta] {
							return true
						}
						_ = info
						nTA++
						asserted := types.TypeString(info.TypeOf(ta.Type), func(p *types.Package) string { return p.Name() })
						key := ctx.Name + ":" + roleOf(ctx, ctx.producer(ta.X)) + ".(" + asserted + ")"
						if call, isCall := ast.Unparen(ctx.producer(ta.X)).(*ast.CallExpr); isCall {
							if sel, isSel := ast.Unparen(call.Fun).(*ast.SelectorExpr); isSel && (sel.Sel.Name == "RemoteAddr" || sel.Sel.Name == "LocalAddr") {
								if rt := info.TypeOf(sel.X); rt != nil {
									rs := types.TypeString(rt, nil)
									if (rs == "*net.TCPConn" && asserted == "*net.TCPAddr") || (rs == "*net.UDPConn" && asserted == "*net.UDPAddr") {
										r.OK(rule, key, p.posStr(ta.Pos()), "library fact: "+sel.Sel.Name+" of a "+rs+" is a "+asserted)
										return true
									}
								}
							}
						}
						if why, okp := c06TypedPool(p, ctx, ta); okp {
							r.OK(rule, key, p.posStr(ta.Pos()), why)
							return true
						}
						// library facts of the socket constructors, whichever function of package
						// conn holds the call: the function is one of the package's UDP (TCP) entry
						// points or their helpers (its name says so), which hand on their caller's
						// udp* (tcp*) network name
						if relPkg(pkg.PkgPath) == "conn" {
							prodKey := roleOf(ctx, ctx.producer(ta.X)) + ".(" + asserted + ")"
							if fact, isFact := c06SocketFacts[prodKey]; isFact && strings.Contains(strings.ToLower(baseFuncName(ctx)), fact.token) {
								r.OK(rule, key, p.posStr(ta.Pos()), "library fact: "+fact.why)
								return true
							}
						}
						// the receiver's type is a wrapper that is only built when the wrapped value
						// passed the same assertion with comma-ok: decided, not reviewed
						if why, okw := c06WrapperBuiltOnlyWhen(p, pkg, ctx, ta); okw {
							r.OK(rule, key, p.posStr(ta.Pos()), why)
							return true
						}
						reason, okr := assertReviewed[key]
						r.Check(okr, rule, key, p.posStr(ta.Pos()), "reviewed: "+reason, "a single-value type assertion panics when the dynamic type differs, and this one is not a reviewed site")
						return true
					})
				}
			}
		})
	}
	r.Count("single_value_type_assertions", nTA)
	r.Floor(rule, 60)
}

// shortCircuitNonZero: inside node, call is evaluated only as (part of) the right operand of an
// && whose left operand contains `arg != 0` (or `arg > 0`).
func shortCircuitNonZero(node ast.Node, call *ast.CallExpr, arg ast.Expr) bool {
	if node == nil {
		return false
	}
	found := false
	ast.Inspect(node, func(n ast.Node) bool {
		be, ok := n.(*ast.BinaryExpr)
		if !ok || be.Op != token.LAND {
			return true
		}
		inY := false
		ast.Inspect(be.Y, func(m ast.Node) bool {
			if m == call {
				inY = true
			}
			return true
		})
		if !inY {
			return true
		}
		ast.Inspect(be.X, func(m ast.Node) bool {
			if c, ok := m.(*ast.BinaryExpr); ok && (c.Op == token.NEQ || c.Op == token.GTR) && exprStr(c.X) == exprStr(arg) && exprStr(c.Y) == "0" {
				found = true
			}
			return true
		})
		return true
	})
	return found
}

// c06DomainAfterNotIP: Domain() on the false edge of IsIP() of the same receiver when that
// receiver was also tested with IsValid()/IsDomain() or comes from a successful parser call in
// this function.
func c06DomainAfterNotIP(fc *FuncCtx, cs CallSite) bool {
	if cs.Fn.Name() != "Domain" {
		return false
	}
	info := fc.Info()
	sel := ast.Unparen(cs.Call.Fun).(*ast.SelectorExpr)
	key := pathKey(info, sel.X)
	if key == "" {
		return false
	}
	notIP := false
	for _, cv := range fc.G.V {
		if cv.Kind != VCond {
			continue
		}
		c, ok := ast.Unparen(cv.Node.(ast.Expr)).(*ast.CallExpr)
		if !ok {
			continue
		}
		s, ok := ast.Unparen(c.Fun).(*ast.SelectorExpr)
		if !ok || s.Sel.Name != "IsIP" || pathKey(info, s.X) != key {
			continue
		}
		for _, e := range cv.Succs {
			if e.Label == LFalse && fc.G.EdgeDominates([]Edge{e}, cs.V) {
				notIP = true
			}
		}
	}
	if !notIP {
		return false
	}
	// the receiver is the result of a parser call whose success edge dominates the use
	root, _, _ := pathOf(info, sel.X)
	if root == nil {
		return false
	}
	for _, c2 := range fc.AllCalls() {
		if c2.Fn == nil {
			continue
		}
		for i := 0; i < 3; i++ {
			if c2.ResultVar(i) == root && c2.SuccessGuards(cs.V) {
				switch c2.Fn.Name() {
				case "ConnAddrFromSlice", "ConnAddrFromReader", "ParseAddr", "AddrFromHostPort", "AddrFromDomainPort", "hostHeaderToAddr":
					return true
				}
			}
		}
	}
	return false
}

// ---------------------------------------------------------------- R2 bounds

func c06R2(p *Prog, r *Report) {
	const rule = "C06-R2"
	r.Rule(rule, "wire-facing bounds: in packages socks5, ss2022, direct, httpproxy, ssnone, dns and probe every index, slice, slice-to-array conversion, make length, unsafe.String/Slice extent, length-demanding standard call (encoding/binary) and callee precondition of every function that is not on the reviewed boundary list is proved in range on every path (Fourier–Motzkin refutation over dominating conditions, local definitions, type ranges, callee postconditions, inferred field invariants); obligations that speak only about parameters become preconditions and are re-proved at each call site; implementations of UnpackInPlace are proved under the interface contract alone; boundary functions must establish the preconditions of the proved functions they call; the only preconditions left at exported entry points are the documented ones")
	eng := newBoundsEngine(p)
	eng.contract = c06Contract
	var fcs []*FuncCtx
	for _, rel := range c06BoundsPkgs {
		pkg := p.Pkg(rel)
		if pkg == nil {
			fatalf("package %s not loaded", rel)
		}
		p.AllFuncs(pkg, func(fc *FuncCtx) {
			fcs = append(fcs, allCtxs(p, fc)...)
		})
	}
	obs := eng.analyse(fcs)
	// a helper extracted from boundary functions is part of them: an unexported function all of
	// whose callers (in the analysed packages) are on the boundary list inherits their status
	callers := map[string]map[string]bool{}
	unexported := map[string]bool{}
	for _, fc := range fcs {
		if fc.Obj != nil && !fc.Obj.Exported() {
			unexported[fc.Name] = true
		}
		top := fc
		for top.Parent != nil {
			top = top.Parent
		}
		for _, cs := range fc.AllCalls() {
			if cs.Fn == nil {
				continue
			}
			if callee := p.CtxOfObj(cs.Fn); callee != nil {
				if callers[callee.Name] == nil {
					callers[callee.Name] = map[string]bool{}
				}
				callers[callee.Name][top.Name] = true
			}
		}
	}
	needsHelp := map[string]bool{} // functions with an obligation that is neither proved nor a precondition
	for _, o := range obs {
		if o.Status == "unproved" {
			needsHelp[o.FC.Name] = true
			if i := strings.Index(o.FC.Name, "$lit@"); i > 0 {
				needsHelp[o.FC.Name[:i]] = true
			}
		}
	}
	inherited := map[string]string{}
	for changed := true; changed; {
		changed = false
		for name := range unexported {
			if _, isB := c06BoundaryReason(name); isB || inherited[name] != "" || len(callers[name]) == 0 || !needsHelp[name] || c06GuardedReaders[name] || c06ProvedHelpers[name] {
				continue
			}
			all := true
			from := ""
			for c := range callers[name] {
				if _, isB := c06BoundaryReason(c); !isB && inherited[c] == "" {
					all = false
				} else if from == "" || c < from {
					from = c
				}
			}
			if all {
				inherited[name] = from
				changed = true

			}
		}
	}
	for name, from := range inherited {
		reason, _ := c06BoundaryReason(from)
		if reason == "" {
			reason = "helper of a boundary function"
		}
		c06Boundary[name] = "helper called only from boundary functions (e.g. " + from + "): " + reason
	}
	defer func() {
		for name := range inherited {
			delete(c06Boundary, name)
		}
	}()
	cnt := map[string]int{}
	inScopeFns := map[string]bool{}
	boundaryFns := map[string]bool{}
	keyCount := map[string]int{}
	for _, o := range obs {
		_, isB := c06BoundaryReason(o.FC.Name)
		if isB {
			boundaryFns[o.FC.Name] = true
		} else {
			inScopeFns[o.FC.Name] = true
		}
		key := o.Construct
		keyCount[key]++
		if keyCount[key] > 1 {
			key = fmt.Sprintf("%s#%d", key, keyCount[key])
		}
		if isB {
			// only calls into fully proved functions count
			if !strings.HasPrefix(o.Kind, "callee-needs[") && !strings.HasPrefix(o.Kind, "callee-contract[") {
				cnt["boundary-not-decided"]++
				continue
			}
			callee := c06CalleeOf(o)
			if callee != "" {
				if _, calleeB := c06BoundaryReason(callee); calleeB || c06OutputSide(callee) {
					cnt["boundary-not-decided"]++
					continue
				}
			}
			if callee == "" && strings.Contains(o.Expr, ".PackInPlace(") {
				cnt["boundary-not-decided"]++
				continue
			}
			// only the readers with a documented precondition are tracked across the boundary; a
			// helper newly extracted from a boundary function is part of that function
			if !c06GuardedReaders[callee] {
				cnt["boundary-not-decided"]++
				continue
			}
			if reason, ok := c06BoundaryCallReviewed[o.FC.Name+" -> "+callee]; ok && o.Status != "proved" {
				cnt["boundary-call-reviewed"]++
				r.OK(rule, key, p.posStr(o.Pos), "reviewed: "+reason)
				continue
			}
			cnt["boundary-call-"+o.Status]++
			r.Check(o.Status == "proved", rule, key, p.posStr(o.Pos), "precondition of the proved callee established", "the boundary function "+o.FC.Name+" calls a fully proved function without establishing its precondition ("+o.Kind+"): "+o.Detail)
			continue
		}
		cnt[o.Status]++
		switch o.Status {
		case "proved":
			r.OK(rule, key, p.posStr(o.Pos), "in range on every path")
		case "requires":
			r.OK(rule, key, p.posStr(o.Pos), "precondition on the caller: "+o.Detail)
		default:
			r.Fail(rule, key, p.posStr(o.Pos), c06Explain(o))
		}
	}
	for k, v := range cnt {
		r.Count("bounds_"+k, v)
	}
	r.Count("bounds_functions_fully_proved", len(inScopeFns))
	r.Count("bounds_functions_on_boundary_list", len(boundaryFns))
	// every boundary entry must still exist (no stale reasons) — informational only
	// preconditions left at entry points
	documented := map[string][]string{
		"ss2022.ValidateUnixEpochTimestamp":       {"len(P0) - 8"},
		"ss2022.ParseTCPRequestFixedLengthHeader": {"len(P0) - 1", "len(P0) - 9", "len(P0) - 11"},
		"ss2022.ParseTCPResponseHeader":           {"len(P0) - 1", "cap(P0) - 9", "cap(P0) - len(P2) - 9", "len(P0) - len(P2) - 11", "len(P0) - len(P2) - 9"},
		"ss2022.ParseSessionIDAndPacketID":        {"len(P0) - 8", "len(P0) - 16"},
		"socks5.ValidatePacketHeader":             {"len(P0) - 3"},
	}
	var names []string
	for _, fc := range fcs {
		if fc.Obj == nil {
			continue
		}
		if _, isB := c06BoundaryReason(fc.Name); isB {
			continue
		}
		s := eng.sum[fc.Obj]
		if s == nil || len(s.requires) == 0 {
			continue
		}
		names = append(names, fc.Name)
		if c06Contract(fc) != nil {
			// every requirement beyond the declared contract is a violation
			for _, rq := range s.requires {
				r.Fail(rule, fc.Name+":exceeds-contract:"+rq.lf.String(), p.posStr(fc.Body.Pos()), "the implementation needs "+rq.lf.String()+" >= 0, which the interface contract does not give it (from "+rq.origin+")")
			}
			continue
		}
		if !fc.Obj.Exported() && !c06IsMethodOfExported(fc) {
			continue // all callers are in the package and were checked
		}
		allowed := map[string]bool{}
		for _, a := range documented[fc.Name] {
			allowed[a] = true
		}
		for _, rq := range s.requires {
			if strings.HasPrefix(rq.origin, fc.Name+":panic-unreachable") {
				continue // designed panic with a documented precondition
			}
			r.Check(allowed[rq.lf.String()] || c06IsWriter(fc.Name), rule, fc.Name+":entry-precondition:"+rq.lf.String(), p.posStr(fc.Body.Pos()), "documented precondition", "the exported function "+fc.Name+" now needs "+rq.lf.String()+" >= 0 from its callers, which is not one of its documented preconditions (from "+rq.origin+"): a length check was weakened or removed")
		}
	}
	sort.Strings(names)
	r.Count("bounds_functions_with_preconditions", len(names))
	r.Floor(rule, 350)
}

// c06OutputSide: encoders and reply writers: they are proved internally and their preconditions
// ("the caller provides enough room") are output-side sizes, decided by C05.
func c06OutputSide(name string) bool {
	if c06IsWriter(name) {
		return true
	}
	for _, pre := range []string{"socks5.LengthOf", "ss2022.intToUint16", "socks5.replyWithStatus", "ss2022.AppendTCPResponseHeader"} {
		if strings.HasPrefix(name, pre) {
			return true
		}
	}
	return strings.HasSuffix(name, ".PackInPlace")
}

// c06IsWriter: exported encoders whose documented contract is "the caller provides enough room".
func c06IsWriter(name string) bool {
	for _, pre := range []string{"socks5.WriteAddrFrom", "socks5.WritePacketHeader", "ss2022.Put", "ss2022.AppendTCPResponseHeader", "socks5.AppendAddrFrom"} {
		if strings.HasPrefix(name, pre) {
			return true
		}
	}
	return false
}

func c06IsMethodOfExported(fc *FuncCtx) bool {
	return fc.Obj != nil && fc.Obj.Exported()
}

func c06CalleeOf(o *boundsOb) string {
	// the callee's name is not kept in the obligation; derive it from the call expression
	b := o.FC
	var name string
	for _, cs := range b.AllCalls() {
		if exprStr(cs.Call) == o.Expr && cs.Fn != nil {
			if ctx := b.Prog.CtxOfObj(cs.Fn); ctx != nil {
				name = ctx.Name
			}
		}
	}
	return name
}

func c06Explain(o *boundsOb) string {
	what := map[string]string{
		"index-hi":          "index may be >= len",
		"index-lo":          "index may be negative",
		"slice-hi":          "slice bound may exceed the capacity/length",
		"slice-lo":          "slice start may be negative",
		"slice-order":       "slice start may exceed its end",
		"slice-max":         "slice max may exceed the capacity",
		"to-array":          "slice may be shorter than the array it is converted to",
		"make-len":          "make length may be negative",
		"unsafe-extent":     "unsafe extent may exceed the backing slice",
		"callee-needs":      "argument may be shorter than the callee reads/writes",
		"panic-unreachable": "a designed panic is reachable",
	}
	k := o.Kind
	if i := strings.Index(k, "["); i > 0 {
		k = k[:i]
	}
	w := what[k]
	if w == "" {
		w = "callee precondition not established"
	}
	return fmt.Sprintf("%s in %s: %s — %s; bytes from the peer that make the inequality false crash the goroutine (no recover) and with it the process", w, o.FC.Name, o.Expr, o.Detail)
}

// ---------------------------------------------------------------- R3, R4

func c06R3(p *Prog, r *Report) {
	const rule = "C06-R3"
	r.Rule(rule, "every AEAD of the module is AES-GCM with the standard 16-byte tag and 12-byte nonce and every block cipher is AES (the prover's Open/Seal/Overhead and Block.Encrypt/Decrypt facts depend on it): the only calls that produce a crypto/cipher.AEAD are cipher.NewGCM and the only ones that produce a cipher.Block are aes.NewCipher")
	n := 0
	for _, pkg := range p.All {
		if pkg.Syntax == nil {
			continue
		}
		p.AllFuncs(pkg, func(fc *FuncCtx) {
			for _, ctx := range allCtxs(p, fc) {
				for _, cs := range ctx.AllCalls() {
					if cs.Fn == nil || cs.Fn.Pkg() == nil || !strings.HasPrefix(cs.Fn.Pkg().Path(), "crypto/") && !strings.HasPrefix(cs.Fn.Pkg().Path(), "golang.org/x/crypto") {
						continue
					}
					sig := cs.Fn.Type().(*types.Signature)
					isAEAD, isBlock := false, false
					for i := 0; i < sig.Results().Len(); i++ {
						switch namedTypeName(sig.Results().At(i).Type()) {
						case "AEAD":
							isAEAD = true
						case "Block":
							isBlock = true
						}
					}
					if isBlock {
						n++
						r.Check(cs.Fn.Pkg().Path() == "crypto/aes" && cs.Fn.Name() == "NewCipher", rule, ctx.Name+":"+exprStr(cs.Call.Fun), cs.Pos(), "aes.NewCipher", "a block cipher other than AES is constructed: the 16-byte block size assumed for Encrypt/Decrypt no longer holds")
					}
					if !isAEAD {
						continue
					}
					n++
					r.Check(cs.Fn.Pkg().Path() == "crypto/cipher" && cs.Fn.Name() == "NewGCM", rule, ctx.Name+":"+exprStr(cs.Call.Fun), cs.Pos(), "cipher.NewGCM", "an AEAD other than standard AES-GCM is constructed: the 16-byte tag assumed by the length reasoning no longer holds")
				}
			}
		})
	}
	r.Floor(rule, 1)
	_ = n
}

func c06R4(p *Prog, r *Report) {
	const rule = "C06-R4"
	r.Rule(rule, "nothing swallows the evidence: no function of the wire-facing packages recovers from a panic (a recover would turn an out-of-range access into silent state corruption rather than an error), so the absence of panics shown by R1/R2 is the property itself")
	n := 0
	for _, rel := range append(append([]string{}, c06BoundsPkgs...), "service", "router", "conn", "netio") {
		pkg := p.Pkg(rel)
		if pkg == nil {
			continue
		}
		p.AllFuncs(pkg, func(fc *FuncCtx) {
			for _, ctx := range allCtxs(p, fc) {
				for _, cs := range ctx.AllCalls() {
					if id, ok := ast.Unparen(cs.Call.Fun).(*ast.Ident); ok && id.Name == "recover" {
						if _, isB := ctx.Info().Uses[id].(*types.Builtin); isB {
							n++
							r.Fail(rule, ctx.Name+":recover", cs.Pos(), "a recover() in the data path hides crashes instead of preventing them")
						}
					}
				}
			}
		})
	}
	r.OK(rule, "wire-facing:no-recover", "module", fmt.Sprintf("%d recover sites", n))
}

// c06TypedPool proves `<pool>.Get().(T)` safe: <pool> is a sync.Pool field (or variable); every
// value stored into it anywhere in the module is a composite literal whose New function returns,
// on every return, a value of static type T; and every Put on that field passes an argument of
// static type T. A pool that is never assigned (New == nil) is refused: Get would return nil.
func c06TypedPool(p *Prog, fc *FuncCtx, ta *ast.TypeAssertExpr) (string, bool) {
	info := fc.Info()
	call, ok := ast.Unparen(fc.producer(ta.X)).(*ast.CallExpr)
	if !ok {
		return "", false
	}
	fn := Callee(info, call)
	if fn == nil || fn.FullName() != "(*sync.Pool).Get" {
		return "", false
	}
	sel := ast.Unparen(call.Fun).(*ast.SelectorExpr)
	pool := fieldOrVar(info, sel.X)
	if pool == nil {
		return "", false
	}
	want := info.TypeOf(ta.Type)
	nNew, nPut := 0, 0
	good := true
	// checkNew: e is a function literal every return of which yields the asserted type
	checkNew := func(pi *types.Info, e ast.Expr) {
		lit, isLit := ast.Unparen(e).(*ast.FuncLit)
		if !isLit {
			good = false
			return
		}
		nRet := 0
		inspectNoLit(lit.Body, func(n ast.Node) bool {
			if rs, isRet := n.(*ast.ReturnStmt); isRet {
				nRet++
				if len(rs.Results) != 1 || !types.Identical(pi.TypeOf(rs.Results[0]), want) {
					good = false
				}
			}
			return true
		})
		if nRet == 0 {
			good = false
		}
		nNew++
	}
	checkLit := func(pi *types.Info, e ast.Expr) {
		cl, isCL := ast.Unparen(e).(*ast.CompositeLit)
		if !isCL {
			good = false
			return
		}
		found := false
		for _, el := range cl.Elts {
			kv, isKV := el.(*ast.KeyValueExpr)
			if !isKV {
				good = false
				continue
			}
			if k, isID := kv.Key.(*ast.Ident); !isID || k.Name != "New" {
				continue
			}
			found = true
			checkNew(pi, kv.Value)
			nNew-- // counted once per initialisation below
		}
		if !found {
			good = false
		}
		nNew++
	}
	for _, pkg := range p.All {
		if pkg.Syntax == nil || pkg.Types != pool.Pkg() {
			continue
		}
		pi := pkg.TypesInfo
		for _, f := range pkg.Syntax {
			ast.Inspect(f, func(n ast.Node) bool {
				switch x := n.(type) {
				case *ast.KeyValueExpr:
					if k, isID := x.Key.(*ast.Ident); isID && pi.Uses[k] == pool {
						checkLit(pi, x.Value)
					}
				case *ast.AssignStmt:
					for i, l := range x.Lhs {
						if fieldOrVar(pi, l) == pool {
							if len(x.Rhs) == len(x.Lhs) {
								checkLit(pi, x.Rhs[i])
							} else {
								good = false
							}
						}
						// pool.New = func() any { … }
						if sel, isSel := ast.Unparen(l).(*ast.SelectorExpr); isSel && sel.Sel.Name == "New" && fieldOrVar(pi, sel.X) == pool && len(x.Rhs) == len(x.Lhs) {
							checkNew(pi, x.Rhs[i])
						}
					}
				case *ast.ValueSpec:
					for i, id := range x.Names {
						if pi.Defs[id] == pool && i < len(x.Values) {
							checkLit(pi, x.Values[i])
						}
					}
				case *ast.UnaryExpr:
					if x.Op == token.AND && fieldOrVar(pi, x.X) == pool {
						good = false // address escapes: other code may Put anything
					}
				case *ast.CallExpr:
					if s2, isSel := ast.Unparen(x.Fun).(*ast.SelectorExpr); isSel && fieldOrVar(pi, s2.X) == pool {
						if f2 := Callee(pi, x); f2 != nil && f2.FullName() == "(*sync.Pool).Put" {
							nPut++
							if len(x.Args) != 1 || !types.Identical(pi.TypeOf(x.Args[0]), want) {
								good = false
							}
						}
					}
				}
				return true
			})
		}
	}
	if !good || nNew == 0 {
		return "", false
	}
	return fmt.Sprintf("typed pool: all %d initialisations of the pool have a New that returns %s on every return, and all %d Put calls pass that type", nNew, want, nPut), true
}

// fieldOrVar returns the variable or struct field an expression denotes (x, s.f, (*p).f).
func fieldOrVar(info *types.Info, e ast.Expr) types.Object {
	switch x := ast.Unparen(e).(type) {
	case *ast.Ident:
		return objOf(info, x)
	case *ast.SelectorExpr:
		if sel, ok := info.Selections[x]; ok && sel.Kind() == types.FieldVal {
			return sel.Obj()
		}
		return info.Uses[x.Sel]
	case *ast.StarExpr:
		return fieldOrVar(info, x.X)
	}
	return nil
}

// producer follows a local with a single definition to the expression (or, for a tuple
// assignment, the call) that produced it.
func (fc *FuncCtx) producer(e ast.Expr) ast.Expr {
	e = fc.Resolve(e)
	if id, ok := ast.Unparen(e).(*ast.Ident); ok {
		if obj := objOf(fc.Info(), id); obj != nil {
			if rhs, _, _, ok := fc.SoleDefRHS(obj); ok {
				if _, isCall := ast.Unparen(rhs).(*ast.CallExpr); isCall {
					return rhs
				}
			}
		}
	}
	return e
}

// c06AddrParsers: functions that return a valid (non-zero) conn.Addr whenever they return a nil
// error (reviewed: each success return builds the address with AddrFromIPPort /
// AddrFromDomainPort-after-length-check or passes another parser's success result on).
var c06AddrParsers = map[string]bool{
	"ConnAddrFromSlice": true, "ConnAddrFromReader": true, "ParseAddr": true, "AddrFromHostPort": true,
	"AddrFromDomainPort": true, "hostHeaderToAddr": true,
}

// c06ValidByParse: an accessor that only needs a valid address (Host, ResolveIP, ResolveIPPort)
// is called on a variable whose only definition reaching the call is the result of a parser, on
// that parser's success edge.
func c06ValidByParse(fc *FuncCtx, cs CallSite) bool {
	needsValid := false
	for _, n := range addrAccessorNeeds[cs.Fn.Name()] {
		if n == "IsValid" {
			needsValid = true
		}
	}
	if !needsValid {
		return false
	}
	info := fc.Info()
	sel, ok := ast.Unparen(cs.Call.Fun).(*ast.SelectorExpr)
	if !ok {
		return false
	}
	root := objOf(info, sel.X)
	if root == nil {
		return false
	}
	for _, c2 := range fc.AllCalls() {
		if c2.Fn == nil || !c06AddrParsers[c2.Fn.Name()] {
			continue
		}
		for i := 0; i < 3; i++ {
			if c2.ResultVar(i) == root && c2.SuccessGuards(cs.V) && fc.SoleDef(cs.V, root, c2.V) {
				return true
			}
		}
	}
	return false
}

// c06ParserContract decides the contract the discharges above rely on: a function of the
// c06AddrParsers table returns, on every return that can carry a nil error, a valid address —
// the result of an address constructor that sets a non-zero family (AddrFromIPPort,
// AddrFromIPAndPort), a conn.Addr literal with a non-zero constant family, or the (address,
// error) pair of another parser of the table passed on unchanged. The constructors themselves
// are checked to set a non-zero constant family on every path.
func c06ParserContract(p *Prog, r *Report, rule string) {
	nonZeroFamily := func(info *types.Info, e ast.Expr) bool {
		cl, ok := ast.Unparen(e).(*ast.CompositeLit)
		if !ok || namedTypeName(info.TypeOf(cl)) != "Addr" {
			return false
		}
		for _, el := range cl.Elts {
			if kv, ok := el.(*ast.KeyValueExpr); ok {
				if f, _ := info.Uses[keyIdent(kv.Key)].(*types.Var); f != nil && f.IsField() && isIntegerType(f.Type()) && !isIntegerType16(f.Type()) {
					if k, isC := constInt(info, kv.Value); isC && k != 0 {
						return true
					}
				}
			}
		}
		return false
	}
	constructors := map[string]bool{"AddrFromIPPort": true, "AddrFromIPAndPort": true}
	n := 0
	for _, pkg := range p.All {
		if pkg.Syntax == nil {
			continue
		}
		rel := relPkg(pkg.PkgPath)
		if rel != "conn" && rel != "socks5" && rel != "httpproxy" {
			continue
		}
		p.AllFuncs(pkg, func(fc *FuncCtx) {
			if fc.Obj == nil {
				return
			}
			info := fc.Info()
			name := fc.Obj.Name()
			if rel == "conn" && constructors[name] {
				// every return yields a value whose family was set to a non-zero constant
				ok := true
				res := fc.ResultObj(0)
				for _, ret := range fc.Returns() {
					rs := fc.G.V[ret].Node.(*ast.ReturnStmt)
					good := false
					if len(rs.Results) == 1 && nonZeroFamily(info, rs.Results[0]) {
						good = true
					}
					if len(rs.Results) == 0 && res != nil {
						for _, v := range fc.G.V {
							as, isAs := v.Node.(*ast.AssignStmt)
							if !isAs || len(as.Lhs) != 1 || len(as.Rhs) != 1 {
								continue
							}
							root, path, okp := pathOf(info, as.Lhs[0])
							if okp && root == res && path != "" && !strings.Contains(path[1:], ".") {
								if k, isC := constInt(info, as.Rhs[0]); isC && k != 0 && fc.G.Dominates([]int{v.ID}, ret) {
									// no later write to the result before the return
									good = true
								}
							}
						}
					}
					if !good {
						ok = false
					}
				}
				n++
				r.Check(ok && len(fc.Returns()) > 0, rule, "conn."+name+":sets-non-zero-family", p.posStr(fc.Body.Pos()), "every return yields an address whose family is a non-zero constant", "the constructor can return an address whose family is unset: Host/ResolveIP on it panic although callers treat it as valid")
				return
			}
			if !c06AddrParsers[name] {
				return
			}
			sig := fc.Obj.Type().(*types.Signature)
			if sig.Results().Len() < 2 || namedTypeName(sig.Results().At(0).Type()) != "Addr" {
				return
			}
			for i, ret := range fc.Returns() {
				rs := fc.G.V[ret].Node.(*ast.ReturnStmt)
				n++
				construct := fmt.Sprintf("%s:return#%d-valid-or-error", fc.Name, i)
				good, why := false, ""
				switch {
				case len(rs.Results) == 1:
					// return parser(...)
					if c, ok := ast.Unparen(rs.Results[0]).(*ast.CallExpr); ok {
						if fn := Callee(info, c); fn != nil && c06AddrParsers[fn.Name()] {
							good, why = true, "passes on "+fn.Name()+"'s (address, error)"
						}
					}
				case len(rs.Results) >= 2:
					if fc.ErrAtReturn(ret) == ErrNonNil {
						good, why = true, "error return"
						break
					}
					a := ast.Unparen(rs.Results[0])
					if c, ok := a.(*ast.CallExpr); ok {
						if fn := Callee(info, c); fn != nil && constructors[fn.Name()] && fn.Pkg() != nil && fn.Pkg().Path() == mp("conn") {
							good, why = true, "built by "+fn.Name()
						}
					}
					if nonZeroFamily(info, a) {
						good, why = true, "literal with a non-zero family"
					}
					// addr, …, err of one parser call passed on
					if ao, eo := objOf(info, a), objOf(info, rs.Results[len(rs.Results)-1]); ao != nil && eo != nil {
						for _, cs := range fc.AllCalls() {
							if cs.Fn != nil && c06AddrParsers[cs.Fn.Name()] && cs.ResultVar(0) == ao && cs.ResultVar(-1) == eo && fc.SoleDef(ret, ao, cs.V) && fc.SoleDef(ret, eo, cs.V) {
								good, why = true, "passes on "+cs.Fn.Name()+"'s (address, error)"
							}
						}
					}
				}
				r.Check(good, rule, construct, p.posStr(rs.Pos()), why, "a return that may carry a nil error yields an address not known to be valid ("+exprStr(rs)+"): callers use Host/Domain/ResolveIP on a successfully parsed address without a further test")
			}
		})
	}
	r.Count("parser_contract_returns", n)
}

func keyIdent(e ast.Expr) *ast.Ident {
	id, _ := e.(*ast.Ident)
	return id
}

func isIntegerType(t types.Type) bool {
	b, ok := t.Underlying().(*types.Basic)
	return ok && b.Info()&types.IsInteger != 0
}

// isIntegerType16: the port field (uint16) is not the family.
func isIntegerType16(t types.Type) bool {
	b, ok := t.Underlying().(*types.Basic)
	return ok && b.Kind() == types.Uint16
}

// c06R5: optional session state. The packet unpackers keep per-session objects (the previous
// server session's AEAD, …) in fields that stay nil until a session change fills them. A method
// call through a local of interface or pointer type that can hold such a field's value is
// reached only behind a non-nil test of that very field: the identifiers that select the
// session come from the packet, so a datagram naming the zero-valued slot would otherwise call
// through nil.
func c06R5(p *Prog, r *Report) {
	const rule = "C06-R5"
	r.Rule(rule, "no call through an unset session slot: in the UnpackInPlace implementations of ss2022, every method call on a local variable is reached only by definitions that are (a) a field of the receiver that every constructor literal of the type sets, (b) a field read behind the true edge of `that field != nil`, (c) the result of a call on its success edge, or (d) a fresh value; the zero declaration does not reach the call")
	pkg := p.Pkg("ss2022")
	n := 0
	// fields every composite literal of the type sets
	alwaysSet := func(typeName, field string) bool {
		lits, all := 0, true
		for _, f := range pkg.Syntax {
			ast.Inspect(f, func(x ast.Node) bool {
				cl, ok := x.(*ast.CompositeLit)
				if !ok || namedTypeName(pkg.TypesInfo.TypeOf(cl)) != typeName {
					return true
				}
				lits++
				found := false
				for _, el := range cl.Elts {
					if kv, ok := el.(*ast.KeyValueExpr); ok {
						if id, ok := kv.Key.(*ast.Ident); ok && id.Name == field {
							found = true
						}
					}
				}
				if !found {
					all = false
				}
				return true
			})
		}
		return lits > 0 && all
	}
	var fcs []*FuncCtx
	fcs = append(fcs, implsOf(p, "zerocopy", "ClientUnpacker", "UnpackInPlace")...)
	fcs = append(fcs, implsOf(p, "zerocopy", "ServerUnpacker", "UnpackInPlace")...)
	seen := map[*FuncCtx]bool{}
	for _, fc := range fcs {
		if seen[fc] || fc.Pkg != pkg {
			continue
		}
		seen[fc] = true
		info := fc.Info()
		recv := fc.RecvObj()
		if recv == nil {
			continue
		}
		recvT := namedTypeName(recv.Type())
		for _, cs := range fc.AllCalls() {
			sel, ok := ast.Unparen(cs.Call.Fun).(*ast.SelectorExpr)
			if !ok {
				continue
			}
			x, _ := objOf(info, sel.X).(*types.Var)
			if x == nil || x.IsField() || x == recv || (x.Pkg() != nil && x.Parent() == x.Pkg().Scope()) {
				continue
			}
			switch x.Type().Underlying().(type) {
			case *types.Interface, *types.Pointer:
			default:
				continue
			}
			if s2 := info.Selections[sel]; s2 == nil || s2.Kind() != types.MethodVal {
				continue
			}
			isParam := false
			for i := 0; fc.ParamObj(i) != nil; i++ {
				if fc.ParamObj(i) == types.Object(x) {
					isParam = true
				}
			}
			if isParam {
				continue
			}
			// a local nil test of x itself on the way settles it
			if fc.G.EdgeDominates(fc.TestEdges(func(e ast.Expr) bool { return objOf(info, e) == types.Object(x) }, WantNonNil), cs.V) {
				continue
			}
			n++
			bad := ""
			for _, d := range fc.ReachingDefs(cs.V, x) {
				if d == fc.G.Entry {
					bad = "undefined"
					continue
				}
				switch nd := fc.G.V[d].Node.(type) {
				case *ast.ValueSpec:
					if len(nd.Values) == 0 {
						bad = "its zero declaration"
					}
				case *ast.AssignStmt:
					if len(nd.Lhs) != len(nd.Rhs) {
						// multi-value call: accepted on the call's success edge
						if c, okc := ast.Unparen(nd.Rhs[0]).(*ast.CallExpr); okc {
							okSucc := false
							for _, c2 := range fc.AllCalls() {
								if c2.Call == c && (c2.SuccessGuards(cs.V) || len(c2.ResultEdges(-1, WantNil)) > 0) {
									okSucc = true
								}
							}
							if !okSucc {
								bad = exprStr(nd)
							}
						}
						continue
					}
					for i, l := range nd.Lhs {
						if objOf(info, l) != types.Object(x) {
							continue
						}
						rhs := ast.Unparen(nd.Rhs[i])
						root, path, okp := pathOf(info, rhs)
						if okp && root == recv && path != "" {
							field := strings.TrimPrefix(path, ".")
							if !strings.Contains(field, ".") && alwaysSet(recvT, field) {
								continue
							}
							nn := fc.TestEdges(func(e ast.Expr) bool { return samePath(info, e, rhs) }, WantNonNil)
							if fc.G.EdgeDominates(nn, d) {
								continue
							}
							// or behind the test of a companion field: one that is assigned wherever this
							// one is, in the same straight-line stretch (the slots of one session move together)
							okCompanion := false
							for _, cv := range fc.G.V {
								x2, y2, op2, okc := condParts(cv)
								if !okc || y2 == nil || op2 != token.NEQ || !isNilExpr(info, y2) {
									continue
								}
								r2, p2, ok2 := pathOf(info, x2)
								if !ok2 || r2 != recv || p2 == "" || strings.Contains(p2[1:], ".") {
									continue
								}
								var te []Edge
								for _, e := range cv.Succs {
									if e.Label == LTrue {
										te = append(te, e)
									}
								}
								if fc.G.EdgeDominates(te, d) && c06SetTogether(p, pkg, recvT, field, p2[1:]) {
									okCompanion = true
								}
							}
							if !okCompanion {
								bad = exprStr(rhs) + " (read without a non-nil test of that field or of a field that is always set together with it)"
							}
							continue
						}
						if _, isCall := rhs.(*ast.CallExpr); isCall {
							continue // constructor result
						}
						if u, isU := rhs.(*ast.UnaryExpr); isU && u.Op == token.AND {
							continue
						}
						if isNilExpr(info, rhs) {
							bad = "nil"
						}
					}
				}
			}
			r.Check(bad == "", rule, fmt.Sprintf("%s:call-%s.%s", fc.Name, x.Name(), sel.Sel.Name), cs.Pos(), "every value of "+x.Name()+" that reaches the call is set", "the call "+exprStr(cs.Call.Fun)+" can be reached with "+x.Name()+" holding "+bad+": a datagram that selects a session slot which was never filled (its identifier still has the zero value) makes the unpacker call through nil and crash")
		}
	}
	r.Count("calls_through_session_locals", n)
	r.Floor(rule, 2)
}

// c06SetTogether: fields a and b of the type are assigned together — in every function of the
// package, each assignment to recv.a has an assignment to recv.b in the same straight-line
// stretch (one dominates the other and nothing between them can leave the function), and vice
// versa.
func c06SetTogether(p *Prog, pkg *packages.Package, typeName, a, b string) bool {
	okAll, nA := true, 0
	p.AllFuncs(pkg, func(top *FuncCtx) {
		for _, fc := range allCtxs(p, top) {
			info := fc.Info()
			assigns := func(f string) []int {
				var out []int
				for _, v := range fc.G.V {
					as, ok := v.Node.(*ast.AssignStmt)
					if !ok || v.Kind != VStmt {
						continue
					}
					for _, l := range as.Lhs {
						sel, ok := ast.Unparen(l).(*ast.SelectorExpr)
						if !ok || sel.Sel.Name != f {
							continue
						}
						if t := info.TypeOf(sel.X); t != nil {
							if pt, ok := t.Underlying().(*types.Pointer); ok {
								t = pt.Elem()
							}
							if namedTypeName(t) == typeName {
								out = append(out, v.ID)
							}
						}
					}
				}
				return out
			}
			as, bs := assigns(a), assigns(b)
			nA += len(as)
			pair := func(xs, ys []int) bool {
				for _, x := range xs {
					found := false
					for _, y := range ys {
						first, second := x, y
						if !fc.G.Dominates([]int{first}, second) {
							first, second = y, x
						}
						if fc.G.Dominates([]int{first}, second) {
							// nothing leaves between them: the exit is not reachable from first around second
							if !fc.G.ReachAfter(first, func(v *Vertex) bool { return v.ID == second }, nil)[fc.G.Exit] {
								found = true
							}
						}
					}
					if !found {
						return false
					}
				}
				return true
			}
			if !pair(as, bs) || !pair(bs, as) {
				okAll = false
			}
		}
	})
	return okAll && nA > 0
}

type c06Lifted struct {
	fc  *FuncCtx
	v   int
	arg ast.Expr
}

// c06LiftToCallers: recv is (rooted at) a parameter of the unexported function ctx that ctx never
// reassigns; the result lists every call of ctx in its package with the argument bound to that
// parameter. Empty when ctx is exported, is used as a value, or recv is not such a parameter.
func c06LiftToCallers(p *Prog, pkg *packages.Package, ctx *FuncCtx, recv ast.Expr) []c06Lifted {
	if ctx.Obj == nil || ctx.Obj.Exported() || ctx.Lit != nil {
		return nil
	}
	info := ctx.Info()
	o := objOf(info, recv)
	if o == nil {
		return nil
	}
	sig, _ := ctx.Obj.Type().(*types.Signature)
	if sig == nil || sig.Variadic() {
		return nil
	}
	idx := -1
	for i := 0; i < sig.Params().Len(); i++ {
		if sig.Params().At(i) == o {
			idx = i
		}
	}
	if idx < 0 || len(ctx.Defs(o)) > 0 {
		return nil
	}
	var out []c06Lifted
	asValue := false
	called := map[*ast.Ident]bool{}
	p.AllFuncs(pkg, func(fc *FuncCtx) {
		for _, c := range allCtxs(p, fc) {
			for _, cs := range c.AllCalls() {
				if cs.Fn != nil && cs.Fn.Origin() == ctx.Obj && idx < len(cs.Call.Args) {
					out = append(out, c06Lifted{c, cs.V, cs.Call.Args[idx]})
					switch f := ast.Unparen(cs.Call.Fun).(type) {
					case *ast.Ident:
						called[f] = true
					case *ast.SelectorExpr:
						called[f.Sel] = true
					}
				}
			}
		}
	})
	p.AllFuncs(pkg, func(fc *FuncCtx) {
		ast.Inspect(fc.Body, func(n ast.Node) bool {
			if id, ok := n.(*ast.Ident); ok && !called[id] {
				if u, isFn := fc.Info().Uses[id].(*types.Func); isFn && u.Origin() == ctx.Obj {
					asValue = true
				}
			}
			return true
		})
	})
	if asValue {
		return nil
	}
	return out
}

type c06SocketFact struct {
	token string // what the enclosing function's name must contain
	why   string
}

// c06SocketFacts: "<producing call>.(<asserted type>)" → the library fact that makes the
// single-value assertion safe in package conn.
var c06SocketFacts = map[string]c06SocketFact{
	"call (*github.com/database64128/tfo-go/v2.ListenConfig).Listen.(*net.TCPListener)": {"tcp", "tfo.ListenConfig.Listen on a tcp* network returns a *net.TCPListener"},
	"call (*net.ListenConfig).ListenPacket.(*net.UDPConn)":                              {"udp", "net.ListenConfig.ListenPacket on a udp* network returns a *net.UDPConn"},
	"call (*github.com/database64128/tfo-go/v2.Dialer).DialContext.(*net.TCPConn)":      {"tcp", "tfo.Dialer.DialContext on a tcp* network returns a *net.TCPConn"},
	"call (*net.Dialer).DialContext.(*net.UDPConn)":                                     {"udp", "net.Dialer.DialContext on a udp* network returns a *net.UDPConn"},
}

// c06WrapperBuiltOnlyWhen: the assertion x.f.(T) sits in a method of a wrapper type W whose field
// (through embedding) f holds the wrapped value, and every composite literal of W in the package
// is built on the ok edge of `_, ok := v.(T)` for the very v that the literal (or the embedded
// literal it is given) stores in f. Then f.(T) cannot fail in a method of W.
func c06WrapperBuiltOnlyWhen(p *Prog, pkg *packages.Package, ctx *FuncCtx, ta *ast.TypeAssertExpr) (string, bool) {
	info := ctx.Info()
	recv := ctx.RecvObj()
	if recv == nil || ta.Type == nil {
		return "", false
	}
	sel, ok := ast.Unparen(ta.X).(*ast.SelectorExpr)
	if !ok || objOf(info, sel.X) != recv {
		return "", false
	}
	field := sel.Sel.Name
	wname := namedTypeName(recv.Type())
	asserted := types.TypeString(info.TypeOf(ta.Type), nil)
	if wname == "" {
		return "", false
	}
	nLit := 0
	allOK := true
	p.AllFuncs(pkg, func(top *FuncCtx) {
		for _, fc := range allCtxs(p, top) {
			finfo := fc.Info()
			for _, v := range fc.G.V {
				if v.Node == nil {
					continue
				}
				inspectNoLit(v.Node, func(n ast.Node) bool {
					cl, ok := n.(*ast.CompositeLit)
					if !ok || namedTypeName(finfo.TypeOf(cl)) != wname {
						return true
					}
					nLit++
					// the value stored in the field: through the embedded value's own literal
					var stored types.Object
					ast.Inspect(fc.Body, func(m ast.Node) bool {
						if kv, ok := m.(*ast.KeyValueExpr); ok {
							if id, ok := kv.Key.(*ast.Ident); ok && id.Name == field {
								if o := objOf(finfo, kv.Value); o != nil {
									stored = o
								}
							}
						}
						return true
					})
					good := false
					if stored != nil {
						for _, av := range fc.G.V {
							as, ok := av.Node.(*ast.AssignStmt)
							if !ok || len(as.Lhs) != 2 || len(as.Rhs) != 1 {
								continue
							}
							ta2, ok := ast.Unparen(as.Rhs[0]).(*ast.TypeAssertExpr)
							if !ok || ta2.Type == nil || types.TypeString(finfo.TypeOf(ta2.Type), nil) != asserted || objOf(finfo, ta2.X) != stored {
								continue
							}
							okObj := objOf(finfo, as.Lhs[1])
							if okObj == nil {
								continue
							}
							edges := fc.TestEdges(func(e ast.Expr) bool { return objOf(finfo, e) == okObj }, WantTrue)
							if len(edges) > 0 && fc.G.EdgeDominates(edges, v.ID) && len(fc.Defs(stored)) == 0 {
								good = true
							}
						}
					}
					if !good {
						allOK = false
					}
					return true
				})
			}
		}
	})
	if nLit == 0 || !allOK {
		return "", false
	}
	return fmt.Sprintf("every %s value (%d literal(s)) is built on the ok edge of the same assertion on the value it wraps", wname, nLit), true
}
