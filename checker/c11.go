package main

import (
	"fmt"
	"go/ast"
	"go/token"
	"go/types"
	"sort"
	"strings"
)

func init() {
	register(&PropCheck{ID: "C11", Pkgs: []string{"./service", "./direct", "./ss2022", "./zerocopy", "./clientgroups"}, Run: runC11})
}

func runC11(p *Prog, r *Report) {
	r.Explanation = "Structural necessary conditions of 'relayed UDP datagrams reach the named destination and replies return to the sender, with no cross-session leakage and nothing created for unauthenticated datagrams': no codec object whose methods write its own fields is shared between sessions by a session/unpacker/packer factory; a resolver cache is updated only after a successful lookup, key and value together; in every relay variant the table insert, the queue and the session goroutine are created only after the first packet unpacked (and, for session protocols, identified and authenticated) successfully; a session's recorded client address changes only on packets that unpacked successfully; each session goroutine wires the uplink and downlink with the socket, packer, unpacker and queue created for that very session and routes on that packet's own source, target and user; the generic and mmsg variants of each relay perform the same protocol steps in the same order."
	r.NotDecided = []string{"what the kernel does with datagrams", "resolver interleavings beyond the no-sharing rule", "payload byte equality (C05 covers the offsets)"}
	r.Assumptions = []string{"one goroutine drives one packer/unpacker once it is not shared (the relay's structure, checked in R4)", "cipher.Block / cipher.AEAD values are safe for concurrent use when shared read-only"}
	c11R1(p, r)
	sites := discoverRelays(p)
	c11R2R3(p, r, sites)
	c11R4(p, r, sites)
	c11R5(p, r, sites)
	c11R6(p, r)
	c11R7(p, r)
}

// mutableMethods: for every named type of the loaded module packages, does a pointer-receiver
// method (transitively through calls to other methods on the same receiver) store to a field?
func typeWritesOwnFields(p *Prog) map[string]string {
	out := map[string]string{} // "pkg.Type" -> witness
	type key struct{ pkg, typ string }
	direct := map[key]map[string]string{}  // type -> method -> witness
	calls := map[key]map[string][]string{} // type -> method -> callee methods on receiver
	for _, pkg := range p.All {
		if pkg.Syntax == nil {
			continue
		}
		p.AllFuncs(pkg, func(fc *FuncCtx) {
			recv := fc.RecvObj()
			if recv == nil {
				return
			}
			if _, isPtr := recv.Type().(*types.Pointer); !isPtr {
				return // value receiver: stores do not persist
			}
			k := key{pkg.PkgPath, namedTypeName(recv.Type())}
			if direct[k] == nil {
				direct[k] = map[string]string{}
				calls[k] = map[string][]string{}
			}
			info := fc.Info()
			for _, v := range fc.G.V {
				if v.Node == nil {
					continue
				}
				for sel := range writeTargets(info, v.Node) {
					root, path, ok := pathOf(info, sel)
					if ok && root == recv && path != "" {
						direct[k][fc.Obj.Name()] = fc.Obj.Name() + " writes " + exprStr(sel) + " (" + p.posStr(sel.Pos()) + ")"
					}
				}
				// x.f++ handled by writeTargets; method calls on receiver
			}
			for _, cs := range fc.AllCalls() {
				if sel, ok := ast.Unparen(cs.Call.Fun).(*ast.SelectorExpr); ok && objOf(info, sel.X) == recv && cs.Fn != nil {
					calls[k][fc.Obj.Name()] = append(calls[k][fc.Obj.Name()], cs.Fn.Name())
				}
			}
		})
	}
	for k, ms := range direct {
		// propagate
		for changed := true; changed; {
			changed = false
			for m, cal := range calls[k] {
				if ms[m] != "" {
					continue
				}
				for _, c := range cal {
					if ms[c] != "" {
						ms[m] = m + " → " + ms[c]
						changed = true
						break
					}
				}
			}
		}
		var names []string
		for m := range ms {
			names = append(names, m)
		}
		sort.Strings(names)
		for _, m := range names {
			if ms[m] != "" {
				out[k.pkg+"."+k.typ] = ms[m]
				break
			}
		}
	}
	return out
}

type codecSource struct {
	typeKey string // pkg.Type of the object
	shared  bool
	where   string
}

// codecSources classifies expression e (a packer/unpacker value, or a UDPClientSession struct) in fc.
func codecSources(p *Prog, fc *FuncCtx, e ast.Expr, depth int) []codecSource {
	info := fc.Info()
	e = ast.Unparen(e)
	typeKeyOf := func(x ast.Expr) string {
		tv, ok := info.Types[x]
		if !ok {
			return ""
		}
		t := tv.Type
		if n := namedTypeName(t); n != "" {
			return namedTypePkg(t) + "." + n
		}
		return ""
	}
	if depth > 5 {
		return []codecSource{{"", true, "undecided (depth) " + exprStr(e)}}
	}
	switch x := e.(type) {
	case *ast.UnaryExpr:
		if cl, ok := ast.Unparen(x.X).(*ast.CompositeLit); ok {
			return []codecSource{{typeKeyOf(cl), false, "allocated here"}}
		}
	case *ast.CompositeLit:
		tk := typeKeyOf(x)
		if strings.HasSuffix(tk, ".UDPClientSession") {
			var out []codecSource
			for _, el := range x.Elts {
				if kv, ok := el.(*ast.KeyValueExpr); ok {
					k := kv.Key.(*ast.Ident).Name
					if k == "Packer" || k == "Unpacker" {
						out = append(out, codecSources(p, fc, kv.Value, depth+1)...)
					}
				}
			}
			return out
		}
		return []codecSource{{tk, false, "value literal"}}
	case *ast.CallExpr:
		if id, ok := ast.Unparen(x.Fun).(*ast.Ident); ok && id.Name == "new" && len(x.Args) == 1 {
			if _, isB := info.Uses[id].(*types.Builtin); isB {
				tk := typeKeyOf(x)
				if t := info.TypeOf(x); t != nil {
					if pt, ok := t.Underlying().(*types.Pointer); ok {
						tk = namedTypePkg(pt.Elem()) + "." + namedTypeName(pt.Elem())
					}
				}
				return []codecSource{{tk, false, "allocated here"}}
			}
		}
		fn := Callee(info, x)
		if callee := p.CtxOfObj(fn); callee != nil {
			// constructor: classify its returns in its own context; parameters / receiver fields stay shared
			var out []codecSource
			for _, ret := range callee.Returns() {
				rs := callee.G.V[ret].Node.(*ast.ReturnStmt)
				if len(rs.Results) >= 1 {
					out = append(out, codecSources(p, callee, rs.Results[0], depth+1)...)
				}
			}
			return out
		}
		return []codecSource{{typeKeyOf(x), true, "undecided: result of " + exprStr(x.Fun)}}
	case *ast.Ident:
		o := objOf(info, x)
		if o == nil {
			break
		}
		if o == fc.RecvObj() {
			return []codecSource{{typeKeyOf(x), true, "the long-lived receiver itself"}}
		}
		if rhs, idx, _, ok := fc.SoleDefRHS(o); ok && idx >= 0 {
			// result idx of a call to a package function
			if c, isCall := ast.Unparen(rhs).(*ast.CallExpr); isCall {
				if callee := p.CtxOfObj(Callee(info, c)); callee != nil {
					var out []codecSource
					for _, ret := range callee.Returns() {
						rs := callee.G.V[ret].Node.(*ast.ReturnStmt)
						if callee.ErrAtReturn(ret) == ErrNonNil || idx >= len(rs.Results) {
							continue
						}
						out = append(out, codecSources(p, callee, rs.Results[idx], depth+1)...)
					}
					if len(out) > 0 {
						return out
					}
				}
			}
		}
		zeroDecl := false
		if ds := fc.Defs(o); len(ds) == 1 {
			if vs, isVS := fc.G.V[ds[0]].Node.(*ast.ValueSpec); isVS && len(vs.Values) == 0 {
				zeroDecl = true // var v T: nothing in it yet, the fields are assigned below
			}
		}
		if rhs, idx, _, ok := fc.SoleDefRHS(o); (ok && idx < 0) || zeroDecl {
			var base []codecSource
			if !zeroDecl {
				base = codecSources(p, fc, rhs, depth+1)
			}
			// field overrides: o.Packer = X / o.Unpacker = X
			var over []codecSource
			overridden := map[string]bool{}
			for _, v := range fc.G.V {
				if as, isAs := v.Node.(*ast.AssignStmt); isAs && len(as.Lhs) == 1 && len(as.Rhs) == 1 {
					if sel, isSel := ast.Unparen(as.Lhs[0]).(*ast.SelectorExpr); isSel && objOf(info, sel.X) == o && (sel.Sel.Name == "Packer" || sel.Sel.Name == "Unpacker") {
						overridden[sel.Sel.Name] = true
						over = append(over, codecSources(p, fc, as.Rhs[0], depth+1)...)
					}
				}
			}
			if len(overridden) > 0 {
				// keep base entries only for non-overridden fields: base entries are not tagged by field, so
				// when only one of the two is overridden keep base entries that are immutable-or-unknown
				if overridden["Packer"] && overridden["Unpacker"] {
					return over
				}
				return append(over, base...)
			}
			return base
		}
		return []codecSource{{typeKeyOf(x), true, "undecided: variable " + x.Name}}
	case *ast.SelectorExpr:
		// field of the receiver or of another long-lived object
		if s, ok := info.Selections[x]; ok && s.Kind() == types.FieldVal {
			tk := typeKeyOf(x)
			if strings.HasSuffix(tk, ".UDPClientSession") {
				// find where this field is initialised in the package and classify its Packer/Unpacker as shared
				var out []codecSource
				for _, f := range fc.Pkg.Syntax {
					ast.Inspect(f, func(n ast.Node) bool {
						kv, ok := n.(*ast.KeyValueExpr)
						if !ok {
							return true
						}
						if id, ok := kv.Key.(*ast.Ident); ok && id.Name == x.Sel.Name {
							if cl, ok := ast.Unparen(kv.Value).(*ast.CompositeLit); ok {
								for _, el := range cl.Elts {
									if kv2, ok := el.(*ast.KeyValueExpr); ok {
										k2 := kv2.Key.(*ast.Ident).Name
										if k2 == "Packer" || k2 == "Unpacker" {
											t := ""
											if tv, ok := fc.Pkg.TypesInfo.Types[kv2.Value]; ok {
												t = namedTypePkg(tv.Type) + "." + namedTypeName(tv.Type)
											}
											out = append(out, codecSource{t, true, "stored once in field " + x.Sel.Name + " (" + k2 + ": " + exprStr(kv2.Value) + ") and handed to every session"})
										}
									}
								}
							}
						}
						return true
					})
				}
				// assignments X.<field>.Packer = v / X.<field>.Unpacker = v anywhere in the package
				for _, f := range fc.Pkg.Syntax {
					ast.Inspect(f, func(n ast.Node) bool {
						as, ok := n.(*ast.AssignStmt)
						if !ok || len(as.Lhs) != len(as.Rhs) {
							return true
						}
						for i, l := range as.Lhs {
							ls, ok := ast.Unparen(l).(*ast.SelectorExpr)
							if !ok || (ls.Sel.Name != "Packer" && ls.Sel.Name != "Unpacker") {
								continue
							}
							if in, ok := ast.Unparen(ls.X).(*ast.SelectorExpr); ok && in.Sel.Name == x.Sel.Name {
								t := ""
								if tv, ok := fc.Pkg.TypesInfo.Types[as.Rhs[i]]; ok {
									t = namedTypePkg(tv.Type) + "." + namedTypeName(tv.Type)
								}
								out = append(out, codecSource{t, true, "stored in field " + x.Sel.Name + "." + ls.Sel.Name + " (" + exprStr(as.Rhs[i]) + ") and handed to every session"})
							}
						}
						return true
					})
				}
				if len(out) > 0 {
					return out
				}
			}
			return []codecSource{{tk, true, "field " + exprStr(x) + " of a long-lived object"}}
		}
	}
	return []codecSource{{typeKeyOf(e), true, "undecided: " + exprStr(e)}}
}

func c11R1(p *Prog, r *Report) {
	const rule = "C11-R1"
	r.Rule(rule, "no mutable codec is shared between sessions: every packer/unpacker handed out by UDPClient.NewSession, UDPNATServer.NewUnpacker, UDPSessionServer.NewUnpacker or ServerUnpacker.NewPacker is either allocated on that call or belongs to a type none of whose pointer-receiver methods (transitively) writes its own fields; resolver caches are updated only after a successful lookup, key and value together")
	mut := typeWritesOwnFields(p)
	type fac struct {
		pkg, iface, method string
		res                int
	}
	n := 0
	for _, f := range []fac{{"zerocopy", "UDPClient", "NewSession", 1}, {"zerocopy", "UDPNATServer", "NewUnpacker", 0}, {"zerocopy", "UDPSessionServer", "NewUnpacker", 0}, {"zerocopy", "ServerUnpacker", "NewPacker", 0}} {
		for _, fc := range implsOf(p, f.pkg, f.iface, f.method) {
			n++
			// delegating group: returns another client's NewSession(ctx)
			delegated := false
			for _, ret := range fc.Returns() {
				rs := fc.G.V[ret].Node.(*ast.ReturnStmt)
				if len(rs.Results) == 1 {
					if c, ok := ast.Unparen(rs.Results[0]).(*ast.CallExpr); ok {
						if fn := Callee(fc.Info(), c); fn != nil && fn.Name() == f.method {
							delegated = true
							r.OK(rule, fc.Name+":delegates", p.posStr(rs.Pos()), "delegates to a member's "+f.method)
						}
					}
				}
			}
			if delegated {
				continue
			}
			nret := 0
			for _, ret := range fc.Returns() {
				rs := fc.G.V[ret].Node.(*ast.ReturnStmt)
				if fc.ErrAtReturn(ret) == ErrNonNil || len(rs.Results) <= f.res {
					continue
				}
				nret++
				for _, src := range codecSources(p, fc, rs.Results[f.res], 0) {
					construct := fmt.Sprintf("%s:%s", fc.Name, strings.TrimPrefix(src.typeKey, modPath+"/"))
					switch {
					case !src.shared:
						r.OK(rule, construct, p.posStr(rs.Pos()), "fresh per call ("+src.where+")")
					case src.typeKey == "" || strings.HasPrefix(src.where, "undecided"):
						r.Fail(rule, construct, p.posStr(rs.Pos()), "undecided provenance: "+src.where)
					case mut[src.typeKey] != "":
						r.Fail(rule, construct, p.posStr(rs.Pos()), "a "+strings.TrimPrefix(src.typeKey, modPath+"/")+" is shared between sessions ("+src.where+") although "+mut[src.typeKey]+": concurrent sessions race on it and a datagram of one session can be sent to the address resolved for another session's target")
					default:
						r.OK(rule, construct, p.posStr(rs.Pos()), "shared ("+src.where+") but no method of the type writes its fields")
					}
				}
			}
			if nret == 0 {
				r.Fail(rule, fc.Name+":returns", p.posStr(fc.Body.Pos()), "undecided: no analysable success return")
			}
		}
	}
	r.Count("codec_factories", n)
	// resolver cache discipline in the direct packer, on PackInPlace with its helper expanded:
	// the two cache fields are written only past a successful lookup, and the cached address is
	// not read on any path that continues from a failed one
	pk := p.Inlined(p.Func("direct", "DirectPacketClientPacker", "PackInPlace"))
	var res *CallSite
	nRes := 0
	for _, cs := range pk.AllCalls() {
		if cs.Fn != nil && strings.HasPrefix(cs.Fn.Name(), "ResolveIP") && namedTypeName(recvTypeOf(cs.Fn)) == "Addr" {
			c := cs
			res = &c
			nRes++
		}
	}
	const pre = "direct.(*DirectPacketClientPacker).PackInPlace:"
	if res == nil || nRes != 1 {
		r.Fail(rule, pre+"lookup", p.posStr(pk.Body.Pos()), fmt.Sprintf("expected one address lookup, found %d", nRes))
	} else {
		nW := 0
		written := map[string]bool{}
		for _, fa := range pk.FieldAccesses(mp("direct"), "DirectPacketClientPacker", map[string]bool{"cachedDomain": true, "cachedDomainIP": true}) {
			if !fa.Write {
				continue
			}
			nW++
			written[fa.Field.Name()] = true
			r.Check(res.SuccessGuards(fa.V), rule, pre+fa.Field.Name()+"-after-lookup-ok", p.posStr(fa.Sel.Pos()), "written only on the lookup's err == nil edge", "the cache field "+fa.Field.Name()+" is written before the lookup succeeded: after a failed lookup the cache names one domain but holds another domain's address, and later datagrams for it go to the wrong host")
		}
		r.Check(nW == 2 && len(written) == 2, rule, pre+"key-and-value", p.posStr(pk.Body.Pos()), "domain and address are both updated", fmt.Sprintf("%d of the two cache fields are updated", len(written)))
		fe := res.ResultEdges(-1, WantNonNil)
		after := pk.G.ReachFromEdges(fe, nil, nil)
		for _, fa := range pk.FieldAccesses(mp("direct"), "DirectPacketClientPacker", map[string]bool{"cachedDomainIP": true}) {
			if fa.Write {
				continue
			}
			r.Check(len(fe) > 0 && !after[fa.V], rule, pre+"cached-ip-after-update", p.posStr(fa.Sel.Pos()), "the cached address is not read on a path that continues from a failed lookup", "the cached address is used although the lookup for this packet's target failed")
		}
	}
	r.Floor(rule, 20)
}

func c11R2R3(p *Prog, r *Report, sites []*relaySite) {
	const r2 = "C11-R2"
	const r3 = "C11-R3"
	r.Rule(r2, "nothing is created for datagrams that fail to parse or authenticate: in every receive loop the table insert, the session's queue and the session goroutine are reached only on the err == nil edge of UnpackInPlace for that packet (and of SessionInfo / NewUnpacker where the protocol has them); packets that fail are returned to the pool and the loop continues")
	r.Rule(r3, "the client's latest address follows authenticated packets only: stores to a session's cached client address / pktinfo and to its atomically published address are reached only on the err == nil edge of UnpackInPlace")
	for _, s := range sites {
		fc := s.Recv
		info := fc.Info()
		var unpack, sinfo, newUnp *CallSite
		for _, cs := range fc.AllCalls() {
			if cs.Fn == nil {
				continue
			}
			c := cs
			switch cs.Fn.Name() {
			case "UnpackInPlace":
				unpack = &c
			case "SessionInfo":
				sinfo = &c
			case "NewUnpacker":
				newUnp = &c
			}
		}
		isTransparent := s.RelayType == "UDPTransparentRelay"
		if unpack == nil && !isTransparent {
			r.Fail(r2, fc.Name+":unpack", p.posStr(fc.Body.Pos()), "no UnpackInPlace in the receive loop")
			continue
		}
		var guards []*CallSite
		if unpack != nil {
			guards = append(guards, unpack)
		}
		if sinfo != nil {
			guards = append(guards, sinfo)
		}
		guardedByAll := func(v int) (bool, string) {
			for _, g := range guards {
				if !g.SuccessGuards(v) {
					return false, g.Fn.Name()
				}
			}
			return true, ""
		}
		// creations
		n := 0
		for _, v := range fc.G.V {
			if as, ok := v.Node.(*ast.AssignStmt); ok && len(as.Lhs) == 1 {
				if ix, ok := ast.Unparen(as.Lhs[0]).(*ast.IndexExpr); ok && isRelayTable(fc.Info(), ix.X) {
					n++
					ok2, which := guardedByAll(v.ID)
					r.Check(ok2, r2, fc.Name+":table-insert", p.posStr(as.Pos()), "inserted only after the packet was identified and unpacked successfully", "a session is registered although "+which+" may have failed for the packet: garbage datagrams create sessions, sockets and goroutines")
					// NewUnpacker success too, when the entry is new
					if newUnp != nil {
						// on the path where NewUnpacker ran, its success guards the insert
						fe := newUnp.ResultEdges(-1, WantNonNil)
						bad := false
						// "same iteration": without passing a loop head or taking the next packet
						iterStart := map[int]bool{newUnp.V: true}
						for _, lv := range fc.G.V {
							if lv.Kind == VRange {
								iterStart[lv.ID] = true
							}
						}
						for _, c2 := range fc.AllCalls() {
							if c2.Fn != nil && (c2.Fn.Name() == "getQueuedPacket" || strings.HasPrefix(c2.Fn.Name(), "ReadMsg")) {
								iterStart[c2.V] = true
							}
						}
						for _, e := range fe {
							if fc.G.Reach([]int{e.To}, func(x *Vertex) bool { return iterStart[x.ID] }, nil)[v.ID] {
								bad = true
							}
						}
						r.Check(!bad, r2, fc.Name+":insert-after-NewUnpacker-ok", p.posStr(as.Pos()), "a failed NewUnpacker never reaches the insert within the same iteration", "a session can be registered although its unpacker could not be created (unknown user key)")
					}
				}
			}
		}
		for _, cs := range fc.AllCalls() {
			if lit := wgGoLit(fc, cs, "wg"); lit != nil {
				n++
				ok2, which := guardedByAll(cs.V)
				r.Check(ok2, r2, fc.Name+":session-goroutine", cs.Pos(), "spawned only after the packet unpacked successfully", "a session goroutine is spawned although "+which+" may have failed")
			}
			if id, ok := ast.Unparen(cs.Call.Fun).(*ast.Ident); ok && id.Name == "make" {
				if tv, ok := info.Types[cs.Call.Args[0]]; ok {
					if _, isChan := tv.Type.Underlying().(*types.Chan); isChan {
						n++
						ok2, which := guardedByAll(cs.V)
						r.Check(ok2, r2, fc.Name+":session-queue", cs.Pos(), "allocated only after the packet unpacked successfully", "a session queue is allocated although "+which+" may have failed")
					}
				}
			}
		}
		// failure edges: packet returned to the pool, no enqueue
		for _, g := range guards {
			for _, e := range g.ResultEdges(-1, WantNonNil) {
				reach := fc.G.Reach([]int{e.To}, func(v *Vertex) bool { return v.ID == g.V }, nil)
				sends, _ := chanOpsOn(fc)
				bad := false
				for _, sv := range sends {
					if reach[sv] {
						bad = true
					}
				}
				r.Check(!bad, r2, fc.Name+":failed-"+g.Fn.Name()+"-not-forwarded", g.Pos(), "a packet that failed "+g.Fn.Name()+" is never enqueued", "a packet that failed "+g.Fn.Name()+" can still be enqueued to a session")
			}
		}
		r.Count("session_creation_sites", n)
		// R3: address stores
		if unpack != nil {
			for _, v := range fc.G.V {
				if v.Node == nil {
					continue
				}
				for sel := range writeTargets(info, v.Node) {
					name := sel.Sel.Name
					if name == "clientAddrPortCache" || name == "clientPktinfoCache" {
						r.Check(unpack.SuccessGuards(v.ID), r3, fmt.Sprintf("%s:store:%s", fc.Name, name), p.posStr(sel.Pos()), "updated only after the packet unpacked (authenticated) successfully", "the session's "+name+" is updated from a packet that may have failed authentication: anyone replaying a captured packet from another address redirects the session's replies to that address")
					}
				}
			}
			for _, cs := range fc.AllCalls() {
				if sel, ok := ast.Unparen(cs.Call.Fun).(*ast.SelectorExpr); ok && sel.Sel.Name == "Store" {
					if fs, ok := ast.Unparen(sel.X).(*ast.SelectorExpr); ok && (fs.Sel.Name == "clientAddrInfo" || fs.Sel.Name == "clientPktinfo") {
						r.Check(unpack.SuccessGuards(cs.V), r3, fmt.Sprintf("%s:publish:%s", fc.Name, fs.Sel.Name), cs.Pos(), "published only after the packet unpacked successfully", "the address the downlink replies to is published from a packet that may have failed authentication")
					}
				}
			}
		}
	}
	r.Floor(r2, 20)
	r.Floor(r3, 8)
}

// loopsBack: is target reachable from start only by passing through via again (i.e. in a later iteration)?
func loopsBack(fc *FuncCtx, start, target, via int) bool {
	reach := fc.G.Reach([]int{start}, func(v *Vertex) bool { return v.ID == via }, nil)
	return !reach[target]
}

func c11R4(p *Prog, r *Report, sites []*relaySite) {
	const rule = "C11-R4"
	r.Rule(rule, "a session uses only its own objects: the session goroutine routes on the triggering packet's own source address, target and the entry's user; the uplink gets the socket opened and the packer created in that goroutine and the queue created for that entry; the downlink gets the same socket, that session's unpacker, the packer made by that entry's unpacker and the listener's own server socket; packets are enqueued on the queue of the entry looked up for their own key")
	for _, s := range sites {
		if s.Session == nil {
			continue
		}
		fc := s.Session
		info := fc.Info()
		var route, newSession, listen *CallSite
		for _, cs := range fc.AllCalls() {
			if cs.Fn == nil {
				continue
			}
			c := cs
			switch {
			case cs.Fn.Name() == "GetUDPClient":
				route = &c
			case cs.Fn.Name() == "NewSession":
				newSession = &c
			case strings.HasPrefix(cs.Fn.Name(), "ListenUDP") && listen == nil:
				listen = &c
			}
		}
		if route == nil || newSession == nil || listen == nil {
			r.Fail(rule, s.Recv.Name+":shape", p.posStr(fc.Body.Pos()), "GetUDPClient / NewSession / ListenUDP not found")
			continue
		}
		// NewSession on the routed client; ListenUDP with that session's listen config
		sel, _ := ast.Unparen(newSession.Call.Fun).(*ast.SelectorExpr)
		r.Check(sel != nil && objOf(info, sel.X) == route.ResultVar(0), rule, s.Recv.Name+":session-of-routed-client", newSession.Pos(), "NewSession is called on the client routing chose", "the client session is not created on the client chosen by routing")
		lsel, _ := ast.Unparen(listen.Call.Fun).(*ast.SelectorExpr)
		okL := false
		if lsel != nil {
			if ls2, ok := ast.Unparen(lsel.X).(*ast.SelectorExpr); ok && ls2.Sel.Name == "ListenConfig" && objOf(info, ls2.X) == newSession.ResultVar(0) {
				okL = true
			}
		}
		r.Check(okL, rule, s.Recv.Name+":socket-of-session-listen-config", listen.Pos(), "the NAT socket is opened with the client session's own ListenConfig", "the NAT socket is not opened with the chosen client's listen configuration (wrong interface / fwmark)")
		// routing request
		if cl, ok := ast.Unparen(route.Call.Args[1]).(*ast.CompositeLit); ok {
			got := map[string]string{}
			for _, el := range cl.Elts {
				if kv, ok := el.(*ast.KeyValueExpr); ok {
					got[kv.Key.(*ast.Ident).Name] = exprStr(kv.Value)
				}
			}
			okT := strings.Contains(got["TargetAddr"], "targetAddr") || strings.Contains(got["TargetAddr"], "TargetAddr")
			okS := strings.Contains(strings.ToLower(got["SourceAddrPort"]), "clientaddrport")
			okU := s.RelayType != "UDPSessionRelay" || strings.HasSuffix(got["Username"], ".username")
			okI := strings.HasSuffix(got["ServerIndex"], ".serverIndex")
			r.Check(okT && okS && okU && okI, rule, s.Recv.Name+":route-on-own-packet", route.Pos(), "routed on this packet's source, target, the entry's user and the relay's index", fmt.Sprintf("routing request is %v", got))
		}
		natConn := listen.ResultVar(0)
		sess := newSession.ResultVar(1)
		// uplink / downlink struct literals
		check := func(lc *FuncCtx, callPrefix string, want map[string]func(ast.Expr) bool, label string) {
			for _, cs := range lc.AllCalls() {
				if cs.Fn == nil || !strings.HasPrefix(cs.Fn.Name(), callPrefix) {
					continue
				}
				for _, a := range cs.Call.Args {
					cl, ok := ast.Unparen(a).(*ast.CompositeLit)
					if !ok {
						continue
					}
					for _, el := range cl.Elts {
						kv, ok := el.(*ast.KeyValueExpr)
						if !ok {
							continue
						}
						k := kv.Key.(*ast.Ident).Name
						if isSessChan(lc.Info(), kv.Value) {
							k = "natConnSendCh" // the queue field, whatever it is called
						}
						if f, ok := want[k]; ok {
							v := exprStr(kv.Value)
							r.Check(f(kv.Value), rule, fmt.Sprintf("%s:%s.%s", s.Recv.Name, label, k), p.posStr(kv.Pos()), k+": "+v, label+" is wired with "+k+": "+v+", not this session's own object")
						}
					}
				}
			}
		}
		nc := ""
		if natConn != nil {
			nc = natConn.Name()
		}
		sn := ""
		if sess != nil {
			sn = sess.Name()
		}
		isNat := func(e ast.Expr) bool { v := exprStr(e); return v == nc || strings.HasPrefix(v, nc+".") }
		str := func(f func(string) bool) func(ast.Expr) bool {
			return func(e ast.Expr) bool { return f(exprStr(e)) }
		}
		// the table entry this session belongs to: the variable looked up from / inserted into the
		// relay's table in the receive function (captured by the session closure)
		rf := s.Recv
		var entryObj types.Object
		var keyStr string
		for _, v := range rf.G.V {
			as, ok := v.Node.(*ast.AssignStmt)
			if !ok || len(as.Rhs) != 1 {
				continue
			}
			if ix, ok := ast.Unparen(as.Rhs[0]).(*ast.IndexExpr); ok && isRelayTable(rf.Info(), ix.X) {
				entryObj = objOf(rf.Info(), as.Lhs[0])
				keyStr = exprStr(ix.Index)
			}
		}
		ofEntry := func(e ast.Expr) bool {
			if u, ok := ast.Unparen(e).(*ast.UnaryExpr); ok && u.Op == token.AND {
				e = u.X
			}
			root, path, ok := pathOf(info, e)
			return ok && entryObj != nil && root == entryObj && path != ""
		}
		var packerVar types.Object
		for _, cs := range fc.AllCalls() {
			if cs.Fn != nil && cs.Fn.Name() == "NewPacker" {
				packerVar = cs.ResultVar(0)
			}
		}
		if s.UplinkLit != nil {
			check(s.UplinkLit, "relayServerConnToNatConn", map[string]func(ast.Expr) bool{
				"natConn":       isNat,
				"natConnPacker": str(func(v string) bool { return v == sn+".Packer" }),
				"natConnSendCh": func(e ast.Expr) bool { return isSessChan(info, e) },
				"username":      str(func(v string) bool { return strings.HasSuffix(v, ".username") }),
			}, "uplink")
		}
		check(fc, "relayNatConnTo", map[string]func(ast.Expr) bool{
			"natConn":         isNat,
			"natConnUnpacker": str(func(v string) bool { return v == sn+".Unpacker" }),
			"serverConn": func(e ast.Expr) bool {
				v := exprStr(fc.ResolveUp(e))
				if c, ok := ast.Unparen(e).(*ast.CallExpr); ok {
					// serverConn.NewWConn() on a local copy of lnc.serverConn
					if sel, ok := ast.Unparen(c.Fun).(*ast.SelectorExpr); ok {
						v = exprStr(fc.ResolveUp(sel.X)) + "." + sel.Sel.Name + "()"
					}
				}
				if strings.HasSuffix(v, ".serverConn") || strings.HasPrefix(v, "serverConn.") || strings.Contains(v, ".serverConn.") {
					return true
				}
				// the receive function's own socket parameter (or a write half made from it),
				// whatever it is called
				base := ast.Unparen(e)
				if c, ok := base.(*ast.CallExpr); ok {
					if sel, ok := ast.Unparen(c.Fun).(*ast.SelectorExpr); ok {
						base = ast.Unparen(sel.X)
					}
				}
				if o := objOf(info, fc.ResolveUp(base)); o != nil {
					for i := 0; rf.ParamObj(i) != nil; i++ {
						if rf.ParamObj(i) == o && strings.HasSuffix(namedTypeName(o.Type()), "Conn") {
							return true
						}
					}
				}
				return false
			},
			"serverConnPacker": func(e ast.Expr) bool { return packerVar != nil && objOf(info, e) == packerVar },
			"clientAddrInfo":   ofEntry,
			"username":         str(func(v string) bool { return strings.HasSuffix(v, ".username") }),
		}, "downlink")
		// serverConnPacker := entry.serverConnUnpacker.NewPacker()
		for _, cs := range fc.AllCalls() {
			if cs.Fn != nil && cs.Fn.Name() == "NewPacker" {
				sel, _ := ast.Unparen(cs.Call.Fun).(*ast.SelectorExpr)
				r.Check(sel != nil && ofEntry(sel.X), rule, s.Recv.Name+":packer-of-own-unpacker", cs.Pos(), "the server packer comes from this entry's unpacker", "the server packer is created by "+exprStr(cs.Call.Fun))
			}
		}
		// enqueue: entry.natConnSendCh where entry is the lookup result for this packet's key
		sends, _ := chanOpsOn(rf)
		for i, sv := range sends {
			ss := rf.G.V[sv].Node.(*ast.SendStmt)
			sel, ok := ast.Unparen(ss.Chan).(*ast.SelectorExpr)
			r.Check(ok && entryObj != nil && objOf(rf.Info(), sel.X) == entryObj, rule, fmt.Sprintf("%s:enqueue#%d-on-own-entry", rf.Name, i), p.posStr(ss.Pos()), "enqueued on the queue of the entry looked up under key "+keyStr, "the packet is enqueued on a queue that is not the looked-up entry's")
		}
		// the insert key equals the lookup key
		for _, v := range rf.G.V {
			if as, ok := v.Node.(*ast.AssignStmt); ok && len(as.Lhs) == 1 {
				if ix, ok := ast.Unparen(as.Lhs[0]).(*ast.IndexExpr); ok && isRelayTable(rf.Info(), ix.X) {
					r.Check(exprStr(ix.Index) == keyStr && objOf(rf.Info(), as.Rhs[0]) == entryObj, rule, rf.Name+":insert-under-lookup-key", p.posStr(as.Pos()), "the entry is inserted under the key it was looked up with", "the new entry is inserted under "+exprStr(ix.Index)+" but was looked up under "+keyStr)
				}
			}
		}
	}
	r.Floor(rule, 60)
}

func c11R5(p *Prog, r *Report, sites []*relaySite) {
	const rule = "C11-R5"
	r.Rule(rule, "sibling agreement: within each relay type the generic and the recvmmsg/sendmmsg variants perform the same protocol steps in the same order (lookup, unpacker creation, unpack, insert, spawn, route, client session, socket, deadline, packer, state swap, uplink spawn, downlink), and the transparent relay performs the same steps minus unpacking and server packer")
	vocab := []string{"SessionInfo", "NewUnpacker", "UnpackInPlace", "GetUDPClient", "NewSession", "ListenUDP", "SetReadDeadline", "NewPacker", "Swap", "relayServerConnToNatConn", "relayNatConnTo"}
	steps := func(s *relaySite) []string {
		var out []string
		add := func(x string) {
			if len(out) == 0 || out[len(out)-1] != x {
				out = append(out, x)
			}
		}
		var walk func(fc *FuncCtx)
		walk = func(fc *FuncCtx) {
			// in source order, including nested literals
			ast.Inspect(fc.Body, func(n ast.Node) bool {
				switch x := n.(type) {
				case *ast.IndexExpr:
					if isRelayTable(fc.Info(), x.X) {
						add("table")
					}
				case *ast.CallExpr:
					name := ""
					switch f := ast.Unparen(x.Fun).(type) {
					case *ast.SelectorExpr:
						name = f.Sel.Name
					case *ast.Ident:
						name = f.Name
					}
					if name == "Go" {
						add("spawn")
					}
					for _, v := range vocab {
						if strings.HasPrefix(name, v) {
							add(v)
						}
					}
				}
				return true
			})
		}
		walk(s.Recv)
		return out
	}
	byType := map[string][]*relaySite{}
	for _, s := range sites {
		byType[s.RelayType] = append(byType[s.RelayType], s)
	}
	for _, rt := range []string{"UDPNATRelay", "UDPSessionRelay"} {
		ss := byType[rt]
		if len(ss) != 2 {
			r.Fail(rule, "service."+rt+":variants", "", fmt.Sprintf("expected a generic and an mmsg receive function, found %d", len(ss)))
			continue
		}
		a, b := steps(ss[0]), steps(ss[1])
		r.Check(strings.Join(a, " ") == strings.Join(b, " "), rule, "service."+rt+":generic~mmsg", p.posStr(ss[0].Recv.Body.Pos()), strings.Join(a, " → "), fmt.Sprintf("the two variants differ:\n  %s: %s\n  %s: %s", ss[0].Recv.Obj.Name(), strings.Join(a, " → "), ss[1].Recv.Obj.Name(), strings.Join(b, " → ")))
	}
	if ts := byType["UDPTransparentRelay"]; len(ts) == 1 && len(byType["UDPNATRelay"]) > 0 {
		want := steps(byType["UDPNATRelay"][0])
		var filtered []string
		for _, x := range want {
			if x == "NewUnpacker" || x == "UnpackInPlace" || x == "NewPacker" {
				continue
			}
			if len(filtered) == 0 || filtered[len(filtered)-1] != x {
				filtered = append(filtered, x)
			}
		}
		got := steps(ts[0])
		// the transparent relay's downlink is named differently but still starts with relayNatConnTo
		r.Check(strings.Join(got, " ") == strings.Join(filtered, " "), rule, "service.UDPTransparentRelay~UDPNATRelay", p.posStr(ts[0].Recv.Body.Pos()), strings.Join(got, " → "), fmt.Sprintf("transparent relay steps differ from the NAT relay's minus unpacking:\n  transparent: %s\n  expected:    %s", strings.Join(got, " → "), strings.Join(filtered, " → ")))
	}
	r.Floor(rule, 3)
}

// c11R6: a message header's Name field holds a *pointer* to the destination sockaddr. When the
// headers are initialised from a pointer variable, re-pointing that variable later (a client whose
// address changed) does not move the headers: every later definition of the variable must be
// followed, before the next batch write, by stores of the new pointer into the headers. (Headers
// that point at a local sockaddr which is rewritten in place need nothing.)
func c11R6(p *Prog, r *Report) {
	const rule = "C11-R6"
	r.Rule(rule, "batch sends go to the current address: in every function of package service that stores a pointer variable into Msghdr.Name of a message vector, each definition of that variable is followed on every path to the next WriteMsgs by a loop (or statement) storing it into the headers again; a header that points at the address of a local sockaddr (rewritten in place) is exempt")
	pkg := p.Pkg("service")
	n := 0
	p.AllFuncs(pkg, func(top *FuncCtx) {
		for _, fc := range allCtxs(p, top) {
			info := fc.Info()
			stores := map[types.Object][]int{}
			for _, v := range fc.G.V {
				as, ok := v.Node.(*ast.AssignStmt)
				if !ok || v.Kind != VStmt || len(as.Lhs) != 1 || len(as.Rhs) != 1 {
					continue
				}
				sel, ok := ast.Unparen(as.Lhs[0]).(*ast.SelectorExpr)
				if !ok || sel.Sel.Name != "Name" || namedTypeName(info.TypeOf(sel.X)) != "Msghdr" {
					continue
				}
				o, _ := objOf(info, as.Rhs[0]).(*types.Var)
				if o == nil {
					continue // address of a sockaddr: updated in place
				}
				if _, isPtr := o.Type().Underlying().(*types.Pointer); !isPtr {
					continue
				}
				stores[o] = append(stores[o], v.ID)
			}
			for o, svs := range stores {
				block := map[int]bool{}
				for _, sv := range svs {
					block[sv] = true
					// the loop whose every iteration performs the store counts as the store
					for _, h := range fc.G.V {
						if h.Kind != VRange {
							continue
						}
						body := h.Stmt.(*ast.RangeStmt).Body
						n := fc.G.V[sv].Node
						if body.Pos() <= n.Pos() && n.End() <= body.End() {
							var starts []int
							for _, e := range h.Succs {
								if e.Label == LTrue {
									starts = append(starts, e.To)
								}
							}
							if !fc.G.Reach(starts, func(u *Vertex) bool { return u.ID == sv }, nil)[h.ID] {
								block[h.ID] = true
							}
						}
					}
				}
				var sends []int
				for _, cs := range fc.AllCalls() {
					if cs.Fn != nil && (cs.Fn.Name() == "WriteMsgs" || cs.Fn.Name() == "SendMsgs") {
						sends = append(sends, cs.V)
					}
				}
				for i, d := range fc.Defs(o) {
					n++
					reach := fc.G.ReachAfter(d, func(u *Vertex) bool { return block[u.ID] }, nil)
					bad := false
					for _, sv := range sends {
						if reach[sv] {
							bad = true
						}
					}
					r.Check(!bad, rule, fmt.Sprintf("%s:%s-def#%d-reaches-headers", fc.Name, o.Name(), i), p.posStr(fc.G.V[d].Node.Pos()), "every definition of the destination pointer is stored into the message headers before the next batch write", "the destination pointer "+o.Name()+" is re-pointed ("+exprStr(fc.G.V[d].Node)+") but the message headers keep the old pointer: after the client's address changes, replies are still sent to the old address")
				}
			}
		}
	})
	r.Count("destination_pointer_definitions", n)
	nBlocks := addrChangeBlocks(p, r, rule, true, true)
	r.Count("address_change_blocks", nBlocks)
	r.Floor(rule, 3)
}

// addrChangeBlocks decides the update blocks of the session relays' downlinks (shared by C11-R6
// and C05-R8): freshRecord checks that every field of the address record is read through the
// freshly loaded pointer; rederive checks that what was computed from the address is computed
// again on every path through the block. Returns the number of blocks found.
func addrChangeBlocks(p *Prog, r *Report, rule string, freshRecord, rederive bool) int {
	pkg := p.Pkg("service")
	// the update block of a session whose client address changed: `if fresh := X.Load(); fresh !=
	// current { … }`. Inside it every field of the address record is read through the freshly
	// loaded pointer (or a local that was just assigned from it), never through an older
	// snapshot of the record — the destination, packet info and size limit all move together.
	nBlocks := 0
	p.AllFuncs(pkg, func(top *FuncCtx) {
		for _, fc := range allCtxs(p, top) {
			info := fc.Info()
			for _, cv := range fc.G.V {
				x, y, op, ok := condParts(cv)
				if !ok || y == nil || op != token.NEQ {
					continue
				}
				xo, yo := objOf(info, x), objOf(info, y)
				if xo == nil || yo == nil {
					continue
				}
				pt, isPtr := xo.Type().Underlying().(*types.Pointer)
				if !isPtr || !types.Identical(xo.Type(), yo.Type()) {
					continue
				}
				if _, isStruct := pt.Elem().Underlying().(*types.Struct); !isStruct {
					continue
				}
				// which of the two is the fresh load
				isLoad := func(o types.Object) bool {
					rhs, _, _, okd := fc.SoleDefRHS(o)
					if !okd {
						return false
					}
					c, okc := ast.Unparen(rhs).(*ast.CallExpr)
					return okc && isAtomicPointerOp(Callee(info, c), "Load")
				}
				var fresh types.Object
				switch {
				case isLoad(xo):
					fresh = xo
				case isLoad(yo):
					fresh = yo
				default:
					continue
				}
				nBlocks++
				var te []Edge
				for _, e := range cv.Succs {
					if e.Label == LTrue {
						te = append(te, e)
					}
				}
				bad := ""
				for _, v := range fc.G.V {
					if v.Node == nil || v.ID == cv.ID || !fc.G.EdgeDominates(te, v.ID) {
						continue
					}
					// still inside the block: the block ends where both edges of the test meet again
					if fc.G.Reach([]int{cv.ID}, nil, func(e Edge) bool { return e.From == cv.ID && e.Label == LTrue })[v.ID] {
						continue
					}
					inspectNoLit(v.Node, func(nd ast.Node) bool {
						sel, oks := nd.(*ast.SelectorExpr)
						if !oks {
							return true
						}
						bt := info.TypeOf(sel.X)
						if bt == nil {
							return true
						}
						if bp, okp := bt.Underlying().(*types.Pointer); okp {
							bt = bp.Elem()
						}
						if !types.Identical(bt, pt.Elem()) {
							return true
						}
						if sl, okl := info.Selections[sel]; !okl || sl.Kind() != types.FieldVal {
							return true
						}
						root := objOf(info, sel.X)
						good := root == fresh
						if !good && root != nil {
							// a local that, here, holds a copy of the fresh pointer
							good = copyOfVar(fc, v.ID, root, fresh, 0)
						}
						if !good {
							bad = exprStr(sel)
						}
						return true
					})
				}
				// what was derived from the address before (size limit …) is derived again, on every
				// path through the block
				inBlock := func(id int) bool { return id != cv.ID && fc.G.EdgeDominates(te, id) }
				addrVars := map[types.Object]bool{}
				for _, v := range fc.G.V {
					as, isAs := v.Node.(*ast.AssignStmt)
					if !isAs || !inBlock(v.ID) || len(as.Lhs) != len(as.Rhs) {
						continue
					}
					for i, l := range as.Lhs {
						if sel, oks := ast.Unparen(as.Rhs[i]).(*ast.SelectorExpr); oks && objOf(info, sel.X) == fresh {
							if lo := objOf(info, l); lo != nil {
								addrVars[lo] = true
							}
						}
					}
				}
				stale := ""
				for _, v := range fc.G.V {
					as, isAs := v.Node.(*ast.AssignStmt)
					if !isAs || inBlock(v.ID) || len(as.Lhs) != len(as.Rhs) {
						continue
					}
					for i, l := range as.Lhs {
						d := objOf(info, l)
						if d == nil || addrVars[d] {
							continue
						}
						uses := false
						for av := range addrVars {
							if usesObj(info, as.Rhs[i], av, false) {
								uses = true
							}
						}
						if !uses {
							continue
						}
						// d is derived from the address: every path through the block redefines it
						isDef := map[int]bool{}
						for _, dv := range fc.Defs(d) {
							if inBlock(dv) {
								isDef[dv] = true
							}
						}
						var starts []int
						for _, e := range te {
							starts = append(starts, e.To)
						}
						reach := fc.G.Reach(starts, func(u *Vertex) bool { return isDef[u.ID] }, nil)
						for id := range fc.G.V {
							if reach[id] && !inBlock(id) {
								stale = d.Name()
							}
						}
					}
				}
				if rederive {
					r.Check(stale == "", rule, fmt.Sprintf("%s:address-change-rederives@%s", fc.Name, exprStr(cv.Node)), p.posStr(cv.Node.Pos()), "everything computed from the client address is computed again on every path through the update", "when the client's address changes, "+stale+" (computed from the address when the session started) is not recomputed on every path: replies to the new address are sized or addressed with the old address's value")
				}
				if freshRecord {
					r.Check(bad == "", rule, fmt.Sprintf("%s:address-change-uses-fresh-record@%s", fc.Name, exprStr(cv.Node)), p.posStr(cv.Node.Pos()), "every field of the client address record read while switching to the new address comes from the freshly loaded record", "while switching a session to the client's new address, "+bad+" is read from an older snapshot of the address record instead of the freshly loaded one: replies keep going to the previous address (or are sized / tagged for it)")
				}
			}
		}
	})
	return nBlocks
}

// c11R7: the receive loop's control-message buffers never leave the loop. Each listener loop reads
// ancillary data (the client's pktinfo: which local address/interface the datagram arrived on) into
// a buffer it reuses for the next datagram. What is remembered for a session and published to the
// session's downlink goroutine must be a private copy; a slice of the receive buffer would be
// overwritten by the next datagram of ANY client while the downlink is reading it, and replies
// would leave from the wrong local address or carry a torn control message.
func c11R7(p *Prog, r *Report) {
	const rule = "C11-R7"
	r.Rule(rule, "receive buffers for ancillary data are not retained: a byte slice handed as the out-of-band buffer to ReadMsgUDPAddrPort, or whose data pointer is stored into a Msghdr.Control field (recvmmsg), and every slice of it (through locals and the vector that holds the per-message buffers), is only compared, copied from, parsed or measured — it is never stored into a struct field, put into a composite literal, passed to an atomic Store, sent on a channel or have its address taken")
	pkg := p.Pkg("service")
	nBuf, nUse := 0, 0
	p.AllFuncs(pkg, func(top *FuncCtx) {
		ctxs := allCtxs(p, top)
		info := top.Info()
		taint := map[types.Object]bool{}
		// seeds
		for _, fc := range ctxs {
			for _, cs := range fc.AllCalls() {
				if cs.Fn != nil && cs.Fn.Name() == "ReadMsgUDPAddrPort" && len(cs.Call.Args) == 2 {
					if root, _, ok := bufRoot(info, cs.Call.Args[1]); ok {
						taint[root] = true
					}
				}
				if cs.Fn != nil && cs.Fn.Name() == "SliceData" && cs.Fn.Pkg() != nil && cs.Fn.Pkg().Path() == "unsafe" {
					// only when the result lands in a Control field
					v := fc.G.V[cs.V]
					if as, ok := v.Node.(*ast.AssignStmt); ok && len(as.Lhs) == 1 {
						if sel, isSel := ast.Unparen(as.Lhs[0]).(*ast.SelectorExpr); isSel && sel.Sel.Name == "Control" {
							if root, _, ok := bufRoot(info, cs.Call.Args[0]); ok {
								taint[root] = true
							}
						}
					}
				}
			}
		}
		// unsafe.SliceData is a builtin-like function without a *types.Func: scan by syntax too
		for _, fc := range ctxs {
			for _, v := range fc.G.V {
				as, ok := v.Node.(*ast.AssignStmt)
				if !ok || len(as.Lhs) != 1 || len(as.Rhs) != 1 {
					continue
				}
				sel, isSel := ast.Unparen(as.Lhs[0]).(*ast.SelectorExpr)
				if !isSel || sel.Sel.Name != "Control" {
					continue
				}
				if c, isC := ast.Unparen(as.Rhs[0]).(*ast.CallExpr); isC && len(c.Args) == 1 && strings.HasSuffix(exprStr(c.Fun), "SliceData") {
					if root, _, ok := bufRoot(info, c.Args[0]); ok {
						taint[root] = true
					}
				}
			}
		}
		if len(taint) == 0 {
			return
		}
		// propagate: x := tainted[...]  /  vec[i] = tainted  (vec becomes a tainted container)
		isTainted := func(e ast.Expr) bool {
			root, _, ok := bufRoot(info, e)
			return ok && taint[root]
		}
		for changed := true; changed; {
			changed = false
			for _, fc := range ctxs {
				for _, v := range fc.G.V {
					switch st := v.Node.(type) {
					case *ast.AssignStmt:
						if v.Kind != VStmt || len(st.Lhs) != len(st.Rhs) {
							continue
						}
						for i, l := range st.Lhs {
							if !isTainted(st.Rhs[i]) {
								continue
							}
							switch lx := ast.Unparen(l).(type) {
							case *ast.Ident:
								if o := objOf(info, lx); o != nil && !taint[o] {
									taint[o] = true
									changed = true
								}
							case *ast.IndexExpr:
								if o := objOf(info, lx.X); o != nil && !taint[o] {
									if vv, isVar := o.(*types.Var); isVar && !vv.IsField() && vv.Parent() != vv.Pkg().Scope() {
										taint[o] = true
										changed = true
									}
								}
							}
						}
					case *ast.ValueSpec:
						for i, id := range st.Names {
							if i < len(st.Values) && isTainted(st.Values[i]) {
								if o := info.Defs[id]; o != nil && !taint[o] {
									taint[o] = true
									changed = true
								}
							}
						}
					}
				}
			}
		}
		nBuf += len(taint)
		// sinks
		for _, fc := range ctxs {
			report := func(pos token.Pos, e ast.Expr, how string) {
				nUse++
				r.Fail(rule, fmt.Sprintf("%s:receive-buffer-retained:%s", top.Name, how), p.posStr(pos), "the control-message receive buffer (or a slice of it) "+exprStr(e)+" is "+how+": the next datagram read by this loop overwrites it while the session's other goroutine still uses it, so replies leave with another client's local address / interface or a torn control message")
			}
			for _, v := range fc.G.V {
				for _, nd := range vertexNodes(v) {
					if nd == nil {
						continue
					}
					inspectNoLit(nd, func(x ast.Node) bool {
						switch y := x.(type) {
						case *ast.CompositeLit:
							for _, el := range y.Elts {
								val := el
								if kv, isKV := el.(*ast.KeyValueExpr); isKV {
									val = kv.Value
								}
								if isTainted(val) {
									report(val.Pos(), val, "put into a composite literal")
								}
							}
						case *ast.UnaryExpr:
							if y.Op == token.AND && isTainted(y.X) {
								if _, isIdx := ast.Unparen(y.X).(*ast.IndexExpr); !isIdx {
									report(y.Pos(), y.X, "has its address taken")
								}
							}
						case *ast.SendStmt:
							if isTainted(y.Value) {
								report(y.Pos(), y.Value, "sent on a channel")
							}
						case *ast.CallExpr:
							if sel, isSel := ast.Unparen(y.Fun).(*ast.SelectorExpr); isSel && (sel.Sel.Name == "Store" || sel.Sel.Name == "Swap" || sel.Sel.Name == "CompareAndSwap") {
								for _, a := range y.Args {
									if isTainted(a) {
										report(a.Pos(), a, "passed to an atomic store")
									}
								}
							}
						case *ast.AssignStmt:
							for i, l := range y.Lhs {
								if i >= len(y.Rhs) || !isTainted(y.Rhs[i]) {
									continue
								}
								if sel, isSel := ast.Unparen(l).(*ast.SelectorExpr); isSel {
									if s := info.Selections[sel]; s != nil && s.Kind() == types.FieldVal {
										report(y.Pos(), y.Rhs[i], "stored into field "+exprStr(l))
									}
								}
							}
						}
						return true
					})
				}
			}
			// uses counted for the floor: every mention of a tainted variable
			for _, v := range fc.G.V {
				for _, nd := range vertexNodes(v) {
					if nd == nil {
						continue
					}
					inspectNoLit(nd, func(x ast.Node) bool {
						if id, ok := x.(*ast.Ident); ok {
							if o := info.Uses[id]; o != nil && taint[o] {
								r.OK(rule, fmt.Sprintf("%s:receive-buffer-use:%s", top.Name, roleOf(fc, id)), p.posStr(id.Pos()), "the receive buffer is only read here")
							}
						}
						return true
					})
				}
			}
		}
	})
	r.Count("receive_buffer_variables", nBuf)
	r.Check(nBuf >= 5, rule, "service:control-message-buffers-found", "", "the control-message buffers of the listener loops were found", fmt.Sprintf("only %d control-message receive buffer variables found in package service (expected the five relays' buffers)", nBuf))
	r.Floor(rule, 10)
}

// bufRoot returns the variable at the root of an expression built from an identifier by slicing
// and indexing only (x, x[a:b], x[i], x[i][a:b], …).
func bufRoot(info *types.Info, e ast.Expr) (types.Object, int, bool) {
	depth := 0
	for {
		switch x := ast.Unparen(e).(type) {
		case *ast.SliceExpr:
			e = x.X
			depth++
			continue
		case *ast.IndexExpr:
			e = x.X
			depth++
			continue
		case *ast.Ident:
			o := objOf(info, x)
			if v, ok := o.(*types.Var); ok && !v.IsField() {
				if _, isSl := v.Type().Underlying().(*types.Slice); isSl {
					return o, depth, true
				}
			}
			return nil, 0, false
		}
		return nil, 0, false
	}
}
