package main

import (
	"fmt"
	"go/ast"
	"go/token"
	"go/types"
	"strings"
)

func init() {
	register(&PropCheck{ID: "C12", Pkgs: []string{"./service"}, Run: runC12})
}

func runC12(p *Prog, r *Report) {
	r.Explanation = "Structural necessary conditions of 'UDP sessions end cleanly: idle eviction, restart after eviction, prompt shutdown', decided for every relay variant (NAT / session / transparent, generic and mmsg): the session table and each session's send channel are touched only under the relay mutex and a session is unregistered (channel closed + entry deleted) in one critical section; session initialisation releases the socket and the client session on every exit or hands them to the uplink goroutine that closes them; initialisation and Stop hand off through one atomic Swap each; Stop forces the receive loops, waits for them, then sweeps the table, then waits for the sessions, then closes the sockets; the uplink does not push the NAT socket's read deadline forward after shutdown began; the downlink ends only on its read deadline, which starts at the configured NAT timeout."
	r.NotDecided = []string{"goroutine / descriptor counts at run time", "actual promptness in seconds", "kernel behaviour of deadlines"}
	r.Assumptions = []string{"sync.Mutex, sync.WaitGroup.Go/Wait, atomic.Pointer.Swap as documented", "SetReadDeadline in the past wakes a blocked reader with os.ErrDeadlineExceeded", "the service manager cancels the context passed to Start before calling Stop (service.(*Manager).Run, checked)"}
	sites := discoverRelays(p)
	r.Count("relay_receive_functions", len(sites))
	if len(sites) < 5 {
		r.Rule("C12-R1", "")
		r.Fail("C12-R1", "service:relay-variants", "", fmt.Sprintf("found %d relay receive functions, 5 were reviewed (NAT generic/mmsg, session generic/mmsg, transparent)", len(sites)))
	}
	c12R1(p, r, sites)
	c12R2(p, r, sites)
	c12R3(p, r, sites)
	c12R4(p, r, sites)
	c12R5(p, r, sites)
	c12R6(p, r, sites)
	c12R7(p, r)
	c12R9(p, r, sites)
	const r8 = "C12-R8"
	r.Rule(r8, "lock balance in package service: in every function and for every mutex it operates on, Lock/RLock is reached only with the mutex not held by the function, Unlock/RUnlock only with the matching lock held, and the function ends with the mutex released (or releases it in a deferred call) — on every path, including the error paths of the receive loops")
	nb := lockBalance(p, r, r8, "service", nil)
	r.Count("lock_operations_checked", nb)
	r.Floor(r8, 40)
}

func relayLockStates(fc *FuncCtx) []LockState {
	return fc.LockStates(relayMuKey(fc), LUnlocked)
}

// chanOpsOn lists send statements and close() calls on expressions whose last selector/ident is name.
func chanOpsOn(fc *FuncCtx) (sends, closes []int) {
	isName := func(e ast.Expr) bool { return isSessChan(fc.Info(), e) }
	for _, v := range fc.G.V {
		if ss, ok := v.Node.(*ast.SendStmt); ok && isName(ss.Chan) {
			sends = append(sends, v.ID)
		}
	}
	for _, cs := range fc.AllCalls() {
		if id, ok := ast.Unparen(cs.Call.Fun).(*ast.Ident); ok && id.Name == "close" && len(cs.Call.Args) == 1 && isName(cs.Call.Args[0]) {
			closes = append(closes, cs.V)
		}
	}
	return
}

func c12R1(p *Prog, r *Report, sites []*relaySite) {
	const rule = "C12-R1"
	r.Rule(rule, "lockset: every access to a relay's session table, every enqueue on a session's send channel and the close of that channel happen with the relay mutex held; unregistering a session closes the channel and deletes the table entry inside one critical section (otherwise a packet is sent on a closed channel — panic — or queued to a dead session)")
	pkg := p.Pkg("service")
	// table accesses anywhere in the package
	p.AllFuncs(pkg, func(top *FuncCtx) {
		recv := top.RecvObj()
		if recv == nil {
			return
		}
		rt := namedTypeName(recv.Type())
		isRelay := false
		for _, t := range relayTypes {
			if t == rt {
				isRelay = true
			}
		}
		if !isRelay {
			return
		}
		for _, fc := range allCtxs(p, top) {
			acc := fc.FieldAccesses(mp("service"), rt, map[string]bool{relayTableField(p, rt): true})
			if len(acc) == 0 {
				continue
			}
			if top.Obj.Name() == "New"+rt {
				continue
			}
			states := relayLockStates(fc)
			for i, a := range acc {
				// range over the table: the range head evaluates s.table at the `range X` vertex
				r.Check(states[a.V] == LWrite, rule, fmt.Sprintf("%s:table#%d", fc.Name, i), p.posStr(a.Sel.Pos()), "table access with the relay mutex held", "session table accessed with the relay mutex "+states[a.V].String()+" (concurrent map access; sessions registered or removed behind Stop's back)")
			}
		}
	})
	for _, s := range sites {
		if s.Session == nil || s.Cleanup == nil {
			r.Fail(rule, s.Recv.Name+":session-closure", p.posStr(s.Recv.Body.Pos()), "no session goroutine with a deferred cleanup found")
			continue
		}
		// enqueue under lock
		st := relayLockStates(s.Recv)
		sends, _ := chanOpsOn(s.Recv)
		for i, sv := range sends {
			state := st[sv]
			// select comm: evaluated at the select head
			for _, hv := range s.Recv.G.V {
				if hv.Kind == VSelect {
					for _, cl := range hv.Stmt.(*ast.SelectStmt).Body.List {
						if cl.(*ast.CommClause).Comm == s.Recv.G.V[sv].Node {
							state = st[hv.ID]
						}
					}
				}
			}
			r.Check(state == LWrite, rule, fmt.Sprintf("%s:enqueue#%d", s.Recv.Name, i), p.posStr(s.Recv.G.V[sv].Node.Pos()), "packet enqueued with the relay mutex held", "a packet is enqueued on a session's channel without the relay mutex: the session goroutine may close the channel concurrently (send on closed channel panics the process)")
			// non-blocking
			nb := false
			for _, hv := range s.Recv.G.V {
				if hv.Kind == VSelect {
					hasDefault, mine := false, false
					for _, cl := range hv.Stmt.(*ast.SelectStmt).Body.List {
						cc := cl.(*ast.CommClause)
						if cc.Comm == nil {
							hasDefault = true
						} else if cc.Comm == s.Recv.G.V[sv].Node {
							mine = true
						}
					}
					if hasDefault && mine {
						nb = true
					}
				}
			}
			r.Check(nb, rule, fmt.Sprintf("%s:enqueue#%d-non-blocking", s.Recv.Name, i), p.posStr(s.Recv.G.V[sv].Node.Pos()), "enqueue is a select with default (drops when full)", "the enqueue can block while the relay mutex is held: one slow session stalls every session and Stop")
		}
		if len(sends) == 0 {
			r.Fail(rule, s.Recv.Name+":enqueue", p.posStr(s.Recv.Body.Pos()), "no enqueue on a session queue found")
		}
		// cleanup: close + delete in one critical section
		cst := relayLockStates(s.Cleanup)
		_, closes := chanOpsOn(s.Cleanup)
		var deletes []int
		for _, cs := range s.Cleanup.AllCalls() {
			if id, ok := ast.Unparen(cs.Call.Fun).(*ast.Ident); ok && id.Name == "delete" && len(cs.Call.Args) == 2 && isRelayTable(s.Cleanup.Info(), cs.Call.Args[0]) {
				deletes = append(deletes, cs.V)
			}
		}
		okOne := len(closes) == 1 && len(deletes) == 1
		if okOne {
			c, d := closes[0], deletes[0]
			okOne = cst[c] == LWrite && cst[d] == LWrite
			// no unlock between them
			lo, hi := c, d
			if s.Cleanup.G.ReachAfter(d, nil, nil)[c] {
				lo, hi = d, c
			}
			between := s.Cleanup.G.ReachAfter(lo, func(v *Vertex) bool { return v.ID == hi }, nil)
			for _, cs := range s.Cleanup.AllCalls() {
				op, mu := mutexOp(s.Cleanup.Info(), cs.Call)
				if op == opUnlock && pathKey(s.Cleanup.Info(), mu) == relayMuKey(s.Cleanup) && between[cs.V] && s.Cleanup.G.Reach([]int{cs.V}, nil, nil)[hi] {
					okOne = false
				}
			}
			// both on every path of the cleanup
			okOne = okOne && s.Cleanup.G.Dominates([]int{c}, s.Cleanup.G.Exit) && s.Cleanup.G.Dominates([]int{d}, s.Cleanup.G.Exit)
		}
		r.Check(okOne, rule, s.Recv.Name+":unregister-atomically", p.posStr(s.Cleanup.Body.Pos()), "close(channel) and delete(table entry) run on every exit, both under the relay mutex, with no unlock in between",
			"the session's channel is closed and its table entry deleted in separate critical sections (or outside the lock): a packet dispatched in between is sent on a closed channel (panic) or queued to a session that is gone")
		// the key deleted is the key inserted
		var insKey, delKey string
		for _, v := range s.Recv.G.V {
			if as, ok := v.Node.(*ast.AssignStmt); ok && len(as.Lhs) == 1 {
				if ix, ok := ast.Unparen(as.Lhs[0]).(*ast.IndexExpr); ok && isRelayTable(s.Recv.Info(), ix.X) {
					insKey = exprStr(ix.Index)
				}
			}
		}
		for _, cs := range s.Cleanup.AllCalls() {
			if id, ok := ast.Unparen(cs.Call.Fun).(*ast.Ident); ok && id.Name == "delete" && len(cs.Call.Args) == 2 {
				delKey = exprStr(cs.Call.Args[1])
			}
		}
		r.Check(insKey != "" && insKey == delKey, rule, s.Recv.Name+":same-key", p.posStr(s.Cleanup.Body.Pos()), "the entry deleted is the entry inserted ("+insKey+")", "inserted under "+insKey+" but deleted under "+delKey)
		// drained unless handed off
		drained := false
		for _, v := range s.Cleanup.G.V {
			if v.Kind == VRange {
				if isSessChan(s.Cleanup.Info(), v.Stmt.(*ast.RangeStmt).X) {
					drained = true
				}
			}
		}
		r.Check(drained, rule, s.Recv.Name+":drains-queue", p.posStr(s.Cleanup.Body.Pos()), "queued packets are returned to the pool when the uplink never started", "packets queued to a session whose initialisation failed are never released")
	}
	r.Floor(rule, 43)
}

func c12R2(p *Prog, r *Report, sites []*relaySite) {
	const rule = "C12-R2"
	r.Rule(rule, "session initialisation releases what it acquired on every exit: from the success edge of ListenUDP every path to the end of the session goroutine closes the socket or passes the hand-off point, likewise the client session from NewSession's success edge; after the hand-off the uplink goroutine closes both once its relay loop returned; the cleanup is deferred before anything can return")
	for _, s := range sites {
		if s.Session == nil {
			continue
		}
		fc := s.Session
		info := fc.Info()
		var listen, newSession *CallSite
		for _, cs := range fc.AllCalls() {
			if cs.Fn == nil {
				continue
			}
			c := cs
			if cs.Fn.Name() == "NewSession" {
				newSession = &c
			}
			if strings.HasPrefix(cs.Fn.Name(), "ListenUDP") || cs.Fn.Name() == "newTransparentConn" {
				if listen == nil {
					listen = &c
				}
			}
		}
		if listen == nil || newSession == nil {
			r.Fail(rule, s.Recv.Name+":acquisitions", p.posStr(fc.Body.Pos()), "NewSession / ListenUDP not found in the session goroutine")
			continue
		}
		// hand-off: assignment `<bool var> = true` read by the deferred cleanup
		handoff := -1
		for _, v := range fc.G.V {
			if as, ok := v.Node.(*ast.AssignStmt); ok && len(as.Lhs) == 1 && len(as.Rhs) == 1 && exprStr(as.Rhs[0]) == "true" {
				if o := objOf(info, as.Lhs[0]); o != nil && s.Cleanup != nil && usesObj(info, s.Cleanup.Body, o, true) {
					handoff = v.ID
				}
			}
		}
		r.Check(handoff >= 0, rule, s.Recv.Name+":hand-off-point", p.posStr(fc.Body.Pos()), "a hand-off flag tells the cleanup that the uplink now owns the queue", "no hand-off point found")
		closeSites := func(obj types.Object, field string) map[int]bool {
			out := map[int]bool{}
			for _, cs := range fc.AllCalls() {
				sel, ok := ast.Unparen(cs.Call.Fun).(*ast.SelectorExpr)
				if !ok || sel.Sel.Name != "Close" {
					continue
				}
				if objOf(info, sel.X) == obj && field == "" {
					out[cs.V] = true
				}
			}
			return out
		}
		natConn := listen.ResultVar(0)
		sess := newSession.ResultVar(1)
		for _, acq := range []struct {
			name string
			cs   *CallSite
			obj  types.Object
		}{{"socket", listen, natConn}, {"client-session", newSession, sess}} {
			cl := closeSites(acq.obj, "")
			for _, e := range acq.cs.ResultEdges(-1, WantNil) {
				reach := fc.G.Reach([]int{e.To}, func(v *Vertex) bool { return cl[v.ID] || v.ID == handoff }, nil)
				r.Check(!reach[fc.G.Exit], rule, s.Recv.Name+":"+acq.name+"-released-on-every-exit", acq.cs.Pos(), "every path from the acquisition to the end closes it or hands it off", "an exit of session initialisation leaks the "+acq.name+" (descriptor / upstream association leak for every failed initialisation)")
			}
		}
		// uplink literal closes both after the relay call
		if s.UplinkLit != nil {
			ul := s.UplinkLit
			var relayCall = -1
			for _, cs := range ul.AllCalls() {
				if cs.Fn != nil && strings.HasPrefix(cs.Fn.Name(), "relayServerConnToNatConn") {
					relayCall = cs.V
				}
			}
			for _, acq := range []struct {
				name string
				obj  types.Object
			}{{"socket", natConn}, {"client-session", sess}} {
				ok := false
				for _, cs := range ul.AllCalls() {
					if sel, isSel := ast.Unparen(cs.Call.Fun).(*ast.SelectorExpr); isSel && sel.Sel.Name == "Close" && objOf(ul.Info(), sel.X) == acq.obj {
						if relayCall >= 0 && ul.G.Dominates([]int{relayCall}, cs.V) && ul.G.Dominates([]int{cs.V}, ul.G.Exit) {
							ok = true
						}
					}
				}
				r.Check(ok, rule, s.Recv.Name+":uplink-closes-"+acq.name, p.posStr(ul.Body.Pos()), "closed after the uplink loop returned", "after the hand-off nobody closes the "+acq.name)
			}
			// the uplink is spawned only after the hand-off
			for _, cs := range fc.AllCalls() {
				if lit := wgGoLit(fc, cs, "wg"); lit != nil && handoff >= 0 {
					r.Check(fc.G.Dominates([]int{handoff}, cs.V), rule, s.Recv.Name+":uplink-after-hand-off", cs.Pos(), "uplink goroutine started after the hand-off point", "the uplink goroutine can start on a path where the cleanup still believes it owns the queue (double drain / double close)")
				}
			}
		} else {
			r.Fail(rule, s.Recv.Name+":uplink-goroutine", p.posStr(fc.Body.Pos()), "no uplink goroutine found")
		}
		// deferred cleanup registered first
		regOK := false
		for _, d := range fc.G.Defers {
			if s.Cleanup != nil && ast.Unparen(fc.G.V[d].Node.(*ast.DeferStmt).Call.Fun) == s.Cleanup.Lit {
				regOK = fc.G.Dominates([]int{d}, fc.G.Exit)
				for _, cs := range fc.AllCalls() {
					if cs.Fn != nil && (cs.Fn.Name() == "GetUDPClient" || cs.Fn.Name() == "NewSession") && !fc.G.Dominates([]int{d}, cs.V) {
						regOK = false
					}
				}
			}
		}
		r.Check(regOK, rule, s.Recv.Name+":cleanup-deferred-first", p.posStr(fc.Body.Pos()), "the unregistering cleanup is deferred before routing / session creation", "an early return of session initialisation skips the cleanup: the table keeps a dead entry and later packets from that client are queued forever")
	}
	r.Floor(rule, 35)
}

func c12R3(p *Prog, r *Report, sites []*relaySite) {
	const rule = "C12-R3"
	r.Rule(rule, "init/stop handshake: session initialisation publishes its socket with one atomic Swap and, when the previous value is non-nil (Stop got there first), closes what it opened and starts no relay goroutine; Stop swaps the server socket in under the relay mutex and forces the read deadline only for non-nil previous values; the state is never accessed with Load/Store/CompareAndSwap")
	pkg := p.Pkg("service")
	// no Load/Store on .state
	p.AllFuncs(pkg, func(top *FuncCtx) {
		for _, fc := range allCtxs(p, top) {
			for _, cs := range fc.AllCalls() {
				sel, ok := ast.Unparen(cs.Call.Fun).(*ast.SelectorExpr)
				if !ok {
					continue
				}
				fs, ok := ast.Unparen(sel.X).(*ast.SelectorExpr)
				if !ok || fs.Sel.Name != "state" {
					continue
				}
				tv, ok := fc.Info().Types[fs]
				if !ok || !strings.Contains(tv.Type.String(), "atomic.Pointer") {
					continue
				}
				r.Check(sel.Sel.Name == "Swap", rule, fmt.Sprintf("%s:state.%s", fc.Name, sel.Sel.Name), cs.Pos(), "Swap", "session state accessed with "+sel.Sel.Name+": a check-then-act on the state races with Stop / initialisation")
			}
		}
	})
	for _, s := range sites {
		if s.Session == nil {
			continue
		}
		fc := s.Session
		_ = fc.Info()
		var swap *CallSite
		for _, cs := range fc.AllCalls() {
			if isAtomicPointerOp(cs.Fn, "Swap") {
				c := cs
				swap = &c
			}
		}
		if swap == nil {
			r.Fail(rule, s.Recv.Name+":init-swap", p.posStr(fc.Body.Pos()), "session initialisation never publishes its socket")
			continue
		}
		nonNil := swap.ResultEdges(0, WantNonNil)
		bad := ""
		if len(nonNil) == 0 {
			bad = "the value swapped out is not examined"
		}
		for _, e := range nonNil {
			reach := fc.G.Reach([]int{e.To}, nil, nil)
			for _, cs := range fc.AllCalls() {
				if !reach[cs.V] || cs.Fn == nil {
					continue
				}
				if wgGoLit(fc, cs, "wg") != nil || strings.HasPrefix(cs.Fn.Name(), "relayNatConnTo") {
					bad = "a relay goroutine is started although Stop already claimed the session"
				}
			}
		}
		r.Check(bad == "", rule, s.Recv.Name+":init-yields-to-stop", swap.Pos(), "a non-nil previous state ends initialisation without starting relay goroutines", bad)
		// the swap is dominated by successful creation of everything and precedes the hand-off
		// Stop side
		if s.Stop != nil {
			st := s.Stop
			sinfo := st.Info()
			states := relayLockStates(st)
			var sswap *CallSite
			for _, cs := range st.AllCalls() {
				if sel, ok := ast.Unparen(cs.Call.Fun).(*ast.SelectorExpr); ok && sel.Sel.Name == "Swap" {
					c := cs
					sswap = &c
				}
			}
			if sswap == nil {
				r.Fail(rule, st.Name+":stop-swap", p.posStr(st.Body.Pos()), "Stop does not claim the sessions")
				continue
			}
			r.Check(states[sswap.V] == LWrite, rule, st.Name+":swap-under-lock", sswap.Pos(), "Stop claims sessions under the relay mutex", "Stop claims sessions without the relay mutex")
			so := sswap.ResultVar(0)
			// argument is the entry's serverConn (a non-nil marker)
			r.Check(strings.HasSuffix(exprStr(sswap.Call.Args[0]), ".serverConn"), rule, st.Name+":swap-marker", sswap.Pos(), "the marker swapped in is the (non-nil) server socket", "Stop swaps in "+exprStr(sswap.Call.Args[0]))
			// the marker is only a marker when it is never nil: every entry of this type is given the
			// marker field where it is put together (a nil marker makes Stop's claim invisible to a
			// session that is still initialising, which then starts and is waited for a full NAT timeout)
			if msel, okm := ast.Unparen(sswap.Call.Args[0]).(*ast.SelectorExpr); okm {
				if et := sinfo.TypeOf(msel.X); et != nil {
					if pt, isP := et.Underlying().(*types.Pointer); isP {
						et = pt.Elem()
					}
					etName := namedTypeName(et)
					nBuilt := 0
					p.AllFuncs(pkg, func(top *FuncCtx) {
						for _, bc := range allCtxs(p, top) {
							for _, bv := range builtValues(bc, etName) {
								nBuilt++
								val, has := bv.Fields[msel.Sel.Name]
								r.Check(has && !isNilExpr(bc.Info(), val), rule, fmt.Sprintf("%s:stop-marker-set:%s.%s", bc.Name, etName, msel.Sel.Name), p.posStr(bv.Pos), "the entry is given the stop marker when it is created", "a "+etName+" is created without its "+msel.Sel.Name+" field: Stop swaps that (nil) field into the session state as its claim, a session still initialising sees nil, starts its relay goroutines and Stop waits for a full NAT timeout")
							}
						}
					})
					r.Check(nBuilt > 0, rule, st.Name+":entries-constructed", sswap.Pos(), "the construction sites of the entry type were found", "no construction site of "+etName+" found")
				}
			}
			// deadline forcing only on non-nil
			for _, cs := range st.AllCalls() {
				if cs.Fn != nil && cs.Fn.Name() == "SetReadDeadline" {
					if sel, ok := ast.Unparen(cs.Call.Fun).(*ast.SelectorExpr); ok && objOf(sinfo, sel.X) == so && so != nil {
						nn := st.TestEdges(func(e ast.Expr) bool { return objOf(sinfo, e) == so }, WantNonNil)
						r.Check(st.G.EdgeDominates(nn, cs.V) && strings.Contains(exprStr(cs.Call.Args[0]), "ALongTimeAgo"), rule, st.Name+":force-deadline-if-initialised", cs.Pos(), "initialised sessions get their read deadline forced into the past", "Stop dereferences a nil socket or does not force the deadline into the past")
					}
				}
			}
		}
	}
	r.Floor(rule, 20)
}

func c12R4(p *Prog, r *Report, sites []*relaySite) {
	const rule = "C12-R4"
	r.Rule(rule, "Stop ordering: force the server sockets' read deadlines, wait for the receive loops (so no session can be registered any more), then sweep the table under the mutex, then wait for the session goroutines, then close the server sockets; receive loops run under the first WaitGroup and every session / uplink goroutine under the second, started from a goroutine that is itself tracked")
	seen := map[*FuncCtx]bool{}
	for _, s := range sites {
		if s.Stop == nil || seen[s.Stop] {
			continue
		}
		seen[s.Stop] = true
		st := s.Stop
		info := st.Info()
		var force, mwait, sweep, wwait, closeV = -1, -1, -1, -1, -1
		for _, cs := range st.AllCalls() {
			if cs.Fn == nil {
				continue
			}
			sel, _ := ast.Unparen(cs.Call.Fun).(*ast.SelectorExpr)
			switch {
			case cs.Fn.Name() == "SetReadDeadline" && sel != nil && strings.HasSuffix(exprStr(sel.X), ".serverConn") && force < 0:
				force = cs.V
			case cs.Fn.Name() == "Wait" && sel != nil && strings.HasSuffix(exprStr(sel.X), ".mwg"):
				mwait = cs.V
			case cs.Fn.Name() == "Wait" && sel != nil && strings.HasSuffix(exprStr(sel.X), ".wg"):
				wwait = cs.V
			case cs.Fn.Name() == "Swap":
				sweep = cs.V
			case cs.Fn.Name() == "Close" && sel != nil && strings.HasSuffix(exprStr(sel.X), ".serverConn"):
				closeV = cs.V
			}
		}
		_ = info
		ok := force >= 0 && mwait >= 0 && sweep >= 0 && wwait >= 0 && closeV >= 0
		detail := ""
		if ok {
			chain := []int{force, mwait, sweep, wwait, closeV}
			names := []string{"force server deadlines", "wait for receive loops", "sweep table", "wait for sessions", "close server sockets"}
			for i := 0; i+1 < len(chain); i++ {
				// chain[i] precedes chain[i+1] on every path and never the other way round
				if !st.G.Dominates([]int{chain[i]}, chain[i+1]) && !precedesLoop(st, chain[i], chain[i+1]) {
					ok = false
					detail = names[i] + " does not precede " + names[i+1]
				}
				if st.G.ReachAfter(chain[i+1], nil, nil)[chain[i]] && !sameLoop(st, chain[i], chain[i+1]) {
					ok = false
					detail = names[i+1] + " can happen before " + names[i]
				}
			}
			if !st.G.Dominates([]int{mwait}, st.G.Exit) || !st.G.Dominates([]int{wwait}, st.G.Exit) {
				ok = false
				detail = "a wait is skipped on some path"
			}
		} else {
			detail = "a step is missing"
		}
		r.Check(ok, rule, st.Name+":order", p.posStr(st.Body.Pos()), "force → wait receive loops → sweep → wait sessions → close",
			"Stop's steps are out of order ("+detail+"): e.g. sweeping the table while a receive loop can still register a session leaves that session unsignalled, and Stop then waits a full NAT timeout for it")
	}
	// goroutine tracking
	for _, s := range sites {
		// receive loop started under mwg
		tracked := false
		for _, sf := range s.Starts {
			for _, cs := range sf.AllCalls() {
				if lit := wgGoLit(sf, cs, "mwg"); lit != nil {
					lc := p.LitCtx(sf, lit)
					for _, c2 := range lc.AllCalls() {
						if c2.Fn != nil && c2.Fn.Origin() == s.Recv.Obj {
							tracked = true
						}
					}
				}
			}
		}
		r.Check(tracked, rule, s.Recv.Name+":receive-loop-tracked", p.posStr(s.Recv.Body.Pos()), "started with mwg.Go", "the receive loop is not tracked by the WaitGroup Stop waits on first: Stop may sweep the table while sessions are still being registered")
		// no bare `go` statements in relay code paths
		for _, fc := range []*FuncCtx{s.Recv, s.Session, s.UplinkLit} {
			if fc == nil {
				continue
			}
			for _, v := range fc.G.V {
				if _, ok := v.Node.(*ast.GoStmt); ok {
					r.Fail(rule, fc.Name+":untracked-goroutine", p.posStr(v.Node.Pos()), "a goroutine is started with a bare go statement: Stop cannot wait for it")
				}
			}
		}
		r.Check(s.Session != nil && s.UplinkLit != nil, rule, s.Recv.Name+":session-goroutines-tracked", p.posStr(s.Recv.Body.Pos()), "session and uplink goroutines are started with wg.Go from tracked goroutines", "session goroutines are not started with wg.Go")
	}
	r.Floor(rule, 13)
}

// precedesLoop: a is inside a loop that completes before b (a does not dominate b only because the loop may run zero times).
func precedesLoop(fc *FuncCtx, a, b int) bool {
	// every path from entry to b passes the loop head of the range/for containing a
	for _, v := range fc.G.V {
		if v.Kind != VRange && !(v.Kind == VCond && v.Stmt != nil) {
			continue
		}
		var body *ast.BlockStmt
		switch st := v.Stmt.(type) {
		case *ast.RangeStmt:
			body = st.Body
		case *ast.ForStmt:
			body = st.Body
		}
		if body == nil || fc.G.V[a].Node == nil {
			continue
		}
		if body.Pos() <= fc.G.V[a].Node.Pos() && fc.G.V[a].Node.End() <= body.End() {
			if fc.G.Dominates([]int{v.ID}, b) && !(body.Pos() <= fc.G.V[b].Node.Pos() && fc.G.V[b].Node.End() <= body.End()) {
				return true
			}
		}
	}
	return false
}

func sameLoop(fc *FuncCtx, a, b int) bool { return false }

func c12R5(p *Prog, r *Report, sites []*relaySite) {
	const rule = "C12-R5"
	r.Rule(rule, "only shutdown-aware code pushes the NAT socket's read deadline forward: in every uplink loop a SetReadDeadline to a future time is followed, on every path before the next packet is taken, by a check of the service context whose cancelled branch forces the deadline back into the past (Stop forces it exactly once; a later re-arm makes the downlink — and Stop — wait a full NAT timeout)")
	seen := map[*FuncCtx]bool{}
	for _, s := range sites {
		if s.Uplink == nil {
			r.Fail(rule, s.Recv.Name+":uplink", p.posStr(s.Recv.Body.Pos()), "uplink function not found")
			continue
		}
		if seen[s.Uplink] {
			continue
		}
		seen[s.Uplink] = true
		fc := s.Uplink
		info := fc.Info()
		n := 0
		for _, cs := range fc.AllCalls() {
			if cs.Fn == nil || cs.Fn.Name() != "SetReadDeadline" || strings.Contains(exprStr(cs.Call.Args[0]), "ALongTimeAgo") {
				continue
			}
			n++
			// after this call, every path to the loop head / exit passes a ctx check whose done-branch re-forces the deadline
			var checks []int
			for _, v := range fc.G.V {
				if v.Kind != VCond {
					continue
				}
				s := exprStr(v.Node)
				if !(strings.Contains(s, ".Err()") || strings.Contains(s, ".Done()")) {
					continue
				}
				// its "cancelled" branch must reach a SetReadDeadline(ALongTimeAgo) on the same socket
				forced := false
				for _, e := range v.Succs {
					reach := fc.G.Reach([]int{e.To}, nil, nil)
					for _, c2 := range fc.AllCalls() {
						if reach[c2.V] && c2.Fn != nil && c2.Fn.Name() == "SetReadDeadline" && strings.Contains(exprStr(c2.Call.Args[0]), "ALongTimeAgo") {
							if samePathOrObj(fc, ast.Unparen(c2.Call.Fun).(*ast.SelectorExpr).X, ast.Unparen(cs.Call.Fun).(*ast.SelectorExpr).X) && fc.G.EdgeDominates([]Edge{e}, c2.V) {
								forced = true
							}
						}
					}
				}
				if forced {
					checks = append(checks, v.ID)
				}
			}
			isCheck := map[int]bool{}
			for _, c := range checks {
				isCheck[c] = true
			}
			reach := fc.G.ReachAfter(cs.V, func(v *Vertex) bool { return isCheck[v.ID] }, nil)
			bad := reach[fc.G.Exit]
			for _, v := range fc.G.V {
				if (v.Kind == VRange || v.Kind == VSelect) && reach[v.ID] {
					bad = true // next packet is awaited without the re-check
				}
			}
			_ = info
			r.Check(!bad, rule, fc.Name+":re-arm-is-shutdown-aware", cs.Pos(), "followed by a context check that forces the deadline back when shutting down",
				"the uplink re-arms the NAT socket's read deadline with no shutdown check: if this runs after Stop forced the deadline while the downlink is between reads, the downlink blocks for the whole NAT timeout and so does Stop")
		}
		r.Check(n >= 1, rule, fc.Name+":re-arms", p.posStr(fc.Body.Pos()), "the uplink refreshes the NAT timeout on client traffic", "the uplink never refreshes the NAT timeout: sessions are evicted while the client is still sending")
	}
	// the premise of the context re-check: the service manager cancels the context before it stops services
	run := p.Inlined(p.Func("service", "Manager", "Run"))
	var cancelled []int
	for _, v := range run.G.V {
		if v.Node == nil {
			continue
		}
		// a receive from <a context.Context>.Done(), or a call of a context.CancelFunc value,
		// whatever the variables are called
		hit := false
		inspectNoLit(v.Node, func(n ast.Node) bool {
			switch x := n.(type) {
			case *ast.UnaryExpr:
				if x.Op == token.ARROW {
					if c, ok := ast.Unparen(x.X).(*ast.CallExpr); ok {
						if fn := Callee(run.Info(), c); fn != nil && fn.Name() == "Done" && fn.Pkg() != nil && fn.Pkg().Path() == "context" {
							hit = true
						}
					}
				}
			case *ast.CallExpr:
				if t := run.Info().TypeOf(x.Fun); t != nil && types.TypeString(t, nil) == "context.CancelFunc" {
					hit = true
				}
			}
			return true
		})
		if hit {
			if _, isDefer := v.Node.(*ast.DeferStmt); !isDefer {
				cancelled = append(cancelled, v.ID)
			}
		}
	}
	nStop := 0
	for _, cs := range run.AllCalls() {
		if cs.Fn != nil && cs.Fn.Name() == "Stop" && namedTypeName(recvTypeOf(cs.Fn)) == "Service" {
			nStop++
			r.Check(run.G.Dominates(cancelled, cs.V), rule, "service.(*Manager).Run:context-done-before-Stop", cs.Pos(), "services are stopped only after the service context is done", "a service can be stopped while its context is still live: the uplink's shutdown re-check sees nothing and re-arms the deadline Stop just forced")
		}
	}
	r.Check(nStop >= 1, rule, "service.(*Manager).Run:stops-services", p.posStr(run.Body.Pos()), "Run stops the services", "Run never stops the services")
	r.Floor(rule, 12)
}

func c12R6(p *Prog, r *Report, sites []*relaySite) {
	const rule = "C12-R6"
	r.Rule(rule, "eviction wiring: the downlink loop exits only on the os.ErrDeadlineExceeded edge of its receive; session initialisation arms the socket's read deadline with now + the listener's NAT timeout before publishing it; the uplink ends only when its queue is closed")
	seenD := map[*FuncCtx]bool{}
	for _, s := range sites {
		if s.Downlink != nil && !seenD[s.Downlink] {
			seenD[s.Downlink] = true
			fc := s.Downlink
			// loop exits: every `break` / return inside the main loop is dominated by errors.Is(err, os.ErrDeadlineExceeded) true edge
			var dlEdges []Edge
			for _, v := range fc.G.V {
				if v.Kind != VCond {
					continue
				}
				if strings.Contains(exprStr(v.Node), "os.ErrDeadlineExceeded") {
					for _, e := range v.Succs {
						if e.Label == LTrue {
							dlEdges = append(dlEdges, e)
						}
					}
				}
			}
			// the statistics call after the loop marks "loop exited"
			var after = -1
			for _, cs := range fc.AllCalls() {
				if cs.Fn != nil && strings.HasPrefix(cs.Fn.Name(), "CollectUDPSessionDownlink") {
					after = cs.V
				}
			}
			ok := after >= 0 && len(dlEdges) > 0 && fc.G.EdgeDominates(dlEdges, after)
			r.Check(ok, rule, fc.Name+":exits-on-deadline-only", p.posStr(fc.Body.Pos()), "the downlink leaves its loop only through the read-deadline edge", "the downlink loop can end on another condition (a transient receive error tears the session down) or never ends")
		}
		if s.Session != nil {
			fc := s.Session
			armed := false
			for _, cs := range fc.AllCalls() {
				if cs.Fn != nil && cs.Fn.Name() == "SetReadDeadline" && strings.Contains(exprStr(cs.Call.Args[0]), ".natTimeout") && strings.Contains(exprStr(cs.Call.Args[0]), "time.Now()") {
					// before the swap
					for _, c2 := range fc.AllCalls() {
						if sel, ok := ast.Unparen(c2.Call.Fun).(*ast.SelectorExpr); ok && sel.Sel.Name == "Swap" && fc.G.Dominates([]int{cs.V}, c2.V) && cs.SuccessGuards(c2.V) {
							armed = true
						}
					}
				}
			}
			r.Check(armed, rule, s.Recv.Name+":initial-deadline", p.posStr(fc.Body.Pos()), "read deadline armed with now + natTimeout before the socket is published", "a session can start without an armed read deadline: an idle session is never evicted")
		}
		if s.Uplink != nil {
			fc := s.Uplink
			// the main loop is `for ... range uplink.natConnSendCh` or a receive from it with ok-check
			ranged := false
			for _, v := range fc.G.V {
				if v.Kind == VRange && isSessChan(fc.Info(), v.Stmt.(*ast.RangeStmt).X) {
					ranged = true
				}
			}
			if !ranged {
				// mmsg variants: `queuedPacket, ok := <-ch; if !ok { break }`
				for _, v := range fc.G.V {
					if as, ok := v.Node.(*ast.AssignStmt); ok && len(as.Lhs) == 2 && len(as.Rhs) == 1 {
						if u, ok := ast.Unparen(as.Rhs[0]).(*ast.UnaryExpr); ok && u.Op == token.ARROW && isSessChan(fc.Info(), u.X) {
							ranged = true
						}
					}
				}
			}
			r.Check(ranged, rule, fc.Name+":ends-when-queue-closed", p.posStr(fc.Body.Pos()), "the uplink consumes the queue until it is closed", "the uplink does not observe the closing of its queue")
		}
	}
	r.Floor(rule, 12)
}

// isAtomicPointerOp: fn is the named method of sync/atomic.Pointer[T].
func isAtomicPointerOp(fn *types.Func, name string) bool {
	return fn != nil && fn.Name() == name && strings.HasPrefix(fn.FullName(), "(*sync/atomic.Pointer[")
}

// c12R7: a packet variable filled by a two-value receive from a session queue is nil once the
// receive reported the queue closed. On the paths that leave the not-ok edge nothing may use the
// variable before it is given a new packet: the session is ending exactly then, and a log
// statement or a release that goes through the nil packet panics the whole process.
func c12R7(p *Prog, r *Report) {
	const rule = "C12-R7"
	r.Rule(rule, "no use of the packet variable after the queue closed: on every path from the not-ok edge of `pkt, ok = <-queue` (also as a select case), pkt is not used (dereferenced, passed on, released) until it is assigned again")
	pkg := p.Pkg("service")
	n := 0
	p.AllFuncs(pkg, func(top *FuncCtx) {
		for _, fc := range allCtxs(p, top) {
			info := fc.Info()
			// two-value receives from a session queue
			type recv struct {
				v      int
				x, okO types.Object
			}
			var recvs []recv
			for _, v := range fc.G.V {
				as, isAs := v.Node.(*ast.AssignStmt)
				if !isAs || len(as.Lhs) != 2 || len(as.Rhs) != 1 {
					continue
				}
				u, isU := ast.Unparen(as.Rhs[0]).(*ast.UnaryExpr)
				if !isU || u.Op != token.ARROW || !isSessChan(info, u.X) {
					continue
				}
				x, okO := objOf(info, as.Lhs[0]), objOf(info, as.Lhs[1])
				if x == nil || okO == nil {
					continue
				}
				recvs = append(recvs, recv{v.ID, x, okO})
			}
			if len(recvs) == 0 {
				continue
			}
			isRecv := map[int]types.Object{}
			for _, rc := range recvs {
				isRecv[rc.v] = rc.x
			}
			seen := map[types.Object]bool{}
			for _, rc := range recvs {
				if seen[rc.okO] {
					continue
				}
				seen[rc.okO] = true
				for _, e := range fc.TestEdges(func(e ast.Expr) bool { return objOf(info, e) == rc.okO }, WantFalse) {
					// every definition of ok that reaches the test is a receive into the same packet variable
					all := true
					for _, d := range fc.ReachingDefs(e.From, rc.okO) {
						if isRecv[d] != rc.x {
							all = false
						}
					}
					if !all {
						continue
					}
					n++
					defs := map[int]bool{}
					for _, d := range fc.Defs(rc.x) {
						defs[d] = true
					}
					bad, badPos := "", p.posStr(fc.G.V[e.From].Node.Pos())
					if !defs[e.To] {
						reach := fc.G.Reach([]int{e.To}, func(v *Vertex) bool { return defs[v.ID] }, nil)
						for _, v := range fc.G.V {
							if reach[v.ID] && v.Node != nil && usesObj(info, v.Node, rc.x, false) {
								bad, badPos = exprStr(v.Node), p.posStr(v.Node.Pos())
								break
							}
						}
					}
					r.Check(bad == "", rule, fmt.Sprintf("%s:%s-after-closed-queue@%s", fc.Name, rc.x.Name(), exprStr(fc.G.V[e.From].Node)), badPos, "the packet variable is not used after the queue reported closed", "after the queue is closed the packet variable is nil, and it is still used ("+bad+"): the uplink panics while its session is being torn down")
				}
			}
		}
	})
	r.Count("closed_queue_edges", n)
	r.Floor(rule, 6)
}

// c12R9: a registered session always has the goroutine that will unregister it.
func c12R9(p *Prog, r *Report, sites []*relaySite) {
	const rule = "C12-R9"
	r.Rule(rule, "registered means served: in every receive function, from a store into the session table every path to the next table lookup, to the same store again or to the function's exit passes the start of the session goroutine (the WaitGroup.Go call with the session closure) — an entry can never stay in the table without the goroutine that evicts it, whatever early exit the packet takes")
	n := 0
	for _, s := range sites {
		fc := s.Recv
		info := fc.Info()
		if s.Session == nil || s.Session.Lit == nil {
			r.Fail(rule, fc.Name+":session-goroutine", p.posStr(fc.Body.Pos()), "undecided: no session goroutine found")
			continue
		}
		start := -1
		for _, cs := range fc.AllCalls() {
			if len(cs.Call.Args) == 1 && ast.Unparen(cs.Call.Args[0]) == ast.Expr(s.Session.Lit) {
				start = cs.V
			}
		}
		var inserts, lookups []int
		for _, v := range fc.G.V {
			as, ok := v.Node.(*ast.AssignStmt)
			if !ok || v.Kind != VStmt {
				continue
			}
			for _, l := range as.Lhs {
				if ix, ok := ast.Unparen(l).(*ast.IndexExpr); ok && isRelayTable(info, ix.X) {
					inserts = append(inserts, v.ID)
				}
			}
			for _, rh := range as.Rhs {
				if ix, ok := ast.Unparen(rh).(*ast.IndexExpr); ok && isRelayTable(info, ix.X) {
					lookups = append(lookups, v.ID)
				}
			}
		}
		if start < 0 || len(inserts) == 0 {
			r.Fail(rule, fc.Name+":shape", p.posStr(fc.Body.Pos()), "undecided: session start or table insert not found")
			continue
		}
		for i, ins := range inserts {
			n++
			after := fc.G.ReachAfter(ins, func(v *Vertex) bool { return v.ID == start }, nil)
			bad := ""
			if after[fc.G.Exit] {
				bad = "the function can end"
			}
			if after[ins] {
				bad = "the next session can be registered"
			}
			for _, l := range lookups {
				if after[l] {
					bad = "the next packet can be looked up (at " + p.posStr(fc.G.V[l].Node.Pos()) + ")"
				}
			}
			r.Check(bad == "", rule, fmt.Sprintf("%s:insert#%d-then-session-start", fc.Name, i), p.posStr(fc.G.V[ins].Node.Pos()), "every path from the insert reaches the session goroutine's start first", "after the entry is stored in the table "+bad+" without the session goroutine having been started: an early exit (a packet that fails to unpack, a failed pktinfo parse) leaves an entry with no queue and no goroutine, which is never evicted and blocks that client address for good")
		}
	}
	r.Floor(rule, 5)
}
