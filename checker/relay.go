package main

// relay.go: discovery of the UDP relay structure shared by C11, C12 and C14.

import (
	"go/ast"
	"go/types"
	"strings"
)

type relaySite struct {
	RelayType string   // UDPNATRelay / UDPSessionRelay / UDPTransparentRelay
	Recv      *FuncCtx // recvFromServerConn*
	Session   *FuncCtx // literal passed to s.wg.Go containing GetUDPClient
	Cleanup   *FuncCtx // deferred literal inside Session
	UplinkLit *FuncCtx // literal passed to s.wg.Go inside Session
	Uplink    *FuncCtx // relayServerConnToNatConn* method called by UplinkLit
	Downlink  *FuncCtx // relayNatConnTo* method called by Session
	Stop      *FuncCtx
	Starts    []*FuncCtx // start* methods of the relay type
}

var relayTypes = []string{"UDPNATRelay", "UDPSessionRelay", "UDPTransparentRelay"}

// wgGoLit returns the literal passed to <recv>.<field>.Go(...) at call cs, or nil.
func wgGoLit(fc *FuncCtx, cs CallSite, field string) *ast.FuncLit {
	if cs.Fn == nil || cs.Fn.Name() != "Go" || namedTypeName(recvTypeOf(cs.Fn)) != "WaitGroup" || len(cs.Call.Args) != 1 {
		return nil
	}
	sel, ok := ast.Unparen(cs.Call.Fun).(*ast.SelectorExpr)
	if !ok {
		return nil
	}
	fs, ok := ast.Unparen(sel.X).(*ast.SelectorExpr)
	if !ok || fs.Sel.Name != field {
		return nil
	}
	lit, _ := ast.Unparen(cs.Call.Args[0]).(*ast.FuncLit)
	return lit
}

func discoverRelays(p *Prog) []*relaySite {
	pkg := p.Pkg("service")
	var out []*relaySite
	p.AllFuncs(pkg, func(fc *FuncCtx) {
		recv := fc.RecvObj()
		if recv == nil || fc.Obj == nil || !strings.HasPrefix(fc.Obj.Name(), "recvFromServerConn") {
			return
		}
		rt := namedTypeName(recv.Type())
		known := false
		for _, t := range relayTypes {
			if t == rt {
				known = true
			}
		}
		if !known {
			return
		}
		rs := &relaySite{RelayType: rt, Recv: fc}
		for _, cs := range fc.AllCalls() {
			if lit := wgGoLit(fc, cs, "wg"); lit != nil {
				lc := p.LitCtx(fc, lit)
				if len(lc.CallsTo(func(fn *types.Func) bool { return fn.Name() == "GetUDPClient" })) > 0 {
					rs.Session = lc
				}
			}
		}
		if rs.Session != nil {
			for _, lit := range rs.Session.Lits() {
				if rs.Session.IsDeferredLit(lit) {
					rs.Cleanup = p.LitCtx(rs.Session, lit)
				}
			}
			for _, cs := range rs.Session.AllCalls() {
				if lit := wgGoLit(rs.Session, cs, "wg"); lit != nil {
					rs.UplinkLit = p.LitCtx(rs.Session, lit)
				}
				if cs.Fn != nil && strings.HasPrefix(cs.Fn.Name(), "relayNatConnTo") {
					rs.Downlink = p.CtxOfObj(cs.Fn)
				}
			}
			if rs.UplinkLit != nil {
				for _, cs := range rs.UplinkLit.AllCalls() {
					if cs.Fn != nil && strings.HasPrefix(cs.Fn.Name(), "relayServerConnToNatConn") {
						rs.Uplink = p.CtxOfObj(cs.Fn)
					}
				}
			}
		}
		rs.Stop = p.LookupFunc("service", rt, "Stop")
		p.AllFuncs(pkg, func(f2 *FuncCtx) {
			if r2 := f2.RecvObj(); r2 != nil && namedTypeName(r2.Type()) == rt && f2.Obj != nil && strings.HasPrefix(strings.ToLower(f2.Obj.Name()), "start") {
				rs.Starts = append(rs.Starts, f2)
			}
		})
		out = append(out, rs)
	})
	// The rules are path rules over these contexts: analyse them with unexported helpers
	// expanded, so that how a relay's code is split into helpers does not matter. The helpers
	// the rules anchor on by name stay calls.
	if p.KeepCalls == nil {
		p.KeepCalls = map[string]bool{}
	}
	for _, t := range relayTypes {
		for _, pre := range []string{"relayNatConnTo*", "relayServerConnToNatConn*", "recvFromServerConn*", "getQueuedPacket", "putQueuedPacket", "newTransparentConn"} {
			p.KeepCalls["service."+t+"."+pre] = true
		}
	}
	for _, rs := range out {
		rs.Recv, rs.Session, rs.Cleanup = p.Inlined(rs.Recv), p.Inlined(rs.Session), p.Inlined(rs.Cleanup)
		rs.UplinkLit, rs.Uplink, rs.Downlink, rs.Stop = p.Inlined(rs.UplinkLit), p.Inlined(rs.Uplink), p.Inlined(rs.Downlink), p.Inlined(rs.Stop)
		for i := range rs.Starts {
			rs.Starts[i] = p.Inlined(rs.Starts[i])
		}
	}
	return out
}

// relayMuKey returns the lock key of the relay's mutex for function contexts nested in top.
func relayMuKey(top *FuncCtx) string {
	root := top
	for root.Parent != nil {
		root = root.Parent
	}
	return pathKeyOfObj(root.RecvObj()) + ".mu"
}

func pathKeyOfObj(o types.Object) string {
	if o == nil {
		return ""
	}
	return ptrStr(o)
}

// Role predicates by type, so that the rules do not depend on the names the relay code gives its
// fields and locals.

// isSessChan: e is a channel of pointers to one of the relays' queued-packet types (a session's
// send queue, whether the struct field, the local it was made into, or the uplink's copy).
func isSessChan(info *types.Info, e ast.Expr) bool {
	t := info.TypeOf(e)
	if t == nil {
		return false
	}
	ch, ok := t.Underlying().(*types.Chan)
	if !ok {
		return false
	}
	pt, ok := ch.Elem().(*types.Pointer)
	if !ok {
		return false
	}
	return namedTypePkg(pt.Elem()) == mp("service") && strings.HasSuffix(namedTypeName(pt.Elem()), "QueuedPacket")
}

// isRelayTable: e selects the map-typed field of one of the relay types (the session table).
func isRelayTable(info *types.Info, e ast.Expr) bool {
	sel, ok := ast.Unparen(e).(*ast.SelectorExpr)
	if !ok {
		return false
	}
	s := info.Selections[sel]
	if s == nil || s.Kind() != types.FieldVal {
		return false
	}
	if _, isMap := s.Obj().Type().Underlying().(*types.Map); !isMap {
		return false
	}
	rt := s.Recv()
	if p, isPtr := rt.(*types.Pointer); isPtr {
		rt = p.Elem()
	}
	name := namedTypeName(rt)
	for _, t := range relayTypes {
		if t == name {
			return true
		}
	}
	return false
}

// relayTableField returns the name of the (single) map-typed field of a relay type.
func relayTableField(p *Prog, relayType string) string {
	pkg := p.Pkg("service")
	obj := pkg.Types.Scope().Lookup(relayType)
	if obj == nil {
		fatalf("anchor: type service.%s not found", relayType)
	}
	st, ok := obj.Type().Underlying().(*types.Struct)
	if !ok {
		fatalf("anchor: service.%s is not a struct", relayType)
	}
	name := ""
	for i := 0; i < st.NumFields(); i++ {
		if _, isMap := st.Field(i).Type().Underlying().(*types.Map); isMap {
			if name != "" {
				fatalf("anchor: service.%s has more than one map field (%s, %s): the session table is ambiguous", relayType, name, st.Field(i).Name())
			}
			name = st.Field(i).Name()
		}
	}
	if name == "" {
		fatalf("anchor: service.%s has no map field (session table)", relayType)
	}
	return name
}
