package main

import (
	"sort"
	"go/ast"
	"go/constant"
	"go/token"
	"go/types"
	"strings"
)

func constOf(info *types.Info, e ast.Expr) (constant.Value, bool) {
	tv, ok := info.Types[e]
	if !ok || tv.Value == nil {
		return nil, false
	}
	return tv.Value, true
}

func constInt(info *types.Info, e ast.Expr) (int64, bool) {
	v, ok := constOf(info, e)
	if !ok {
		return 0, false
	}
	v = constant.ToInt(v)
	if v.Kind() != constant.Int {
		return 0, false
	}
	return constant.Int64Val(v)
}

// isConversion reports whether call is a type conversion T(x) and returns x.
func isConversion(info *types.Info, call *ast.CallExpr) (ast.Expr, bool) {
	if len(call.Args) != 1 {
		return nil, false
	}
	if tv, ok := info.Types[call.Fun]; ok && tv.IsType() {
		return call.Args[0], true
	}
	return nil, false
}

// SoleDefRHS returns the right-hand side expression of obj's only definition in fc, when obj
// has exactly one definition which is a 1:1 assignment / var spec, and no literal assigns it.
// For multi-value assignments from a call it returns the call and the result index.
func (fc *FuncCtx) SoleDefRHS(obj types.Object) (rhs ast.Expr, idx int, defV int, ok bool) {
	defs := fc.Defs(obj)
	// a value-less declaration (`var x T`) followed by exactly one assignment counts as that assignment
	if len(defs) == 2 {
		var keep []int
		for _, d := range defs {
			if vs, ok := fc.G.V[d].Node.(*ast.ValueSpec); ok && len(vs.Values) == 0 {
				continue
			}
			keep = append(keep, d)
		}
		if len(keep) == 1 {
			defs = keep
		}
	}
	if len(defs) != 1 || len(fc.LitAssigns(obj)) > 0 {
		return nil, 0, -1, false
	}
	info := fc.Info()
	v := fc.G.V[defs[0]]
	switch n := v.Node.(type) {
	case *ast.AssignStmt:
		if n.Tok != token.ASSIGN && n.Tok != token.DEFINE {
			return nil, 0, -1, false
		}
		for i, l := range n.Lhs {
			if objOf(info, l) == obj {
				if len(n.Rhs) == len(n.Lhs) {
					return n.Rhs[i], -1, v.ID, true
				}
				if len(n.Rhs) == 1 {
					return n.Rhs[0], i, v.ID, true
				}
			}
		}
	case *ast.ValueSpec:
		for i, id := range n.Names {
			if info.Defs[id] == obj {
				if len(n.Values) == len(n.Names) {
					return n.Values[i], -1, v.ID, true
				}
				if len(n.Values) == 1 {
					return n.Values[0], i, v.ID, true
				}
			}
		}
	}
	return nil, 0, -1, false
}

// Resolve strips parens and conversions and follows local variables with a single 1:1
// definition to their defining expression (bounded depth).
func (fc *FuncCtx) Resolve(e ast.Expr) ast.Expr {
	info := fc.Info()
	for depth := 0; depth < 16; depth++ {
		e = ast.Unparen(e)
		switch x := e.(type) {
		case *ast.CallExpr:
			if inner, ok := isConversion(info, x); ok {
				e = inner
				continue
			}
			return e
		case *ast.Ident:
			obj := objOf(info, x)
			v, isVar := obj.(*types.Var)
			if !isVar || v.IsField() || v.Pkg() == nil || v.Parent() == v.Pkg().Scope() {
				return e
			}
			rhs, idx, _, ok := fc.SoleDefRHS(obj)
			if !ok || idx >= 0 {
				return e
			}
			e = rhs
			continue
		default:
			return e
		}
	}
	return e
}

// isParam reports whether e (after Resolve) is the i-th parameter of fc.
func (fc *FuncCtx) isParam(e ast.Expr, i int) bool {
	o := objOf(fc.Info(), fc.Resolve(e))
	return o != nil && o == fc.ParamObj(i)
}

// methodCall matches x.M(args) where M resolves to pkgPath.(recv).name; returns receiver expr.
func methodCall(info *types.Info, e ast.Expr, pkgPath, recv, name string) (recvExpr ast.Expr, call *ast.CallExpr, ok bool) {
	c, isCall := ast.Unparen(e).(*ast.CallExpr)
	if !isCall {
		return nil, nil, false
	}
	if !funcIs(Callee(info, c), pkgPath, recv, name) {
		return nil, nil, false
	}
	sel, isSel := ast.Unparen(c.Fun).(*ast.SelectorExpr)
	if !isSel {
		return nil, nil, false
	}
	return sel.X, c, true
}

// funcCall matches pkg.F(args).
func funcCall(info *types.Info, e ast.Expr, pkgPath, name string) (*ast.CallExpr, bool) {
	c, isCall := ast.Unparen(e).(*ast.CallExpr)
	if !isCall {
		return nil, false
	}
	if !funcIs(Callee(info, c), pkgPath, "", name) {
		return nil, false
	}
	return c, true
}

// ErrKind classifies what a return vertex returns as its last (error) result.
type ErrKind int

const (
	ErrUnknown ErrKind = iota
	ErrNil
	ErrNonNil
)

// nonNilErrExpr reports whether e is syntactically a non-nil error value: &T{...}, T{...},
// a package-level error variable (sentinel), errors.New / fmt.Errorf call.
// activeProg: the program the running check analyses (for facts that need a callee's body).
var activeProg *Prog
var nonNilDepth int

func nonNilErrExpr(info *types.Info, e ast.Expr) bool {
	switch x := ast.Unparen(e).(type) {
	case *ast.UnaryExpr:
		if x.Op == token.AND {
			_, ok := ast.Unparen(x.X).(*ast.CompositeLit)
			return ok
		}
	case *ast.CompositeLit:
		return true
	case *ast.Ident:
		if v, ok := objOf(info, x).(*types.Var); ok && v.Pkg() != nil && v.Parent() == v.Pkg().Scope() {
			return true // package-level sentinel (Err...)
		}
	case *ast.SelectorExpr:
		if v, ok := info.Uses[x.Sel].(*types.Var); ok && v.Pkg() != nil && v.Parent() == v.Pkg().Scope() {
			return true
		}
	case *ast.CallExpr:
		// conversion to a concrete (non-interface, non-pointer) error type: T(x)
		if _, ok := isConversion(info, x); ok {
			if tv, ok := info.Types[x.Fun]; ok {
				switch tv.Type.Underlying().(type) {
				case *types.Interface, *types.Pointer:
				default:
					return true
				}
			}
		}
		fn := Callee(info, x)
		if fn != nil && fn.Pkg() != nil {
			p, n := fn.Pkg().Path(), fn.Name()
			if (p == "errors" && n == "New") || (p == "fmt" && n == "Errorf") {
				return true
			}
			// constructor functions of this module that return a concrete error value: new*Error
			if strings.HasPrefix(n, "new") && strings.HasSuffix(n, "Error") {
				return true
			}
			// a function of the analysed module whose every return is itself a non-nil error
			// expression (an error-formatting helper)
			if activeProg != nil && nonNilDepth < 2 {
				if cf := activeProg.CtxOfObj(fn.Origin()); cf != nil && cf.Body != nil {
					sig := fn.Type().(*types.Signature)
					if sig.Results().Len() == 1 && types.TypeString(sig.Results().At(0).Type(), nil) == "error" {
						rets := cf.Returns()
						all := len(rets) > 0
						nonNilDepth++
						for _, rv := range rets {
							rs := cf.G.V[rv].Node.(*ast.ReturnStmt)
							if len(rs.Results) != 1 || !nonNilErrExpr(cf.Info(), rs.Results[0]) {
								all = false
							}
						}
						nonNilDepth--
						if all {
							return true
						}
					}
				}
			}
		}
	}
	return false
}

// ErrAtReturn classifies the error returned at return vertex ret (last result).
func (fc *FuncCtx) ErrAtReturn(ret int) ErrKind {
	info := fc.Info()
	rs, ok := fc.G.V[ret].Node.(*ast.ReturnStmt)
	if !ok {
		return ErrUnknown
	}
	classify := func(e ast.Expr) ErrKind {
		if isNilExpr(info, e) {
			return ErrNil
		}
		if nonNilErrExpr(info, e) {
			return ErrNonNil
		}
		return ErrUnknown
	}
	if len(rs.Results) > 0 {
		last := rs.Results[len(rs.Results)-1]
		if k := classify(last); k != ErrUnknown {
			return k
		}
		if obj := objOf(info, last); obj != nil {
			return fc.errVarAt(ret, obj, classify)
		}
		return ErrUnknown
	}
	// bare return: last named result
	var ft *ast.FuncType
	if fc.Decl != nil {
		ft = fc.Decl.Type
	} else {
		ft = fc.Lit.Type
	}
	if ft.Results == nil || len(ft.Results.List) == 0 {
		return ErrUnknown
	}
	lastField := ft.Results.List[len(ft.Results.List)-1]
	if len(lastField.Names) == 0 {
		return ErrUnknown
	}
	obj := info.Defs[lastField.Names[len(lastField.Names)-1]]
	return fc.errVarAt(ret, obj, classify)
}

func (fc *FuncCtx) errVarAt(at int, obj types.Object, classify func(ast.Expr) ErrKind) ErrKind {
	info := fc.Info()
	rd := fc.ReachingDefs(at, obj)
	if len(rd) == 0 {
		return ErrUnknown
	}
	// facts from dominating tests: if `obj != nil` edge guards `at` w.r.t. every reaching def → NonNil
	nonNilEdges := fc.TestEdges(func(e ast.Expr) bool { return objOf(info, e) == obj }, WantNonNil)
	nilEdges := fc.TestEdges(func(e ast.Expr) bool { return objOf(info, e) == obj }, WantNil)
	res := ErrUnknown
	for i, d := range rd {
		var k ErrKind
		if d == fc.G.Entry {
			// initial value of a named result is nil; of a parameter unknown
			k = ErrUnknown
			if v, ok := obj.(*types.Var); ok && fc.isNamedResult(v) {
				k = ErrNil
			}
		} else {
			k = ErrUnknown
			switch n := fc.G.V[d].Node.(type) {
			case *ast.AssignStmt:
				if len(n.Lhs) == len(n.Rhs) {
					for j, l := range n.Lhs {
						if objOf(info, l) == obj {
							k = classify(n.Rhs[j])
						}
					}
				}
			}
			if k == ErrUnknown {
				// refine by the test edges crossed after this def
				// a test crossed on a path from this definition that passes no other definition
				// of the variable speaks about the value defined here
				if !fc.defReachesAvoiding(d, at, obj, nonNilEdges) {
					k = ErrNonNil
				} else if !fc.defReachesAvoiding(d, at, obj, nilEdges) {
					k = ErrNil
				}
			}
		}
		if i == 0 {
			res = k
		} else if res != k {
			return ErrUnknown
		}
	}
	return res
}

func filterEdgesSoleDef(fc *FuncCtx, edges []Edge, obj types.Object, def int) []Edge {
	var out []Edge
	for _, e := range edges {
		if fc.SoleDef(e.From, obj, def) {
			out = append(out, e)
		}
	}
	return out
}

func (fc *FuncCtx) isNamedResult(v *types.Var) bool {
	for i := 0; ; i++ {
		o := fc.ResultObj(i)
		if o == nil {
			return false
		}
		if o == v {
			return true
		}
	}
}

// defReachesAvoiding: is there a path from (after) def d to at that passes no other def of obj
// and crosses none of the given edges?
func (fc *FuncCtx) defReachesAvoiding(d, at int, obj types.Object, edges []Edge) bool {
	isDef := map[int]bool{}
	for _, x := range fc.Defs(obj) {
		isDef[x] = true
	}
	es := map[Edge]bool{}
	for _, e := range edges {
		es[e] = true
	}
	r := fc.G.ReachAfter(d, func(v *Vertex) bool { return isDef[v.ID] && v.ID != at }, func(e Edge) bool { return es[e] })
	return r[at]
}

// roleOf describes an expression by role rather than by name, for keys of reviewed tables that
// must survive renames: the root variable's kind (recv, param, local, global), whether fields
// are selected from it, and the static type of the expression.
func roleOf(fc *FuncCtx, e ast.Expr) string {
	info := fc.Info()
	e = ast.Unparen(e)
	tstr := func() string {
		if t := info.TypeOf(e); t != nil {
			return types.TypeString(t, func(p *types.Package) string { return p.Name() })
		}
		return "?"
	}
	if call, ok := e.(*ast.CallExpr); ok {
		if fn := Callee(info, call); fn != nil {
			return "call " + fn.FullName()
		}
		return "call:" + tstr()
	}
	root, path, ok := pathOf(info, e)
	if !ok {
		return "expr:" + tstr()
	}
	kind := "local"
	if v, isVar := root.(*types.Var); isVar {
		if v.Pkg() != nil && v.Parent() == v.Pkg().Scope() {
			kind = "global"
		}
		for f := fc; f != nil; f = f.Parent {
			var sig *types.Signature
			if f.Obj != nil {
				sig, _ = f.Obj.Type().(*types.Signature)
			} else if f.Lit != nil {
				sig, _ = info.TypeOf(f.Lit).(*types.Signature)
			}
			if sig == nil {
				continue
			}
			if sig.Recv() == v {
				kind = "recv"
			}
			for i := 0; i < sig.Params().Len(); i++ {
				if sig.Params().At(i) == v {
					kind = "param"
				}
			}
		}
	}
	if path != "" {
		kind += ".field"
	}
	return kind + ":" + tstr()
}

// ResolveUp is Resolve that also follows a captured variable of a function literal to its single
// definition in an enclosing function (when neither the literal nor any other place assigns it).
func (fc *FuncCtx) ResolveUp(e ast.Expr) ast.Expr {
	e = fc.Resolve(e)
	for up := fc.Parent; up != nil; up = up.Parent {
		id, ok := ast.Unparen(e).(*ast.Ident)
		if !ok {
			return e
		}
		obj := objOf(fc.Info(), id)
		if obj == nil || len(fc.Defs(obj)) > 0 {
			return e
		}
		// not assigned inside any literal of the enclosing function either
		assignedInLit := false
		for _, lit := range up.Lits() {
			lc := up.Prog.LitCtx(up, lit)
			if len(lc.Defs(obj)) > 0 {
				assignedInLit = true
			}
		}
		if assignedInLit {
			return e
		}
		e = up.Resolve(e)
	}
	return e
}

// fieldInits returns every expression a function gives to a struct field of that name, whether
// as a key of a composite literal or by assignment to a selector (x.f = v, x.g.f = v): the two
// ways of building the same value.
func fieldInits(fc *FuncCtx, field string) []ast.Expr {
	var out []ast.Expr
	ast.Inspect(fc.Body, func(n ast.Node) bool {
		switch x := n.(type) {
		case *ast.KeyValueExpr:
			if id, ok := x.Key.(*ast.Ident); ok && id.Name == field {
				out = append(out, x.Value)
			}
		case *ast.AssignStmt:
			if len(x.Lhs) == len(x.Rhs) {
				for i, l := range x.Lhs {
					if sel, ok := ast.Unparen(l).(*ast.SelectorExpr); ok && sel.Sel.Name == field {
						out = append(out, x.Rhs[i])
					}
				}
			}
		}
		return true
	})
	return out
}

// builtValue: one value of a struct type being put together in a function — the fields it is
// given, whether by a composite literal or by assignments to a variable that starts as new(T),
// &T{…}, T{…} or a zero declaration.
type builtValue struct {
	Pos    token.Pos
	Fields map[string]ast.Expr
}

// builtValues lists the values of the named struct type that fc puts together, in source order.
func builtValues(fc *FuncCtx, typeName string) []*builtValue {
	info := fc.Info()
	isT := func(t types.Type) bool {
		if t == nil {
			return false
		}
		if pt, ok := t.Underlying().(*types.Pointer); ok {
			t = pt.Elem()
		}
		return namedTypeName(t) == typeName
	}
	var out []*builtValue
	byVar := map[types.Object]*builtValue{}
	litOwner := map[*ast.CompositeLit]*builtValue{}
	fromLit := func(cl *ast.CompositeLit) *builtValue {
		if bv, ok := litOwner[cl]; ok {
			return bv
		}
		bv := &builtValue{Pos: cl.Pos(), Fields: map[string]ast.Expr{}}
		for _, el := range cl.Elts {
			if kv, ok := el.(*ast.KeyValueExpr); ok {
				if id, ok := kv.Key.(*ast.Ident); ok {
					bv.Fields[id.Name] = kv.Value
				}
			}
		}
		litOwner[cl] = bv
		out = append(out, bv)
		return bv
	}
	litOf := func(e ast.Expr) *ast.CompositeLit {
		e = ast.Unparen(e)
		if u, ok := e.(*ast.UnaryExpr); ok && u.Op == token.AND {
			e = ast.Unparen(u.X)
		}
		cl, _ := e.(*ast.CompositeLit)
		if cl != nil && isT(info.TypeOf(cl)) {
			return cl
		}
		return nil
	}
	isNewT := func(e ast.Expr) bool {
		c, ok := ast.Unparen(e).(*ast.CallExpr)
		if !ok || len(c.Args) != 1 {
			return false
		}
		id, ok := ast.Unparen(c.Fun).(*ast.Ident)
		return ok && id.Name == "new" && isT(info.TypeOf(c))
	}
	// a named result of the type is a zero declaration
	for i := 0; fc.ResultObj(i) != nil; i++ {
		o := fc.ResultObj(i)
		if isT(o.Type()) {
			if _, isPtr := o.Type().Underlying().(*types.Pointer); !isPtr {
				bv := &builtValue{Pos: fc.Body.Pos(), Fields: map[string]ast.Expr{}}
				byVar[o] = bv
				out = append(out, bv)
			}
		}
	}
	ast.Inspect(fc.Body, func(n ast.Node) bool {
		switch x := n.(type) {
		case *ast.AssignStmt:
			if len(x.Lhs) == len(x.Rhs) {
				for i, l := range x.Lhs {
					// v := &T{…} / v = new(T): the variable stands for the value from here on
					if o := objOf(info, l); o != nil {
						if cl := litOf(x.Rhs[i]); cl != nil {
							byVar[o] = fromLit(cl)
							continue
						}
						if isNewT(x.Rhs[i]) {
							bv := &builtValue{Pos: x.Pos(), Fields: map[string]ast.Expr{}}
							byVar[o] = bv
							out = append(out, bv)
							continue
						}
					}
					// v.f = e
					if sel, ok := ast.Unparen(l).(*ast.SelectorExpr); ok {
						if o := objOf(info, sel.X); o != nil {
							if bv := byVar[o]; bv != nil {
								bv.Fields[sel.Sel.Name] = x.Rhs[i]
							}
						}
					}
				}
			}
		case *ast.ValueSpec:
			for i, id := range x.Names {
				o := info.Defs[id]
				if o == nil {
					continue
				}
				if i < len(x.Values) {
					if cl := litOf(x.Values[i]); cl != nil {
						byVar[o] = fromLit(cl)
					} else if isNewT(x.Values[i]) {
						bv := &builtValue{Pos: x.Pos(), Fields: map[string]ast.Expr{}}
						byVar[o] = bv
						out = append(out, bv)
					}
				} else if len(x.Values) == 0 && isT(o.Type()) {
					if _, isPtr := o.Type().Underlying().(*types.Pointer); !isPtr {
						bv := &builtValue{Pos: x.Pos(), Fields: map[string]ast.Expr{}}
						byVar[o] = bv
						out = append(out, bv)
					}
				}
			}
		case *ast.CompositeLit:
			if isT(info.TypeOf(x)) {
				fromLit(x)
			}
		}
		return true
	})
	sort.SliceStable(out, func(i, j int) bool { return out[i].Pos < out[j].Pos })
	return out
}
