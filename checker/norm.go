package main

// norm.go: normalised printing of small arithmetic expressions, used for sibling/formula
// agreement rules. Local variables with a single definition are replaced by their defining
// expression, calls to small same-package helpers whose body is a single return are inlined,
// constants are folded to their values, the receiver is printed as "recv".

import (
	"fmt"
	"go/ast"
	"go/token"
	"go/types"
	"strings"
)

type normCtx struct {
	p     *Prog
	fc    *FuncCtx
	subst map[types.Object]string
	depth int
	at    int // vertex at which the expression is evaluated (-1: flow-insensitive)
}

// normExpr normalises e as evaluated at the vertex that contains it (flow-sensitive resolution
// of local variables through their single reaching definition).
func normExpr(p *Prog, fc *FuncCtx, e ast.Expr) string {
	n := &normCtx{p: p, fc: fc, subst: map[types.Object]string{}, at: fc.G.VertexOf(e)}
	if r := fc.RecvObj(); r != nil {
		n.subst[r] = "recv"
	}
	return n.expr(e)
}

func (n *normCtx) expr(e ast.Expr) string {
	info := n.fc.Info()
	e = ast.Unparen(e)
	if n.depth > 24 {
		return "<deep>"
	}
	n.depth++
	defer func() { n.depth-- }()
	if v, ok := constOf(info, e); ok {
		return v.ExactString()
	}
	switch x := e.(type) {
	case *ast.Ident:
		o := objOf(info, x)
		if s, ok := n.subst[o]; ok {
			return s
		}
		if v, isVar := o.(*types.Var); isVar && !v.IsField() && v.Pkg() != nil && v.Parent() != v.Pkg().Scope() {
			if n.at >= 0 {
				rd := n.fc.ReachingDefs(n.at, o)
				if len(rd) == 1 && rd[0] != n.fc.G.Entry {
					dv := n.fc.G.V[rd[0]]
					if as, ok := dv.Node.(*ast.AssignStmt); ok && len(as.Lhs) == len(as.Rhs) {
						for i, l := range as.Lhs {
							if objOf(info, l) != o {
								continue
							}
							sub := *n
							sub.at = rd[0]
							rhs := sub.expr(as.Rhs[i])
							switch as.Tok {
							case token.ASSIGN, token.DEFINE:
								return rhs
							default:
								op := strings.TrimSuffix(as.Tok.String(), "=")
								prev := sub.expr(l)
								if prev == x.Name {
									return x.Name
								}
								a, b := prev, rhs
								if (op == "+" || op == "*" || op == "&" || op == "|" || op == "^") && b < a {
									a, b = b, a
								}
								return "(" + a + " " + op + " " + b + ")"
							}
						}
					}
					if vs, ok := dv.Node.(*ast.ValueSpec); ok && len(vs.Values) == len(vs.Names) {
						for i, id := range vs.Names {
							if info.Defs[id] == o {
								sub := *n
								sub.at = rd[0]
								return sub.expr(vs.Values[i])
							}
						}
					}
				}
			} else if rhs, idx, _, ok := n.fc.SoleDefRHS(o); ok && idx < 0 {
				return n.expr(rhs)
			}
		}
		return x.Name
	case *ast.SelectorExpr:
		return n.expr(x.X) + "." + x.Sel.Name
	case *ast.BinaryExpr:
		// canonical forms on unsigned operands: x >> k == x / 2^k ; x & (2^k - 1) == x % 2^k
		if tv, ok := info.Types[x.X]; ok {
			if bt, ok := tv.Type.Underlying().(*types.Basic); ok && bt.Info()&types.IsUnsigned != 0 {
				if k, isC := constInt(info, x.Y); isC {
					if x.Op == token.SHR && k >= 0 && k < 63 {
						return "(" + n.expr(x.X) + " / " + fmt.Sprint(int64(1)<<uint(k)) + ")"
					}
					if x.Op == token.AND && k > 0 && (k&(k+1)) == 0 {
						return "(" + n.expr(x.X) + " % " + fmt.Sprint(k+1) + ")"
					}
				}
			}
		}
		l, r := n.expr(x.X), n.expr(x.Y)
		// commutative operators: order operands
		switch x.Op {
		case token.ADD, token.MUL, token.AND, token.OR, token.XOR, token.EQL, token.NEQ:
			if r < l {
				l, r = r, l
			}
		}
		return "(" + l + " " + x.Op.String() + " " + r + ")"
	case *ast.UnaryExpr:
		return x.Op.String() + n.expr(x.X)
	case *ast.StarExpr:
		return "*" + n.expr(x.X)
	case *ast.IndexExpr:
		return n.expr(x.X) + "[" + n.expr(x.Index) + "]"
	case *ast.SliceExpr:
		s := n.expr(x.X) + "["
		if x.Low != nil {
			s += n.expr(x.Low)
		}
		s += ":"
		if x.High != nil {
			s += n.expr(x.High)
		}
		return s + "]"
	case *ast.CallExpr:
		if inner, ok := isConversion(info, x); ok {
			return exprStr(x.Fun) + "(" + n.expr(inner) + ")"
		}
		fn := Callee(info, x)
		if fn != nil {
			if callee := n.p.CtxOfObj(fn); callee != nil && callee.Pkg == n.fc.Pkg {
				// single `return expr` body → inline
				if len(callee.Body.List) == 1 {
					if rs, ok := callee.Body.List[0].(*ast.ReturnStmt); ok && len(rs.Results) == 1 {
						sub := &normCtx{p: n.p, fc: callee, subst: map[types.Object]string{}, depth: n.depth, at: -1}
						if r := callee.RecvObj(); r != nil {
							if sel, ok := ast.Unparen(x.Fun).(*ast.SelectorExpr); ok {
								sub.subst[r] = n.expr(sel.X)
							}
						}
						for i, a := range x.Args {
							if po := callee.ParamObj(i); po != nil {
								sub.subst[po] = n.expr(a)
							}
						}
						return sub.expr(rs.Results[0])
					}
				}
			}
		}
		var args []string
		for _, a := range x.Args {
			args = append(args, n.expr(a))
		}
		name := exprStr(x.Fun)
		if sel, ok := ast.Unparen(x.Fun).(*ast.SelectorExpr); ok {
			name = n.expr(sel.X) + "." + sel.Sel.Name
		}
		if name == "min" || name == "max" {
			// commutative
			for i := 0; i < len(args); i++ {
				for j := i + 1; j < len(args); j++ {
					if args[j] < args[i] {
						args[i], args[j] = args[j], args[i]
					}
				}
			}
		}
		return name + "(" + strings.Join(args, ", ") + ")"
	}
	return fmt.Sprintf("<%T %s>", e, exprStr(e))
}

// linForm is a linear form: atom -> coefficient, with "" for the constant term.
type linForm map[string]int64

func (a linForm) add(b linForm, k int64) linForm {
	out := linForm{}
	for x, c := range a {
		out[x] += c
	}
	for x, c := range b {
		out[x] += k * c
	}
	for x, c := range out {
		if c == 0 {
			delete(out, x)
		}
	}
	return out
}

func (a linForm) isZero() bool { return len(a) == 0 }

func (a linForm) String() string {
	var keys []string
	for k := range a {
		keys = append(keys, k)
	}
	for i := 0; i < len(keys); i++ {
		for j := i + 1; j < len(keys); j++ {
			if keys[j] < keys[i] {
				keys[i], keys[j] = keys[j], keys[i]
			}
		}
	}
	s := ""
	for _, k := range keys {
		c := a[k]
		if k == "" {
			s += fmt.Sprintf(" %+d", c)
		} else {
			s += fmt.Sprintf(" %+d*%s", c, k)
		}
	}
	if s == "" {
		return "0"
	}
	return strings.TrimSpace(s)
}

// linOf computes the linear form of integer expression e as evaluated at its own vertex.
// Variables listed in opaque are kept as atoms (not replaced by their definitions).
func linOf(p *Prog, fc *FuncCtx, e ast.Expr, opaque ...types.Object) linForm {
	n := &normCtx{p: p, fc: fc, subst: map[types.Object]string{}, at: fc.G.VertexOf(e)}
	if r := fc.RecvObj(); r != nil {
		n.subst[r] = "recv"
	}
	for _, o := range opaque {
		if o != nil {
			n.subst[o] = o.Name()
		}
	}
	return n.lin(e)
}

// linOfAt evaluates variable obj's value on entry to vertex at.
func linOfVarAt(p *Prog, fc *FuncCtx, obj types.Object, at int) linForm {
	n := &normCtx{p: p, fc: fc, subst: map[types.Object]string{}, at: at}
	if r := fc.RecvObj(); r != nil {
		n.subst[r] = "recv"
	}
	return n.linVar(obj, obj.Name())
}

func (n *normCtx) lin(e ast.Expr) linForm {
	info := n.fc.Info()
	e = ast.Unparen(e)
	if n.depth > 24 {
		return linForm{"<deep>": 1}
	}
	n.depth++
	defer func() { n.depth-- }()
	if k, ok := constInt(info, e); ok {
		if k == 0 {
			return linForm{}
		}
		return linForm{"": k}
	}
	switch x := e.(type) {
	case *ast.Ident:
		o := objOf(info, x)
		if s, ok := n.subst[o]; ok {
			return linForm{s: 1}
		}
		if o != nil {
			return n.linVar(o, x.Name)
		}
	case *ast.BinaryExpr:
		switch x.Op {
		case token.ADD:
			return n.lin(x.X).add(n.lin(x.Y), 1)
		case token.SUB:
			return n.lin(x.X).add(n.lin(x.Y), -1)
		case token.MUL:
			if k, ok := constInt(info, x.X); ok {
				return linForm{}.add(n.lin(x.Y), k)
			}
			if k, ok := constInt(info, x.Y); ok {
				return linForm{}.add(n.lin(x.X), k)
			}
		}
	case *ast.UnaryExpr:
		if x.Op == token.SUB {
			return linForm{}.add(n.lin(x.X), -1)
		}
	case *ast.CallExpr:
		if inner, ok := isConversion(info, x); ok {
			return n.lin(inner)
		}
	}
	return linForm{n.expr(e): 1}
}

func (n *normCtx) linVar(o types.Object, name string) linForm {
	info := n.fc.Info()
	v, isVar := o.(*types.Var)
	if !isVar || v.IsField() || v.Pkg() == nil || v.Parent() == v.Pkg().Scope() || n.at < 0 {
		return linForm{name: 1}
	}
	rd := n.fc.ReachingDefs(n.at, o)
	if len(rd) != 1 || rd[0] == n.fc.G.Entry {
		return linForm{name: 1}
	}
	dv := n.fc.G.V[rd[0]]
	sub := *n
	sub.at = rd[0]
	switch st := dv.Node.(type) {
	case *ast.AssignStmt:
		if len(st.Lhs) != len(st.Rhs) {
			return linForm{name: 1}
		}
		for i, l := range st.Lhs {
			if objOf(info, l) != o {
				continue
			}
			rhs := sub.lin(st.Rhs[i])
			switch st.Tok {
			case token.ASSIGN, token.DEFINE:
				return rhs
			case token.ADD_ASSIGN:
				return sub.linVar(o, name).add(rhs, 1)
			case token.SUB_ASSIGN:
				return sub.linVar(o, name).add(rhs, -1)
			}
		}
	case *ast.ValueSpec:
		for i, id := range st.Names {
			if info.Defs[id] == o {
				if len(st.Values) == len(st.Names) {
					return sub.lin(st.Values[i])
				}
				if len(st.Values) == 0 {
					return linForm{} // zero value
				}
			}
		}
	}
	return linForm{name: 1}
}

// linOfResultAt: the linear form of result i of fc at the exit vertex `at` — the expression of
// an explicit `return a, b, …`, or the named result's value at a bare return.
func linOfResultAt(p *Prog, fc *FuncCtx, i int, at int) linForm {
	if rs, ok := fc.G.V[at].Node.(*ast.ReturnStmt); ok && len(rs.Results) > 0 {
		if i < len(rs.Results) {
			return linOf(p, fc, rs.Results[i])
		}
		return linForm{"<result>": 1}
	}
	if o := fc.ResultObj(i); o != nil {
		return linOfVarAt(p, fc, o, at)
	}
	return linForm{"<result>": 1}
}
