package main

import (
	"flag"
	"fmt"
	"os"
	"sort"

	"golang.org/x/tools/go/packages"
)

const loadSyntax = packages.LoadSyntax | packages.NeedModule

type PropCheck struct {
	ID   string
	Pkgs []string // package patterns to load ("./ss2022")
	Run  func(p *Prog, r *Report)
}

var props = map[string]*PropCheck{}

func register(pc *PropCheck) { props[pc.ID] = pc }

func main() {
	// go/packages resolves the go command through this process's PATH
	os.Setenv("PATH", "/opt/veriftools/go1.26.8/bin:"+os.Getenv("PATH"))
	os.Setenv("GOTOOLCHAIN", "local")
	os.Unsetenv("GOOS")
	os.Unsetenv("GOARCH")
	if len(os.Args) < 2 {
		usage()
	}
	switch os.Args[1] {
	case "check":
		fs := flag.NewFlagSet("check", flag.ExitOnError)
		tier := fs.String("tier", "quick", "quick|thorough")
		fs.StringVar(&repoDir, "repo", repoDir, "repository directory")
		fs.StringVar(&verifDir, "verif", verifDir, "verif directory")
		fs.Parse(os.Args[2:])
		if fs.NArg() != 1 {
			usage()
		}
		os.Exit(runCheck(fs.Arg(0), *tier))
	case "dump":
		fs := flag.NewFlagSet("dump", flag.ExitOnError)
		fs.StringVar(&repoDir, "repo", repoDir, "repository directory")
		fs.Parse(os.Args[2:])
		if fs.NArg() < 3 {
			usage()
		}
		p := Load(loadSyntax, nil, nil, "./"+fs.Arg(0))
		recv := fs.Arg(1)
		if recv == "-" {
			recv = ""
		}
		fc := p.Func(fs.Arg(0), recv, fs.Arg(2))
		fmt.Print(fc.G.String(p.Fset))
		for i, lit := range fc.Lits() {
			fmt.Printf("--- literal %d at %s\n", i, p.posStr(lit.Pos()))
			fmt.Print(p.LitCtx(fc, lit).G.String(p.Fset))
		}
	case "list":
		var ids []string
		for id := range props {
			ids = append(ids, id)
		}
		sort.Strings(ids)
		for _, id := range ids {
			fmt.Println(id)
		}
	default:
		usage()
	}
}

func usage() {
	fmt.Fprintln(os.Stderr, "usage: ssverif check [-tier quick|thorough] <ID> | dump <pkg> <recv|-> <func> | list")
	os.Exit(2)
}

func runCheck(id, tier string) int {
	pc := props[id]
	if pc == nil {
		fatalf("unknown property %s", id)
	}
	r := NewReport(id, tier)
	p := Load(loadSyntax, nil, nil, pc.Pkgs...)
	r.Count("packages_loaded_with_syntax", len(p.All))
	r.Count("function_bodies_in_loaded_packages", p.NFuncs)
	pc.Run(p, r)
	if tier == "thorough" {
		runMutants(pc, p, r)
	}
	return r.Finish()
}
