package main

import (
	"flag"
	"fmt"
	"os"
	"sort"
	"strings"

	"golang.org/x/tools/go/packages"
)

const loadSyntax = packages.LoadSyntax | packages.NeedModule

type PropCheck struct {
	ID   string
	Pkgs []string // package patterns to load ("./ss2022")
	Run  func(p *Prog, r *Report)
	// Inline: analyse function bodies with statement-level calls to same-package helpers expanded
	Inline bool
	// AnchorsInlined: functions obtained by name are analysed with unexported helpers expanded;
	// KeepCalls names the helpers that stay calls because rules anchor on them
	AnchorsInlined bool
	KeepCalls      []string
}

var props = map[string]*PropCheck{}

func register(pc *PropCheck) { props[pc.ID] = pc }

func main() {
	// go/packages resolves the go command through this process's PATH
	os.Setenv("PATH", "/opt/veriftools/go1.26.8/bin:"+os.Getenv("PATH"))
	os.Setenv("GOTOOLCHAIN", "local")
	os.Unsetenv("GOOS")
	os.Unsetenv("GOARCH")
	if len(os.Args) < 2 {
		usage()
	}
	switch os.Args[1] {
	case "check":
		fs := flag.NewFlagSet("check", flag.ExitOnError)
		tier := fs.String("tier", "quick", "quick|thorough")
		fs.StringVar(&repoDir, "repo", repoDir, "repository directory")
		fs.StringVar(&verifDir, "verif", verifDir, "verif directory")
		fs.Parse(os.Args[2:])
		if fs.NArg() != 1 {
			usage()
		}
		os.Exit(runCheck(fs.Arg(0), *tier))
	case "renamelocals":
		fs := flag.NewFlagSet("renamelocals", flag.ExitOnError)
		fs.StringVar(&repoDir, "repo", repoDir, "scratch worktree to rewrite in place")
		fs.Parse(os.Args[2:])
		renameLocals(fs.Args())
	case "dump":
		fs := flag.NewFlagSet("dump", flag.ExitOnError)
		fs.StringVar(&repoDir, "repo", repoDir, "repository directory")
		fs.Parse(os.Args[2:])
		if fs.NArg() < 3 {
			usage()
		}
		p := Load(loadSyntax, nil, nil, "./"+fs.Arg(0))
		p.Inline = os.Getenv("VERIF_INLINE") == "1"
		recv := fs.Arg(1)
		if recv == "-" {
			recv = ""
		}
		p.AnchorsInlined = os.Getenv("VERIF_ANCHORS_INLINED") == "1"
		fc := p.Func(fs.Arg(0), recv, fs.Arg(2))
		fmt.Print(fc.G.String(p.Fset))
		for i, lit := range fc.Lits() {
			fmt.Printf("--- literal %d at %s\n", i, p.posStr(lit.Pos()))
			fmt.Print(p.LitCtx(fc, lit).G.String(p.Fset))
		}
	case "bounds":
		fs := flag.NewFlagSet("bounds", flag.ExitOnError)
		fs.StringVar(&repoDir, "repo", repoDir, "repository directory")
		all := fs.Bool("all", false, "print proved obligations too")
		only := fs.String("func", "", "only functions whose name contains this")
		fs.Parse(os.Args[2:])
		var pats []string
		for _, a := range fs.Args() {
			pats = append(pats, "./"+a)
		}
		p := Load(loadSyntax, nil, nil, pats...)
		eng := newBoundsEngine(p)
		eng.contract = c06Contract
		var fcs []*FuncCtx
		for _, a := range fs.Args() {
			pkg := p.Pkg(a)
			p.AllFuncs(pkg, func(fc *FuncCtx) {
				fcs = append(fcs, allCtxs(p, fc)...)
			})
		}
		obs := eng.analyse(fcs)
		cnt := map[string]int{}
		for _, o := range obs {
			cnt[o.Status]++
			if (o.Status != "proved" || *all) && strings.Contains(o.FC.Name, *only) {
				fmt.Printf("%-9s %s  %s  [%s] %s\n", o.Status, p.posStr(o.Pos), o.Construct, o.Goal.String(), o.Detail)
			}
		}
		for _, fc := range fcs {
			if fc.Obj == nil || !strings.Contains(fc.Name, *only) {
				continue
			}
			s := eng.sum[fc.Obj]
			if s == nil || (len(s.requires) == 0 && len(s.ensures) == 0 && len(s.ensuresSucc) == 0) {
				continue
			}
			fmt.Printf("SUMMARY %s\n", fc.Name)
			for _, r := range s.requires {
				fmt.Printf("   requires %s >= 0   (%s)\n", r.lf.String(), r.origin)
			}
			for _, r := range s.ensures {
				fmt.Printf("   ensures  %s >= 0\n", r.String())
			}
			for _, r := range s.ensuresSucc {
				fmt.Printf("   ensures-on-success  %s >= 0\n", r.String())
			}
		}
		fmt.Println(cnt)
	case "refnames":
		fs := flag.NewFlagSet("refnames", flag.ExitOnError)
		fs.StringVar(&repoDir, "repo", repoDir, "repository directory")
		fs.Parse(os.Args[2:])
		writeRefNames(Load(loadSyntax, nil, nil, "./..."))
	case "list":
		var ids []string
		for id := range props {
			ids = append(ids, id)
		}
		sort.Strings(ids)
		for _, id := range ids {
			fmt.Println(id)
		}
	default:
		usage()
	}
}

func usage() {
	fmt.Fprintln(os.Stderr, "usage: ssverif check [-tier quick|thorough] <ID> | dump <pkg> <recv|-> <func> | list")
	os.Exit(2)
}

func runCheck(id, tier string) int {
	pc := props[id]
	if pc == nil {
		fatalf("unknown property %s", id)
	}
	r := NewReport(id, tier)
	p := Load(loadSyntax, nil, nil, pc.Pkgs...)
	p, canonNotes := Canonicalise(p)
	for _, n := range canonNotes {
		r.Notes = append(r.Notes, "canonical names: analysed as "+n)
	}
	r.Count("identifiers_renamed_back_to_reference_names", len(canonNotes))
	p.Inline = pc.Inline || os.Getenv("VERIF_INLINE") == "1"
	p.AnchorsInlined = pc.AnchorsInlined || os.Getenv("VERIF_ANCHORS_INLINED") == "1"
	if pc.KeepCalls != nil {
		p.KeepCalls = map[string]bool{}
		for _, k := range pc.KeepCalls {
			p.KeepCalls[k] = true
		}
	}
	r.Count("packages_loaded_with_syntax", len(p.All))
	r.Count("function_bodies_in_loaded_packages", p.NFuncs)
	activeProg = p
	pc.Run(p, r)
	if tier == "thorough" {
		runMutants(pc, p, r)
	}
	return r.Finish()
}
