package main

import (
	"fmt"
	"go/ast"
	"go/token"
	"go/types"
	"net/textproto"
	"sort"
	"strings"
)

func init() {
	register(&PropCheck{ID: "C16", Pkgs: []string{"./httpproxy", "./socks5", "./ssnone", "./conn", "./netio", "./ss2022"}, Run: runC16})
}

func runC16(p *Prog, r *Report) {
	r.Explanation = "Structural necessary conditions of 'plain-HTTP proxying forwards messages intact minus hop-by-hop and proxy fields': every request and response passes the connection-specific-field filter (and requests the Upgrade removal) after it was last (re)read and before it is written on; the filter deletes the fixed hop-by-hop and proxy-credential fields on every path and, for every Connection field line, every comma-separated, trimmed, canonicalised option from header and trailer before Connection itself is deleted; literal header keys used for direct map access are canonical; after each subsequent request is read, it is written to the origin only past the 'not CONNECT' and 'same Host as the first request' tests; each request is announced to the response side before it is written, responses are read against the request taken from that queue, interim responses loop and close indications end forwarding after the flush; nothing is forwarded before authentication (shared with C07-R1)."
	r.NotDecided = []string{"body integrity, chunked and trailer encoding (delegated to net/http)", "behaviour at a given pipelining depth", "case-insensitive or port-normalising host comparison (only exact equality with the first request's Host is recognised)"}
	r.Assumptions = []string{"net/http ReadRequest/ReadResponse/Write semantics", "http.Header keys produced by net/http parsing are canonical"}
	c16R1(p, r)
	c16R2(p, r)
	c16R3(p, r)
	c16R4(p, r)
	c16R5(p, r)
	// R6: nothing forwarded before authentication
	sub := NewReport("tmp", "quick")
	c07R1(p, sub)
	r.Rule("C16-R6", "nothing is forwarded before valid credentials are presented when authentication is enabled (HTTP part of the authentication gate)")
	for _, o := range sub.Obs {
		if strings.Contains(o.Construct, "httpproxy") {
			o.Rule = "C16-R6"
			r.Obs = append(r.Obs, o)
		}
	}
	r.Floor("C16-R6", 4)
}

func isCallNamed(info *types.Info, n ast.Node, name string) (*ast.CallExpr, bool) {
	c, ok := n.(*ast.CallExpr)
	if !ok {
		return nil, false
	}
	switch f := ast.Unparen(c.Fun).(type) {
	case *ast.Ident:
		return c, f.Name == name
	case *ast.SelectorExpr:
		return c, f.Sel.Name == name
	}
	return nil, false
}

func c16R1(p *Prog, r *Report) {
	const rule = "C16-R1"
	r.Rule(rule, "filter before forward: in the request loop every path from a (re)definition of the request to req.Write passes removeConnectionSpecificFields(req.Header, req.Trailer) and delete(req.Header, \"Upgrade\") on that same request; in the response loop resp.Write is dominated by removeConnectionSpecificFields(resp.Header, resp.Trailer) after the response was read")
	for _, spec := range [][3]string{{"serverForwardRequests", "req", "Upgrade"}, {"serverForwardResponses", "resp", ""}} {
		fc := p.Func("httpproxy", "", spec[0])
		info := fc.Info()
		// the message variable: receiver of .Write(...) whose type is *http.Request / *http.Response
		var writeV = -1
		var msg types.Object
		for _, cs := range fc.AllCalls() {
			if cs.Fn != nil && cs.Fn.Name() == "Write" && cs.Fn.Pkg() != nil && cs.Fn.Pkg().Path() == "net/http" {
				sel := ast.Unparen(cs.Call.Fun).(*ast.SelectorExpr)
				msg = objOf(info, sel.X)
				writeV = cs.V
			}
		}
		if msg == nil {
			r.Fail(rule, "httpproxy."+spec[0]+":write", p.posStr(fc.Body.Pos()), "no message Write found")
			continue
		}
		var filters, upgrades []int
		for _, cs := range fc.AllCalls() {
			if cs.Fn != nil && cs.Fn.Name() == "removeConnectionSpecificFields" && len(cs.Call.Args) == 2 {
				a0, ok0 := ast.Unparen(cs.Call.Args[0]).(*ast.SelectorExpr)
				a1, ok1 := ast.Unparen(cs.Call.Args[1]).(*ast.SelectorExpr)
				if ok0 && ok1 && a0.Sel.Name == "Header" && a1.Sel.Name == "Trailer" && objOf(info, a0.X) == msg && objOf(info, a1.X) == msg {
					filters = append(filters, cs.V)
				}
			}
			if id, ok := ast.Unparen(cs.Call.Fun).(*ast.Ident); ok && id.Name == "delete" && len(cs.Call.Args) == 2 {
				a0, ok0 := ast.Unparen(cs.Call.Args[0]).(*ast.SelectorExpr)
				if v, isC := constOf(info, cs.Call.Args[1]); ok0 && isC && a0.Sel.Name == "Header" && objOf(info, a0.X) == msg && constStr(v) == spec[2] {
					upgrades = append(upgrades, cs.V)
				}
			}
		}
		defs := fc.Defs(msg)
		starts := append([]int{}, defs...)
		isParam := false
		for i := 0; ; i++ {
			po := fc.ParamObj(i)
			if po == nil {
				break
			}
			if po == msg {
				isParam = true
			}
		}
		check := func(label string, must []int, why string) {
			isMust := map[int]bool{}
			for _, m := range must {
				isMust[m] = true
			}
			bad := len(must) == 0
			for _, d := range starts {
				if fc.G.ReachAfter(d, func(v *Vertex) bool { return isMust[v.ID] }, nil)[writeV] {
					bad = true
				}
			}
			if isParam && fc.G.Reach([]int{fc.G.Entry}, func(v *Vertex) bool { return isMust[v.ID] }, nil)[writeV] {
				bad = true
			}
			r.Check(!bad, rule, "httpproxy."+spec[0]+":"+label, p.posStr(fc.G.V[writeV].Node.Pos()), "every path from reading the message to writing it on passes "+label, why)
		}
		check("filter-before-write", filters, "a "+spec[1]+" can be written on without having passed removeConnectionSpecificFields after it was read: hop-by-hop fields and proxy credentials leak to the "+map[string]string{"req": "origin", "resp": "client"}[spec[1]])
		if spec[2] != "" {
			check("upgrade-removed-before-write", upgrades, "a request can be written to the origin with its Upgrade field")
		}
	}
	r.Floor(rule, 3)
}

func c16R2(p *Prog, r *Report) {
	const rule = "C16-R2"
	r.Rule(rule, "the filter removes what it must: removeConnectionSpecificFields deletes Connection, Proxy-Connection, Keep-Alive, Te, Transfer-Encoding, Proxy-Authenticate, Proxy-Authorization and Proxy-Authentication-Info from the header on every path; it ranges over every Connection field line (not only the first), splits each on commas, trims and canonicalises every option and deletes it from header and trailer (except close / upgrade), and deletes Connection itself only after the lines were processed")
	fc := p.Func("httpproxy", "", "removeConnectionSpecificFields")
	info := fc.Info()
	header, trailer := fc.ParamObj(0), fc.ParamObj(1)
	must := []string{"Connection", "Proxy-Connection", "Keep-Alive", "Te", "Transfer-Encoding", "Proxy-Authenticate", "Proxy-Authorization", "Proxy-Authentication-Info"}
	del := map[string]int{}
	var optDeletes = map[types.Object]int{}
	for _, cs := range fc.AllCalls() {
		if id, ok := ast.Unparen(cs.Call.Fun).(*ast.Ident); ok && id.Name == "delete" && len(cs.Call.Args) == 2 {
			target := objOf(info, cs.Call.Args[0])
			if v, isC := constOf(info, cs.Call.Args[1]); isC && target == header {
				del[constStr(v)] = cs.V
			} else if !isC {
				optDeletes[target] = cs.V
			}
		}
		if cs.Fn != nil && cs.Fn.Name() == "Del" && len(cs.Call.Args) == 1 {
			if sel, ok := ast.Unparen(cs.Call.Fun).(*ast.SelectorExpr); ok && objOf(info, sel.X) == header {
				if v, isC := constOf(info, cs.Call.Args[0]); isC {
					del[textproto.CanonicalMIMEHeaderKey(constStr(v))] = cs.V
				}
			}
		}
	}
	for _, k := range must {
		v, ok := del[k]
		r.Check(ok && fc.G.Dominates([]int{v}, fc.G.Exit), rule, "httpproxy.removeConnectionSpecificFields:deletes:"+k, p.posStr(fc.Body.Pos()), "deleted from the header on every path", "the field "+k+" is not removed on every path: it is forwarded")
	}
	// the Connection loop
	var rng *Vertex
	for _, v := range fc.G.V {
		if v.Kind != VRange {
			continue
		}
		if ix, ok := ast.Unparen(v.Stmt.(*ast.RangeStmt).X).(*ast.IndexExpr); ok && objOf(info, ix.X) == header {
			if kv, isC := constOf(info, ix.Index); isC && constStr(kv) == "Connection" {
				rng = v
			}
		}
	}
	if rng == nil {
		// header.Values("Connection") also yields all lines
		for _, v := range fc.G.V {
			if v.Kind == VRange {
				if c, ok := ast.Unparen(v.Stmt.(*ast.RangeStmt).X).(*ast.CallExpr); ok {
					if sel, ok := ast.Unparen(c.Fun).(*ast.SelectorExpr); ok && sel.Sel.Name == "Values" && objOf(info, sel.X) == header {
						rng = v
					}
				}
			}
		}
	}
	r.Check(rng != nil, rule, "httpproxy.removeConnectionSpecificFields:every-connection-line", p.posStr(fc.Body.Pos()), "ranges over all values of header[\"Connection\"]", "the Connection options are not taken from every Connection field line (e.g. header.Get returns only the first): fields nominated on a second Connection line are forwarded")
	if rng != nil {
		rs := rng.Stmt.(*ast.RangeStmt)
		body := rs.Body
		var hasSplit, hasTrim, hasCanon bool
		ast.Inspect(body, func(n ast.Node) bool {
			if c, ok := n.(*ast.CallExpr); ok {
				s := exprStr(c.Fun)
				if (strings.HasSuffix(s, "strings.Cut") || strings.HasSuffix(s, "strings.Split") || strings.HasSuffix(s, "strings.SplitSeq")) && len(c.Args) == 2 {
					if v, isC := constOf(info, c.Args[1]); isC && constStr(v) == "," {
						hasSplit = true
					}
				}
				if strings.HasSuffix(s, "strings.TrimSpace") {
					hasTrim = true
				}
				if strings.HasSuffix(s, "CanonicalHeaderKey") || strings.HasSuffix(s, "CanonicalMIMEHeaderKey") {
					hasCanon = true
				}
			}
			return true
		})
		r.Check(hasSplit && hasTrim && hasCanon, rule, "httpproxy.removeConnectionSpecificFields:option-normalisation", p.posStr(body.Pos()), "options are split on ',', trimmed and canonicalised", fmt.Sprintf("option handling: split on comma=%v trimmed=%v canonicalised=%v (a nominated field with other casing or spacing is forwarded)", hasSplit, hasTrim, hasCanon))
		inBody := func(v int) bool {
			n := fc.G.V[v].Node
			return n != nil && body.Pos() <= n.Pos() && n.End() <= body.End()
		}
		hv, hok := optDeletes[header]
		tv, tok := optDeletes[trailer]
		r.Check(hok && tok && inBody(hv) && inBody(tv), rule, "httpproxy.removeConnectionSpecificFields:option-deleted-from-header-and-trailer", p.posStr(body.Pos()), "each nominated option is deleted from header and trailer", "nominated options are not deleted from both the header and the trailer")
		// split loop continues until the last option: the inner loop's exit is `!found` / exhausted
		if cv, ok := del["Connection"]; ok {
			r.Check(fc.G.Dominates([]int{rng.ID}, cv) && !inBody(cv), rule, "httpproxy.removeConnectionSpecificFields:connection-deleted-last", p.posStr(fc.G.V[cv].Node.Pos()), "Connection is deleted after its lines were processed", "Connection is deleted before (or while) its values are read: nominated options are never seen")
		}
		// exceptions: only close and upgrade are kept
		kept := map[string]bool{}
		ast.Inspect(body, func(n ast.Node) bool {
			cc, ok := n.(*ast.CaseClause)
			if !ok || cc.List == nil || len(cc.Body) != 0 {
				return true
			}
			for _, e := range cc.List {
				if v, isC := constOf(info, e); isC {
					kept[constStr(v)] = true
				}
			}
			return true
		})
		var kl []string
		for k := range kept {
			kl = append(kl, k)
		}
		sort.Strings(kl)
		r.Check(strings.Join(kl, ",") == "Close,Upgrade" || len(kl) == 0 || strings.Join(kl, ",") == "Close", rule, "httpproxy.removeConnectionSpecificFields:kept-options", p.posStr(body.Pos()), "only close/upgrade options are not treated as field names", "options "+strings.Join(kl, ",")+" are exempt from removal")
	}
	r.Floor(rule, 12)
}

func c16R3(p *Prog, r *Report) {
	const rule = "C16-R3"
	r.Rule(rule, "header keys are canonical: every constant string used to index, delete from or range over an http.Header directly (not through Get/Set/Del) equals its canonical MIME header form — otherwise the operation silently does nothing")
	pkg := p.Pkg("httpproxy")
	n := 0
	isHeader := func(info *types.Info, e ast.Expr) bool {
		tv, ok := info.Types[e]
		return ok && namedTypeName(tv.Type) == "Header" && namedTypePkg(tv.Type) == "net/http"
	}
	p.AllFuncs(pkg, func(top *FuncCtx) {
		for _, fc := range allCtxs(p, top) {
			info := fc.Info()
			ast.Inspect(fc.Body, func(x ast.Node) bool {
				if _, isLit := x.(*ast.FuncLit); isLit && x != ast.Node(fc.Lit) {
					return false
				}
				var key ast.Expr
				switch y := x.(type) {
				case *ast.IndexExpr:
					if isHeader(info, y.X) {
						key = y.Index
					}
				case *ast.CallExpr:
					if id, ok := ast.Unparen(y.Fun).(*ast.Ident); ok && id.Name == "delete" && len(y.Args) == 2 && isHeader(info, y.Args[0]) {
						key = y.Args[1]
					}
				}
				if key == nil {
					return true
				}
				v, isC := constOf(info, key)
				if !isC {
					return true
				}
				n++
				s := constStr(v)
				r.Check(textproto.CanonicalMIMEHeaderKey(s) == s, rule, fmt.Sprintf("%s:header-key:%s", fc.Name, s), p.posStr(key.Pos()), "canonical", "header key "+fmt.Sprintf("%q", s)+" is not in canonical form ("+fmt.Sprintf("%q", textproto.CanonicalMIMEHeaderKey(s))+"): the direct map operation never matches what net/http parsed")
				return true
			})
		}
	})
	r.Count("literal_header_keys", n)
	r.Floor(rule, 11)
}

func c16R4(p *Prog, r *Report) {
	const rule = "C16-R4"
	r.Rule(rule, "one origin per connection: the fixed host is taken once from the first request; after every subsequent http.ReadRequest the request reaches req.Write only past the false edge of req.Method == CONNECT and past the equal edge of an exact comparison of req.Host with the fixed host; both other edges end forwarding")
	fc := p.Func("httpproxy", "", "serverForwardRequests")
	info := fc.Info()
	reqParam := fc.ParamObj(0)
	var fixed types.Object
	for _, v := range fc.G.V {
		if as, ok := v.Node.(*ast.AssignStmt); ok && len(as.Lhs) == 1 && len(as.Rhs) == 1 {
			if sel, ok := ast.Unparen(as.Rhs[0]).(*ast.SelectorExpr); ok && sel.Sel.Name == "Host" && objOf(info, sel.X) == reqParam {
				fixed = objOf(info, as.Lhs[0])
			}
		}
	}
	okFixed := fixed != nil && len(fc.Defs(fixed)) == 1
	if okFixed {
		// defined before the loop: dominates every ReadRequest
		for _, cs := range fc.AllCalls() {
			if cs.Fn != nil && cs.Fn.Name() == "ReadRequest" && !fc.G.Dominates(fc.Defs(fixed), cs.V) {
				okFixed = false
			}
		}
	}
	r.Check(okFixed, rule, "httpproxy.serverForwardRequests:fixed-host-from-first-request", p.posStr(fc.Body.Pos()), "the fixed host is assigned once, from the first request's Host", "the fixed host is not taken exactly once from the first request")
	var read *CallSite
	var writeV = -1
	for _, cs := range fc.AllCalls() {
		if cs.Fn != nil && cs.Fn.Name() == "ReadRequest" {
			c := cs
			read = &c
		}
		if cs.Fn != nil && cs.Fn.Name() == "Write" && cs.Fn.Pkg() != nil && cs.Fn.Pkg().Path() == "net/http" {
			writeV = cs.V
		}
	}
	if read == nil || writeV < 0 || fixed == nil {
		r.Fail(rule, "httpproxy.serverForwardRequests:shape", p.posStr(fc.Body.Pos()), "ReadRequest / Write not found")
		return
	}
	var notConnect, sameHost []Edge
	for _, v := range fc.G.V {
		x, y, op, ok := condParts(v)
		if !ok || y == nil || (op != token.EQL && op != token.NEQ) {
			continue
		}
		isReqField := func(e ast.Expr, f string) bool {
			sel, ok := ast.Unparen(e).(*ast.SelectorExpr)
			return ok && sel.Sel.Name == f && objOf(info, sel.X) == reqParam
		}
		eqLab, neLab := LTrue, LFalse
		if op == token.NEQ {
			eqLab, neLab = LFalse, LTrue
		}
		if (isReqField(x, "Method") && strings.HasSuffix(exprStr(y), "MethodConnect")) || (isReqField(y, "Method") && strings.HasSuffix(exprStr(x), "MethodConnect")) {
			for _, e := range v.Succs {
				if e.Label == neLab {
					notConnect = append(notConnect, e)
				}
			}
		}
		if (isReqField(x, "Host") && objOf(info, y) == fixed) || (isReqField(y, "Host") && objOf(info, x) == fixed) {
			for _, e := range v.Succs {
				if e.Label == eqLab {
					sameHost = append(sameHost, e)
				}
			}
		}
	}
	// from the read's success, the write is unreachable when either edge set is removed
	for _, spec := range []struct {
		name  string
		edges []Edge
		why   string
	}{
		{"subsequent-connect-not-forwarded", notConnect, "a CONNECT received after the first request can be written to the origin as an ordinary request"},
		{"same-host-only", sameHost, "a later request for a different host (or the same name with another port) is not filtered by an exact comparison with the first request's Host: it is sent, with its body and credentials, to the origin the connection was opened for"},
	} {
		es := map[Edge]bool{}
		for _, e := range spec.edges {
			es[e] = true
		}
		bad := len(spec.edges) == 0
		for _, e := range read.ResultEdges(-1, WantNil) {
			if fc.G.Reach([]int{e.To}, func(v *Vertex) bool { return v.ID == read.V }, func(x Edge) bool { return es[x] })[writeV] {
				bad = true
			}
		}
		r.Check(!bad, rule, "httpproxy.serverForwardRequests:"+spec.name, read.Pos(), "every path from a subsequent request to req.Write passes the test", spec.why)
	}
	// a failed ReadRequest never reaches Write again
	for _, e := range read.ResultEdges(-1, WantNonNil) {
		r.Check(!fc.G.Reach([]int{e.To}, nil, nil)[writeV], rule, "httpproxy.serverForwardRequests:read-error-ends", read.Pos(), "a read error ends forwarding", "after a failed ReadRequest the loop can still write a request")
	}
	r.Floor(rule, 4)
}

func c16R5(p *Prog, r *Report) {
	const rule = "C16-R5"
	r.Rule(rule, "request/response pairing: each request is offered to the response side (reqCh) before it is written to the origin; each response is read with http.ReadResponse against the request received from reqCh in the enclosing iteration; the inner loop repeats only for interim (status < 200) responses; a close indication on either message ends forwarding, after the response was written and flushed")
	fq := p.Func("httpproxy", "", "serverForwardRequests")
	qinfo := fq.Info()
	var sendV, writeV = -1, -1
	for _, v := range fq.G.V {
		if ss, ok := v.Node.(*ast.SendStmt); ok && objOf(qinfo, ss.Chan) == fq.ParamObj(1) && objOf(qinfo, ss.Value) == fq.ParamObj(0) {
			sendV = v.ID
		}
	}
	for _, cs := range fq.AllCalls() {
		if cs.Fn != nil && cs.Fn.Name() == "Write" && cs.Fn.Pkg() != nil && cs.Fn.Pkg().Path() == "net/http" {
			writeV = cs.V
		}
	}
	// every path to the write passes the select containing the send (the alternative case is respDone)
	var selV = -1
	for _, v := range fq.G.V {
		if v.Kind == VSelect && sendV >= 0 {
			for _, cl := range v.Stmt.(*ast.SelectStmt).Body.List {
				if cl.(*ast.CommClause).Comm == fq.G.V[sendV].Node {
					selV = v.ID
				}
			}
		}
	}
	okAnn := sendV >= 0 && writeV >= 0 && selV >= 0 && fq.G.Dominates([]int{selV}, writeV)
	if okAnn {
		// within one iteration: from a ReadRequest success to Write, the select is passed
		for _, cs := range fq.AllCalls() {
			if cs.Fn != nil && cs.Fn.Name() == "ReadRequest" {
				if fq.G.ReachAfter(cs.V, func(v *Vertex) bool { return v.ID == selV }, nil)[writeV] {
					okAnn = false
				}
			}
		}
	}
	r.Check(okAnn, rule, "httpproxy.serverForwardRequests:announce-before-write", p.posStr(fq.Body.Pos()), "the request is offered on reqCh before req.Write in every iteration", "a request can be written to the origin before (or without) being announced to the response side: its response is paired with the wrong request, or an interim response blocks the write forever")
	// every request written to the origin's buffered writer is flushed before the loop waits for the
	// next request or ends: the early exits (host change, later CONNECT, read error, clean EOF) and
	// the caller's CloseWrite assume nothing is left in the buffer — an unflushed request never
	// reaches the origin (or reaches it only when the client sends another one)
	{
		flush := map[int]bool{}
		var readReq []int
		for _, cs := range fq.AllCalls() {
			if cs.Fn == nil {
				continue
			}
			if cs.Fn.Name() == "Flush" && len(cs.Call.Args) == 0 {
				// the writer that req.Write was given (by identity of the variable, whatever its position)
				if sel, ok := ast.Unparen(cs.Call.Fun).(*ast.SelectorExpr); ok && writeV >= 0 {
					if wo := objOf(qinfo, sel.X); wo != nil {
						ast.Inspect(fq.G.V[writeV].Node, func(n ast.Node) bool {
							if c, isC := n.(*ast.CallExpr); isC && len(c.Args) == 1 && objOf(qinfo, c.Args[0]) == wo {
								if fn := Callee(qinfo, c); fn != nil && fn.Name() == "Write" {
									flush[cs.V] = true
								}
							}
							return true
						})
					}
				}
			}
			if cs.Fn.Name() == "ReadRequest" {
				readReq = append(readReq, cs.V)
			}
		}
		bad := ""
		if writeV >= 0 {
			reach := fq.G.ReachAfter(writeV, func(v *Vertex) bool { return flush[v.ID] }, nil)
			for _, rv := range readReq {
				if reach[rv] && !flush[rv] {
					bad = "the next request is read (" + p.posStr(fq.G.V[rv].Node.Pos()) + ")"
				}
			}
			for _, ret := range fq.Returns() {
				if reach[ret] && !flush[ret] && fq.ErrAtReturn(ret) != ErrNonNil {
					bad = "the function returns without an error (" + p.posStr(fq.G.V[ret].Node.Pos()) + ")"
				}
			}
		}
		r.Check(writeV >= 0 && len(flush) > 0 && bad == "", rule, "httpproxy.serverForwardRequests:written-request-is-flushed", p.posStr(fq.Body.Pos()), "after req.Write every path to the next ReadRequest or to a successful return passes the writer's Flush", "a request written to the origin's buffered writer can stay unflushed: "+bad+" on a path from req.Write that does not pass Flush — with pipelined input the request never reaches the origin before the connection is closed, or is withheld until the client sends more")
	}
	fr := p.Func("httpproxy", "", "serverForwardResponses")
	rinfo := fr.Info()
	var recvV = -1
	var reqObj types.Object
	for _, v := range fr.G.V {
		if as, ok := v.Node.(*ast.AssignStmt); ok && len(as.Rhs) == 1 {
			if u, ok := ast.Unparen(as.Rhs[0]).(*ast.UnaryExpr); ok && u.Op == token.ARROW && objOf(rinfo, u.X) == fr.ParamObj(0) {
				recvV = v.ID
				reqObj = objOf(rinfo, as.Lhs[0])
			}
		}
	}
	var rr *CallSite
	for _, cs := range fr.AllCalls() {
		if cs.Fn != nil && cs.Fn.Name() == "ReadResponse" {
			c := cs
			rr = &c
		}
	}
	okPair := recvV >= 0 && rr != nil && objOf(rinfo, rr.Call.Args[1]) == reqObj && fr.SoleDef(rr.V, reqObj, recvV) && objOf(rinfo, rr.Call.Args[0]) == fr.ParamObj(1)
	r.Check(okPair, rule, "httpproxy.serverForwardResponses:response-read-against-queued-request", p.posStr(fr.Body.Pos()), "ReadResponse(plbr, req) with req received from reqCh", "responses are not parsed against the request taken from the queue (HEAD / 1xx / body framing is decided by the wrong request)")
	if rr != nil {
		resp := rr.ResultVar(0)
		// inner loop: back edge to ReadResponse without a new receive only on StatusCode < 200
		var finalEdges []Edge
		for _, v := range fr.G.V {
			x, y, op, ok := condParts(v)
			if ok && y == nil && v.Kind == VCond {
				// a local flag whose only definition is the status comparison
				if o := objOf(rinfo, x); o != nil {
					if rhs, _, _, sole := fr.SoleDefRHS(o); sole {
						if be, isBin := ast.Unparen(rhs).(*ast.BinaryExpr); isBin {
							if sel, isSel := ast.Unparen(be.X).(*ast.SelectorExpr); isSel && sel.Sel.Name == "StatusCode" && objOf(rinfo, sel.X) == resp {
								if k, isC := constInt(rinfo, be.Y); isC && k == 200 {
									final := -1
									switch be.Op {
									case token.GEQ:
										final = LTrue
									case token.LSS:
										final = LFalse
									}
									for _, e := range v.Succs {
										if e.Label == final {
											finalEdges = append(finalEdges, e)
										}
									}
								}
							}
						}
					}
				}
				continue
			}
			if !ok || y == nil {
				continue
			}
			sel, isSel := ast.Unparen(x).(*ast.SelectorExpr)
			if !isSel || sel.Sel.Name != "StatusCode" || objOf(rinfo, sel.X) != resp {
				continue
			}
			k, isC := constInt(rinfo, y)
			if !isC || k != 200 {
				continue
			}
			final := -1
			switch op {
			case token.GEQ:
				final = LTrue
			case token.LSS:
				final = LFalse
			}
			for _, e := range v.Succs {
				if e.Label == final {
					finalEdges = append(finalEdges, e)
				}
			}
		}
		es := map[Edge]bool{}
		for _, e := range finalEdges {
			es[e] = true
		}
		// without crossing a "final" edge, the next receive from reqCh is unreachable from ReadResponse (interim responses keep the same request)
		reachNoFinal := fr.G.ReachAfter(rr.V, nil, func(e Edge) bool { return es[e] })
		// with final edges removed the ReadResponse must be re-reachable (loop for 1xx) and the receive must not be
		r.Check(len(finalEdges) > 0 && reachNoFinal[rr.V] && !reachNoFinal[recvV], rule, "httpproxy.serverForwardResponses:interim-responses-loop", rr.Pos(), "only a final (>= 200) response moves on to the next request; interim ones read another response for the same request", "interim (1xx) responses are not looped for the same request, or a final response does not move on: responses come back out of request order")
		// close indication ends forwarding after flush
		var flushV = -1
		for _, cs := range fr.AllCalls() {
			if cs.Fn != nil && cs.Fn.Name() == "Flush" {
				flushV = cs.V
			}
		}
		closeOK := false
		for _, v := range fr.G.V {
			if v.Kind != VCond {
				continue
			}
			s := exprStr(v.Node)
			if strings.HasSuffix(s, ".Close") {
				for _, e := range v.Succs {
					if e.Label == LTrue {
						// leads to a return without further ReadResponse
						reach := fr.G.Reach([]int{e.To}, nil, nil)
						if !reach[rr.V] && flushV >= 0 && fr.G.Dominates([]int{flushV}, v.ID) {
							closeOK = true
						}
					}
				}
			}
		}
		// ... and only after the FINAL response: an interim (1xx) response answering a request that
		// carries a close indication (Connection: close, HTTP/1.0) is followed by the final response,
		// which must still be forwarded; acting on the close indication right after the interim one
		// ends the connection with the final response unread
		for _, v := range fr.G.V {
			if v.Kind != VCond || !strings.HasSuffix(exprStr(v.Node), ".Close") {
				continue
			}
			endsHere := false
			for _, e := range v.Succs {
				if e.Label == LTrue && !fr.G.Reach([]int{e.To}, nil, nil)[rr.V] {
					endsHere = true
				}
			}
			if !endsHere {
				continue
			}
			r.Check(len(finalEdges) > 0 && fr.G.EdgeDominates(finalEdges, v.ID), rule, "httpproxy.serverForwardResponses:close-acted-on-after-final-response:"+closeOwner(rinfo, v.Node.(ast.Expr)), p.posStr(v.Node.Pos()), "the close indication is examined only once the response is final (>= 200)",
				"the close indication "+exprStr(v.Node)+" ends forwarding on a path where the response just forwarded may be an interim (1xx) one: a request with Connection: close (or HTTP/1.0) that is answered with 100 Continue never gets its final response")
		}
		r.Check(closeOK, rule, "httpproxy.serverForwardResponses:close-ends-after-flush", p.posStr(fr.Body.Pos()), "a close indication ends forwarding, after the response was flushed", "a close indication on the request or response does not end forwarding (or ends it before the response was flushed)")
	}
	r.Floor(rule, 4)
}


// closeOwner names a `x.Close` condition by the type of x (request or response), not by x's name.
func closeOwner(info *types.Info, e ast.Expr) string {
	if sel, ok := ast.Unparen(e).(*ast.SelectorExpr); ok {
		if t := info.TypeOf(sel.X); t != nil {
			return types.TypeString(t, func(p *types.Package) string { return p.Name() }) + ".Close"
		}
	}
	return "Close"
}
