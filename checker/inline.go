package main

// inline.go: statement-level inlining of same-package helper calls before the CFG is built.
//
// Most rules are intraprocedural path rules. A maintainer who moves a block into an unexported
// helper does not change behaviour, so the rules must not change their verdict either. When
// Prog.Inline is set, every statement of the forms
//
//	helper(args)            x, err := helper(args)            if err := helper(args); … { … }
//
// whose callee is a non-generic, non-variadic function or method of the same package with an
// available body, no defer/recover/labels, and not on the current inlining stack, is replaced
// by a block holding: bindings of the parameters (or a direct substitution of the argument for
// parameters that the helper never assigns and whose argument is a side-effect-free path or
// constant), the helper's body cloned with fresh AST nodes (type information is copied to the
// clones), every `return e…` rewritten into an assignment to the caller's left-hand sides
// followed by a jump to the end of the block.
//
// The clones share types.Objects with the helper's declaration: locals of the helper are the
// same objects in every inlined copy, which is harmless for the analyses here (each copy
// defines before it uses).

import (
	"fmt"
	"go/ast"
	"go/token"
	"go/types"
	"reflect"
	"strings"

	"golang.org/x/tools/go/packages"
)

const inlineMaxDepth = 3

type inliner struct {
	p     *Prog
	pkg   *packages.Package
	info  *types.Info
	stack []*types.Func
	seq   *int
	// remap: objects declared by the helper being expanded -> fresh objects of this expansion
	remap map[types.Object]types.Object
	// tailStmt: the last statement of the function body being rewritten, when it is a plain call
	// statement. A helper called there may contain defer statements: they run when the helper
	// returns, which is when the caller returns, before the caller's own (earlier) defers —
	// exactly what hoisting them into the caller gives.
	tailStmt ast.Stmt
	tail     bool
}

var inlineSeq int

// InlineBody returns body with inlinable statement-level helper calls expanded (or body itself
// when nothing was inlined).
func (p *Prog) InlineBody(pkg *packages.Package, body *ast.BlockStmt, self *types.Func) *ast.BlockStmt {
	in := &inliner{p: p, pkg: pkg, info: pkg.TypesInfo, seq: &inlineSeq}
	if self != nil {
		in.stack = append(in.stack, self)
	}
	if n := len(body.List); n > 0 {
		if es, ok := body.List[n-1].(*ast.ExprStmt); ok {
			in.tailStmt = es
		}
	}
	ns, _ := in.rewriteStmt(body)
	return ns.(*ast.BlockStmt)
}

var (
	nodeType = reflect.TypeOf((*ast.Node)(nil)).Elem()
)

// clone deep-copies an AST subtree. Identifiers that use an object in sub are replaced by a
// clone of the substituted expression. Type information of every cloned node is copied.
func (in *inliner) clone(n ast.Node, sub map[types.Object]ast.Expr) ast.Node {
	if n == nil || reflect.ValueOf(n).IsNil() {
		return n
	}
	if id, ok := n.(*ast.Ident); ok {
		if o := in.info.Uses[id]; o != nil {
			if repl, ok := sub[o]; ok {
				c := in.clone(repl, nil)
				// the argument now stands where the parameter stood: containment tests by
				// position (is this statement inside that loop body?) keep working
				rebasePos(c, id.Pos())
				return c
			}
		}
	}
	v := reflect.ValueOf(n)
	if v.Kind() != reflect.Ptr {
		return n
	}
	nv := reflect.New(v.Elem().Type())
	nv.Elem().Set(v.Elem())
	out := nv.Interface().(ast.Node)
	in.copyInfo(n, out)
	st := nv.Elem()
	for i := 0; i < st.NumField(); i++ {
		f := st.Field(i)
		switch f.Kind() {
		case reflect.Interface, reflect.Ptr:
			if f.IsNil() || !f.CanInterface() {
				continue
			}
			if c, ok := f.Interface().(ast.Node); ok {
				switch c.(type) {
				case *ast.CommentGroup, *ast.Comment:
					continue
				}
				if f.Type().Kind() == reflect.Ptr {
					if _, isObj := f.Interface().(*ast.Object); isObj {
						continue
					}
				}
				nc := in.clone(c, sub)
				ncv := reflect.ValueOf(nc)
				if ncv.Type().AssignableTo(f.Type()) {
					f.Set(ncv)
				} else if f.Type().Kind() == reflect.Ptr {
					// substituted an identifier in a field that must stay *ast.Ident (e.g. Sel):
					// keep the original clone
					continue
				}
			}
		case reflect.Slice:
			if f.IsNil() || f.Len() == 0 {
				continue
			}
			et := f.Type().Elem()
			if !(et.Implements(nodeType) || (et.Kind() == reflect.Ptr && et.Implements(nodeType))) {
				continue
			}
			ns := reflect.MakeSlice(f.Type(), f.Len(), f.Len())
			for j := 0; j < f.Len(); j++ {
				e := f.Index(j)
				if (e.Kind() == reflect.Interface || e.Kind() == reflect.Ptr) && !e.IsNil() {
					nc := in.clone(e.Interface().(ast.Node), sub)
					ncv := reflect.ValueOf(nc)
					if ncv.Type().AssignableTo(et) {
						ns.Index(j).Set(ncv)
						continue
					}
				}
				ns.Index(j).Set(e)
			}
			f.Set(ns)
		}
	}
	// *&x (a pointer parameter bound to the address of a variable) is x
	if se, ok := out.(*ast.StarExpr); ok {
		if ue, ok := ast.Unparen(se.X).(*ast.UnaryExpr); ok && ue.Op == token.AND {
			return ue.X
		}
	}
	// (*T).m(x, a…) (a function parameter bound to a method expression, called) is x.m(a…)
	if call, ok := out.(*ast.CallExpr); ok && len(call.Args) >= 1 {
		if sel, ok := ast.Unparen(call.Fun).(*ast.SelectorExpr); ok {
			if sn := in.info.Selections[sel]; sn != nil && sn.Kind() == types.MethodExpr {
				if m, isFn := sn.Obj().(*types.Func); isFn {
					nsel := &ast.SelectorExpr{X: call.Args[0], Sel: ast.NewIdent(sel.Sel.Name)}
					nsel.Sel.NamePos = sel.Sel.NamePos
					in.info.Uses[nsel.Sel] = m
					if tv, ok := in.info.Types[sel]; ok {
						in.info.Types[nsel] = tv
					}
					call.Fun = nsel
					call.Args = call.Args[1:]
				}
			}
		}
	}
	// (&x).f (a pointer parameter bound to the address of a variable, selected through) is x.f
	if sel, ok := out.(*ast.SelectorExpr); ok {
		if ue, ok := ast.Unparen(sel.X).(*ast.UnaryExpr); ok && ue.Op == token.AND {
			if _, isLit := ast.Unparen(ue.X).(*ast.CompositeLit); !isLit {
				sel.X = ue.X
			}
		}
	}
	return out
}

// fresh returns this expansion's copy of an object declared inside the helper.
func (in *inliner) fresh(o types.Object) types.Object {
	if in.remap == nil {
		return o
	}
	if n, ok := in.remap[o]; ok {
		return n
	}
	return o
}

func (in *inliner) copyInfo(old, nw ast.Node) {
	info := in.info
	if e, ok := old.(ast.Expr); ok {
		if tv, ok := info.Types[e]; ok {
			info.Types[nw.(ast.Expr)] = tv
		}
	}
	switch o := old.(type) {
	case *ast.Ident:
		n := nw.(*ast.Ident)
		if obj, ok := info.Uses[o]; ok {
			info.Uses[n] = in.fresh(obj)
		}
		if obj, ok := info.Defs[o]; ok {
			info.Defs[n] = in.fresh(obj)
		}
		if inst, ok := info.Instances[o]; ok {
			info.Instances[n] = inst
		}
	case *ast.SelectorExpr:
		if s, ok := info.Selections[o]; ok {
			info.Selections[nw.(*ast.SelectorExpr)] = s
		}
	}
	if obj, ok := info.Implicits[old]; ok {
		info.Implicits[nw] = obj
	}
}

// rewriteStmt returns the statement with inlinable calls expanded and whether it changed.
func (in *inliner) rewriteStmt(s ast.Stmt) (ast.Stmt, bool) {
	switch x := s.(type) {
	case nil:
		return s, false
	case *ast.BlockStmt:
		if x == nil {
			return s, false
		}
		list, ch := in.rewriteList(x.List)
		if !ch {
			return s, false
		}
		n := *x
		n.List = list
		return &n, true
	case *ast.ExprStmt:
		if call, ok := x.X.(*ast.CallExpr); ok {
			in.tail = in.tailStmt != nil && ast.Stmt(x) == in.tailStmt && len(in.stack) <= 1
			blk := in.tryInline(nil, token.ASSIGN, call)
			in.tail = false
			if blk != nil {
				return blk, true
			}
		}
	case *ast.AssignStmt:
		if len(x.Rhs) == 1 && (x.Tok == token.ASSIGN || x.Tok == token.DEFINE) {
			if call, ok := ast.Unparen(x.Rhs[0]).(*ast.CallExpr); ok {
				if blk := in.tryInline(x.Lhs, x.Tok, call); blk != nil {
					return blk, true
				}
			}
		}
	case *ast.IfStmt:
		init, c1 := in.rewriteStmt(x.Init)
		body, c2 := in.rewriteStmt(x.Body)
		els, c3 := in.rewriteStmt(x.Else)
		// if helper(args) { … } / if !helper(args) { … }: evaluate the helper into a temporary first
		cond, pre := in.hoistCondCall(x.Cond)
		if c1 || c2 || c3 || pre != nil {
			n := *x
			n.Init = init
			n.Body = body.(*ast.BlockStmt)
			n.Else = els
			if pre != nil {
				n.Cond = cond
				var list []ast.Stmt
				if init != nil {
					list = append(list, init)
					n.Init = nil
				}
				list = append(list, pre, &n)
				return &ast.BlockStmt{List: list, Lbrace: x.Pos(), Rbrace: x.End()}, true
			}
			return &n, true
		}
	case *ast.ReturnStmt:
		// return helper(args): evaluate into temporaries, then return them
		if len(x.Results) == 1 {
			if call, ok := ast.Unparen(x.Results[0]).(*ast.CallExpr); ok {
				if fn := Callee(in.info, call); fn != nil {
					sig := fn.Type().(*types.Signature)
					var lhs, rets []ast.Expr
					for i := 0; i < sig.Results().Len(); i++ {
						l, u := in.newTemp(sig.Results().At(i).Type(), call.Pos())
						lhs = append(lhs, l)
						rets = append(rets, u)
					}
					if len(lhs) > 0 {
						if blk := in.tryInline(lhs, token.DEFINE, call); blk != nil {
							blk.List = append(blk.List, &ast.ReturnStmt{Return: x.Return, Results: rets})
							return blk, true
						}
					}
				}
			}
		}
	case *ast.ForStmt:
		init, c1 := in.rewriteStmt(x.Init)
		body, c2 := in.rewriteStmt(x.Body)
		if c1 || c2 {
			n := *x
			n.Init = init
			n.Body = body.(*ast.BlockStmt)
			return &n, true
		}
	case *ast.RangeStmt:
		body, c := in.rewriteStmt(x.Body)
		if c {
			n := *x
			n.Body = body.(*ast.BlockStmt)
			return &n, true
		}
	case *ast.SwitchStmt:
		init, c1 := in.rewriteStmt(x.Init)
		body, c2 := in.rewriteStmt(x.Body)
		if c1 || c2 {
			n := *x
			n.Init = init
			n.Body = body.(*ast.BlockStmt)
			return &n, true
		}
	case *ast.TypeSwitchStmt:
		body, c := in.rewriteStmt(x.Body)
		if c {
			n := *x
			n.Body = body.(*ast.BlockStmt)
			return &n, true
		}
	case *ast.SelectStmt:
		body, c := in.rewriteStmt(x.Body)
		if c {
			n := *x
			n.Body = body.(*ast.BlockStmt)
			return &n, true
		}
	case *ast.CaseClause:
		list, c := in.rewriteList(x.Body)
		if c {
			n := *x
			n.Body = list
			return &n, true
		}
	case *ast.CommClause:
		list, c := in.rewriteList(x.Body)
		if c {
			n := *x
			n.Body = list
			return &n, true
		}
	case *ast.LabeledStmt:
		st, c := in.rewriteStmt(x.Stmt)
		if c {
			n := *x
			n.Stmt = st
			return &n, true
		}
	}
	return s, false
}

// newTemp makes a fresh local variable; it returns a defining and a using identifier.
func (in *inliner) newTemp(t types.Type, pos token.Pos) (*ast.Ident, *ast.Ident) {
	*in.seq++
	name := fmt.Sprintf("__inl%d_v", *in.seq)
	v := types.NewVar(pos, in.pkg.Types, name, t)
	def := &ast.Ident{Name: name, NamePos: pos}
	use := &ast.Ident{Name: name, NamePos: pos}
	in.info.Defs[def] = v
	in.info.Uses[use] = v
	in.info.Types[use] = types.TypeAndValue{Type: t}
	return def, use
}

// hoistCondCall: cond is helper(args) or !helper(args) with an inlinable single-result helper:
// returns the condition over a temporary and the block that computes the temporary.
func (in *inliner) hoistCondCall(cond ast.Expr) (ast.Expr, ast.Stmt) {
	if cond == nil {
		return cond, nil
	}
	neg := false
	e := ast.Unparen(cond)
	if ue, ok := e.(*ast.UnaryExpr); ok && ue.Op == token.NOT {
		neg = true
		e = ast.Unparen(ue.X)
	}
	call, ok := e.(*ast.CallExpr)
	if !ok {
		return cond, nil
	}
	fn := Callee(in.info, call)
	if fn == nil {
		return cond, nil
	}
	sig := fn.Type().(*types.Signature)
	if sig.Results().Len() != 1 {
		return cond, nil
	}
	def, use := in.newTemp(sig.Results().At(0).Type(), call.Pos())
	blk := in.tryInline([]ast.Expr{def}, token.DEFINE, call)
	if blk == nil {
		return cond, nil
	}
	var nc ast.Expr = use
	if neg {
		n := &ast.UnaryExpr{Op: token.NOT, X: use, OpPos: cond.Pos()}
		if tv, ok := in.info.Types[cond]; ok {
			in.info.Types[n] = tv
		}
		nc = n
	}
	return nc, blk
}

func (in *inliner) rewriteList(list []ast.Stmt) ([]ast.Stmt, bool) {
	changed := false
	out := make([]ast.Stmt, len(list))
	for i, s := range list {
		ns, c := in.rewriteStmt(s)
		out[i] = ns
		if c {
			changed = true
		}
	}
	if !changed {
		return list, false
	}
	return out, true
}

// declOf finds the declaration of a function object of this package.
func (in *inliner) declOf(fn *types.Func) *ast.FuncDecl {
	for _, f := range in.pkg.Syntax {
		if f.Pos() <= fn.Pos() && fn.Pos() <= f.End() {
			for _, d := range f.Decls {
				if fd, ok := d.(*ast.FuncDecl); ok && fd.Body != nil && in.info.Defs[fd.Name] == fn {
					return fd
				}
			}
		}
	}
	return nil
}

func (in *inliner) inlinable(fn *types.Func, fd *ast.FuncDecl, sameGenericRecv bool) bool {
	sig := fn.Type().(*types.Signature)
	if sig.Variadic() || sig.TypeParams().Len() > 0 || (sig.RecvTypeParams().Len() > 0 && !sameGenericRecv) {
		return false
	}
	if len(in.stack) > inlineMaxDepth {
		return false
	}
	for _, s := range in.stack {
		if s == fn {
			return false
		}
	}
	ok := true
	nStmt := 0
	ast.Inspect(fd.Body, func(n ast.Node) bool {
		switch x := n.(type) {
		case *ast.FuncLit:
			return false
		case *ast.DeferStmt:
			if !in.tail {
				ok = false
			}
		case *ast.LabeledStmt:
			ok = false
		case *ast.BranchStmt:
			if x.Tok == token.GOTO {
				ok = false
			}
		case *ast.CallExpr:
			if id, isId := ast.Unparen(x.Fun).(*ast.Ident); isId && id.Name == "recover" {
				ok = false
			}
		case ast.Stmt:
			nStmt++
		}
		return true
	})
	return ok && nStmt <= 120
}

// pureArg: the argument can be substituted for the parameter at every use: evaluating it has
// no effect and its value cannot change while the helper runs unless the helper itself does it.
func (in *inliner) pureArg(e ast.Expr) bool {
	switch x := ast.Unparen(e).(type) {
	case *ast.Ident:
		return true
	case *ast.BasicLit:
		return true
	case *ast.SelectorExpr:
		if s := in.info.Selections[x]; s != nil {
			switch s.Kind() {
			case types.MethodExpr:
				return true // (*T).method: a constant function value
			case types.FieldVal:
			default:
				return false
			}
		}
		return in.pureArg(x.X)
	case *ast.UnaryExpr:
		if x.Op == token.AND {
			return in.pureArg(x.X)
		}
	case *ast.StarExpr:
		return in.pureArg(x.X)
	case *ast.FuncLit:
		return false
	}
	if tv, ok := in.info.Types[e]; ok && tv.Value != nil {
		return true
	}
	return false
}

// mutated: the helper assigns the parameter, one of its fields, or takes its address.
func (in *inliner) mutated(body *ast.BlockStmt, o types.Object) bool {
	hit := false
	rootIs := func(e ast.Expr) bool {
		for {
			switch x := ast.Unparen(e).(type) {
			case *ast.Ident:
				return in.info.Uses[x] == o || in.info.Defs[x] == o
			case *ast.SelectorExpr:
				e = x.X
			case *ast.IndexExpr:
				return false // element writes go through the value, not the variable
			case *ast.StarExpr:
				return false
			default:
				return false
			}
		}
	}
	isPtr := false
	if _, ok := o.Type().Underlying().(*types.Pointer); ok {
		isPtr = true
	}
	ast.Inspect(body, func(n ast.Node) bool {
		switch x := n.(type) {
		case *ast.AssignStmt:
			for _, l := range x.Lhs {
				if id, ok := ast.Unparen(l).(*ast.Ident); ok && (in.info.Uses[id] == o || in.info.Defs[id] == o) {
					hit = true
				} else if !isPtr && rootIs(l) {
					hit = true // field of a by-value parameter
				}
			}
		case *ast.IncDecStmt:
			if id, ok := ast.Unparen(x.X).(*ast.Ident); ok && in.info.Uses[id] == o {
				hit = true
			} else if !isPtr && rootIs(x.X) {
				hit = true
			}
		case *ast.UnaryExpr:
			if x.Op == token.AND && rootIs(x.X) {
				if id, ok := ast.Unparen(x.X).(*ast.Ident); ok && in.info.Uses[id] == o {
					hit = true
				} else if !isPtr {
					hit = true
				}
			}
		case *ast.RangeStmt:
			for _, kv := range []ast.Expr{x.Key, x.Value} {
				if id, ok := kv.(*ast.Ident); ok && x.Tok == token.ASSIGN && in.info.Uses[id] == o {
					hit = true
				}
			}
		}
		return true
	})
	return hit
}

func (in *inliner) newIdent(name string, def, use types.Object, t types.Type) *ast.Ident {
	id := &ast.Ident{Name: name}
	if def != nil {
		in.info.Defs[id] = def
	}
	if use != nil {
		in.info.Uses[id] = use
	}
	if t != nil {
		in.info.Types[id] = types.TypeAndValue{Type: t}
	}
	return id
}

// tryInline expands `lhs tok call` (lhs nil for an expression statement), or returns nil.
func (in *inliner) tryInline(lhs []ast.Expr, tok token.Token, call *ast.CallExpr) *ast.BlockStmt {
	fn := Callee(in.info, call)
	if fn == nil || fn.Pkg() == nil || fn.Pkg() != in.pkg.Types {
		return nil
	}
	fn = fn.Origin()
	if fn.Exported() && !in.p.Inline {
		return nil // exported API keeps its boundary: ownership rules are stated in terms of it
	}
	if in.p.KeepCalls != nil {
		key := relPkg(in.pkg.PkgPath) + "."
		if rt := recvTypeOf(fn); rt != nil {
			key += namedTypeName(rt) + "."
		}
		if in.p.KeepCalls[key+fn.Name()] {
			return nil
		}
		for k := range in.p.KeepCalls {
			if strings.HasSuffix(k, "*") && strings.HasPrefix(key+fn.Name(), strings.TrimSuffix(k, "*")) {
				return nil
			}
		}
	}
	fd := in.declOf(fn)
	// a method of a generic type called on the caller's own receiver: both methods range over
	// the same instantiation, so the helper's body reads the same in the caller
	sameGenericRecv := false
	if sg := fn.Type().(*types.Signature); sg.RecvTypeParams().Len() > 0 && len(in.stack) > 0 {
		if sel, ok := ast.Unparen(call.Fun).(*ast.SelectorExpr); ok {
			if id, ok := ast.Unparen(sel.X).(*ast.Ident); ok {
				if self, ok := in.stack[0].Type().(*types.Signature); ok && self.Recv() != nil && in.info.Uses[id] == types.Object(self.Recv()) {
					if namedTypeName(self.Recv().Type()) == namedTypeName(sg.Recv().Type()) && namedTypeName(sg.Recv().Type()) != "" {
						sameGenericRecv = true
					}
				}
			}
		}
	}
	if fd == nil || !in.inlinable(fn, fd, sameGenericRecv) {
		return nil
	}
	sig := fn.Type().(*types.Signature)
	if lhs != nil && len(lhs) != sig.Results().Len() {
		return nil
	}
	// receiver argument
	var recvArg ast.Expr
	if sig.Recv() != nil {
		sel, ok := ast.Unparen(call.Fun).(*ast.SelectorExpr)
		if !ok {
			return nil // method expression / value
		}
		s := in.info.Selections[sel]
		if s == nil || s.Kind() != types.MethodVal || len(s.Index()) != 1 {
			return nil // promoted through embedding: the receiver is not sel.X itself
		}
		recvArg = sel.X
	} else if _, ok := ast.Unparen(call.Fun).(*ast.Ident); !ok {
		if _, ok := ast.Unparen(call.Fun).(*ast.SelectorExpr); !ok {
			return nil
		}
	}
	if len(call.Args) != sig.Params().Len() {
		return nil // f(g()) spreading
	}
	*in.seq++
	label := fmt.Sprintf("__inl%d_end", *in.seq)
	// every variable the helper declares (parameters, results, locals) gets a fresh object in
	// this expansion, so that two expansions in one caller do not share variables
	saved := in.remap
	in.remap = map[types.Object]types.Object{}
	for k, v := range saved {
		in.remap[k] = v
	}
	defer func() { in.remap = saved }()
	ast.Inspect(fd, func(n ast.Node) bool {
		if _, isLit := n.(*ast.FuncLit); isLit {
			return true // closures' variables too
		}
		if id, ok := n.(*ast.Ident); ok {
			if o, ok := in.info.Defs[id].(*types.Var); ok && o != nil && !o.IsField() {
				in.remap[o] = types.NewVar(o.Pos(), o.Pkg(), o.Name(), o.Type())
			}
		}
		return true
	})
	sub := map[types.Object]ast.Expr{}
	var pre []ast.Stmt
	bind := func(field *ast.Field, idx int, arg ast.Expr, o types.Object) {
		if o == nil || o.Name() == "_" || o.Name() == "" {
			if !in.pureArg(arg) {
				pre = append(pre, &ast.ExprStmt{X: arg})
			}
			return
		}
		if in.pureArg(arg) && !in.mutated(fd.Body, o) {
			// implicit address/dereference of the receiver does not matter for path identity
			sub[o] = arg
			return
		}
		id := in.newIdent(o.Name(), in.fresh(o), nil, o.Type())
		pre = append(pre, &ast.AssignStmt{Lhs: []ast.Expr{id}, Tok: token.DEFINE, Rhs: []ast.Expr{arg}})
	}
	if recvArg != nil && fd.Recv != nil && len(fd.Recv.List) == 1 {
		var ro types.Object
		if len(fd.Recv.List[0].Names) == 1 {
			ro = in.info.Defs[fd.Recv.List[0].Names[0]]
		}
		bind(fd.Recv.List[0], 0, recvArg, ro)
	}
	ai := 0
	if fd.Type.Params != nil {
		for _, f := range fd.Type.Params.List {
			if len(f.Names) == 0 {
				if ai < len(call.Args) && !in.pureArg(call.Args[ai]) {
					pre = append(pre, &ast.ExprStmt{X: call.Args[ai]})
				}
				ai++
				continue
			}
			for _, nm := range f.Names {
				bind(f, ai, call.Args[ai], in.info.Defs[nm])
				ai++
			}
		}
	}
	// named results: declared zero at entry
	var resObjs []types.Object
	if fd.Type.Results != nil {
		for _, f := range fd.Type.Results.List {
			if len(f.Names) == 0 {
				resObjs = append(resObjs, nil)
				continue
			}
			for _, nm := range f.Names {
				o := in.info.Defs[nm]
				resObjs = append(resObjs, o)
				if o != nil && o.Name() != "_" {
					id := in.newIdent(o.Name(), in.fresh(o), nil, o.Type())
					pre = append(pre, &ast.DeclStmt{Decl: &ast.GenDecl{Tok: token.VAR, Specs: []ast.Spec{&ast.ValueSpec{Names: []*ast.Ident{id}}}}})
				}
			}
		}
	}
	body := in.clone(fd.Body, sub).(*ast.BlockStmt)
	// expand helper calls inside the helper
	sub2 := &inliner{p: in.p, pkg: in.pkg, info: in.info, stack: append(append([]*types.Func{}, in.stack...), fn), seq: in.seq, remap: nil}
	if nb, ch := sub2.rewriteStmt(body); ch {
		body = nb.(*ast.BlockStmt)
	}
	// rewrite returns
	mkAssign := func(vals []ast.Expr) []ast.Stmt {
		var out []ast.Stmt
		switch {
		case lhs == nil:
			for _, v := range vals {
				if !in.pureArg(v) {
					out = append(out, &ast.AssignStmt{Lhs: []ast.Expr{in.newIdent("_", nil, nil, nil)}, Tok: token.ASSIGN, Rhs: []ast.Expr{v}})
				}
			}
		case len(vals) == len(lhs):
			var l []ast.Expr
			for _, e := range lhs {
				l = append(l, in.clone(e, nil).(ast.Expr))
			}
			out = append(out, &ast.AssignStmt{Lhs: l, Tok: token.ASSIGN, Rhs: vals})
		case len(vals) == 1 && len(lhs) > 1:
			// return g(): forward a multi-value call
			var l []ast.Expr
			for _, e := range lhs {
				l = append(l, in.clone(e, nil).(ast.Expr))
			}
			out = append(out, &ast.AssignStmt{Lhs: l, Tok: token.ASSIGN, Rhs: vals})
		}
		return out
	}
	var rewriteRet func(s ast.Stmt) ast.Stmt
	rewriteList := func(list []ast.Stmt) []ast.Stmt {
		out := make([]ast.Stmt, len(list))
		for i, s := range list {
			out[i] = rewriteRet(s)
		}
		return out
	}
	rewriteRet = func(s ast.Stmt) ast.Stmt {
		switch x := s.(type) {
		case *ast.ReturnStmt:
			vals := x.Results
			if len(vals) == 0 && len(resObjs) > 0 {
				for _, o := range resObjs {
					if o == nil {
						return s
					}
					vals = append(vals, in.newIdent(o.Name(), nil, in.fresh(o), o.Type()))
				}
			}
			stmts := mkAssign(vals)
			stmts = append(stmts, &ast.BranchStmt{Tok: token.GOTO, Label: &ast.Ident{Name: label}})
			return &ast.BlockStmt{List: stmts, Lbrace: x.Pos(), Rbrace: x.End()}
		case *ast.BlockStmt:
			if x == nil {
				return s
			}
			x.List = rewriteList(x.List)
		case *ast.IfStmt:
			x.Body = rewriteRet(x.Body).(*ast.BlockStmt)
			if x.Else != nil {
				x.Else = rewriteRet(x.Else)
			}
		case *ast.ForStmt:
			x.Body = rewriteRet(x.Body).(*ast.BlockStmt)
		case *ast.RangeStmt:
			x.Body = rewriteRet(x.Body).(*ast.BlockStmt)
		case *ast.SwitchStmt:
			x.Body = rewriteRet(x.Body).(*ast.BlockStmt)
		case *ast.TypeSwitchStmt:
			x.Body = rewriteRet(x.Body).(*ast.BlockStmt)
		case *ast.SelectStmt:
			x.Body = rewriteRet(x.Body).(*ast.BlockStmt)
		case *ast.CaseClause:
			x.Body = rewriteList(x.Body)
		case *ast.CommClause:
			x.Body = rewriteList(x.Body)
		case *ast.LabeledStmt:
			x.Stmt = rewriteRet(x.Stmt)
		}
		return s
	}
	body = rewriteRet(body).(*ast.BlockStmt)
	stmts := append(pre, body.List...)
	stmts = append(stmts, &ast.LabeledStmt{Label: &ast.Ident{Name: label}, Stmt: &ast.EmptyStmt{}})
	return &ast.BlockStmt{List: stmts, Lbrace: call.Pos(), Rbrace: call.End()}
}

var posType = reflect.TypeOf(token.NoPos)

// rebasePos sets every position inside the (freshly cloned) subtree to pos.
func rebasePos(n ast.Node, pos token.Pos) {
	ast.Inspect(n, func(x ast.Node) bool {
		if x == nil {
			return false
		}
		v := reflect.ValueOf(x)
		if v.Kind() != reflect.Ptr || v.IsNil() {
			return true
		}
		st := v.Elem()
		if st.Kind() != reflect.Struct {
			return true
		}
		for i := 0; i < st.NumField(); i++ {
			f := st.Field(i)
			if f.Type() == posType && f.CanSet() && token.Pos(f.Int()) != token.NoPos {
				f.SetInt(int64(pos))
			}
		}
		return true
	})
}
