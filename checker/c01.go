package main

import (
	"fmt"
	"go/ast"
	"go/token"
	"go/types"
	"strings"
)

func init() {
	register(&PropCheck{ID: "C01", Pkgs: []string{"./ss2022"}, Run: runC01})
}

// isTransport reports whether e denotes the underlying transport connection of an SS2022
// stream: the embedded netio.Conn field of ShadowStreamConn, or a parameter of interface type
// netio.Conn in a HandleStream-like function.
func isTransport(fc *FuncCtx, e ast.Expr) bool {
	info := fc.Info()
	e = ast.Unparen(e)
	if sel, ok := e.(*ast.SelectorExpr); ok {
		if s, isSel := info.Selections[sel]; isSel && s.Kind() == types.FieldVal && s.Obj().Name() == "Conn" {
			if f, ok := s.Obj().(*types.Var); ok && f.Embedded() {
				return true
			}
		}
		return false
	}
	if o := objOf(info, e); o != nil {
		root := fc
		for root.Parent != nil {
			root = root.Parent
		}
		for i := 0; ; i++ {
			po := root.ParamObj(i)
			if po == nil {
				break
			}
			if po == o && namedTypeName(po.Type()) == "Conn" && namedTypePkg(po.Type()) == mp("netio") {
				return true
			}
		}
	}
	return false
}

// allCtxs returns fc and the contexts of all literals nested in it (recursively).
func allCtxs(p *Prog, fc *FuncCtx) []*FuncCtx {
	out := []*FuncCtx{fc}
	for _, lit := range fc.Lits() {
		out = append(out, allCtxs(p, p.LitCtx(fc, lit))...)
	}
	return out
}

func runC01(p *Prog, r *Report) {
	r.Explanation = "Structural necessary conditions of 'the SS2022 TCP tunnel delivers the exact byte stream both ways for every split and fragmentation', decided on package ss2022: transport reads tolerate fragmentation (full reads, or the designated single-read helper that errors on a short read); the nonce advances exactly once per successful AEAD operation; one framing path seals length then payload and bounds every chunk by 0xFFFF; copy loops account for exactly the bytes they forwarded, forward data returned together with an error, and turn only a read's own io.EOF into a clean end; caller buffers are never resliced beyond their length."
	r.NotDecided = []string{"request padding/payload split arithmetic in DialStream", "left-over buffer arithmetic as values (only its guards)", "byte equality of delivered data", "identity-header and prefix configurations as values"}
	r.Assumptions = []string{"io.ReadFull returns io.EOF only when no byte was read and otherwise fills the buffer or errors", "cipher.AEAD Seal/Open semantics", "the transport is only reachable through the embedded Conn field / the HandleStream parameter"}
	c01R1(p, r)
	c01R2(p, r)
	c01R3(p, r)
	c01R4(p, r)
	c01R5(p, r)
	c01R6(p, r)
	c01R7(p, r)
}

func c01R1(p *Prog, r *Report) {
	const rule = "C01-R1"
	r.Rule(rule, "full-read discipline: every read from the transport goes through io.ReadFull or the readOnceOrFull function value (whose only targets are io.ReadFull and readOnceExpectFull, which errors whenever fewer bytes than requested arrive), and its error is checked before the buffer is used; no bare Read on the transport")
	pkg := p.Pkg("ss2022")
	nSites := 0
	p.AllFuncs(pkg, func(top *FuncCtx) {
		for _, fc := range allCtxs(p, top) {
			info := fc.Info()
			ord := 0
			for _, cs := range fc.AllCalls() {
				// bare method call on transport
				if sel, ok := ast.Unparen(cs.Call.Fun).(*ast.SelectorExpr); ok && isTransport(fc, sel.X) {
					switch sel.Sel.Name {
					case "Read", "ReadFrom", "WriteTo":
						nSites++
						r.Fail(rule, fmt.Sprintf("%s:bare-%s-on-transport", fc.Name, sel.Sel.Name), cs.Pos(), "a single Read on the transport may return fewer bytes than the chunk: any segmentation of the ciphertext by the network corrupts the stream (the in-memory test pipe never fragments)")
					}
					continue
				}
				if len(cs.Call.Args) < 2 || !isTransport(fc, cs.Call.Args[0]) {
					continue
				}
				kind := ""
				if cs.Fn != nil && funcIs(cs.Fn, "io", "", "ReadFull") {
					kind = "io.ReadFull"
				} else if cs.Fn == nil {
					if sel, ok := ast.Unparen(cs.Call.Fun).(*ast.SelectorExpr); ok && sel.Sel.Name == "readOnceOrFull" {
						kind = "readOnceOrFull"
					}
				}
				if kind == "" {
					// transport passed to something else that reads?
					if cs.Fn != nil && (cs.Fn.Name() == "ReadAtLeast" || cs.Fn.Name() == "Copy" || cs.Fn.Name() == "CopyN" || cs.Fn.Name() == "ReadAll") && cs.Fn.Pkg().Path() == "io" {
						nSites++
						r.Fail(rule, fmt.Sprintf("%s:transport-read-via-%s", fc.Name, cs.Fn.Name()), cs.Pos(), "transport read through an API other than io.ReadFull / readOnceOrFull")
					}
					continue
				}
				nSites++
				construct := fmt.Sprintf("%s:%s#%d", fc.Name, kind, ord)
				ord++
				// error checked: some nil edge exists for the error result, or the call's error is returned directly
				checked := len(cs.ResultEdges(-1, WantNil)) > 0
				if !checked {
					// `_, err := io.ReadFull(..); ... return err`? accept a direct return of the call
					if rs, ok := fc.G.V[cs.V].Node.(*ast.ReturnStmt); ok && len(rs.Results) > 0 {
						checked = true
					}
				}
				// every later use of the buffer is success-guarded
				buf := objOf(info, fc.Resolve(cs.Call.Args[1]))
				_ = buf
				r.Check(checked, rule, construct, cs.Pos(), "transport read through "+kind+", error tested before continuing", "the error of the transport read is not tested: a short or failed read is processed as if complete")
			}
		}
	})
	// readOnceOrFull (which, unless segmented headers are allowed, demands the whole request in
	// ONE transport read) is the probe-resistance test of the first bytes of a connection only:
	// with helpers expanded, no other transport read precedes a readOnceOrFull site on any
	// path, and it is not repeated — a later chunk legitimately arrives in several segments
	nOnce := 0
	p.AllFuncs(pkg, func(top *FuncCtx) {
		for _, fc := range allCtxs(p, p.Inlined(top)) {
			type site struct {
				v    int
				once bool
				pos  string
			}
			var sites []site
			for _, cs := range fc.AllCalls() {
				if len(cs.Call.Args) < 2 || !isTransport(fc, cs.Call.Args[0]) {
					continue
				}
				if cs.Fn != nil && funcIs(cs.Fn, "io", "", "ReadFull") {
					sites = append(sites, site{cs.V, false, cs.Pos()})
				} else if cs.Fn == nil {
					if sel, ok := ast.Unparen(cs.Call.Fun).(*ast.SelectorExpr); ok && sel.Sel.Name == "readOnceOrFull" {
						sites = append(sites, site{cs.V, true, cs.Pos()})
					}
				}
			}
			for i, s := range sites {
				if !s.once {
					continue
				}
				nOnce++
				bad := ""
				for _, t := range sites {
					if fc.G.ReachAfter(t.v, nil, nil)[s.v] {
						bad = t.pos
					}
				}
				r.Check(bad == "", rule, fmt.Sprintf("%s:readOnceOrFull#%d-is-first-read", fc.Name, i), s.pos, "no transport read precedes the one-read test", "the one-read test (readOnceOrFull) is applied to bytes that are not the first of the connection (a transport read at "+bad+" can precede it): a chunk that the network delivers in several segments makes the read fail and the stream is cut")
			}
		}
	})
	r.Count("one_read_sites_in_expanded_functions", nOnce)
	// the function value's targets
	rf := p.Func("ss2022", "", "readOnceOrFullFunc")
	targets := map[string]bool{}
	for _, ret := range rf.Returns() {
		rs := rf.G.V[ret].Node.(*ast.ReturnStmt)
		if len(rs.Results) != 1 {
			continue
		}
		switch x := ast.Unparen(rs.Results[0]).(type) {
		case *ast.SelectorExpr:
			if fn, ok := rf.Info().Uses[x.Sel].(*types.Func); ok {
				targets[fn.FullName()] = true
			}
		case *ast.Ident:
			if fn, ok := rf.Info().Uses[x].(*types.Func); ok {
				targets[fn.FullName()] = true
			}
		default:
			targets["?"+exprStr(x)] = true
		}
	}
	okTargets := len(targets) == 2 && targets["io.ReadFull"] && targets[mp("ss2022")+".readOnceExpectFull"]
	r.Check(okTargets, rule, "ss2022.readOnceOrFullFunc:targets", p.posStr(rf.Body.Pos()), "returns io.ReadFull or readOnceExpectFull", fmt.Sprintf("readOnceOrFull may be %v", keys(targets)))
	// every assignment of a readOnceOrFull field comes from readOnceOrFullFunc or another readOnceOrFull field
	p.AllFuncs(pkg, func(top *FuncCtx) {
		for _, fc := range allCtxs(p, top) {
			for _, v := range fc.G.V {
				if v.Node == nil {
					continue
				}
				inspectNoLit(v.Node, func(n ast.Node) bool {
					kv, ok := n.(*ast.KeyValueExpr)
					if !ok {
						return true
					}
					if id, ok := kv.Key.(*ast.Ident); ok && id.Name == "readOnceOrFull" {
						val := ast.Unparen(kv.Value)
						good := false
						if c, ok := val.(*ast.CallExpr); ok {
							if fn := Callee(fc.Info(), c); fn != nil && fn.Name() == "readOnceOrFullFunc" {
								good = true
							}
						}
						if sel, ok := val.(*ast.SelectorExpr); ok && sel.Sel.Name == "readOnceOrFull" {
							good = true
						}
						r.Check(good, rule, fc.Name+":sets-readOnceOrFull", p.posStr(kv.Pos()), "from readOnceOrFullFunc / an existing readOnceOrFull", "readOnceOrFull is set to "+exprStr(val))
					}
					return true
				})
			}
		}
	})
	// readOnceExpectFull: nil error only when the buffer was filled
	ro := p.Func("ss2022", "", "readOnceExpectFull")
	info := ro.Info()
	var rd *CallSite
	for _, cs := range ro.AllCalls() {
		if sel, ok := ast.Unparen(cs.Call.Fun).(*ast.SelectorExpr); ok && sel.Sel.Name == "Read" && objOf(info, sel.X) == ro.ParamObj(0) {
			c := cs
			rd = &c
		}
	}
	if rd == nil || rd.ResultVar(0) == nil {
		r.Fail(rule, "ss2022.readOnceExpectFull:reads-once", p.posStr(ro.Body.Pos()), "no single r.Read(b) found")
	} else {
		nObj := rd.ResultVar(0)
		var fullEdges []Edge // edges on which n >= len(b)
		for _, v := range ro.G.V {
			x, y, op, ok := condParts(v)
			if !ok || y == nil {
				continue
			}
			isN := func(e ast.Expr) bool { return objOf(info, e) == nObj }
			isLenB := func(e ast.Expr) bool {
				c, ok := ast.Unparen(e).(*ast.CallExpr)
				if !ok || len(c.Args) != 1 {
					return false
				}
				id, ok := ast.Unparen(c.Fun).(*ast.Ident)
				return ok && id.Name == "len" && objOf(info, c.Args[0]) == ro.ParamObj(1)
			}
			lab := -1
			switch {
			case isN(x) && isLenB(y) && op == token.LSS: // n < len(b): full on false
				lab = LFalse
			case isN(x) && isLenB(y) && op == token.GEQ, isN(x) && isLenB(y) && op == token.EQL:
				lab = LTrue
			case isLenB(x) && isN(y) && op == token.GTR: // len(b) > n
				lab = LFalse
			case isLenB(x) && isN(y) && op == token.LEQ:
				lab = LTrue
			}
			if lab < 0 {
				continue
			}
			// `0 < n && n < len(b)` in the EOF branch also matches; only count edges not under err != nil
			for _, e := range v.Succs {
				if e.Label == lab {
					fullEdges = append(fullEdges, e)
				}
			}
		}
		good, nNil := true, 0
		for _, ret := range ro.Returns() {
			if ro.ErrAtReturn(ret) == ErrNonNil {
				continue
			}
			rs := ro.G.V[ret].Node.(*ast.ReturnStmt)
			// returns of the read's own error variable on its non-nil edge are failures
			if len(rs.Results) == 2 {
				if eo := objOf(info, rs.Results[1]); eo != nil && eo == rd.ResultVar(1) {
					if ro.GuardedBy(rd.V, rd.ResultEdges(1, WantNonNil), ret) {
						continue
					}
				}
			}
			nNil++
			if !ro.G.EdgeDominates(fullEdges, ret) {
				good = false
			}
		}
		r.Check(good && nNil > 0, rule, "ss2022.readOnceExpectFull:short-read-is-error", rd.Pos(), "a nil error is returned only when n >= len(b)", "readOnceExpectFull can return nil for a short read: a fragmented header is processed as complete")
		onlyOnce := !ro.G.ReachAfter(rd.V, nil, nil)[rd.V]
		r.Check(onlyOnce, rule, "ss2022.readOnceExpectFull:reads-once", rd.Pos(), "exactly one Read", "reads in a loop (it is the single-read variant)")
	}
	r.Count("transport_read_sites", nSites)
	r.Floor(rule, 10)
}

func keys(m map[string]bool) []string {
	var out []string
	for k := range m {
		out = append(out, k)
	}
	return out
}

func c01R2(p *Prog, r *Report) {
	const rule = "C01-R2"
	r.Rule(rule, "nonce lock-step: ShadowStreamCipher.nonce is only touched by the Encrypt*/Decrypt* methods; each performs exactly one AEAD call with that nonce and increments it exactly once when the call succeeded (Seal: always; Open: iff err == nil) and never on failure")
	pkg := p.Pkg("ss2022")
	nMethods := 0
	p.AllFuncs(pkg, func(fc *FuncCtx) {
		info := fc.Info()
		acc := fc.FieldAccesses(mp("ss2022"), "ShadowStreamCipher", map[string]bool{"nonce": true})
		recv := fc.RecvObj()
		isCipherMethod := recv != nil && namedTypeName(recv.Type()) == "ShadowStreamCipher"
		if len(acc) > 0 && !isCipherMethod {
			r.Fail(rule, fc.Name+":touches-nonce", p.posStr(acc[0].Sel.Pos()), "the nonce is accessed outside ShadowStreamCipher's methods")
			return
		}
		// literals touching the nonce
		for _, lit := range fc.Lits() {
			if len(p.LitCtx(fc, lit).FieldAccesses(mp("ss2022"), "ShadowStreamCipher", map[string]bool{"nonce": true})) > 0 {
				r.Fail(rule, fc.Name+":literal-touches-nonce", p.posStr(lit.Pos()), "the nonce is accessed inside a closure")
			}
		}
		if !isCipherMethod || len(acc) == 0 {
			return
		}
		nMethods++
		var aeadCalls, incs []CallSite
		for _, cs := range fc.AllCalls() {
			if cs.Fn != nil && (cs.Fn.Name() == "Seal" || cs.Fn.Name() == "Open") && cs.Fn.Pkg() != nil && cs.Fn.Pkg().Path() == "crypto/cipher" {
				aeadCalls = append(aeadCalls, cs)
			}
			if cs.Fn != nil && funcIs(cs.Fn, mp("ss2022"), "", "increment") {
				incs = append(incs, cs)
			}
		}
		isNonceSlice := func(e ast.Expr) bool {
			sl, ok := ast.Unparen(e).(*ast.SliceExpr)
			if !ok || sl.Low != nil || sl.High != nil {
				return false
			}
			sel, ok := ast.Unparen(sl.X).(*ast.SelectorExpr)
			return ok && sel.Sel.Name == "nonce" && objOf(info, sel.X) == recv
		}
		if len(aeadCalls) != 1 {
			r.Fail(rule, fc.Name+":one-aead-call", p.posStr(fc.Body.Pos()), fmt.Sprintf("%d AEAD calls (expected exactly one)", len(aeadCalls)))
			return
		}
		a := aeadCalls[0]
		r.Check(len(a.Call.Args) == 4 && isNonceSlice(a.Call.Args[1]) && !fc.G.ReachAfter(a.V, nil, nil)[a.V], rule, fc.Name+":aead-uses-nonce-once", a.Pos(), "one "+a.Fn.Name()+" with c.nonce[:]", "the AEAD call does not use the cipher's nonce, or can run twice per call")
		incV := map[int]bool{}
		for _, ic := range incs {
			incV[ic.V] = true
			r.Check(len(ic.Call.Args) == 1 && isNonceSlice(ic.Call.Args[0]), rule, fc.Name+":increments-own-nonce", ic.Pos(), "increment(c.nonce[:])", "increment applied to something other than the cipher's nonce")
		}
		// never twice
		twice := false
		for _, ic := range incs {
			after := fc.G.ReachAfter(ic.V, nil, nil)
			for v := range incV {
				if after[v] {
					twice = true
				}
			}
		}
		r.Check(!twice && len(incs) >= 1, rule, fc.Name+":increment-at-most-once", a.Pos(), "at most one increment per call", "the nonce can be incremented twice (or never) per operation: the peers' nonces diverge and every later chunk fails to open")
		if a.Fn.Name() == "Seal" {
			// every path from the seal to exit passes an increment, increment after seal
			reach := fc.G.ReachAfter(a.V, func(v *Vertex) bool { return incV[v.ID] }, nil)
			before := false
			for _, ic := range incs {
				if !fc.G.Dominates([]int{a.V}, ic.V) {
					before = true
				}
			}
			r.Check(!reach[fc.G.Exit] && !before, rule, fc.Name+":increment-after-seal", a.Pos(), "increment follows the Seal on every path", "a Seal can complete without the nonce being incremented (nonce reuse), or the nonce is incremented before the Seal")
		} else {
			okEdges := a.ResultEdges(-1, WantNil)
			failEdges := a.ResultEdges(-1, WantNonNil)
			guarded := len(okEdges) > 0
			for _, ic := range incs {
				if !fc.GuardedBy(a.V, okEdges, ic.V) {
					guarded = false
				}
			}
			// success edge → exit must pass increment
			must := true
			for _, e := range okEdges {
				if fc.G.Reach([]int{e.To}, func(v *Vertex) bool { return incV[v.ID] }, nil)[fc.G.Exit] {
					must = false
				}
			}
			_ = failEdges
			r.Check(guarded && must, rule, fc.Name+":increment-iff-open-succeeded", a.Pos(), "incremented exactly on the err == nil edge of Open", "the nonce is incremented when Open failed, or not incremented when it succeeded: after one forged chunk the genuine stream no longer opens / a replayed chunk opens again")
		}
	})
	// who calls increment
	p.AllFuncs(pkg, func(top *FuncCtx) {
		for _, fc := range allCtxs(p, top) {
			for _, cs := range fc.CallsTo(isFn(mp("ss2022"), "", "increment")) {
				recv := top.RecvObj()
				ok := recv != nil && namedTypeName(recv.Type()) == "ShadowStreamCipher"
				// UDP packers keep their own counters elsewhere; increment is for the stream nonce only
				r.Check(ok, rule, "who-calls:increment:"+fc.Name, cs.Pos(), "called from a ShadowStreamCipher method", "increment called outside ShadowStreamCipher")
			}
		}
	})
	r.Check(nMethods == 6, rule, "ss2022.ShadowStreamCipher:six-operations", "", "6 Encrypt*/Decrypt* methods use the nonce", fmt.Sprintf("%d methods use the nonce (6 reviewed)", nMethods))
	r.Floor(rule, 30)
}

// boundedByMaxPayload reports whether the length of expression e (a []byte passed as a chunk
// payload) is provably <= streamMaxPayloadSize inside fc, by the idioms this package uses.
func boundedByMaxPayload(p *Prog, fc *FuncCtx, e ast.Expr, depth int) (bool, string) {
	info := fc.Info()
	maxPayload := int64(0xFFFF)
	if c, ok := fc.Pkg.Types.Scope().Lookup("streamMaxPayloadSize").(*types.Const); ok {
		if v, ok := constIntVal(c); ok {
			maxPayload = v
		}
	}
	if maxPayload > 0xFFFF {
		return false, fmt.Sprintf("streamMaxPayloadSize folds to %d > 0xFFFF", maxPayload)
	}
	e = ast.Unparen(e)
	sl, ok := e.(*ast.SliceExpr)
	if !ok {
		// a whole buffer variable
		if o := objOf(info, e); o != nil {
			// a local with several definitions: the one definition that reaches this use
			if at := fc.G.VertexOf(e); at >= 0 && depth < 4 {
				if rd := fc.ReachingDefs(at, o); len(rd) == 1 && rd[0] != fc.G.Entry {
					if as, isAs := fc.G.V[rd[0]].Node.(*ast.AssignStmt); isAs && len(as.Lhs) == len(as.Rhs) {
						for i, l := range as.Lhs {
							if objOf(info, l) == o && ast.Unparen(as.Rhs[i]) != e {
								ok, why := boundedByMaxPayload(p, fc, as.Rhs[i], depth+1)
								if ok {
									return true, why
								}
								return false, "definition " + exprStr(as) + ": " + why
							}
						}
					}
				}
			}
			if rhs, idx, _, ok := fc.SoleDefRHS(o); ok && idx < 0 && depth < 4 {
				return boundedByMaxPayload(p, fc, rhs, depth+1)
			} else if ok && idx >= 0 && depth < 4 {
				// result idx of a call to a package function: every return of the callee must be bounded
				if c, isCall := ast.Unparen(rhs).(*ast.CallExpr); isCall {
					if callee := p.CtxOfObj(Callee(info, c)); callee != nil {
						n := 0
						for _, ret := range callee.Returns() {
							rs := callee.G.V[ret].Node.(*ast.ReturnStmt)
							if idx >= len(rs.Results) {
								return false, "callee uses bare returns"
							}
							n++
							if ok, why := boundedByMaxPayload(p, callee, rs.Results[idx], depth+1); !ok {
								return false, "result of " + callee.Name + ": " + why
							}
						}
						if n > 0 {
							return true, "bounded result of " + callee.Name
						}
					}
				}
			}
			// parameter: every call site in the package must be bounded
			root := fc
			for i := 0; root.Obj != nil; i++ {
				po := root.ParamObj(i)
				if po == nil {
					break
				}
				if po == o && depth < 3 {
					n, all, why := 0, true, ""
					p.AllFuncs(fc.Pkg, func(top *FuncCtx) {
						for _, c := range allCtxs(p, top) {
							for _, cs := range c.AllCalls() {
								if cs.Fn != nil && cs.Fn.Origin() == root.Obj && i < len(cs.Call.Args) {
									n++
									if ok, w := boundedByMaxPayload(p, c, cs.Call.Args[i], depth+1); !ok {
										all, why = false, w+" at "+cs.Pos()
									}
								}
							}
						}
					})
					if n > 0 && all {
						return true, "bounded at all call sites"
					}
					return false, "parameter not bounded at a call site: " + why
				}
			}
		}
		return false, "not a slice expression: " + exprStr(e)
	}
	// form: F[lo:] — a suffix of a struct field buffer is as long as the field at most; the field
	// is bounded when every store into it anywhere in the package stores a bounded slice (or
	// grows its capacity only)
	if sl.High == nil && depth < 4 {
		if f := fieldOrVar(info, sl.X); f != nil && isField(f) {
			nStores, all, why := 0, true, ""
			p.AllFuncs(fc.Pkg, func(top *FuncCtx) {
				for _, c := range allCtxs(p, top) {
					ci := c.Info()
					for _, v := range c.G.V {
						as, ok := v.Node.(*ast.AssignStmt)
						if !ok || len(as.Lhs) != len(as.Rhs) {
							continue
						}
						for i, l := range as.Lhs {
							if fieldOrVar(ci, l) != f {
								continue
							}
							nStores++
							rhs := ast.Unparen(as.Rhs[i])
							if call, isCall := rhs.(*ast.CallExpr); isCall && len(call.Args) > 0 {
								if fn := Callee(ci, call); fn != nil && fn.Name() == "Grow" && fieldOrVar(ci, call.Args[0]) == f {
									continue // same content, more capacity
								}
							}
							if ok2, w := boundedByMaxPayload(p, c, rhs, depth+1); !ok2 {
								all, why = false, w+" at "+p.posStr(as.Pos())
							}
						}
					}
				}
			})
			if nStores > 0 && all {
				return true, "suffix of field " + f.Name() + ", every store of which is bounded"
			}
			return false, "field " + f.Name() + " is not bounded at a store: " + why
		}
	}
	// form: X[lo:hi] with constant extent
	if sl.High != nil {
		if hi, ok := constInt(info, sl.High); ok {
			lo := int64(0)
			if sl.Low != nil {
				l, ok := constInt(info, sl.Low)
				if !ok {
					return false, "non-constant low bound"
				}
				lo = l
			}
			if hi-lo <= maxPayload {
				return true, fmt.Sprintf("constant extent %d", hi-lo)
			}
			return false, fmt.Sprintf("constant extent %d > %d", hi-lo, maxPayload)
		}
	}
	if sl.Low == nil && sl.High != nil {
		// X[:k]
		k := ast.Unparen(sl.High)
		// k = min(..., c) / min(len(X'), ...)
		kr := fc.Resolve(k)
		if c, ok := kr.(*ast.CallExpr); ok {
			if id, ok := ast.Unparen(c.Fun).(*ast.Ident); ok && id.Name == "min" {
				for _, a := range c.Args {
					if v, ok := constInt(info, a); ok && v <= maxPayload {
						return true, "min(…, constant <= 0xFFFF)"
					}
					// len(Y) with Y bounded
					if lc, ok := ast.Unparen(a).(*ast.CallExpr); ok {
						if lid, ok := ast.Unparen(lc.Fun).(*ast.Ident); ok && lid.Name == "len" && len(lc.Args) == 1 && depth < 4 {
							if ok, _ := boundedByMaxPayload(p, fc, lc.Args[0], depth+1); ok {
								return true, "min(len(bounded buffer), …)"
							}
						}
					}
				}
			}
		}
		// k is the count returned by a read into a bounded buffer, or by ShadowStreamConn.read (<= 0xFFFF by Uint16)
		if ko := objOf(info, k); ko != nil {
			kdefs := fc.Defs(ko)
			if at := fc.G.VertexOf(sl); at >= 0 {
				// only the definitions that can reach this use
				kdefs = nil
				for _, d := range fc.ReachingDefs(at, ko) {
					if d == fc.G.Entry {
						return false, "count " + ko.Name() + " may be undefined here"
					}
					kdefs = append(kdefs, d)
				}
			}
			for _, d := range kdefs {
				as, ok := fc.G.V[d].Node.(*ast.AssignStmt)
				if !ok || len(as.Rhs) != 1 {
					return false, "count " + ko.Name() + " has an unrecognised definition"
				}
				c, ok := ast.Unparen(as.Rhs[0]).(*ast.CallExpr)
				if !ok {
					return false, "count " + ko.Name() + " is not a call result"
				}
				fn := Callee(info, c)
				switch {
				case fn != nil && fn.Name() == "read" && namedTypeName(recvTypeOf(fn)) == "ShadowStreamConn":
					// fine: int(Uint16)
				case fn != nil && fn.Name() == "Read" && len(c.Args) == 1:
					// count of a Read into buffer B: n <= len(B); need B bounded and B is the sliced base
					if !samePathOrObj(fc, c.Args[0], sl.X) {
						return false, "count comes from a Read into a different buffer"
					}
					if depth < 4 {
						if ok, why := boundedByMaxPayload(p, fc, sl.X, depth+1); !ok {
							return false, "read buffer not bounded: " + why
						}
					}
				default:
					if !intBoundedByMax(p, fc, as.Rhs[0], resultIndex(info, as, ko), maxPayload, depth+1) {
						return false, "count " + ko.Name() + " comes from " + exprStr(c)
					}
				}
			}
			if len(fc.Defs(ko)) > 0 {
				return true, "count of a bounded read"
			}
		}
	}
	// X[a:b] with b = min(a + max, …)
	if sl.Low != nil && sl.High != nil {
		hr := fc.Resolve(sl.High)
		if c, ok := hr.(*ast.CallExpr); ok {
			if id, ok := ast.Unparen(c.Fun).(*ast.Ident); ok && id.Name == "min" {
				for _, a := range c.Args {
					if be, ok := ast.Unparen(a).(*ast.BinaryExpr); ok && be.Op == token.ADD {
						if samePathOrObj(fc, be.X, sl.Low) {
							if v, ok := constInt(info, be.Y); ok && v <= maxPayload {
								return true, "extent min(start+constant, …) - start"
							}
						}
					}
				}
			}
		}
		// both bounds = A and A + const
		if be, ok := ast.Unparen(sl.High).(*ast.BinaryExpr); ok && be.Op == token.ADD {
			if exprStr(be.X) == exprStr(sl.Low) {
				if v, ok := constInt(info, be.Y); ok && v <= maxPayload {
					return true, "extent constant"
				}
			}
		}
	}
	return false, "unrecognised bound for " + exprStr(e)
}

func constIntVal(c *types.Const) (int64, bool) {
	v := c.Val()
	if v == nil {
		return 0, false
	}
	s := v.ExactString()
	var out int64
	if _, err := fmt.Sscan(s, &out); err != nil {
		return 0, false
	}
	return out, true
}

func c01R3(p *Prog, r *Report) {
	const rule = "C01-R3"
	r.Rule(rule, "one framing path: only ShadowStreamConn.write and ShadowStreamServerConn.initWrite write to the transport; each seals the length (of the very payload it then seals) and then the payload with the connection's write cipher and writes the result of the second seal; every payload handed to them is bounded by streamMaxPayloadSize (<= 0xFFFF)")
	pkg := p.Pkg("ss2022")
	// who writes the transport
	nWriters := 0
	p.AllFuncs(pkg, func(top *FuncCtx) {
		for _, fc := range allCtxs(p, top) {
			for _, cs := range fc.AllCalls() {
				sel, ok := ast.Unparen(cs.Call.Fun).(*ast.SelectorExpr)
				if !ok || sel.Sel.Name != "Write" || !isTransport(fc, sel.X) {
					continue
				}
				nWriters++
				name := ""
				if top.Obj != nil {
					name = top.Obj.Name()
				}
				r.Check(name == "write" || name == "initWrite", rule, "who-writes-transport:"+fc.Name, cs.Pos(), "framing function", "ciphertext (or plaintext) is written to the transport outside the two framing functions")
			}
		}
	})
	for _, fname := range [][2]string{{"ShadowStreamConn", "write"}, {"ShadowStreamServerConn", "initWrite"}} {
		fc := p.Func("ss2022", fname[0], fname[1])
		info := fc.Info()
		prefix := "ss2022.(*" + fname[0] + ")." + fname[1]
		payload := fc.ParamObj(1)
		var seals []CallSite
		var wr *CallSite
		for _, cs := range fc.AllCalls() {
			if cs.Fn != nil && namedTypeName(recvTypeOf(cs.Fn)) == "ShadowStreamCipher" && strings.HasPrefix(cs.Fn.Name(), "Encrypt") {
				seals = append(seals, cs)
			}
			if sel, ok := ast.Unparen(cs.Call.Fun).(*ast.SelectorExpr); ok && sel.Sel.Name == "Write" && isTransport(fc, sel.X) {
				c := cs
				wr = &c
			}
		}
		if len(seals) != 2 || wr == nil {
			r.Fail(rule, prefix+":shape", p.posStr(fc.Body.Pos()), fmt.Sprintf("expected two seals and one transport write, found %d seals", len(seals)))
			continue
		}
		s1, s2 := seals[0], seals[1]
		order := fc.G.Dominates([]int{s1.V}, s2.V) && fc.G.Dominates([]int{s2.V}, wr.V) && !fc.G.ReachAfter(s2.V, nil, nil)[s1.V]
		r.Check(order, rule, prefix+":length-then-payload-then-write", s1.Pos(), "seal, seal, write — in this order on every path", "the two seals and the write are not strictly ordered")
		// second seal's plaintext is the payload parameter
		lastArg := s2.Call.Args[len(s2.Call.Args)-1]
		r.Check(objOf(info, lastArg) == payload, rule, prefix+":second-seal-is-payload", s2.Pos(), "the second chunk sealed is the payload parameter", "the second sealed chunk is not the payload parameter")
		// the length written is len(payload)
		lenOK := false
		for _, cs := range fc.AllCalls() {
			if cs.Fn != nil && funcIs(cs.Fn, mp("ss2022"), "", "intToUint16") || (cs.Fn != nil && cs.Fn.Name() == "AppendTCPResponseHeader") {
				for _, a := range cs.Call.Args {
					if lc, ok := ast.Unparen(a).(*ast.CallExpr); ok {
						if id, ok := ast.Unparen(lc.Fun).(*ast.Ident); ok && id.Name == "len" && len(lc.Args) == 1 && objOf(info, lc.Args[0]) == payload {
							if fc.G.Dominates([]int{cs.V}, s1.V) {
								lenOK = true
							}
						}
					}
				}
			}
		}
		r.Check(lenOK, rule, prefix+":length-is-len-payload", s1.Pos(), "the length chunk carries len(payload) of the payload sealed next", "the announced length is not len(payload): the reader would split the stream at the wrong place")
		// same cipher for both seals
		c1 := ast.Unparen(s1.Call.Fun).(*ast.SelectorExpr).X
		c2 := ast.Unparen(s2.Call.Fun).(*ast.SelectorExpr).X
		r.Check(samePathOrObj(fc, c1, c2), rule, prefix+":same-cipher", s2.Pos(), "both chunks sealed by the same cipher", "length and payload are sealed by different ciphers")
		// write argument is the variable holding the second seal's result
		wArg := objOf(info, wr.Call.Args[0])
		r.Check(wArg != nil && wArg == s2.ResultVar(0) && fc.SoleDef(wr.V, wArg, s2.V), rule, prefix+":writes-sealed-buffer", wr.Pos(), "the buffer written is the second seal's result", "the buffer written to the transport is not the output of the payload seal")
		// the write error is returned
		werr := wr.ResultVar(-1)
		retOK := false
		for _, ret := range fc.Returns() {
			rs := fc.G.V[ret].Node.(*ast.ReturnStmt)
			if len(rs.Results) == 1 && werr != nil && objOf(info, rs.Results[0]) == werr && fc.G.Dominates([]int{wr.V}, ret) {
				retOK = true
			}
		}
		r.Check(retOK, rule, prefix+":write-error-returned", wr.Pos(), "the transport write error is returned", "the transport write error is dropped")
		// bounded payload at every call site
		p.AllFuncs(pkg, func(top *FuncCtx) {
			for _, c := range allCtxs(p, top) {
				ord := 0
				for _, cs := range c.AllCalls() {
					if cs.Fn == nil || cs.Fn.Origin() != fc.Obj {
						continue
					}
					ok, why := boundedByMaxPayload(p, c, cs.Call.Args[1], 0)
					r.Check(ok, rule, fmt.Sprintf("%s:calls-%s#%d:payload<=0xFFFF", c.Name, fname[1], ord), cs.Pos(), why, "payload "+exprStr(cs.Call.Args[1])+" is not provably <= streamMaxPayloadSize: "+why+" (a longer chunk overflows the 16-bit length and panics or desynchronises the stream)")
					ord++
				}
			}
		})
	}
	r.Floor(rule, 19)
}

func c01R4(p *Prog, r *Report) { c01R4as(p, r, "C01-R4") }

// c01R4as registers the copy-loop accounting rule under the given id (shared with C13: the relay's
// copy goes through these loops whenever one side is an SS2022 tunnel).
func c01R4as(p *Prog, r *Report, rule string) {
	r.Rule(rule, "copy-loop accounting and end-of-stream: a loop that reads from a generic io.Reader forwards the bytes returned together with an error before acting on the error; io.EOF becomes a clean end only when it is the error of that iteration's own read; Write/ReadFrom/WriteTo advance their buffers and byte counts by exactly the chunk they forwarded")
	pkg := p.Pkg("ss2022")
	p.AllFuncs(pkg, func(fc *FuncCtx) {
		if fc.Decl == nil || !strings.HasSuffix(p.Fset.Position(fc.Decl.Pos()).Filename, "stream.go") && !strings.HasSuffix(p.Fset.Position(fc.Decl.Pos()).Filename, "tcp.go") {
			return
		}
		info := fc.Info()
		// (a) generic reader reads: r.Read(buf) where r is an io.Reader parameter
		for _, cs := range fc.AllCalls() {
			sel, ok := ast.Unparen(cs.Call.Fun).(*ast.SelectorExpr)
			if !ok || sel.Sel.Name != "Read" || len(cs.Call.Args) != 1 {
				continue
			}
			ro := objOf(info, sel.X)
			if ro == nil {
				continue
			}
			isReaderParam := false
			for i := 0; ; i++ {
				po := fc.ParamObj(i)
				if po == nil {
					break
				}
				if po == ro && types.IsInterface(po.Type()) {
					isReaderParam = true
				}
			}
			if !isReaderParam || fc.Obj.Name() == "readOnceExpectFull" {
				continue
			}
			nObj := cs.ResultVar(0)
			if nObj == nil {
				r.Fail(rule, fc.Name+":reader-count", cs.Pos(), "the count returned by Read is discarded")
				continue
			}
			// every path from the Read to exit or back to the Read tests the count first
			isCountTest := func(v *Vertex) bool {
				x, y, op, ok := condParts(v)
				if !ok || y == nil {
					return false
				}
				_ = op
				return objOf(info, x) == nObj || objOf(info, y) == nObj
			}
			reach := fc.G.ReachAfter(cs.V, func(v *Vertex) bool { return isCountTest(v) }, nil)
			bad := reach[fc.G.Exit] || reach[cs.V]
			r.Check(!bad, rule, fc.Name+":data-before-error", cs.Pos(), "the byte count is examined (and data forwarded) before the read's error ends the loop",
				"the read's error can end the loop before the bytes returned with it are forwarded: a reader that returns its last bytes together with io.EOF (TLS, HTTP bodies) loses them while the peer sees a clean end-of-stream")
			// the forward of data must not be guarded by err == nil
			for _, ws := range fc.AllCalls() {
				if ws.Fn == nil || (ws.Fn.Name() != "write" && ws.Fn.Name() != "initWrite") {
					continue
				}
				if !fc.G.ReachAfter(cs.V, nil, nil)[ws.V] {
					continue
				}
				if !usesObj(info, ws.Call, nObj, false) {
					continue
				}
				r.Check(!cs.SuccessGuards(ws.V), rule, fc.Name+":forward-not-conditional-on-nil-error", ws.Pos(), "data is forwarded whatever the read's error", "data is forwarded only when the read returned a nil error")
				// forwarded slice is buf[:n] of the buffer read into; count added is n
				if sl, ok := ast.Unparen(ws.Call.Args[1]).(*ast.SliceExpr); ok {
					r.Check(samePathOrObj(fc, sl.X, cs.Call.Args[0]) && sl.Low == nil && objOf(info, sl.High) == nObj, rule, fc.Name+":forwards-what-was-read", ws.Pos(), "forwards buf[:n] of the buffer just read", "the slice forwarded is not buf[:n] of the buffer just read")
				}
			}
		}
		// (b) EOF conversions
		for _, v := range fc.G.V {
			x, y, op, ok := condParts(v)
			if !ok || op != token.EQL || y == nil {
				continue
			}
			isEOF := func(e ast.Expr) bool {
				sel, ok := ast.Unparen(e).(*ast.SelectorExpr)
				return ok && sel.Sel.Name == "EOF" && exprStr(sel.X) == "io"
			}
			var errExpr ast.Expr
			if isEOF(y) {
				errExpr = x
			} else if isEOF(x) {
				errExpr = y
			} else {
				continue
			}
			eo := objOf(info, errExpr)
			if eo == nil {
				continue
			}
			// does the true edge lead to a nil-error return?
			var tEdge *Edge
			for i := range v.Succs {
				if v.Succs[i].Label == LTrue {
					tEdge = &v.Succs[i]
				}
			}
			if tEdge == nil {
				continue
			}
			converts := false
			// first return reached on the true branch
			reach := fc.G.Reach([]int{tEdge.To}, func(x *Vertex) bool { _, isRet := x.Node.(*ast.ReturnStmt); return false && isRet }, nil)
			for _, ret := range fc.Returns() {
				if reach[ret] && fc.G.EdgeDominates([]Edge{*tEdge}, ret) {
					rs := fc.G.V[ret].Node.(*ast.ReturnStmt)
					if len(rs.Results) > 0 && isNilExpr(info, rs.Results[len(rs.Results)-1]) {
						converts = true
					}
				}
			}
			if !converts {
				continue
			}
			// err's reaching defs at v: all must be read-like calls
			good := true
			src := ""
			for _, d := range fc.ReachingDefs(v.ID, eo) {
				if d == fc.G.Entry {
					good = false
					continue
				}
				okDef := false
				if as, ok := fc.G.V[d].Node.(*ast.AssignStmt); ok && len(as.Rhs) == 1 {
					if c, ok := ast.Unparen(as.Rhs[0]).(*ast.CallExpr); ok {
						fn := Callee(info, c)
						name := ""
						if fn != nil {
							name = fn.Name()
						} else if sel, ok := ast.Unparen(c.Fun).(*ast.SelectorExpr); ok {
							name = sel.Sel.Name
						}
						switch name {
						case "read", "initRead", "Read":
							okDef = true
							src = name
						}
					}
				}
				if !okDef {
					good = false
				}
			}
			r.Check(good, rule, fmt.Sprintf("%s:eof-is-the-reads-own", fc.Name), p.posStr(v.Node.Pos()), "io.EOF is turned into a clean end only when it is the error of this iteration's "+src+" call", "an io.EOF that did not come from this iteration's read (e.g. from a write, or mid-chunk) is reported as a clean end-of-stream: truncation goes unnoticed")
		}
	})
	// (c) accounting in ShadowStreamConn.Write: n += length, b = b[length:] with the length sent
	w := p.Func("ss2022", "ShadowStreamConn", "Write")
	info := w.Info()
	for _, cs := range w.CallsTo(isFn(mp("ss2022"), "ShadowStreamConn", "write")) {
		sl, ok := ast.Unparen(cs.Call.Args[1]).(*ast.SliceExpr)
		if !ok || sl.Low != nil || objOf(info, sl.X) != w.ParamObj(0) {
			r.Fail(rule, "ss2022.(*ShadowStreamConn).Write:chunk", cs.Pos(), "the chunk sent is not a prefix b[:length] of the remaining buffer")
			continue
		}
		lo := objOf(info, sl.High)
		okB, okN := false, false
		for _, d := range w.Defs(w.ParamObj(0)) {
			as, _ := w.G.V[d].Node.(*ast.AssignStmt)
			if as != nil && len(as.Rhs) == 1 {
				if s2, ok := ast.Unparen(as.Rhs[0]).(*ast.SliceExpr); ok && objOf(info, s2.X) == w.ParamObj(0) && s2.High == nil && objOf(info, s2.Low) == lo && cs.SuccessGuards(d) {
					okB = true
					continue
				}
			}
			r.Fail(rule, "ss2022.(*ShadowStreamConn).Write:buffer-advance:"+exprStr(w.G.V[d].Node), p.posStr(w.G.V[d].Node.Pos()), "the remaining buffer is modified other than by b = b[length:] after a successful chunk write")
		}
		for _, d := range w.Defs(w.ResultObj(0)) {
			as, _ := w.G.V[d].Node.(*ast.AssignStmt)
			if as != nil && as.Tok == token.ADD_ASSIGN && len(as.Rhs) == 1 && objOf(info, as.Rhs[0]) == lo && cs.SuccessGuards(d) {
				okN = true
				continue
			}
			r.Fail(rule, "ss2022.(*ShadowStreamConn).Write:count-advance:"+exprStr(w.G.V[d].Node), p.posStr(w.G.V[d].Node.Pos()), "the byte count is modified other than by n += length after a successful chunk write")
		}
		r.Check(okB && okN, rule, "ss2022.(*ShadowStreamConn).Write:advances-by-chunk", cs.Pos(), "buffer and count advance by the chunk length after a successful write", "Write does not advance by exactly the chunk it sent (bytes skipped or repeated)")
		// loop continues while len(b) > 0
	}
	// WriteTo: w.Write(b[:nr]) with nr from c.read(b)
	wt := p.Func("ss2022", "ShadowStreamConn", "WriteTo")
	winfo := wt.Info()
	for _, rd := range wt.CallsTo(isFn(mp("ss2022"), "ShadowStreamConn", "read")) {
		nr := rd.ResultVar(0)
		found := false
		for _, cs := range wt.AllCalls() {
			sel, ok := ast.Unparen(cs.Call.Fun).(*ast.SelectorExpr)
			if !ok || sel.Sel.Name != "Write" || len(cs.Call.Args) != 1 {
				continue
			}
			if sl, ok := ast.Unparen(cs.Call.Args[0]).(*ast.SliceExpr); ok && sl.Low == nil && objOf(winfo, sl.High) == nr && samePathOrObj(wt, sl.X, rd.Call.Args[0]) && rd.SuccessGuards(cs.V) {
				found = true
			}
		}
		r.Check(found, rule, "ss2022.(*ShadowStreamConn).WriteTo:forwards-chunk", rd.Pos(), "writes b[:nr] of the buffer just read, after a successful read", "WriteTo does not forward exactly the chunk just read")
	}
	r.Floor(rule, 12)
}

func c01R5(p *Prog, r *Report) {
	const rule = "C01-R5"
	r.Rule(rule, "caller buffers: in the Read methods a caller-supplied buffer is handed to the chunk reader only when its LENGTH (not capacity) is at least streamReadMinBufferSize, and is resliced only up to a bound tested against len(b); otherwise the internal read buffer is used and copied")
	pkg := p.Pkg("ss2022")
	n := 0
	p.AllFuncs(pkg, func(fc *FuncCtx) {
		if fc.Obj == nil || (fc.Obj.Name() != "Read" && fc.Obj.Name() != "initRead") {
			return
		}
		rt := namedTypeName(recvTypeOf(fc.Obj))
		if rt != "ShadowStreamConn" && rt != "ShadowStreamClientConn" && rt != "ShadowStreamServerConn" {
			return
		}
		info := fc.Info()
		b := fc.ParamObj(0)
		lenGuards := func(target int, bound ast.Expr, minConst int64) bool {
			// some condition edge dominating target establishes bound <= len(b) (or len(b) >= const)
			for _, v := range fc.G.V {
				x, y, op, ok := condParts(v)
				if !ok || y == nil {
					continue
				}
				isLenB := func(e ast.Expr) bool {
					c, ok := ast.Unparen(e).(*ast.CallExpr)
					if !ok || len(c.Args) != 1 {
						return false
					}
					id, ok := ast.Unparen(c.Fun).(*ast.Ident)
					return ok && id.Name == "len" && objOf(info, c.Args[0]) == b
				}
				matches := func(e ast.Expr) bool {
					if bound != nil {
						return exprStr(e) == exprStr(bound)
					}
					k, ok := constInt(info, e)
					return ok && k >= minConst
				}
				lab := -1
				switch {
				case isLenB(x) && matches(y) && op == token.GEQ: // len(b) >= K
					lab = LTrue
				case isLenB(x) && matches(y) && op == token.LSS:
					lab = LFalse
				case matches(x) && isLenB(y) && op == token.LEQ: // K <= len(b)
					lab = LTrue
				case matches(x) && isLenB(y) && op == token.GTR:
					lab = LFalse
				}
				if lab < 0 {
					continue
				}
				for _, e := range v.Succs {
					if e.Label == lab && fc.G.EdgeDominates([]Edge{e}, target) {
						return true
					}
				}
			}
			return false
		}
		minBuf := int64(0xFFFF + 16)
		if c, ok := fc.Pkg.Types.Scope().Lookup("streamReadMinBufferSize").(*types.Const); ok {
			if v, ok := constIntVal(c); ok {
				minBuf = v
			}
		}
		for _, v := range fc.G.V {
			if v.Node == nil {
				continue
			}
			// calls passing b itself to the chunk reader
			for _, cs := range fc.AllCalls() {
				if cs.V != v.ID || cs.Fn == nil {
					continue
				}
				if cs.Fn.Name() == "read" && namedTypeName(recvTypeOf(cs.Fn)) == "ShadowStreamConn" && len(cs.Call.Args) == 1 && objOf(info, cs.Call.Args[0]) == b {
					n++
					r.Check(lenGuards(v.ID, nil, minBuf), rule, fc.Name+":direct-read-needs-len>=min", cs.Pos(), "guarded by len(b) >= streamReadMinBufferSize",
						"the caller's buffer is handed to the chunk reader without len(b) >= streamReadMinBufferSize (a capacity test is not enough): a chunk is decrypted past len(b) and Read returns n > len(b)")
				}
			}
			inspectNoLit(v.Node, func(x ast.Node) bool {
				sl, ok := x.(*ast.SliceExpr)
				if !ok || objOf(info, sl.X) != b || sl.High == nil {
					return true
				}
				n++
				if c, ok := ast.Unparen(sl.High).(*ast.CallExpr); ok {
					if id, ok := ast.Unparen(c.Fun).(*ast.Ident); ok && id.Name == "cap" {
						// b[:cap(b)] hands the whole backing array: allowed only for internal buffers, not for Read's parameter
						r.Fail(rule, fc.Name+":reslice-to-cap", p.posStr(sl.Pos()), "the caller's buffer is extended to its capacity")
						return true
					}
				}
				r.Check(lenGuards(v.ID, sl.High, 0), rule, fmt.Sprintf("%s:reslice:%s", fc.Name, exprStr(sl)), p.posStr(sl.Pos()), "upper bound tested against len(b)", "the caller's buffer is resliced to "+exprStr(sl.High)+" without a dominating test against len(b): bytes beyond the caller's slice are overwritten and counted as read")
				return true
			})
		}
	})
	r.Count("caller_buffer_uses", n)
	r.Floor(rule, 3)
}

// c01R6: left-over discipline. Read with a small buffer opens a whole chunk into readBuf and
// hands out a part; readBuf[readStart:] is plaintext the reader has not seen yet. Whatever path
// moves the data next (Read again, WriteTo, the tunnel-to-tunnel copy) must deliver that
// left-over before it opens the next chunk — the chunk reader overwrites the same buffer.
func c01R6(p *Prog, r *Report) {
	const rule = "C01-R6"
	r.Rule(rule, "left-over first: every call of the chunk reader (*ShadowStreamConn).read on a connection is either dominated by the test that the connection has no left-over (readStart == len(readBuf)) or preceded on every path by a statement that hands readBuf[readStart:] of that connection to a writer/copy — on every copy path (Read, WriteTo, tunnel-to-tunnel)")
	pkg := p.Pkg("ss2022")
	n := 0
	p.AllFuncs(pkg, func(top *FuncCtx) {
		for _, fc := range allCtxs(p, top) {
			info := fc.Info()
			for i, cs := range fc.CallsTo(isFn(mp("ss2022"), "ShadowStreamConn", "read")) {
				sel, ok := ast.Unparen(cs.Call.Fun).(*ast.SelectorExpr)
				if !ok {
					continue
				}
				connKey := pathKey(info, sel.X)
				if connKey == "" {
					continue
				}
				n++
				isField := func(e ast.Expr, f string) bool {
					s2, ok := ast.Unparen(e).(*ast.SelectorExpr)
					return ok && s2.Sel.Name == f && pathKey(info, s2.X) == connKey
				}
				isLenBuf := func(e ast.Expr) bool {
					c, ok := ast.Unparen(e).(*ast.CallExpr)
					if !ok || len(c.Args) != 1 {
						return false
					}
					id, ok := ast.Unparen(c.Fun).(*ast.Ident)
					return ok && id.Name == "len" && isField(c.Args[0], "readBuf")
				}
				// (a) no left-over on this path
				var empty []Edge
				for _, cv := range fc.G.V {
					x, y, op, okc := condParts(cv)
					if !okc || y == nil {
						continue
					}
					var holds int = -1
					switch {
					case (isField(x, "readStart") && isLenBuf(y)) || (isLenBuf(x) && isField(y, "readStart")):
						switch op {
						case token.EQL:
							holds = LTrue
						case token.NEQ:
							holds = LFalse
						case token.LSS, token.GTR:
							holds = LFalse // readStart < len(readBuf) false (or len > readStart false): nothing left
							if (op == token.LSS && !isField(x, "readStart")) || (op == token.GTR && !isLenBuf(x)) {
								holds = -1
							}
						case token.GEQ, token.LEQ:
							holds = LTrue
							if (op == token.GEQ && !isField(x, "readStart")) || (op == token.LEQ && !isLenBuf(x)) {
								holds = -1
							}
						}
					}
					for _, e := range cv.Succs {
						if e.Label == holds {
							empty = append(empty, e)
						}
					}
				}
				// (b) the left-over is handed on first
				flush := map[int]bool{}
				for _, c2 := range fc.AllCalls() {
					if c2.V == cs.V {
						continue
					}
					for _, a := range c2.Call.Args {
						if sl, ok := ast.Unparen(fc.Resolve(a)).(*ast.SliceExpr); ok && sl.High == nil && sl.Low != nil && isField(sl.X, "readBuf") && isField(sl.Low, "readStart") {
							flush[c2.V] = true
						}
					}
				}
				// every path from the entry to the read crosses a no-left-over edge or a hand-over
				isEmpty := map[Edge]bool{}
				for _, e := range empty {
					isEmpty[e] = true
				}
				reach := fc.G.Reach([]int{fc.G.Entry}, func(v *Vertex) bool { return flush[v.ID] }, func(e Edge) bool { return isEmpty[e] })
				r.Check((len(empty) > 0 || len(flush) > 0) && !reach[cs.V], rule, fmt.Sprintf("%s:read#%d-after-leftover", fc.Name, i), cs.Pos(), "the next chunk is opened only when nothing is left over (or after the left-over was handed on)",
					"the next chunk is read into the connection's buffer although bytes of the previous chunk may still be waiting in readBuf[readStart:] (an earlier Read with a small buffer): they are overwritten and never delivered — the stream loses data when the reader switches to this copy path")
			}
		}
	})
	r.Count("chunk_reader_call_sites", n)
	r.Floor(rule, 3)
}

// resultIndex: the position of obj on the left-hand side of a multi-value assignment.
func resultIndex(info *types.Info, as *ast.AssignStmt, obj types.Object) int {
	for i, l := range as.Lhs {
		if objOf(info, l) == obj {
			return i
		}
	}
	return 0
}

// intBoundedByMax: the integer expression (or, for a call of a function of this package, its
// idx-th result at every return) is a constant <= max, a widened 16-bit value, or a variable all
// of whose reaching definitions are such.
func intBoundedByMax(p *Prog, fc *FuncCtx, e ast.Expr, idx int, max int64, depth int) bool {
	if depth > 14 {
		return false
	}
	info := fc.Info()
	e = ast.Unparen(e)
	if k, isC := constInt(info, e); isC {
		return k >= 0 && k <= max
	}
	if t := info.TypeOf(e); t != nil {
		if b, ok := t.Underlying().(*types.Basic); ok && (b.Kind() == types.Uint16 || b.Kind() == types.Uint8) && max >= 0xFFFF {
			return true
		}
	}
	switch x := e.(type) {
	case *ast.CallExpr:
		if inner, ok := isConversion(info, x); ok {
			return intBoundedByMax(p, fc, inner, 0, max, depth+1)
		}
		fn := Callee(info, x)
		if fn == nil {
			return false
		}
		if fn.Name() == "read" && namedTypeName(recvTypeOf(fn)) == "ShadowStreamConn" && idx == 0 {
			return true // int(Uint16) of the opened length chunk (C01-R3 checks read itself)
		}
		callee := p.CtxOfObj(fn)
		if callee == nil {
			return false
		}
		rets := callee.Returns()
		if len(rets) == 0 {
			return false
		}
		for _, ret := range rets {
			rs := callee.G.V[ret].Node.(*ast.ReturnStmt)
			switch {
			case len(rs.Results) == 0:
				ro := callee.ResultObj(idx)
				if ro == nil || !varBoundedAt(p, callee, ro, ret, max, depth+1) {
					return false
				}
			case idx < len(rs.Results):
				if callee.ErrAtReturn(ret) == ErrNonNil {
					continue // the count of a failed call is not used (callers test the error)
				}
				if !intBoundedByMax(p, callee, rs.Results[idx], 0, max, depth+1) {
					return false
				}
			case len(rs.Results) == 1:
				// return f(...) forwarding
				if !intBoundedByMax(p, callee, rs.Results[0], idx, max, depth+1) {
					return false
				}
			default:
				return false
			}
		}
		return true
	case *ast.Ident:
		o := objOf(info, x)
		if o == nil {
			return false
		}
		at := fc.G.VertexOf(x)
		if at < 0 {
			return false
		}
		return varBoundedAt(p, fc, o, at, max, depth+1)
	}
	return false
}

func varBoundedAt(p *Prog, fc *FuncCtx, o types.Object, at int, max int64, depth int) bool {
	info := fc.Info()
	defs := fc.ReachingDefs(at, o)
	if len(defs) == 0 {
		return false
	}
	for _, d := range defs {
		if d == fc.G.Entry {
			// the zero value of a named result
			if ro := fc.ResultObj(0); ro != nil {
				isRes := false
				for i := 0; fc.ResultObj(i) != nil; i++ {
					if fc.ResultObj(i) == o {
						isRes = true
					}
				}
				if isRes {
					continue
				}
			}
			return false
		}
		as, ok := fc.G.V[d].Node.(*ast.AssignStmt)
		if !ok {
			if vs, isVS := fc.G.V[d].Node.(*ast.ValueSpec); isVS && len(vs.Values) == 0 {
				continue
			}
			return false
		}
		if as.Tok != token.ASSIGN && as.Tok != token.DEFINE {
			return false
		}
		switch {
		case len(as.Lhs) == len(as.Rhs):
			for i, l := range as.Lhs {
				if objOf(info, l) == o && !intBoundedByMax(p, fc, as.Rhs[i], 0, max, depth+1) {
					return false
				}
			}
		case len(as.Rhs) == 1:
			if !intBoundedByMax(p, fc, as.Rhs[0], resultIndex(info, as, o), max, depth+1) {
				return false
			}
		default:
			return false
		}
	}
	return true
}

// c01R7: the identity-header chain. With n identity PSKs a client writes n identity headers; header
// k is encrypted under iPSK k and carries the hash of the NEXT key of the chain (iPSK k+1, and the
// user PSK for the last). Relays peel one header each. The tables that implement this are built in
// crypto.go and consumed by index in DialStream and the UDP packer; an index slip only shows with
// two or more identity PSKs, which the suite never configures.
func c01R7(p *Prog, r *Report) {
	const rule = "C01-R7"
	r.Rule(rule, "identity-header chain tables agree: (a) in the function that builds the client's hash table every element store hashes[d] = H(iPSKs[s]) has s = d + 1 as linear forms (sources reached through a sub-slice or a range value are re-based), and the user PSK's hash goes to the last slot len(table)-1; (b) every cipher table built from the identity PSKs stores ciphers[k] from iPSKs[k]; (c) wherever a hash-table element and an identity cipher element are used in the same loop, their indices are equal linear forms")
	pkg := p.Pkg("ss2022")
	n := 0
	// sourceIndex: the index into the parameter/field slice `base` that expression e (an element of it) denotes
	type src struct {
		base     string
		idx      linForm
		ok       bool
		baseExpr ast.Expr
	}
	var elemOf func(fc *FuncCtx, e ast.Expr, depth int) src
	elemOf = func(fc *FuncCtx, e ast.Expr, depth int) src {
		info := fc.Info()
		e = ast.Unparen(e)
		if depth > 6 {
			return src{}
		}
		switch x := e.(type) {
		case *ast.IndexExpr:
			idx := linOf(p, fc, x.Index)
			switch b := ast.Unparen(x.X).(type) {
			case *ast.SliceExpr:
				if b.Low != nil {
					idx = idx.add(linOf(p, fc, b.Low), 1)
				}
				return src{normExpr(p, fc, b.X), idx, true, b.X}
			default:
				return src{normExpr(p, fc, x.X), idx, true, x.X}
			}
		case *ast.Ident:
			o := objOf(info, x)
			if o == nil {
				return src{}
			}
			// range value variable
			for _, v := range fc.G.V {
				if v.Kind != VRange {
					continue
				}
				rs := v.Stmt.(*ast.RangeStmt)
				if rs.Value == nil || objOf(info, rs.Value) != o || rs.Key == nil {
					continue
				}
				ko := objOf(info, rs.Key)
				if ko == nil {
					return src{}
				}
				idx := linForm{ko.Name(): 1}
				switch b := ast.Unparen(rs.X).(type) {
				case *ast.SliceExpr:
					if b.Low != nil {
						idx = idx.add(linOf(p, fc, b.Low), 1)
					}
					return src{normExpr(p, fc, b.X), idx, true, b.X}
				default:
					return src{normExpr(p, fc, rs.X), idx, true, rs.X}
				}
			}
			if rhs, _, _, sole := fc.SoleDefRHS(o); sole {
				return elemOf(fc, rhs, depth+1)
			}
		}
		return src{}
	}
	// hashArg: e is (a conversion / slicing of) the result of a hash call; returns the call's argument
	var hashArg func(fc *FuncCtx, e ast.Expr, depth int) ast.Expr
	hashArg = func(fc *FuncCtx, e ast.Expr, depth int) ast.Expr {
		info := fc.Info()
		e = ast.Unparen(e)
		if depth > 6 {
			return nil
		}
		switch x := e.(type) {
		case *ast.CallExpr:
			if inner, ok := isConversion(info, x); ok {
				return hashArg(fc, inner, depth+1)
			}
			if fn := Callee(info, x); fn != nil && fn.Pkg() != nil && strings.HasSuffix(fn.Pkg().Path(), "blake3") && len(x.Args) == 1 {
				return x.Args[0]
			}
			// a helper of the module that turns one key into its hash (byte array result)
			if fn := Callee(info, x); fn != nil && fn.Pkg() != nil && strings.HasPrefix(fn.Pkg().Path(), modPath) && len(x.Args) == 1 {
				if sig, ok := fn.Type().(*types.Signature); ok && sig.Results().Len() == 1 {
					if ar, isAr := sig.Results().At(0).Type().Underlying().(*types.Array); isAr {
						if b, isB := ar.Elem().Underlying().(*types.Basic); isB && b.Kind() == types.Uint8 {
							if at := info.TypeOf(x.Args[0]); at != nil {
								if sl, isSl := at.Underlying().(*types.Slice); isSl {
									if eb, isEB := sl.Elem().Underlying().(*types.Basic); isEB && eb.Kind() == types.Uint8 {
										return x.Args[0]
									}
								}
							}
						}
					}
				}
			}
		case *ast.SliceExpr:
			return hashArg(fc, x.X, depth+1)
		case *ast.Ident:
			if o := objOf(info, x); o != nil {
				if rhs, _, _, sole := fc.SoleDefRHS(o); sole {
					return hashArg(fc, rhs, depth+1)
				}
			}
		}
		return nil
	}
	isHashTable := func(t types.Type) bool {
		sl, ok := t.Underlying().(*types.Slice)
		if !ok {
			return false
		}
		ar, ok := sl.Elem().Underlying().(*types.Array)
		if !ok {
			return false
		}
		b, ok := ar.Elem().Underlying().(*types.Basic)
		return ok && b.Kind() == types.Uint8
	}
	isBlockTable := func(t types.Type) bool {
		sl, ok := t.Underlying().(*types.Slice)
		return ok && strings.HasSuffix(sl.Elem().String(), "crypto/cipher.Block")
	}
	isKeyTable := func(t types.Type) bool {
		sl, ok := t.Underlying().(*types.Slice)
		if !ok {
			return false
		}
		in, ok := sl.Elem().Underlying().(*types.Slice)
		if !ok {
			return false
		}
		b, ok := in.Elem().Underlying().(*types.Basic)
		return ok && b.Kind() == types.Uint8
	}
	nA, nB, nC := 0, 0, 0
	p.AllFuncs(pkg, func(top *FuncCtx) {
		for _, fc := range allCtxs(p, top) {
			info := fc.Info()
			for _, v := range fc.G.V {
				as, ok := v.Node.(*ast.AssignStmt)
				if !ok || v.Kind != VStmt {
					continue
				}
				for i, l := range as.Lhs {
					ix, isIx := ast.Unparen(l).(*ast.IndexExpr)
					if !isIx || i >= len(as.Rhs) && len(as.Rhs) != 1 {
						continue
					}
					tt := info.TypeOf(ix.X)
					if tt == nil {
						continue
					}
					switch {
					case isHashTable(tt):
						// (a)
						var rhs ast.Expr
						if len(as.Rhs) == len(as.Lhs) {
							rhs = as.Rhs[i]
						} else {
							continue
						}
						arg := hashArg(fc, rhs, 0)
						if arg == nil {
							continue
						}
						d := linOf(p, fc, ix.Index)
						construct := fmt.Sprintf("%s:hash-slot:%s", fc.Name, normExpr(p, fc, arg))
						if at := info.TypeOf(arg); at != nil && isKeyTable(at) {
							continue
						}
						s := elemOf(fc, arg, 0)
						nA++
						n++
						if s.ok {
							diff := s.idx.add(d, -1).add(linForm{"": 1}, -1)
							r.Check(diff.isZero(), rule, construct, p.posStr(as.Pos()), "identity header k carries the hash of identity key k+1",
								fmt.Sprintf("the hash table slot %s is filled with the hash of element %s of %s: header k must carry the hash of key k+1 (source index − slot index = 1, found %s); with two or more identity keys the first relay finds a hash nobody holds and rejects the connection", d, s.idx, s.base, s.idx.add(d, -1)))
						} else {
							// the user PSK: must go to the last slot
							tbl := normExpr(p, fc, ix.X)
							want := linForm{"len(" + tbl + ")": 1, "": -1}
							got := linOf(p, fc, ix.Index)
							okLast := got.add(want, -1).isZero()
							if !okLast {
								// len(hashes) may be expressed through the make length
								if o := objOf(info, ix.X); o != nil {
									if mk, _, _, sole := fc.SoleDefRHS(o); sole {
										if c, isC := ast.Unparen(mk).(*ast.CallExpr); isC && exprStr(c.Fun) == "make" && len(c.Args) >= 2 {
											okLast = got.add(linOf(p, fc, c.Args[1]), -1).add(linForm{"": 1}, 1).isZero()
										}
									}
								}
							}
							r.Check(okLast, rule, construct, p.posStr(as.Pos()), "the user key's hash fills the last slot", fmt.Sprintf("the hash of %s is stored at slot %s, not at the last slot of the table: the last identity header does not name the user key", exprStr(arg), got))
						}
					case isBlockTable(tt):
						// (b) the stored cipher is the result of a call (directly or through a local with
						// a single definition) one of whose arguments is an element of a key table
						var rhs ast.Expr
						if len(as.Rhs) == len(as.Lhs) {
							rhs = as.Rhs[i]
						} else if len(as.Rhs) == 1 {
							rhs = as.Rhs[0]
						}
						if rhs == nil {
							continue
						}
						call, _ := ast.Unparen(rhs).(*ast.CallExpr)
						if call == nil {
							if o := objOf(info, rhs); o != nil {
								if d, _, _, sole := fc.SoleDefRHS(o); sole {
									call, _ = ast.Unparen(d).(*ast.CallExpr)
								}
							}
						}
						if call == nil {
							continue
						}
						for _, a := range call.Args {
							s := elemOf(fc, a, 0)
							if !s.ok || s.baseExpr == nil {
								continue
							}
							if bt := info.TypeOf(s.baseExpr); bt == nil || !isKeyTable(bt) {
								continue
							}
							nB++
							n++
							d := linOf(p, fc, ix.Index)
							r.Check(s.idx.add(d, -1).isZero(), rule, fmt.Sprintf("%s:cipher-slot:%s", fc.Name, s.base), p.posStr(as.Pos()), "cipher k is derived from identity key k",
								fmt.Sprintf("cipher table slot %s is derived from identity key %s: header k would be encrypted under another hop's key", d, s.idx))
						}
					}
				}
			}
			// (c) uses inside loops
			for _, v := range fc.G.V {
				var body *ast.BlockStmt
				switch v.Kind {
				case VRange:
					body = v.Stmt.(*ast.RangeStmt).Body
				default:
					if fs, ok := v.Stmt.(*ast.ForStmt); ok && v.Kind == VCond {
						body = fs.Body
					}
				}
				if body == nil {
					continue
				}
				var hashIdx, blockIdx []*ast.IndexExpr
				inspectNoLit(body, func(x ast.Node) bool {
					if ix, ok := x.(*ast.IndexExpr); ok {
						if t := info.TypeOf(ix.X); t != nil {
							if isHashTable(t) {
								hashIdx = append(hashIdx, ix)
							} else if isBlockTable(t) {
								blockIdx = append(blockIdx, ix)
							}
						}
					}
					return true
				})
				if len(hashIdx) == 0 || len(blockIdx) == 0 {
					continue
				}
				for _, h := range hashIdx {
					for _, b := range blockIdx {
						// stores into the tables are (a)/(b); here both are reads
						nC++
						n++
						hl, bl := linOf(p, fc, h.Index), linOf(p, fc, b.Index)
						r.Check(hl.add(bl, -1).isZero(), rule, fmt.Sprintf("%s:header-uses-own-cipher:%s/%s", fc.Name, normExpr(p, fc, h.X), normExpr(p, fc, b.X)), p.posStr(h.Pos()), "hash k is encrypted with cipher k",
							fmt.Sprintf("identity hash %s is combined with identity cipher %s in the same loop: header k must be the hash of slot k under cipher k", exprStr(h), exprStr(b)))
					}
				}
			}
		}
	})
	r.Count("hash_slot_stores", nA)
	r.Count("cipher_slot_stores", nB)
	r.Count("paired_uses", nC)
	r.Check(nA >= 2 && nB >= 2 && nC >= 2, rule, "ss2022:identity-chain-sites-found", "", "hash stores, cipher stores and paired uses found", fmt.Sprintf("identity chain sites found: %d hash stores, %d cipher stores, %d paired uses (expected at least 2 of each)", nA, nB, nC))
	r.Floor(rule, 4)
}
