package main

import (
	"fmt"
	"go/ast"
	"go/token"
	"go/types"
	"sort"
	"strings"
)

func init() {
	register(&PropCheck{ID: "C09", Pkgs: []string{"./router", "./portset"}, Run: runC09})
}

func runC09(p *Prog, r *Report) {
	r.Explanation = "Structural necessary conditions of 'routing picks the first route whose documented conditions all hold': every documented condition field is consulted when a route is built; each criterion is built only from condition fields of its own kind and direction and is paired with its own invert flag (and the fields its documentation names); source fields feed Source* criteria and destination fields Dest* criteria, address kinds go through one OR group per direction appended once, the rest directly to the AND list; each criterion reads only the request field of its direction (ports via Port()); the combinators implement AND with error propagation, OR with error propagation and guarded negation, and no criterion can return (true, error); the router scans routes in order, returns on the first match, and the default route is last and unconditional; port-set criteria guard the value their representation refuses."
	r.NotDecided = []string{"contents of the matchers (C10)", "resolver behaviour (C17)", "GeoIP database answers"}
	r.Assumptions = []string{"criteria implemented outside package router do not exist (checked: all Criterion implementations are in the package)"}
	c09R1R2(p, r)
	c09R3(p, r)
	c09R4(p, r)
	c09R5(p, r)
	c09R6(p, r)
}

func routeConfigFields(p *Prog) (fields []string, docs map[string]string) {
	pkg := p.Pkg("router")
	docs = map[string]string{}
	for _, f := range pkg.Syntax {
		for _, d := range f.Decls {
			gd, ok := d.(*ast.GenDecl)
			if !ok {
				continue
			}
			for _, sp := range gd.Specs {
				ts, ok := sp.(*ast.TypeSpec)
				if !ok || ts.Name.Name != "RouteConfig" {
					continue
				}
				st := ts.Type.(*ast.StructType)
				for _, fl := range st.Fields.List {
					for _, n := range fl.Names {
						fields = append(fields, n.Name)
						if fl.Doc != nil {
							docs[n.Name] = fl.Doc.Text()
						}
					}
				}
			}
		}
	}
	return
}

// sliceFields computes the RouteConfig fields in the backward slice of expression e in fc:
// fields mentioned by e, by the definitions of the local variables it uses, by the arguments of
// methods called on those variables (builders), by range sources of loop variables, and by
// the conditions of enclosing if statements are NOT included (guards repeat the same fields).
func sliceFields(fc *FuncCtx, e ast.Expr, rcObj types.Object) map[string]bool {
	info := fc.Info()
	out := map[string]bool{}
	seen := map[types.Object]bool{}
	var work []types.Object
	scan := func(n ast.Node) {
		ast.Inspect(n, func(x ast.Node) bool {
			switch y := x.(type) {
			case *ast.SelectorExpr:
				if objOf(info, y.X) == rcObj {
					out[y.Sel.Name] = true
					return false
				}
			case *ast.Ident:
				if o, ok := info.Uses[y].(*types.Var); ok && !o.IsField() && o.Pkg() != nil && o.Parent() != o.Pkg().Scope() && o != rcObj && !seen[o] {
					seen[o] = true
					work = append(work, o)
				}
			}
			return true
		})
	}
	scan(e)
	for len(work) > 0 {
		o := work[len(work)-1]
		work = work[:len(work)-1]
		ast.Inspect(fc.Body, func(n ast.Node) bool {
			switch st := n.(type) {
			case *ast.AssignStmt:
				for i, l := range st.Lhs {
					if objOf(info, l) == o {
						if len(st.Rhs) == len(st.Lhs) {
							scan(st.Rhs[i])
						} else {
							for _, rh := range st.Rhs {
								scan(rh)
							}
						}
					}
					// element / field stores into o: o[i] = v, o.f = v
					if base := baseOfIndex(l); base != l && objOf(info, base) == o {
						for _, rh := range st.Rhs {
							scan(rh)
						}
						if ix, ok := ast.Unparen(l).(*ast.IndexExpr); ok {
							scan(ix.Index)
						}
					}
				}
			case *ast.ValueSpec:
				for i, id := range st.Names {
					if info.Defs[id] == o && i < len(st.Values) {
						scan(st.Values[i])
					}
				}
			case *ast.RangeStmt:
				if (st.Key != nil && objOf(info, st.Key) == o) || (st.Value != nil && objOf(info, st.Value) == o) {
					scan(st.X)
				}
			case *ast.CallExpr:
				// builder calls: o.M(args) or f(&o, args)
				if sel, ok := ast.Unparen(st.Fun).(*ast.SelectorExpr); ok {
					recv := ast.Unparen(sel.X)
					if ue, isU := recv.(*ast.UnaryExpr); isU && ue.Op == token.AND {
						recv = ast.Unparen(ue.X) // (&o).M(args): the receiver of an expanded helper
					}
					if objOf(info, recv) == o {
						for _, a := range st.Args {
							scan(a)
						}
					}
				}
			}
			return true
		})
	}
	return out
}

func c09R1R2(p *Prog, r *Report) {
	const r1 = "C09-R1"
	const r2 = "C09-R2"
	r.Rule(r1, "every condition field of RouteConfig is consulted by RouteConfig.Route (a documented condition that is parsed but never read is silently ignored)")
	r.Rule(r2, "each AddCriterion(criterion, invert) in RouteConfig.Route pairs a criterion built only from condition fields of one direction (From*/To*) and of the kind the invert flag's documentation names with that kind's own Invert flag; From* fields build Source* criteria and To* fields Dest* criteria; address-kind criteria are added to one OR group per direction that is appended to the route exactly once, after its members were added")
	fields, docs := routeConfigFields(p)
	fc := p.Inlined(p.Func("router", "RouteConfig", "Route"))
	info := fc.Info()
	rcObj := fc.RecvObj()
	read := map[string]bool{}
	ast.Inspect(fc.Body, func(n ast.Node) bool {
		if sel, ok := n.(*ast.SelectorExpr); ok && objOf(info, sel.X) == rcObj {
			read[sel.Sel.Name] = true
		}
		return true
	})
	for _, f := range fields {
		r.Check(read[f], r1, "router.RouteConfig."+f, p.posStr(fc.Body.Pos()), "read by Route", "field "+f+" is never read when the route is built: the documented condition is ignored")
	}
	r.Floor(r1, 30)

	// documented pairing: Invert<K> doc names fields
	isField := map[string]bool{}
	for _, f := range fields {
		isField[f] = true
	}
	docFields := func(inv string) []string {
		var out []string
		for _, w := range strings.FieldsFunc(docs[inv], func(c rune) bool {
			return !(c >= 'a' && c <= 'z' || c >= 'A' && c <= 'Z' || c >= '0' && c <= '9')
		}) {
			if isField[w] && w != inv && !strings.HasPrefix(w, "Invert") {
				out = append(out, w)
			}
		}
		sort.Strings(out)
		return out
	}
	dirOf := func(f string) string {
		switch {
		case strings.HasPrefix(f, "From"):
			return "From"
		case strings.HasPrefix(f, "To"):
			return "To"
		}
		return ""
	}
	nAdd := 0
	groupAdds := map[types.Object][]int{}
	for _, cs := range fc.AllCalls() {
		if cs.Fn == nil || cs.Fn.Name() != "AddCriterion" || len(cs.Call.Args) != 2 {
			continue
		}
		nAdd++
		crit, invE := cs.Call.Args[0], ast.Unparen(cs.Call.Args[1])
		recvSel := ast.Unparen(cs.Call.Fun).(*ast.SelectorExpr)
		if o := objOf(info, recvSel.X); o != nil && namedTypeName(o.Type()) == "CriterionGroupOR" {
			groupAdds[o] = append(groupAdds[o], cs.V)
		}
		// criterion type
		ct := ""
		if tv, ok := info.Types[crit]; ok {
			ct = namedTypeName(tv.Type)
		}
		construct := fmt.Sprintf("router.(*RouteConfig).Route:AddCriterion(%s)#%d", ct, nAdd-1)
		D := sliceFields(fc, crit, rcObj)
		var dl []string
		for f := range D {
			if dirOf(f) != "" {
				dl = append(dl, f)
			}
		}
		sort.Strings(dl)
		// invert argument
		if v, isConst := constOf(info, invE); isConst {
			// network criteria: constant false, no data fields
			r.Check(v.String() == "false" && len(dl) == 0 && strings.HasPrefix(ct, "Network"), r2, construct, cs.Pos(), "unconditional network criterion, never inverted", "constant invert flag on a data criterion")
			continue
		}
		invSel, ok := invE.(*ast.SelectorExpr)
		if !ok || objOf(info, invSel.X) != rcObj || !strings.HasPrefix(invSel.Sel.Name, "Invert") {
			r.Fail(r2, construct, cs.Pos(), "undecided: invert argument "+exprStr(invE)+" is not an Invert* field")
			continue
		}
		inv := invSel.Sel.Name
		dir := dirOf(strings.TrimPrefix(inv, "Invert"))
		want := docFields(inv)
		bad := ""
		for _, f := range dl {
			if dirOf(f) != dir {
				bad = fmt.Sprintf("criterion built from %v (includes %s) but inverted by %s", dl, f, inv)
			}
		}
		// the combined domain + expected-IP criterion legitimately includes the expected* fields, which have their own flags inside
		for _, w := range want {
			if !D[w] {
				bad = fmt.Sprintf("%s documents %v but the criterion is built from %v", inv, want, dl)
			}
		}
		// kind agreement: every data field must share the kind stem of the flag, except nested expected-IP members
		stem := kindStem(strings.TrimPrefix(inv, "Invert"))
		for _, f := range dl {
			if kindStem(f) != stem && !(strings.Contains(f, "MatchedDomainExpected") && stem == "ToDomain") {
				bad = fmt.Sprintf("criterion built from %v but inverted by %s (field %s is a different kind)", dl, inv, f)
			}
		}
		if len(dl) == 0 {
			bad = "criterion uses no condition field"
		}
		// direction vs criterion type
		if bad == "" {
			if dir == "From" && !strings.HasPrefix(ct, "Source") {
				bad = "source condition builds a " + ct
			}
			if dir == "To" && !strings.HasPrefix(ct, "Dest") {
				bad = "destination condition builds a " + ct
			}
		}
		r.Check(bad == "", r2, construct, cs.Pos(), fmt.Sprintf("built from %v, inverted by %s", dl, inv), bad+": the route matches requests on a condition of another kind, or negates the wrong condition")
	}
	// groups appended once after their adds
	for g, adds := range groupAdds {
		var appends []int
		for _, cs := range fc.AllCalls() {
			if cs.Fn != nil && cs.Fn.Name() == "AppendTo" {
				if sel, ok := ast.Unparen(cs.Call.Fun).(*ast.SelectorExpr); ok && objOf(info, sel.X) == g {
					appends = append(appends, cs.V)
				}
			}
			if cs.Fn != nil && cs.Fn.Name() == "Criterion" && namedTypeName(recvTypeOf(cs.Fn)) == "CriterionGroupOR" {
				if sel, ok := ast.Unparen(cs.Call.Fun).(*ast.SelectorExpr); ok && objOf(info, sel.X) == g {
					appends = append(appends, cs.V)
				}
			}
		}
		ok := len(appends) == 1
		if ok {
			for _, a := range adds {
				if fc.G.ReachAfter(appends[0], nil, nil)[a] {
					ok = false
				}
			}
			// the result is stored into route.criteria (or nested criterion)
		}
		r.Check(ok, r2, "router.(*RouteConfig).Route:group:"+g.Name()+"@"+p.posStr(g.Pos()), p.posStr(g.Pos()), "OR group appended exactly once after all its members", "an OR group is appended before all of its members were added, or not exactly once: some address conditions are ignored")
	}
	r.Count("add_criterion_sites", nAdd)
	r.Floor(r2, 20)
}

// kindStem maps a field name to its kind: FromPorts/FromPortRanges -> FromPort, FromPrefixes/FromPrefixSets -> FromPrefix, ...
func kindStem(f string) string {
	for _, suf := range []string{"PortRanges", "Ports", "PrefixSets", "Prefixes", "DomainSets", "Domains", "GeoIPCountries", "Servers", "Users"} {
		if strings.HasSuffix(f, suf) {
			base := strings.TrimSuffix(f, suf)
			switch suf {
			case "PortRanges", "Ports":
				return base + "Port"
			case "PrefixSets", "Prefixes":
				return base + "Prefix"
			case "DomainSets", "Domains":
				return base + "Domain"
			case "GeoIPCountries":
				return base + "GeoIPCountry"
			case "Servers":
				return base + "Server"
			case "Users":
				return base + "User"
			}
		}
	}
	return f
}

func c09R3(p *Prog, r *Report) {
	const rule = "C09-R3"
	r.Rule(rule, "each criterion reads the request field of its direction: Source* criteria read only ServerIndex / Username / SourceAddrPort and Dest* criteria only TargetAddr; port criteria read the port through Port(); Network* criteria read only the protocol argument; the three port representations agree on which accessor they use")
	pkg := p.Pkg("router")
	n := 0
	p.AllFuncs(pkg, func(fc *FuncCtx) {
		if fc.Obj == nil || fc.Obj.Name() != "Meet" {
			return
		}
		tn := namedTypeName(recvTypeOf(fc.Obj))
		info := fc.Info()
		req := fc.ParamObj(2)
		used := map[string]bool{}
		accessors := map[string]bool{}
		ast.Inspect(fc.Body, func(x ast.Node) bool {
			if sel, ok := x.(*ast.SelectorExpr); ok && objOf(info, sel.X) == req {
				used[sel.Sel.Name] = true
			}
			if c, ok := x.(*ast.CallExpr); ok {
				if sel, ok := ast.Unparen(c.Fun).(*ast.SelectorExpr); ok {
					if in, ok := ast.Unparen(sel.X).(*ast.SelectorExpr); ok && objOf(info, in.X) == req {
						accessors[in.Sel.Name+"."+sel.Sel.Name] = true
					}
				}
			}
			return true
		})
		var ul []string
		for u := range used {
			ul = append(ul, u)
		}
		sort.Strings(ul)
		construct := "router." + tn + ".Meet"
		switch {
		case strings.HasPrefix(tn, "Source"):
			n++
			ok := len(ul) == 1 && (ul[0] == "ServerIndex" || ul[0] == "Username" || ul[0] == "SourceAddrPort")
			want := map[string]string{"Server": "ServerIndex", "User": "Username"}
			for k, w := range want {
				if strings.Contains(tn, k) && (len(ul) != 1 || ul[0] != w) {
					ok = false
				}
			}
			if strings.Contains(tn, "Port") || strings.Contains(tn, "IP") {
				if len(ul) != 1 || ul[0] != "SourceAddrPort" {
					ok = false
				}
			}
			r.Check(ok, rule, construct+":field", p.posStr(fc.Body.Pos()), "reads "+strings.Join(ul, ","), "a source criterion reads "+strings.Join(ul, ",")+": it decides on the wrong part of the request")
			if strings.Contains(tn, "Port") {
				r.Check(accessors["SourceAddrPort.Port"] && len(accessors) == 1, rule, construct+":accessor", p.posStr(fc.Body.Pos()), "SourceAddrPort.Port()", fmt.Sprintf("port criterion uses %v", accessors))
			}
			if strings.Contains(tn, "IP") && !strings.Contains(tn, "GeoIP") {
				r.Check(accessors["SourceAddrPort.Addr"], rule, construct+":accessor", p.posStr(fc.Body.Pos()), "SourceAddrPort.Addr()", fmt.Sprintf("address criterion uses %v", accessors))
			}
		case strings.HasPrefix(tn, "Dest"):
			n++
			ok := len(ul) == 0 || (len(ul) == 1 && ul[0] == "TargetAddr")
			// DestDomainExpectedIPCriterion only forwards requestInfo
			r.Check(ok, rule, construct+":field", p.posStr(fc.Body.Pos()), "reads "+strings.Join(ul, ","), "a destination criterion reads "+strings.Join(ul, ",")+": it decides on the wrong part of the request")
			if strings.Contains(tn, "Port") {
				r.Check(accessors["TargetAddr.Port"] && len(accessors) == 1, rule, construct+":accessor", p.posStr(fc.Body.Pos()), "TargetAddr.Port()", fmt.Sprintf("port criterion uses %v", accessors))
			}
		case strings.HasPrefix(tn, "Network"):
			n++
			r.Check(len(ul) == 0, rule, construct+":field", p.posStr(fc.Body.Pos()), "reads only the protocol", "a network criterion reads request fields")
			// TCP criterion compares with protocolTCP, UDP with protocolUDP
			wantConst := "protocol" + strings.TrimSuffix(strings.TrimPrefix(tn, "Network"), "Criterion")
			has := false
			ast.Inspect(fc.Body, func(x ast.Node) bool {
				if id, ok := x.(*ast.Ident); ok && id.Name == wantConst {
					has = true
				}
				return true
			})
			r.Check(has, rule, construct+":protocol", p.posStr(fc.Body.Pos()), "compares with "+wantConst, tn+" does not compare with "+wantConst)
		}
	})
	// GetTCPClient / GetUDPClient pass their own protocol
	for _, pr := range [][2]string{{"GetTCPClient", "protocolTCP"}, {"GetUDPClient", "protocolUDP"}} {
		fc := p.Func("router", "Router", pr[0])
		ok := false
		for _, cs := range fc.CallsTo(isFn(mp("router"), "Router", "match")) {
			if exprStr(cs.Call.Args[1]) == pr[1] && objOf(fc.Info(), cs.Call.Args[2]) == fc.ParamObj(1) {
				ok = true
			}
		}
		r.Check(ok, rule, "router.(*Router)."+pr[0]+":protocol", p.posStr(fc.Body.Pos()), "matches with "+pr[1]+" and its own request", pr[0]+" does not match with "+pr[1])
		// returns the matched route's client of the same protocol
		want := map[string]string{"GetTCPClient": "TCPClient", "GetUDPClient": "UDPClient"}[pr[0]]
		ok2 := false
		for _, ret := range fc.Returns() {
			rs := fc.G.V[ret].Node.(*ast.ReturnStmt)
			if len(rs.Results) == 1 {
				if c, isCall := ast.Unparen(rs.Results[0]).(*ast.CallExpr); isCall {
					if fn := Callee(fc.Info(), c); fn != nil && fn.Name() == want {
						ok2 = true
					}
				}
			}
		}
		r.Check(ok2, rule, "router.(*Router)."+pr[0]+":client", p.posStr(fc.Body.Pos()), "returns route."+want+"()", pr[0]+" does not return the matched route's "+want)
	}
	r.Count("criterion_meet_methods", n)
	r.Floor(rule, 24)
}

// meetLike functions: (bool, error) returning functions of package router whose returns are checked.
func c09R4(p *Prog, r *Report) {
	const rule = "C09-R4"
	r.Rule(rule, "combinators and error discipline: no (bool, error) function of package router can return true together with a possibly non-nil error (a resolver or database failure never matches silently); Route.Match returns (false, err) at the first criterion that is not met and (true, nil) after all; CriterionGroupOR.Meet returns (false, err) on the first error, (true, nil) on the first hit and (false, nil) after all; InvertedCriterion.Meet negates only on the err == nil path; lookup ends in a non-nil error when no resolver answered")
	pkg := p.Pkg("router")
	n := 0
	p.AllFuncs(pkg, func(fc *FuncCtx) {
		if fc.Obj == nil {
			return
		}
		sig := fc.Obj.Type().(*types.Signature)
		if sig.Results().Len() != 2 || sig.Results().At(0).Type().String() != "bool" || sig.Results().At(1).Type().String() != "error" {
			return
		}
		info := fc.Info()
		for i, ret := range fc.Returns() {
			rs := fc.G.V[ret].Node.(*ast.ReturnStmt)
			n++
			construct := fmt.Sprintf("%s:return#%d", fc.Name, i)
			if len(rs.Results) == 1 {
				// delegation to another (bool, error) function: covered by that function's own returns (module) or by induction (interface Meet)
				c, ok := ast.Unparen(rs.Results[0]).(*ast.CallExpr)
				okDel := false
				if ok {
					fn := Callee(info, c)
					if fn != nil && fn.Pkg() != nil && fn.Pkg().Path() == mp("router") {
						okDel = true
					}
				}
				r.Check(okDel, rule, construct, p.posStr(rs.Pos()), "delegates to a checked (bool, error) function of the package", "undecided: returns the result of "+exprStr(rs.Results[0]))
				continue
			}
			if len(rs.Results) != 2 {
				r.Fail(rule, construct, p.posStr(rs.Pos()), "undecided: bare return in a (bool, error) function")
				continue
			}
			ek := fc.ErrAtReturn(ret)
			v, isConst := constOf(info, rs.Results[0])
			switch {
			case ek == ErrNil:
				r.OK(rule, construct, p.posStr(rs.Pos()), "returns a nil error")
			case isConst && v.String() == "false":
				r.OK(rule, construct, p.posStr(rs.Pos()), "returns false with the error")
			default:
				r.Fail(rule, construct, p.posStr(rs.Pos()), "returns "+exprStr(rs.Results[0])+" together with a possibly non-nil error ("+exprStr(rs)+"): a failing inner criterion (resolver failure, database error) makes the route match silently, because Route.Match only looks at the error when the criterion was not met")
			}
		}
	})
	// Route.Match
	rm := p.Func("router", "Route", "Match")
	c09CheckLoopCombinator(p, r, rule, rm, "criteria", true)
	og := p.Func("router", "CriterionGroupOR", "Meet")
	c09CheckLoopCombinator(p, r, rule, og, "Criteria", false)
	// InvertedCriterion
	iv := p.Func("router", "InvertedCriterion", "Meet")
	for _, cs := range iv.AllCalls() {
		if cs.Fn != nil && cs.Fn.Name() == "Meet" {
			met := cs.ResultVar(0)
			for _, ret := range iv.Returns() {
				rs := iv.G.V[ret].Node.(*ast.ReturnStmt)
				if len(rs.Results) == 2 {
					if u, ok := ast.Unparen(rs.Results[0]).(*ast.UnaryExpr); ok && u.Op == token.NOT && objOf(iv.Info(), u.X) == met {
						r.Check(cs.SuccessGuards(ret), rule, "router.InvertedCriterion.Meet:negates-only-on-success", p.posStr(rs.Pos()), "!met is returned only on the inner criterion's err == nil edge", "the negation is returned although the inner criterion may have failed")
					}
				}
			}
			// the call passes its own arguments through
			okArgs := len(cs.Call.Args) == 3
			for i := 0; okArgs && i < 3; i++ {
				if objOf(iv.Info(), cs.Call.Args[i]) != iv.ParamObj(i) {
					okArgs = false
				}
			}
			r.Check(okArgs, rule, "router.InvertedCriterion.Meet:forwards-request", cs.Pos(), "forwards ctx, network, requestInfo unchanged", "the inner criterion is evaluated on a different request")
		}
	}
	// lookup
	lk := p.Func("router", "", "lookup")
	lastOK := false
	for _, ret := range lk.Returns() {
		// the return after the loop
		inLoop := false
		for _, v := range lk.G.V {
			if v.Kind == VRange {
				body := v.Stmt.(*ast.RangeStmt).Body
				if body.Pos() <= lk.G.V[ret].Node.Pos() && lk.G.V[ret].Node.End() <= body.End() {
					inLoop = true
				}
			}
		}
		if !inLoop && lk.ErrAtReturn(ret) == ErrNonNil {
			lastOK = true
		}
		if !inLoop && lk.ErrAtReturn(ret) != ErrNonNil {
			lastOK = false
		}
	}
	r.Check(lastOK, rule, "router.lookup:no-resolver-is-error", p.posStr(lk.Body.Pos()), "falls through to a non-nil error when no resolver answered", "lookup can return a zero address with a nil error when no resolver answered: IP conditions are then evaluated on the zero address")
	// resolver iteration: the next resolver is tried only on err == dns.ErrLookup (any test
	// shape), and any other outcome is returned
	contOK := false
	isErrLookup := func(e ast.Expr) bool { return exprStr(e) == "dns.ErrLookup" }
	var eqEdges []Edge
	for _, v := range lk.G.V {
		x, y, op, ok := condParts(v)
		if !ok || y == nil || (op != token.EQL && op != token.NEQ) || !(isErrLookup(x) || isErrLookup(y)) {
			continue
		}
		lab := LTrue
		if op == token.NEQ {
			lab = LFalse
		}
		for _, e := range v.Succs {
			if e.Label == lab {
				eqEdges = append(eqEdges, e)
			}
		}
	}
	for _, cs := range lk.AllCalls() {
		if cs.Fn == nil || cs.Fn.Name() != "LookupIP" {
			continue
		}
		blocked := map[Edge]bool{}
		for _, e := range eqEdges {
			blocked[e] = true
		}
		reach := lk.G.ReachAfter(cs.V, func(v *Vertex) bool { return v.ID == cs.V }, func(e Edge) bool { return blocked[e] })
		headReached, retReached := false, false
		for _, v := range lk.G.V {
			if v.Kind == VRange && reach[v.ID] {
				headReached = true
			}
		}
		for _, ret := range lk.Returns() {
			if reach[ret] {
				retReached = true
			}
		}
		contOK = len(eqEdges) > 0 && !headReached && retReached
	}
	r.Check(contOK, rule, "router.lookup:next-resolver-on-lookup-failure-only", p.posStr(lk.Body.Pos()), "moves to the next resolver only on dns.ErrLookup", "the resolver loop does not distinguish a failed lookup from an answer")
	r.Count("bool_error_returns", n)
	r.Floor(rule, 40)
}

// c09CheckLoopCombinator checks AND (and=true) or OR loops over a slice field of the receiver.
func c09CheckLoopCombinator(p *Prog, r *Report, rule string, fc *FuncCtx, field string, and bool) {
	info := fc.Info()
	var rng *Vertex
	for _, v := range fc.G.V {
		if v.Kind == VRange && strings.HasSuffix(exprStr(v.Stmt.(*ast.RangeStmt).X), "."+field) {
			rng = v
		}
	}
	if rng == nil {
		r.Fail(rule, fc.Name+":loop", p.posStr(fc.Body.Pos()), "no loop over "+field)
		return
	}
	rs := rng.Stmt.(*ast.RangeStmt)
	var meet *CallSite
	for _, cs := range fc.AllCalls() {
		if cs.Fn != nil && cs.Fn.Name() == "Meet" {
			c := cs
			meet = &c
		}
	}
	if meet == nil || rs.Value == nil {
		r.Fail(rule, fc.Name+":calls-Meet", p.posStr(fc.Body.Pos()), "the loop does not evaluate each element")
		return
	}
	sel := ast.Unparen(meet.Call.Fun).(*ast.SelectorExpr)
	r.Check(objOf(info, sel.X) == objOf(info, rs.Value) && rs.Key == nil || exprStr(rs.Key) == "_", rule, fc.Name+":evaluates-each-element", meet.Pos(), "Meet is called on the loop element", "Meet is not called on the loop element")
	okArgs := true
	for i := 0; i < 3; i++ {
		if objOf(info, meet.Call.Args[i]) != fc.ParamObj(i) {
			okArgs = false
		}
	}
	r.Check(okArgs, rule, fc.Name+":forwards-request", meet.Pos(), "forwards ctx, network, requestInfo unchanged", "elements are evaluated on a different request")
	met, errO := meet.ResultVar(0), meet.ResultVar(1)
	// after the loop: (and ? true : false), nil
	for _, ret := range fc.Returns() {
		node := fc.G.V[ret].Node.(*ast.ReturnStmt)
		inLoop := rs.Body.Pos() <= node.Pos() && node.End() <= rs.Body.End()
		if len(node.Results) != 2 {
			continue
		}
		v, isConst := constOf(info, node.Results[0])
		if !inLoop {
			want := "false"
			if and {
				want = "true"
			}
			r.Check(isConst && v.String() == want && isNilExpr(info, node.Results[1]), rule, fc.Name+":after-all", p.posStr(node.Pos()), "after all elements: ("+want+", nil)", "after all elements the function returns "+exprStr(node))
			continue
		}
		// in loop
		if and {
			// return false, err guarded by met == false
			fe := fc.TestEdges(func(e ast.Expr) bool { return objOf(info, e) == met }, WantFalse)
			ok := isConst && v.String() == "false" && objOf(info, node.Results[1]) == errO && fc.G.EdgeDominates(fe, ret)
			r.Check(ok, rule, fc.Name+":stop-at-first-unmet", p.posStr(node.Pos()), "returns (false, err) as soon as an element is not met", "inside the AND loop the function returns "+exprStr(node)+" under a different condition")
		} else {
			if isConst && v.String() == "true" {
				te := fc.TestEdges(func(e ast.Expr) bool { return objOf(info, e) == met }, WantTrue)
				r.Check(isNilExpr(info, node.Results[1]) && fc.G.EdgeDominates(te, ret) && meet.SuccessGuards(ret), rule, fc.Name+":first-hit", p.posStr(node.Pos()), "returns (true, nil) on the first element met, after its error was checked", "the OR group reports a hit under a different condition or before checking the element's error")
			} else {
				ne := meet.ResultEdges(1, WantNonNil)
				r.Check(isConst && v.String() == "false" && objOf(info, node.Results[1]) == errO && fc.G.EdgeDominates(ne, ret), rule, fc.Name+":error-propagates", p.posStr(node.Pos()), "returns (false, err) on the first error", "inside the OR loop the function returns "+exprStr(node)+" under a different condition")
			}
		}
	}
	// every iteration that is met (AND) / not met without error (OR) continues: loop back reachable
	// AND: an unmet element must not be skipped: from met==false edge, the loop head is unreachable
	if and {
		for _, e := range fc.TestEdges(func(x ast.Expr) bool { return objOf(info, x) == met }, WantFalse) {
			if fc.SoleDef(e.From, met, meet.V) {
				r.Check(!fc.G.Reach([]int{e.To}, nil, nil)[rng.ID], rule, fc.Name+":unmet-never-continues", p.posStr(fc.G.V[e.From].Node.Pos()), "an unmet criterion ends the match", "after an unmet criterion the loop continues: later criteria can still make the route match (AND becomes OR)")
			}
		}
	}
}

func c09R5(p *Prog, r *Report) {
	const rule = "C09-R5"
	r.Rule(rule, "first match, default last: Router.match walks r.routes by ascending index, returns the error of the first failing route and the first route that matches; Config.Router builds routes in configuration order into slots 0..n-1 and stores the criteria-free default route in the last slot; a route without a client yields ErrRejected; the port-set criteria never hand their bit-set representation a value it refuses (port 0) while the sibling representations simply answer false")
	m := p.Func("router", "Router", "match")
	info := m.Info()
	var rng *Vertex
	for _, v := range m.G.V {
		if v.Kind == VRange && strings.HasSuffix(exprStr(v.Stmt.(*ast.RangeStmt).X), ".routes") {
			rng = v
		}
	}
	if rng == nil {
		r.Fail(rule, "router.(*Router).match:loop", p.posStr(m.Body.Pos()), "no ascending range over r.routes")
	} else {
		rs := rng.Stmt.(*ast.RangeStmt)
		idx := objOf(info, rs.Key)
		var mc *CallSite
		for _, cs := range m.CallsTo(isFn(mp("router"), "Route", "Match")) {
			c := cs
			mc = &c
		}
		okIdx := false
		if mc != nil && idx != nil {
			if sel, ok := ast.Unparen(mc.Call.Fun).(*ast.SelectorExpr); ok {
				// the receiver, through locals: r.routes[i] or a pointer to it taken in this iteration
				want := "recv.routes[" + idx.Name() + "]"
				if got := strings.TrimPrefix(normExpr(p, m, sel.X), "&"); got == want {
					okIdx = true
				}
			}
		}
		r.Check(okIdx, rule, "router.(*Router).match:evaluates-route-i", p.posStr(rs.Pos()), "r.routes[i].Match for ascending i", "routes are not evaluated in ascending configuration order")
		if mc != nil {
			matched := mc.ResultVar(0)
			te := m.TestEdges(func(e ast.Expr) bool { return objOf(info, e) == matched }, WantTrue)
			nRet := 0
			for _, ret := range m.Returns() {
				node := m.G.V[ret].Node.(*ast.ReturnStmt)
				if len(node.Results) != 2 {
					continue
				}
				if isNilExpr(info, node.Results[1]) {
					nRet++
					// returns &r.routes[i] on the matched edge after the error check
					s := normExpr(p, m, node.Results[0])
					ok := s == "&recv.routes["+idx.Name()+"]" && m.G.EdgeDominates(te, ret) && mc.SuccessGuards(ret)
					r.Check(ok, rule, "router.(*Router).match:returns-first-match", p.posStr(node.Pos()), "returns the route just matched, inside the loop", "match returns "+s+" under a different condition: not the first matching route")
				} else {
					ne := mc.ResultEdges(1, WantNonNil)
					r.Check(isNilExpr(info, node.Results[0]) && m.G.EdgeDominates(ne, ret), rule, "router.(*Router).match:error-surfaces", p.posStr(node.Pos()), "a route's error ends the search as an error", "an evaluation error does not surface")
				}
			}
			r.Check(nRet == 1, rule, "router.(*Router).match:single-match-return", p.posStr(m.Body.Pos()), "one match return", fmt.Sprintf("%d match returns", nRet))
		}
	}
	// Config.Router: routes[i] = route for i in range rc.Routes; routes[len(rc.Routes)] = defaultRoute; make(len+1)
	cr := p.Func("router", "Config", "Router")
	okMake, okSlot, okDefault, okNoCriteria := routeSliceFacts(p)
	r.Check(okMake, rule, "router.(*Config).Router:room-for-default", p.posStr(cr.Body.Pos()), "routes has len(rc.Routes)+1 slots", "the route slice has no slot for the default route")
	r.Check(okSlot, rule, "router.(*Config).Router:configuration-order", p.posStr(cr.Body.Pos()), "routes[i] is built from rc.Routes[i]", "routes are not stored in configuration order")
	r.Check(okDefault && okNoCriteria, rule, "router.(*Config).Router:default-last-and-unconditional", p.posStr(cr.Body.Pos()), "the criteria-free default route is stored last", "the default route is not the last, unconditional route: configured routes are shadowed or the search falls off the end (panic)")
	// nil client => ErrRejected
	for _, name := range []string{"TCPClient", "UDPClient"} {
		fc := p.Func("router", "Route", name)
		field := map[string]string{"TCPClient": "tcpClient", "UDPClient": "udpClient"}[name]
		ne := fc.TestEdges(func(e ast.Expr) bool {
			sel, ok := ast.Unparen(e).(*ast.SelectorExpr)
			return ok && sel.Sel.Name == field
		}, WantNil)
		ok := len(ne) > 0
		for _, e := range ne {
			reach := fc.G.Reach([]int{e.To}, nil, nil)
			for _, ret := range fc.Returns() {
				if reach[ret] && fc.G.EdgeDominates([]Edge{e}, ret) {
					if s := exprStr(fc.G.V[ret].Node); !strings.Contains(s, "ErrRejected") {
						ok = false
					}
				}
			}
		}
		// non-nil edge returns that field
		for _, ret := range fc.Returns() {
			node := fc.G.V[ret].Node.(*ast.ReturnStmt)
			if len(node.Results) == 2 && isNilExpr(fc.Info(), node.Results[1]) {
				if !strings.HasSuffix(exprStr(node.Results[0]), "."+field) {
					ok = false
				}
			}
		}
		r.Check(ok, rule, "router.(*Route)."+name+":reject", p.posStr(fc.Body.Pos()), "a nil "+field+" yields ErrRejected, otherwise that client", name+" does not map a missing client to a rejection (or returns the other protocol's client)")
	}
	// port-set criteria guard the refused value (sibling agreement with the other representations)
	c09PortSiblings(p, r, rule, "C09")
	r.Floor(rule, 10)
}

// c09PortSiblings: PortSet.Contains panics on 0 (pinned by its tests) while PortRangeSet.Contains and == answer false:
// every call of (*PortSet).Contains with a request-derived port must be guarded by port != 0.
func c09PortSiblings(p *Prog, r *Report, rule, prop string) {
	pkg := p.Pkg("router")
	ps := p.Func("portset", "PortSet", "Contains")
	panics := false
	for _, cs := range ps.AllCalls() {
		if cs.Fn != nil && cs.Fn.Name() == "panicOnZeroPort" {
			panics = true
		}
	}
	p.AllFuncs(pkg, func(fc *FuncCtx) {
		info := fc.Info()
		for _, cs := range fc.CallsTo(isFn(mp("portset"), "PortSet", "Contains")) {
			construct := fc.Name + ":PortSet.Contains"
			if !panics {
				r.OK(rule, construct, cs.Pos(), "PortSet.Contains does not refuse any value")
				continue
			}
			arg := cs.Call.Args[0]
			// guard: an edge dominating the call on which <same expr or variable> != 0
			guarded := false
			for _, v := range fc.G.V {
				x, y, op, ok := condParts(v)
				if !ok || y == nil || (op != token.NEQ && op != token.EQL && op != token.GTR) {
					continue
				}
				k, isC := constInt(info, y)
				if !isC || k != 0 {
					continue
				}
				if !(samePathOrObj(fc, x, arg) || exprStr(x) == exprStr(arg)) {
					continue
				}
				lab := LTrue
				if op == token.EQL {
					lab = LFalse
				}
				for _, e := range v.Succs {
					if e.Label == lab && fc.G.EdgeDominates([]Edge{e}, cs.V) {
						guarded = true
					}
				}
			}
			// short-circuit form: port != 0 && set.Contains(port) inside one return expression
			if !guarded {
				ast.Inspect(fc.Body, func(n ast.Node) bool {
					be, ok := n.(*ast.BinaryExpr)
					if !ok || be.Op != token.LAND {
						return true
					}
					l, ok := ast.Unparen(be.X).(*ast.BinaryExpr)
					if !ok || l.Op != token.NEQ {
						return true
					}
					k, isC := constInt(info, l.Y)
					if isC && k == 0 && (samePathOrObj(fc, l.X, arg) || exprStr(l.X) == exprStr(arg)) && be.Y.Pos() <= cs.Call.Pos() && cs.Call.End() <= be.Y.End() {
						guarded = true
					}
					return true
				})
			}
			r.Check(guarded, rule, construct, cs.Pos(), "the port is checked to be non-zero before the bit-set lookup",
				"(*portset.PortSet).Contains panics on port 0 while the sibling representations (single port, range set) answer false; the port comes from the request unchecked, so a peer that names port 0 crashes the process whenever the route's port list needs the bit-set representation (more than 16 ranges)")
		}
	})
}

// c09R6: a route that names a resolver uses that resolver, and only that one, for every
// criterion that resolves names; an unknown name is refused. Decided on RouteConfig.Route: on
// the edge where the configured name is not empty, no statement that hands the resolver list to
// a criterion is reachable without first passing the lookup of the name (whose not-found edge
// ends in an error) and the replacement of the list by the looked-up resolver.
func c09R6(p *Prog, r *Report) {
	const rule = "C09-R6"
	r.Rule(rule, "the route's own resolver is honoured: in RouteConfig.Route, from the edge on which rc.Resolver is non-empty, every use of the resolver list by a criterion lies behind the assignment that replaces the list with the resolver looked up under that name, and the lookup's not-found edge only leads to an error")
	fc := p.Func("router", "RouteConfig", "Route")
	info := fc.Info()
	// the resolver-list parameter: the slice parameter whose element type is the resolver interface
	var list types.Object
	var resolverMap types.Object
	for i := 0; fc.ParamObj(i) != nil; i++ {
		o := fc.ParamObj(i)
		switch t := o.Type().Underlying().(type) {
		case *types.Slice:
			if namedTypeName(t.Elem()) == "SimpleResolver" {
				list = o
			}
		case *types.Map:
			if namedTypeName(t.Elem()) == "SimpleResolver" {
				resolverMap = o
			}
		}
	}
	if list == nil || resolverMap == nil {
		r.Fail(rule, "router.(*RouteConfig).Route:shape", p.posStr(fc.Body.Pos()), "undecided: resolver list / resolver map parameters not found")
		return
	}
	nonEmpty := fc.EqStrConstEdges(func(e ast.Expr) bool {
		sel, ok := ast.Unparen(e).(*ast.SelectorExpr)
		return ok && sel.Sel.Name == "Resolver" && objOf(info, sel.X) == fc.RecvObj()
	}, "", false)
	// the lookup and the replacement
	var lookupV, replaceV = -1, -1
	var okObj, resObj types.Object
	for _, v := range fc.G.V {
		as, ok := v.Node.(*ast.AssignStmt)
		if !ok || len(as.Rhs) != 1 {
			continue
		}
		if ix, ok := ast.Unparen(as.Rhs[0]).(*ast.IndexExpr); ok && objOf(info, ix.X) == resolverMap && len(as.Lhs) == 2 {
			if sel, ok := ast.Unparen(ix.Index).(*ast.SelectorExpr); ok && sel.Sel.Name == "Resolver" && objOf(info, sel.X) == fc.RecvObj() {
				lookupV = v.ID
				resObj, okObj = objOf(info, as.Lhs[0]), objOf(info, as.Lhs[1])
			}
		}
	}
	for _, v := range fc.G.V {
		as, ok := v.Node.(*ast.AssignStmt)
		if !ok || len(as.Lhs) != 1 || len(as.Rhs) != 1 || objOf(info, as.Lhs[0]) != list {
			continue
		}
		if cl, ok := ast.Unparen(as.Rhs[0]).(*ast.CompositeLit); ok && len(cl.Elts) == 1 && resObj != nil && objOf(info, cl.Elts[0]) == resObj {
			replaceV = v.ID
		}
	}
	okLookup := lookupV >= 0 && replaceV >= 0 && okObj != nil
	if okLookup {
		for _, e := range fc.TestEdges(func(x ast.Expr) bool { return objOf(info, x) == okObj }, WantFalse) {
			if !errorOnlyFrom(fc, e) {
				okLookup = false
			}
		}
		found := fc.TestEdges(func(x ast.Expr) bool { return objOf(info, x) == okObj }, WantTrue)
		if !fc.G.EdgeDominates(found, replaceV) {
			okLookup = false
		}
	}
	r.Check(okLookup, rule, "router.(*RouteConfig).Route:named-resolver-looked-up", p.posStr(fc.Body.Pos()), "the name is looked up, an unknown name is an error, and the list is replaced by the resolver found", "the route's resolver name is not looked up with an unknown name refused and the resolver list replaced by the result")
	// uses of the list by criteria, reachable on the non-empty edge around the replacement
	bad := ""
	n := 0
	if len(nonEmpty) > 0 && replaceV >= 0 {
		var starts []int
		for _, e := range nonEmpty {
			starts = append(starts, e.To)
		}
		reach := fc.G.Reach(starts, func(v *Vertex) bool { return v.ID == replaceV }, nil)
		for _, v := range fc.G.V {
			if v.Node == nil || v.ID == replaceV || !usesObj(info, v.Node, list, false) {
				continue
			}
			// only uses that hand the list on (composite literal element / call argument), not len() tests
			hands := false
			inspectNoLit(v.Node, func(x ast.Node) bool {
				switch y := x.(type) {
				case *ast.CompositeLit:
					for _, el := range y.Elts {
						val := el
						if kv, ok := el.(*ast.KeyValueExpr); ok {
							val = kv.Value
						}
						if objOf(info, val) == list {
							hands = true
						}
					}
				case *ast.CallExpr:
					if id, ok := ast.Unparen(y.Fun).(*ast.Ident); ok && id.Name == "len" {
						return false
					}
					for _, a := range y.Args {
						if objOf(info, a) == list {
							hands = true
						}
					}
				}
				return true
			})
			if !hands {
				continue
			}
			n++
			if reach[v.ID] {
				bad = exprStr(v.Node)
			}
		}
	}
	r.Check(len(nonEmpty) > 0 && n > 0 && bad == "", rule, "router.(*RouteConfig).Route:criteria-use-the-named-resolver", p.posStr(fc.Body.Pos()), fmt.Sprintf("all %d uses of the resolver list by criteria lie behind the replacement when a resolver is named", n),
		"with a resolver named on the route, a criterion can still be given the global resolver list ("+bad+"): the route resolves through resolvers it was told not to use, and an unknown resolver name goes unnoticed")
}


// routeSliceFacts: how Config.Router fills the route slice — made with one slot more than the
// configuration has routes (okMake), slot i given the route built from the i-th configured route
// (okSlot), the last slot given a route (okDefault) that never receives a criterion
// (okNoCriteria). Shared by C09-R5 and C06-R1 (Router.match panics when no route matches).
func routeSliceFacts(p *Prog) (bool, bool, bool, bool) {
	cr := p.Func("router", "Config", "Router")
	cinfo := cr.Info()
	var okMake, okSlot, okDefault, okNoCriteria bool
	var defObj types.Object
	// the route slice: the local made with one slot more than the configuration has routes
	// (names of locals and of the receiver do not matter: expressions are compared after
	// resolving locals and renaming the receiver)
	isCfgRoutes := func(e ast.Expr) bool {
		s := strings.NewReplacer("(", "", ")", "", "&", "", " ", "").Replace(normExpr(p, cr, e))
		return s == "recv.Routes"
	}
	var routesObj types.Object
	var sizeLin linForm
	for _, v := range cr.G.V {
		as, ok := v.Node.(*ast.AssignStmt)
		if !ok || len(as.Lhs) != len(as.Rhs) {
			continue
		}
		for i, rhs := range as.Rhs {
			c, ok := ast.Unparen(rhs).(*ast.CallExpr)
			if !ok || len(c.Args) != 2 {
				continue
			}
			if id, ok := ast.Unparen(c.Fun).(*ast.Ident); !ok || id.Name != "make" {
				continue
			}
			if namedTypeName(sliceElem(cinfo.TypeOf(c))) != "Route" {
				continue
			}
			lf := linOf(p, cr, c.Args[1])
			nAtoms := 0
			okAtom := false
			for k, coef := range lf {
				if k == "" {
					continue
				}
				nAtoms++
				if coef == 1 && strings.HasPrefix(k, "len(") && strings.HasSuffix(strings.ReplaceAll(k, " ", ""), ".Routes)") {
					okAtom = true
				}
			}
			if nAtoms == 1 && okAtom && lf[""] == 1 {
				okMake = true
				routesObj = objOf(cinfo, as.Lhs[i])
				sizeLin = lf
			}
		}
	}
	if routesObj != nil {
		var stores []int
		for _, v := range cr.G.V {
			as, ok := v.Node.(*ast.AssignStmt)
			if !ok || len(as.Lhs) != len(as.Rhs) && len(as.Rhs) != 1 {
				continue
			}
			for li, l := range as.Lhs {
				ix, ok := ast.Unparen(l).(*ast.IndexExpr)
				if !ok || objOf(cinfo, ix.X) != routesObj {
					continue
				}
				stores = append(stores, v.ID)
				// the last slot: index == size - 1
				if d := linOf(p, cr, ix.Index).add(sizeLin, -1); len(d) == 1 && d[""] == -1 && len(as.Lhs) == len(as.Rhs) {
					okDefault = true
					defObj = objOf(cinfo, as.Rhs[li])
					for _, v2 := range cr.G.V {
						if as2, ok := v2.Node.(*ast.AssignStmt); ok && v2.ID != v.ID && cr.G.ReachAfter(v.ID, nil, nil)[v2.ID] {
							for _, l2 := range as2.Lhs {
								if ix2, ok := ast.Unparen(l2).(*ast.IndexExpr); ok && objOf(cinfo, ix2.X) == routesObj {
									okDefault = false
								}
							}
						}
					}
					continue
				}
				// routes[i] with i the index of a range over the configured routes, the value
				// being what Route() of the i-th configured route returned without an error
				for _, lv := range cr.G.V {
					if lv.Kind != VRange {
						continue
					}
					rs := lv.Stmt.(*ast.RangeStmt)
					if !isCfgRoutes(rs.X) || rs.Key == nil || objOf(cinfo, ix.Index) != objOf(cinfo, rs.Key) {
						continue
					}
					for _, cs := range cr.AllCalls() {
						if cs.Fn == nil || cs.Fn.Name() != "Route" || namedTypeName(recvTypeOf(cs.Fn)) != "RouteConfig" {
							continue
						}
						sel, ok := ast.Unparen(cs.Call.Fun).(*ast.SelectorExpr)
						if !ok {
							continue
						}
						recvS := strings.NewReplacer("(", "", ")", "", "&", "", " ", "").Replace(normExpr(p, cr, sel.X))
						if recvS != "recv.Routes["+rs.Key.(*ast.Ident).Name+"]" {
							continue
						}
						if cs.V == v.ID && len(as.Rhs) == 1 && li == 0 {
							// stored by the call's own statement: a failed call must end the function with an error
							okErr := true
							fe := cs.ResultEdges(-1, WantNonNil)
							if len(fe) == 0 {
								okErr = false
							}
							reach := cr.G.ReachFromEdges(fe, nil, nil)
							for _, ret := range cr.ExitPreds() {
								if reach[ret] && cr.ErrAtReturn(ret) != ErrNonNil {
									okErr = false
								}
							}
							if okErr {
								okSlot = true
							}
						} else if len(as.Lhs) == len(as.Rhs) {
							if ro := objOf(cinfo, as.Rhs[li]); ro != nil && cs.ResultVar(0) == ro && cs.SuccessGuards(v.ID) {
								okSlot = true
							}
						}
					}
				}
			}
		}
		_ = stores
	}
	if defObj != nil {
		// defaultRoute has no criteria: only name/tcpClient/udpClient are ever set
		okNoCriteria = true
		ast.Inspect(cr.Body, func(n ast.Node) bool {
			if sel, ok := n.(*ast.SelectorExpr); ok && objOf(cinfo, sel.X) == defObj && (sel.Sel.Name == "criteria" || sel.Sel.Name == "AddCriterion") {
				okNoCriteria = false
			}
			if cl, ok := n.(*ast.CompositeLit); ok {
				if tv, ok := cinfo.Types[cl]; ok && namedTypeName(tv.Type) == "Route" {
					for _, el := range cl.Elts {
						if kv, ok := el.(*ast.KeyValueExpr); ok && kv.Key.(*ast.Ident).Name == "criteria" {
							okNoCriteria = false
						}
					}
				}
			}
			return true
		})
	}
	return okMake, okSlot, okDefault, okNoCriteria
}
