package main

import (
	"encoding/json"
	"fmt"
	"os"
	"path/filepath"
	"sort"
	"strconv"
	"strings"
	"time"
)

var verifDir = "/verif"

type Obligation struct {
	Rule      string `json:"rule"`
	Construct string `json:"construct"`
	Pos       string `json:"pos,omitempty"`
	Status    string `json:"status"` // ok | violation | known
	Detail    string `json:"detail,omitempty"`
}

type Report struct {
	Prop        string
	Tier        string
	Start       time.Time
	Obs         []Obligation
	RuleDocs    map[string]string
	ruleOrder   []string
	Analysed    map[string]int // counters: packages, functions, vertices...
	Notes       []string
	Assumptions []string
	NotDecided  []string
	Explanation string
	Mutants     []MutantResult
}

type MutantResult struct {
	Name     string `json:"name"`
	Rule     string `json:"expect_rule"`
	Caught   bool   `json:"caught"`
	Reported string `json:"reported,omitempty"`
}

func NewReport(prop, tier string) *Report {
	return &Report{Prop: prop, Tier: tier, Start: time.Now(), RuleDocs: map[string]string{}, Analysed: map[string]int{}}
}

// Rule registers a rule with its one-line statement.
func (r *Report) Rule(id, doc string) {
	if _, ok := r.RuleDocs[id]; !ok {
		r.ruleOrder = append(r.ruleOrder, id)
	}
	r.RuleDocs[id] = doc
}

func (r *Report) OK(rule, construct, pos, detail string) {
	r.Obs = append(r.Obs, Obligation{Rule: rule, Construct: construct, Pos: pos, Status: "ok", Detail: detail})
}

func (r *Report) Fail(rule, construct, pos, detail string) {
	r.Obs = append(r.Obs, Obligation{Rule: rule, Construct: construct, Pos: pos, Status: "violation", Detail: detail})
}

// Check records an obligation as ok or violation.
func (r *Report) Check(cond bool, rule, construct, pos, okDetail, failDetail string) bool {
	if cond {
		r.OK(rule, construct, pos, okDetail)
	} else {
		r.Fail(rule, construct, pos, failDetail)
	}
	return cond
}

// Floor fails the rule when fewer instances than confirmed by hand were found.
func (r *Report) Floor(rule string, want int) {
	got := 0
	for _, o := range r.Obs {
		if o.Rule == rule {
			got++
		}
	}
	// The floor guards against a rule that silently matches (almost) nothing after its anchors
	// moved. The number of obligations legitimately changes when code is deduplicated into a
	// helper or a loop replaces repeated statements, so the threshold is half of what was
	// confirmed by hand on the reference tree, never less than one.
	need := (want + 1) / 2
	if need < 1 {
		need = 1
	}
	if got < need {
		r.Fail(rule, "floor", "", fmt.Sprintf("rule matched %d instances, %d were confirmed by hand on the reference tree and at least %d are required: the rule's anchors no longer cover the code", got, want, need))
	}
}

func (r *Report) Count(key string, n int) { r.Analysed[key] += n }

type KnownFinding struct {
	Property  string `json:"property"`
	Rule      string `json:"rule"`
	Construct string `json:"construct"`
	What      string `json:"what"`
	Status    string `json:"status"` // known | fixed
	Commit    string `json:"commit,omitempty"`
	Fails     string `json:"fails,omitempty"` // the failing input / schedule / history
}

func loadKnown() []KnownFinding {
	data, err := os.ReadFile(filepath.Join(verifDir, "known_findings.json"))
	if err != nil {
		return nil
	}
	var k []KnownFinding
	if err := json.Unmarshal(data, &k); err != nil {
		fatalf("known_findings.json: %v", err)
	}
	return k
}

// Finish prints the verdict, writes evidence and the violations file, and returns the exit code.
func (r *Report) Finish() int {
	known := loadKnown()
	nviol := 0
	nknown := 0
	var viols []Obligation
	for i := range r.Obs {
		o := &r.Obs[i]
		if o.Status != "violation" {
			continue
		}
		matched := false
		for _, k := range known {
			if k.Status == "known" && k.Property == r.Prop && k.Rule == o.Rule && k.Construct == o.Construct {
				matched = true
				fmt.Printf("KNOWN-FINDING: property=%s rule=%s construct=%s %s\n", r.Prop, o.Rule, o.Construct, k.What)
				break
			}
		}
		if matched {
			o.Status = "known"
			nknown++
			continue
		}
		nviol++
		viols = append(viols, *o)
	}
	// known entries that no longer fire are reported (informational): a stale entry suppresses nothing.
	for _, k := range known {
		if k.Status != "known" || k.Property != r.Prop {
			continue
		}
		fired := false
		for _, o := range r.Obs {
			if o.Status == "known" && o.Rule == k.Rule && o.Construct == k.Construct {
				fired = true
			}
		}
		if !fired {
			r.Notes = append(r.Notes, fmt.Sprintf("known finding %s/%s no longer fires on this tree", k.Rule, k.Construct))
		}
	}

	evDir := filepath.Join(verifDir, "evidence")
	if d := os.Getenv("VERIF_EVDIR"); d != "" {
		evDir = d // scratch runs against seeded variants must not overwrite the committed evidence
	}
	os.MkdirAll(evDir, 0o755)
	violPath := filepath.Join(evDir, r.Prop+".violations.json")
	os.Remove(violPath)
	if nviol > 0 {
		data, _ := json.MarshalIndent(viols, "", " ")
		os.WriteFile(violPath, data, 0o644)
	}

	// evidence
	perRule := map[string][3]int{}
	for _, o := range r.Obs {
		c := perRule[o.Rule]
		switch o.Status {
		case "ok":
			c[0]++
		case "violation":
			c[1]++
		case "known":
			c[2]++
		}
		perRule[o.Rule] = c
	}
	type ruleEv struct {
		Rule        string `json:"rule"`
		Statement   string `json:"statement"`
		Obligations int    `json:"obligations"`
		Discharged  int    `json:"discharged"`
		Violations  int    `json:"violations"`
		Known       int    `json:"known_findings"`
	}
	var rules []ruleEv
	total, discharged := 0, 0
	for _, id := range r.ruleOrder {
		c := perRule[id]
		rules = append(rules, ruleEv{id, r.RuleDocs[id], c[0] + c[1] + c[2], c[0], c[1], c[2]})
		total += c[0] + c[1] + c[2]
		discharged += c[0]
	}
	for id := range perRule {
		if _, ok := r.RuleDocs[id]; !ok {
			fatalf("internal: obligation for unregistered rule %s", id)
		}
	}
	// samples: up to 3 discharged obligations per rule plus all non-ok ones
	var samples []Obligation
	perRuleSample := map[string]int{}
	for _, o := range r.Obs {
		if o.Status != "ok" {
			samples = append(samples, o)
			continue
		}
		if perRuleSample[o.Rule] < 3 {
			perRuleSample[o.Rule]++
			samples = append(samples, o)
		}
	}
	distinct := map[string]bool{}
	for _, o := range r.Obs {
		distinct[o.Rule+"|"+o.Construct] = true
	}
	seed, _ := strconv.Atoi(os.Getenv("VERIF_SEED"))
	keys := make([]string, 0, len(r.Analysed))
	for k := range r.Analysed {
		keys = append(keys, k)
	}
	sort.Strings(keys)
	analysed := map[string]int{}
	for _, k := range keys {
		analysed[k] = r.Analysed[k]
	}
	cov := map[string]any{
		"explanation":         r.Explanation,
		"obligations":         total,
		"discharged":          discharged,
		"known_findings":      nknown,
		"evaluations":         total,
		"distinct_nontrivial": len(distinct),
		"rule":                "one obligation per (rule, construct): a call site, statement, field access or table row of /repo's current source that the rule must discharge; distinct = distinct (rule, construct) pairs",
		"rules":               rules,
		"samples":             samples,
		"analysed":            analysed,
		"checker_cmd":         "/verif/run.sh " + r.Prop + " " + r.Tier,
		"trusted_base":        []string{"go/parser, go/types (go1.26.8)", "golang.org/x/tools v0.50.0 go/packages", "/verif/checker graph builder (statement-level CFG with short-circuit decomposition)", "documented contracts of the std APIs named in the rules"},
		"not_decided":         r.NotDecided,
		"notes":               r.Notes,
		"exhaustive":          true,
	}
	if len(r.Mutants) > 0 {
		cov["overlay_mutants"] = r.Mutants
	}
	ev := map[string]any{
		"property_id": r.Prop,
		"tier":        r.Tier,
		"seed":        seed,
		"level":       "other",
		"coverage":    cov,
		"assumptions": r.Assumptions,
		"wall_s":      time.Since(r.Start).Seconds(),
		"violations":  nviol,
	}
	data, _ := json.MarshalIndent(ev, "", " ")
	if err := os.WriteFile(filepath.Join(evDir, r.Prop+".json"), data, 0o644); err != nil {
		fatalf("write evidence: %v", err)
	}

	fmt.Printf("%s %s: %d obligations over %d rules, %d discharged, %d known findings, %d violations (%.1fs)\n",
		r.Prop, r.Tier, total, len(r.ruleOrder), discharged, nknown, nviol, time.Since(r.Start).Seconds())
	for _, o := range viols {
		fmt.Printf("  violation: rule=%s construct=%s at %s: %s\n", o.Rule, o.Construct, o.Pos, strings.TrimSpace(o.Detail))
	}
	if nviol > 0 {
		fmt.Printf("VIOLATION property=%s replay=%s\n", r.Prop, violPath)
		return 1
	}
	return 0
}
