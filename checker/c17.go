package main

import (
	"fmt"
	"go/ast"
	"go/token"
	"go/types"
	"strings"
)

func init() {
	register(&PropCheck{ID: "C17", Pkgs: []string{"./dns", "./cache"}, Run: runC17, KeepCalls: []string{"cache.BoundedCache.remove", "cache.BoundedCache.moveToTail", "dns.Resolver.sendQueries", "dns.Resolver.sendQueriesUDP", "dns.Resolver.sendQueriesTCP", "dns.Resolver.doTCP", "dns.resultBuilder.parseMsg", "dns.resultBuilder.isDone"}})
}

func runC17(p *Prog, r *Report) {
	r.Explanation = "Structural necessary conditions of 'the resolver returns only upstream's answers, honours TTLs, degrades safely': a UDP datagram reaches the message parser only after it unpacked successfully and its payload source equals the configured server; the parser stores answers only past the transaction-ID switch (foreign IDs are errors), marks a family done only after the whole message parsed and never for a truncated UDP answer, and accumulates the expiry as a minimum; a lookup succeeds only when both families are done, TCP is tried exactly when UDP did not finish and a TCP client exists; the cache is touched under its mutex, a cached result short-circuits the query only when present and unexpired, a stale one is served only when the fresh query failed, and results are stored only after a successful query; address selection indexes only non-empty slices."
	r.NotDecided = []string{"TTL arithmetic against a real clock", "LRU list/map consistency of cache.BoundedCache (value-level)", "retry timing", "dnsmessage's own parsing"}
	r.Assumptions = []string{"golang.org/x/net/dns/dnsmessage parses or returns an error", "sync.Mutex"}
	c17R1(p, r)
	c17R2(p, r)
	c17R3(p, r)
	c17R4(p, r)
	c17R5(p, r)
	c17R6(p, r)
	const r7 = "C17-R7"
	r.Rule(r7, "lock balance in packages dns and cache: Lock/RLock only with the mutex not held by the function, Unlock/RUnlock only with the matching lock held, released at every exit (or by a deferred call) — every early return of the lookup path included")
	nb := lockBalance(p, r, r7, "dns", nil) + lockBalance(p, r, r7, "cache", nil)
	r.Count("lock_operations_checked", nb)
	r.Floor(r7, 4)
	c17R8(p, r)
}

// c17R8: a message for a family that is already complete changes nothing. parseMsg ignores a
// second response to a query that was already answered (a duplicate on the wire, a late UDP answer
// after the TCP retry, a repeated TCP message) — "ignores" must mean that no field of the builder is
// written before the done test lets the message through, otherwise the duplicate wipes or alters
// what the first answer supplied and the damaged result is returned and cached.
func c17R8(p *Prog, r *Report) {
	const rule = "C17-R8"
	r.Rule(rule, "a response for a family that is already done leaves the result untouched: every store into a field of the result builder in parseMsg (assignment, append-assignment, increment) lies behind the false edge of a test of one of the builder's done flags (the boolean fields parseMsg sets to true), on every path from the entry")
	fc := p.Inlined(p.Func("dns", "resultBuilder", "parseMsg"))
	info := fc.Info()
	recv := fc.RecvObj()
	// done flags: boolean fields of the receiver assigned the constant true
	done := map[string]bool{}
	for _, v := range fc.G.V {
		as, ok := v.Node.(*ast.AssignStmt)
		if !ok || v.Kind != VStmt || len(as.Lhs) != 1 || len(as.Rhs) != 1 {
			continue
		}
		root, path, okp := pathOf(info, as.Lhs[0])
		if okp && root == recv && path != "" && exprStr(as.Rhs[0]) == "true" {
			done[path] = true
		}
	}
	var notDone []Edge
	for path := range done {
		pth := path
		notDone = append(notDone, fc.TestEdges(func(e ast.Expr) bool {
			root, pp, okp := pathOf(info, e)
			return okp && root == recv && pp == pth
		}, WantFalse)...)
	}
	r.Check(len(done) >= 2 && len(notDone) >= 2, rule, "dns.(*resultBuilder).parseMsg:done-tests", p.posStr(fc.Body.Pos()), "both done flags are set and tested", fmt.Sprintf("found %d done flag(s) and %d not-done edge(s) in parseMsg: a repeated answer is not recognised", len(done), len(notDone)))
	n := 0
	for _, v := range fc.G.V {
		if v.Kind != VStmt || v.Node == nil {
			continue
		}
		var lhs []ast.Expr
		switch st := v.Node.(type) {
		case *ast.AssignStmt:
			lhs = st.Lhs
		case *ast.IncDecStmt:
			lhs = []ast.Expr{st.X}
		}
		for _, l := range lhs {
			base := l
			for {
				if ix, ok := ast.Unparen(base).(*ast.IndexExpr); ok {
					base = ix.X
					continue
				}
				break
			}
			root, path, okp := pathOf(info, base)
			if !okp || root != recv || path == "" {
				continue
			}
			n++
			r.Check(fc.G.EdgeDominates(notDone, v.ID), rule, "dns.(*resultBuilder).parseMsg:store-behind-done-test:"+strings.TrimPrefix(path, "."), p.posStr(v.Node.Pos()), "the store is reached only after a done flag tested false",
				"parseMsg writes "+exprStr(l)+" on a path that has not yet tested whether this family is already done: a duplicate or late response for an answered query alters the collected result before being ignored, and the altered result is returned and cached")
		}
	}
	r.Count("builder_stores", n)
	r.Floor(rule, 4)
}

func c17R1(p *Prog, r *Report) {
	const rule = "C17-R1"
	r.Rule(rule, "source and ID filters dominate use: in sendQueriesUDP the parser is called only on the err == nil edge of UnpackInPlace for this datagram and on the equal edge of the comparison of that unpack's payload source with the configured server address, on exactly the unpacked payload; in parseMsg every store to the result (addresses, expiry, done flags) lies past a case of the transaction-ID switch, whose default is an error; a family's done flag is set only in its own ID case, after all parsing of the message and only when the answer is not a truncated UDP one; the expiry is only ever lowered (or set when zero)")
	fc := p.Func("dns", "Resolver", "sendQueriesUDP")
	info := fc.Info()
	var unpack *CallSite
	var parses []*CallSite
	for _, cs := range fc.AllCalls() {
		if cs.Fn == nil {
			continue
		}
		c := cs
		switch cs.Fn.Name() {
		case "UnpackInPlace":
			unpack = &c
		case "parseMsg":
			parses = append(parses, &c)
		}
	}
	if unpack == nil || len(parses) == 0 {
		r.Fail(rule, "dns.(*Resolver).sendQueriesUDP:shape", p.posStr(fc.Body.Pos()), "UnpackInPlace / parseMsg not found")
	}
	for i, parse := range parses {
		if unpack == nil {
			break
		}
		sfx := ""
		if i > 0 {
			sfx = fmt.Sprintf("#%d", i+1)
		}
		r.Check(unpack.SuccessGuards(parse.V), rule, "dns.(*Resolver).sendQueriesUDP:parse-after-unpack-ok"+sfx, parse.Pos(), "the parser runs only on the unpacker's err == nil edge", "the parser runs on a datagram that failed to unpack")
		src := unpack.ResultVar(0)
		var eq []Edge
		for _, v := range fc.G.V {
			if v.Kind != VCond {
				continue
			}
			c, ok := ast.Unparen(v.Node.(ast.Expr)).(*ast.CallExpr)
			if !ok || len(c.Args) != 2 {
				continue
			}
			if fn := Callee(info, c); fn == nil || fn.Name() != "AddrPortMappedEqual" {
				continue
			}
			a0, a1 := c.Args[0], c.Args[1]
			isSrc := func(e ast.Expr) bool { return objOf(info, e) == src && src != nil && fc.SoleDef(v.ID, src, unpack.V) }
			isServer := func(e ast.Expr) bool { return strings.HasSuffix(exprStr(fc.ResolveUp(e)), ".serverAddrPort") }
			if (isSrc(a0) && isServer(a1)) || (isSrc(a1) && isServer(a0)) {
				for _, e := range v.Succs {
					if e.Label == LTrue {
						eq = append(eq, e)
					}
				}
			}
		}
		okSrc := len(eq) > 0 && fc.GuardedBy(unpack.V, eq, parse.V)
		r.Check(okSrc, rule, "dns.(*Resolver).sendQueriesUDP:parse-only-from-configured-server"+sfx, parse.Pos(), "every path from this datagram's unpack to the parser crosses the source == server edge",
			"a datagram whose payload source is not the configured server can reach the parser (e.g. the parser runs before the source check): parseMsg stores its answers and marks the family done, so a spoofed reply that arrives first is returned and cached and the genuine answer is ignored")
		// msg is recvBuf[payloadStart : payloadStart+payloadLength] of the same unpack
		msg := fc.Resolve(parse.Call.Args[0])
		okMsg := false
		if sl, ok := msg.(*ast.SliceExpr); ok && sl.Low != nil && sl.High != nil {
			ps, pl := unpack.ResultVar(1), unpack.ResultVar(2)
			lf := linOf(p, fc, sl.High, ps, pl).add(linOf(p, fc, sl.Low, ps, pl), -1)
			if objOf(info, sl.Low) == ps && ps != nil && pl != nil && len(lf) == 1 && lf[pl.Name()] == 1 && samePathOrObj(fc, sl.X, unpack.Call.Args[0]) {
				okMsg = true
			}
		}
		r.Check(okMsg, rule, "dns.(*Resolver).sendQueriesUDP:parses-unpacked-payload"+sfx, parse.Pos(), "the parsed message is buf[payloadStart : payloadStart+payloadLength] of this unpack", "the parser is given something other than exactly the unpacked payload")
	}
	// parseMsg
	pm := p.Inlined(p.Func("dns", "resultBuilder", "parseMsg"))
	pinfo := pm.Info()
	recv := pm.RecvObj()
	var idEdges = map[int64][]Edge{}
	var anyID []Edge
	isID := func(e ast.Expr) bool { return strings.HasSuffix(exprStr(e), ".ID") }
	for _, k := range []int64{4, 6} {
		idEdges[k] = pm.EqConstEdges(isID, k)
		anyID = append(anyID, idEdges[k]...)
	}
	// every record of the answer (and, for negative answers, authority) section lowers the expiry:
	// after a header was read successfully, the next header cannot be read without passing the
	// minimum-expiry test on the way — whatever the record's type
	var minTests []int
	for _, cv := range pm.G.V {
		if cv.Kind == VCond && strings.HasSuffix(exprStr(cv.Node), ".expiresAt.IsZero()") {
			minTests = append(minTests, cv.ID)
		}
	}
	isMin := map[int]bool{}
	for _, m := range minTests {
		isMin[m] = true
	}
	for _, cs := range pm.AllCalls() {
		if cs.Fn == nil || (cs.Fn.Name() != "AnswerHeader" && cs.Fn.Name() != "AuthorityHeader") {
			continue
		}
		errE := map[Edge]bool{}
		for _, e := range cs.ResultEdges(-1, WantNonNil) {
			errE[e] = true
		}
		again := pm.G.ReachAfter(cs.V, func(v *Vertex) bool { return isMin[v.ID] }, func(e Edge) bool { return errE[e] })[cs.V]
		if cs.Fn.Name() == "AuthorityHeader" {
			// only SOA records carry the negative TTL: the test may sit inside the SOA case
			continue
		}
		r.Check(len(minTests) > 0 && !again, rule, "dns.(*resultBuilder).parseMsg:every-answer-record-lowers-expiry@"+cs.Fn.Name(), cs.Pos(), "no record of the section is passed over without the minimum-expiry test", "a record can be read and passed over without its TTL entering the minimum (e.g. the test sits only in the address-record cases): a CNAME with a short TTL in front of a long-lived address keeps the cached answer alive past the smallest TTL")
	}
	r.Check(len(idEdges[4]) > 0 && len(idEdges[6]) > 0, rule, "dns.(*resultBuilder).parseMsg:id-switch", p.posStr(pm.Body.Pos()), "transaction IDs 4 and 6 are distinguished", "the transaction-ID switch was not found")
	// default → error
	// stores
	nStores := 0
	var parserCalls []int
	for _, cs := range pm.AllCalls() {
		if sel, ok := ast.Unparen(cs.Call.Fun).(*ast.SelectorExpr); ok && namedTypeName(pinfo.TypeOf(sel.X)) == "Parser" {
			parserCalls = append(parserCalls, cs.V)
		}
	}
	for _, v := range pm.G.V {
		if v.Node == nil {
			continue
		}
		for sel := range writeTargets(pinfo, v.Node) {
			root, _, ok := pathOf(pinfo, sel)
			if !ok || root != recv {
				continue
			}
			nStores++
			name := sel.Sel.Name
			construct := fmt.Sprintf("dns.(*resultBuilder).parseMsg:store:%s@%s", name, exprStr(v.Node))
			r.Check(pm.G.EdgeDominates(anyID, v.ID), rule, construct, p.posStr(sel.Pos()), "past the transaction-ID switch", "the result field "+name+" is written for a message whose transaction ID was not checked: datagrams with foreign IDs alter the answer")
			switch name {
			case "v4done", "v6done":
				want := int64(4)
				if name == "v6done" {
					want = 6
				}
				okCase := pm.G.EdgeDominates(idEdges[want], v.ID) || caseValueGuard(pm, v.ID, want)
				late := true
				after := pm.G.ReachAfter(v.ID, nil, nil)
				for _, pc := range parserCalls {
					if after[pc] {
						late = false
					}
				}
				// truncation guard
				tg := false
				for _, cv := range pm.G.V {
					if cv.Kind != VCond {
						continue
					}
					if isHeaderFlag(pinfo, cv.Node, "Truncated") {
						for _, e := range cv.Succs {
							if e.Label == LFalse && pm.G.EdgeDominates(append([]Edge{e}, notUDPEdges(pm)...), v.ID) {
								tg = true
							}
						}
					}
				}
				r.Check(okCase && late && tg, rule, "dns.(*resultBuilder).parseMsg:"+name+"-set-correctly", p.posStr(sel.Pos()),
					"set in its own ID case, after all parsing, and not for a truncated UDP answer",
					fmt.Sprintf("%s: own-ID case=%v, after all parsing=%v, truncated-UDP guard=%v — a half-parsed or truncated answer marks the family as answered (no TCP retry, missing addresses), or the other family is marked", name, okCase, late, tg))
			case "expiresAt":
				// minimum accumulation: dominated by an edge of a condition on r.expiresAt.IsZero() (true) or r.expiresAt.After(x) (true)
				okMin := false
				if as, isAs := v.Node.(*ast.AssignStmt); isAs && len(as.Lhs) == 1 && len(as.Rhs) == 1 {
					okMin = expiryMinGuard(pm, v.ID, exprStr(as.Rhs[0]))
				}
				r.Check(okMin, rule, fmt.Sprintf("dns.(*resultBuilder).parseMsg:expiry-is-minimum@%s", exprStr(v.Node)), p.posStr(sel.Pos()),
					"the expiry is stored only when unset or when the new value is earlier",
					"the expiry is overwritten unconditionally ("+exprStr(v.Node)+"): depending on which response is parsed last, the cached result outlives the smallest TTL of its answers")
				// … and it IS stored then: the only way around the store is the edge on which the
				// expiry already set is not after the new value
				if as, isAs := v.Node.(*ast.AssignStmt); isAs && len(as.Lhs) == 1 && len(as.Rhs) == 1 && okMin {
					okTaken, why := expiryMinTaken(pm, v.ID, exprStr(as.Rhs[0]))
					okText := "the store is passed over only when the expiry already set is not after the new value"
					if okTaken && why != "" {
						okText = why
					}
					r.Check(okTaken, rule, fmt.Sprintf("dns.(*resultBuilder).parseMsg:earlier-expiry-is-taken@%s", exprStr(v.Node)), p.posStr(sel.Pos()),
						okText,
						why+": depending on the order in which the responses are parsed, a result stays cached longer than its smallest TTL / the failure caching time")
				}
			}
		}
	}
	r.Count("parseMsg_result_stores", nStores)
	// default case of the ID switch returns an error
	defOK := false
	ast.Inspect(pm.Body, func(n ast.Node) bool {
		sw, ok := n.(*ast.SwitchStmt)
		if !ok || sw.Tag == nil || !strings.HasSuffix(exprStr(sw.Tag), ".ID") {
			return true
		}
		for _, cl := range sw.Body.List {
			cc := cl.(*ast.CaseClause)
			if cc.List == nil {
				for _, st := range cc.Body {
					if rs, ok := st.(*ast.ReturnStmt); ok && len(rs.Results) == 2 && !isNilExpr(pinfo, rs.Results[1]) {
						defOK = true
					}
				}
			}
		}
		return true
	})
	r.Check(defOK, rule, "dns.(*resultBuilder).parseMsg:foreign-id-is-error", p.posStr(pm.Body.Pos()), "an unexpected transaction ID is an error", "messages with a foreign transaction ID are not refused")
	// response bit and RA checked before answers are stored
	for _, flag := range []string{"Response", "RecursionAvailable"} {
		ok := false
		for _, cv := range pm.G.V {
			if cv.Kind == VCond && isHeaderFlag(pinfo, cv.Node, flag) {
				for _, e := range cv.Succs {
					if e.Label == LTrue {
						all := true
						for _, v := range pm.G.V {
							if as, isAs := v.Node.(*ast.AssignStmt); isAs {
								if c, isC := ast.Unparen(as.Rhs[0]).(*ast.CallExpr); isC && exprStr(c.Fun) == "append" && !pm.G.EdgeDominates([]Edge{e}, v.ID) {
									all = false
								}
							}
						}
						ok = all
					}
				}
			}
		}
		r.Check(ok, rule, "dns.(*resultBuilder).parseMsg:requires-"+flag, p.posStr(pm.Body.Pos()), "answers are appended only when header."+flag+" is set", "answers are taken from a message without header."+flag)
	}
	r.Floor(rule, 14)
}

// caseValueGuard: v is inside `switch header.ID { case want: ... }` nested after the main switch.
func caseValueGuard(fc *FuncCtx, v int, want int64) bool {
	for _, e := range fc.EqConstEdges(func(e ast.Expr) bool { return strings.HasSuffix(exprStr(e), ".ID") }, want) {
		if fc.G.EdgeDominates([]Edge{e}, v) {
			return true
		}
	}
	return false
}

// notUDPEdges: edges on which `isUDP` is false (the truncation guard is `!header.Truncated || !isUDP`).
func notUDPEdges(fc *FuncCtx) []Edge {
	var out []Edge
	for _, cv := range fc.G.V {
		if cv.Kind == VCond && isBoolParam(fc, cv.Node) {
			for _, e := range cv.Succs {
				if e.Label == LFalse {
					out = append(out, e)
				}
			}
		}
	}
	return out
}

// expiryMinGuard: every path to the store at target crosses the true edge of
// `<x>.expiresAt.IsZero()` or of `<x>.expiresAt.After(<stored value>)`.
func expiryMinGuard(fc *FuncCtx, target int, rhs string) bool {
	var edges []Edge
	for _, cv := range fc.G.V {
		if cv.Kind != VCond {
			continue
		}
		s := exprStr(cv.Node)
		if strings.HasSuffix(s, ".expiresAt.IsZero()") || strings.HasSuffix(s, ".expiresAt.After("+rhs+")") {
			for _, x := range cv.Succs {
				if x.Label == LTrue {
					edges = append(edges, x)
				}
			}
		}
	}
	return len(edges) > 0 && fc.G.EdgeDominates(edges, target)
}

// expiryMinTaken: from the IsZero test that leads to the store, the statement after the store
// cannot be reached around the store except over the false edge of expiresAt.After(rhs).
func expiryMinTaken(fc *FuncCtx, store int, rhs string) (bool, string) {
	if len(fc.G.V[store].Succs) == 0 {
		return false, "undecided: the store has no successor"
	}
	join := fc.G.V[store].Succs[0].To
	notAfter := map[Edge]bool{}
	for _, cv := range fc.G.V {
		if cv.Kind == VCond && strings.HasSuffix(exprStr(cv.Node), ".expiresAt.After("+rhs+")") {
			for _, e := range cv.Succs {
				if e.Label == LFalse {
					notAfter[e] = true
				}
			}
		}
	}
	found := false
	for _, z := range fc.G.V {
		if z.Kind != VCond || !strings.HasSuffix(exprStr(z.Node), ".expiresAt.IsZero()") {
			continue
		}
		leads := false
		for _, e := range z.Succs {
			if e.Label == LTrue && fc.G.Reach([]int{e.To}, func(v *Vertex) bool { return v.Kind == VCond }, nil)[store] {
				leads = true
			}
		}
		if !leads {
			continue
		}
		found = true
		around := fc.G.ReachAfter(z.ID, func(v *Vertex) bool { return v.ID == store || v.ID == z.ID }, func(e Edge) bool { return notAfter[e] })
		if around[join] {
			return false, "the store can be passed over although the expiry already set is later than the new value (the comparison with the new value is missing)"
		}
	}
	if !found {
		// a store that sits deeper inside an `expiry still unset` region (the negative-caching
		// TTL of an SOA record, used only when no answer set an expiry) is not a minimum update
		return true, "not a minimum update: applies only while no expiry is set"
	}
	return true, ""
}

func c17R2(p *Prog, r *Report) {
	const rule = "C17-R2"
	r.Rule(rule, "completion and fallback: sendQueries returns nil only on the isDone() edge (both families answered); TCP is attempted exactly when the result is not done after UDP and a TCP client exists; the TCP retry loop stops when both are done and re-sends only the unanswered query; isDone is the conjunction of both flags")
	fc := p.Func("dns", "Resolver", "sendQueries")
	var doneT, doneF []Edge
	for _, v := range fc.G.V {
		if v.Kind == VCond && strings.HasSuffix(exprStr(v.Node), ".isDone()") {
			for _, e := range v.Succs {
				if e.Label == LTrue {
					doneT = append(doneT, e)
				} else {
					doneF = append(doneF, e)
				}
			}
		}
	}
	nNil := 0
	for _, ret := range fc.Returns() {
		if fc.ErrAtReturn(ret) == ErrNil {
			nNil++
			r.Check(fc.G.EdgeDominates(doneT, ret), rule, "dns.(*Resolver).sendQueries:nil-only-when-done", p.posStr(fc.G.V[ret].Node.Pos()), "success is returned only on the isDone() edge", "the lookup reports success although a family is unanswered: an incomplete (or empty) result is returned and cached")
		}
	}
	r.Check(nNil == 1, rule, "dns.(*Resolver).sendQueries:one-success-return", p.posStr(fc.Body.Pos()), "one success return", fmt.Sprintf("%d success returns", nNil))
	for _, cs := range fc.AllCalls() {
		if cs.Fn != nil && cs.Fn.Name() == "sendQueriesTCP" {
			var tcpNonNil []Edge
			for _, e := range fc.TestEdges(func(x ast.Expr) bool { return strings.HasSuffix(exprStr(x), ".tcpClient") }, WantNonNil) {
				tcpNonNil = append(tcpNonNil, e)
			}
			r.Check(fc.G.EdgeDominates(doneF, cs.V) && fc.G.EdgeDominates(tcpNonNil, cs.V), rule, "dns.(*Resolver).sendQueries:tcp-fallback-when-needed", cs.Pos(), "TCP is tried only when not done and a TCP client exists", "TCP fallback is attempted under another condition (nil client dereference, or skipped although UDP failed)")
			// and it IS tried whenever not done & client exists: from the !done edge with non-nil client the call is not bypassable — every path from the conjunction to the final test passes the call
		}
		if cs.Fn != nil && cs.Fn.Name() == "sendQueriesUDP" {
			var udpNonNil []Edge
			for _, e := range fc.TestEdges(func(x ast.Expr) bool { return strings.HasSuffix(exprStr(x), ".udpClient") }, WantNonNil) {
				udpNonNil = append(udpNonNil, e)
			}
			r.Check(fc.G.EdgeDominates(udpNonNil, cs.V), rule, "dns.(*Resolver).sendQueries:udp-only-with-client", cs.Pos(), "UDP is tried only when a UDP client exists", "UDP is attempted without a UDP client")
		}
	}
	id := p.Func("dns", "resultBuilder", "isDone")
	okConj := false
	for _, ret := range id.Returns() {
		rs, _ := id.G.V[ret].Node.(*ast.ReturnStmt)
		if rs == nil || len(rs.Results) != 1 {
			continue
		}
		// <receiver>.v4done && <receiver>.v6done in either order
		if be, ok := ast.Unparen(rs.Results[0]).(*ast.BinaryExpr); ok && be.Op == token.LAND {
			names := map[string]bool{}
			for _, side := range []ast.Expr{be.X, be.Y} {
				if sel, ok := ast.Unparen(side).(*ast.SelectorExpr); ok && objOf(id.Info(), sel.X) == id.RecvObj() {
					names[sel.Sel.Name] = true
				}
			}
			if names["v4done"] && names["v6done"] {
				okConj = true
			}
		}
	}
	r.Check(okConj, rule, "dns.(*resultBuilder).isDone:both-families", p.posStr(id.Body.Pos()), "done means both families answered", "isDone is not the conjunction of both families' flags")
	// TCP: selection of the unanswered query
	tq := p.Func("dns", "Resolver", "sendQueriesTCP")
	// shape-neutral: a statement that drops the A query (x = x[k:]) runs only on the v4done-true
	// edge, one that drops the AAAA query (x = x[:k]) only on the v6done-true edge, both exist,
	// and k is the same integer parameter (the end of the A query) in both.
	var okSel = map[string]bool{}
	tinfo := tq.Info()
	doneEdges := func(f string) []Edge {
		return tq.TestEdges(func(e ast.Expr) bool { return strings.HasSuffix(exprStr(e), "."+f) }, WantTrue)
	}
	var bounds []types.Object
	for _, v := range tq.G.V {
		as, ok := v.Node.(*ast.AssignStmt)
		if !ok || v.Kind != VStmt || len(as.Lhs) != 1 || len(as.Rhs) != 1 {
			continue
		}
		sl, ok := ast.Unparen(as.Rhs[0]).(*ast.SliceExpr)
		if !ok || !samePath(tinfo, as.Lhs[0], sl.X) {
			continue
		}
		switch {
		case sl.Low != nil && sl.High == nil:
			okSel["v4"] = tq.G.EdgeDominates(doneEdges("v4done"), v.ID)
			bounds = append(bounds, objOf(tinfo, sl.Low))
		case sl.Low == nil && sl.High != nil:
			okSel["v6"] = tq.G.EdgeDominates(doneEdges("v6done"), v.ID)
			bounds = append(bounds, objOf(tinfo, sl.High))
		}
	}
	if len(bounds) != 2 || bounds[0] == nil || bounds[0] != bounds[1] {
		okSel["v4"] = false
	}
	r.Check(okSel["v4"] && okSel["v6"], rule, "dns.(*Resolver).sendQueriesTCP:resend-unanswered-only", p.posStr(tq.Body.Pos()), "with A answered only the AAAA query is re-sent and vice versa", "the TCP retry re-sends the already answered query (or drops the unanswered one)")
	// … and the offset at which the caller lets it split the buffer is where the second
	// length-prefixed message begins: the low bound of the slice the second length field is
	// written into (not the start of the message behind that length field)
	sq := p.Func("dns", "Resolver", "sendQueries")
	sinfo := sq.Info()
	var lenLows []linForm
	for _, cs := range sq.AllCalls() {
		if cs.Fn == nil || cs.Fn.Name() != "PutUint16" || len(cs.Call.Args) != 2 {
			continue
		}
		dst := ast.Unparen(sq.Resolve(cs.Call.Args[0]))
		if sl, ok := dst.(*ast.SliceExpr); ok {
			if sl.Low == nil {
				lenLows = append(lenLows, linForm{})
			} else {
				lenLows = append(lenLows, linOf(p, sq, sl.Low))
			}
		}
	}
	okSplit, nTCP := false, 0
	for _, cs := range sq.CallsTo(isFn(mp("dns"), "Resolver", "sendQueriesTCP")) {
		nTCP++
		// the integer argument
		for _, a := range cs.Call.Args {
			if b, isB := sinfo.TypeOf(a).Underlying().(*types.Basic); !isB || b.Kind() != types.Int {
				continue
			}
			la := linOf(p, sq, a)
			for _, ll := range lenLows {
				if len(ll) > 0 && la.add(ll, -1).isZero() {
					okSplit = true
				}
			}
		}
	}
	r.Check(okSplit && nTCP == 1 && len(lenLows) == 2, rule, "dns.(*Resolver).sendQueries:tcp-split-at-second-length-field", p.posStr(sq.Body.Pos()), "the split offset handed to the TCP sender is the start of the second length field", "the offset at which the TCP sender splits the two queries is not the start of the second length-prefixed message: a retry of one query is sent without (or with a foreign) length prefix and the missing family is never obtained")
	r.Floor(rule, 6)
}

func c17R3(p *Prog, r *Report) {
	const rule = "C17-R3"
	r.Rule(rule, "cache discipline: Resolver.cache is accessed only with Resolver.mu held; Lookup returns the cached result without querying only on the present-and-not-expired edge; it serves a stale result only on the error edge of the fresh query and only if one was present; it stores a result only after sendQueries succeeded; HasExpired compares the expiry with the current time")
	spec := &guardSpec{Rule: rule, PkgRel: "dns", OwnerType: "Resolver", MuField: "mu",
		Fields:       map[string]map[string]bool{"Resolver": {"cache": true}},
		NoLockNeeded: map[string]string{"dns.NewResolver": "object under construction"}}
	runGuard(p, r, spec)
	lk := p.Inlined(p.Func("dns", "Resolver", "Lookup"))
	info := lk.Info()
	var get, set, sq *CallSite
	for _, cs := range lk.AllCalls() {
		if cs.Fn == nil {
			continue
		}
		c := cs
		switch cs.Fn.Name() {
		case "Get":
			get = &c
		case "Set":
			set = &c
		case "sendQueries":
			sq = &c
		}
	}
	if get == nil || set == nil || sq == nil {
		r.Fail(rule, "dns.(*Resolver).Lookup:shape", p.posStr(lk.Body.Pos()), "cache Get/Set or sendQueries not found")
		return
	}
	okObj := get.ResultVar(1)
	resObj := get.ResultVar(0)
	okT := lk.TestEdges(func(e ast.Expr) bool { return lk.IsCopyOf(e, okObj) }, WantTrue)
	var freshT []Edge
	for _, v := range lk.G.V {
		if v.Kind == VCond && strings.HasSuffix(exprStr(v.Node), ".HasExpired()") {
			for _, e := range v.Succs {
				if e.Label == LFalse {
					freshT = append(freshT, e)
				}
			}
		}
	}
	// returns before sendQueries: the cached short-circuit
	for _, ret := range lk.Returns() {
		if lk.G.Reach([]int{sq.V}, nil, nil)[ret] {
			continue
		}
		rs := lk.G.V[ret].Node.(*ast.ReturnStmt)
		r.Check(lk.G.EdgeDominates(okT, ret) && lk.G.EdgeDominates(freshT, ret) && lk.IsCopyOf(rs.Results[0], resObj), rule, "dns.(*Resolver).Lookup:cached-only-if-fresh", p.posStr(rs.Pos()), "the cached result is returned without querying only when present and not expired", "a cached result is returned without asking upstream although it is absent or expired")
	}
	// stale: return result,nil after sq error only on ok edge
	for _, e := range sq.ResultEdges(-1, WantNonNil) {
		reach := lk.G.Reach([]int{e.To}, nil, nil)
		for _, ret := range lk.Returns() {
			if !reach[ret] || !lk.G.EdgeDominates([]Edge{e}, ret) {
				continue
			}
			rs := lk.G.V[ret].Node.(*ast.ReturnStmt)
			if isNilExpr(info, rs.Results[1]) {
				r.Check(lk.G.EdgeDominates(okT, ret) && lk.IsCopyOf(rs.Results[0], resObj), rule, "dns.(*Resolver).Lookup:stale-only-if-present", p.posStr(rs.Pos()), "a failed query falls back to the stale entry only if one exists", "a failed query returns success without a cached entry (zero result reported as an answer)")
			}
		}
	}
	// no stale return on the success path: after sq success, the old result variable is overwritten before return
	r.Check(sq.SuccessGuards(set.V), rule, "dns.(*Resolver).Lookup:store-after-success", set.Pos(), "results are cached only after sendQueries succeeded", "a failed or partial lookup is written to the cache")
	// the value stored and returned is the new result
	newRes := false
	if len(set.Call.Args) == 2 {
		so := objOf(info, set.Call.Args[1])
		for _, d := range lk.Defs(so) {
			if as, ok := lk.G.V[d].Node.(*ast.AssignStmt); ok && strings.Contains(exprStr(as.Rhs[0]), "newResult") && lk.G.Dominates([]int{d}, set.V) && sq.SuccessGuards(d) {
				newRes = true
			}
		}
	}
	r.Check(newRes, rule, "dns.(*Resolver).Lookup:stores-new-result", set.Pos(), "the value cached is the freshly built result", "the value cached is not the result of this query")
	// key is the looked-up name on both
	r.Check(objOf(info, get.Call.Args[0]) == lk.ParamObj(1) && objOf(info, set.Call.Args[0]) == lk.ParamObj(1), rule, "dns.(*Resolver).Lookup:cache-key", get.Pos(), "cache is keyed by the queried name", "cache get/set use a key other than the queried name")
	he := p.Func("dns", "Result", "HasExpired")
	s := ""
	for _, ret := range he.Returns() {
		s = exprStr(he.G.V[ret].Node)
	}
	r.Check(strings.Contains(s, ".expiresAt.Before(time.Now())") || strings.Contains(s, "time.Now().After(r.expiresAt)"), rule, "dns.(*Result).HasExpired:compares-with-now", p.posStr(he.Body.Pos()), "expired iff expiresAt is before now", "HasExpired is "+s)
	r.Floor(rule, 8)
}

func c17R4(p *Prog, r *Report) {
	const rule = "C17-R4"
	r.Rule(rule, "answer selection is guarded: LookupIP indexes result.aaaa / result.a only under len(...) > 0 and reports ErrDomainNoAssociatedIPs when both are empty; a zero-length TCP message is refused before allocating and parsing")
	for _, tn := range []string{"Resolver", "SystemResolver"} {
		fc := p.Func("dns", tn, "LookupIP")
		info := fc.Info()
		n := 0
		ast.Inspect(fc.Body, func(x ast.Node) bool {
			ix, ok := x.(*ast.IndexExpr)
			if !ok {
				return true
			}
			if k, isC := constInt(info, ix.Index); !isC || k != 0 {
				return true
			}
			n++
			v := fc.G.VertexOf(ix)
			guarded := false
			for _, cv := range fc.G.V {
				cx, cy, op, ok := condParts(cv)
				if !ok || cy == nil {
					continue
				}
				k, isC := constInt(info, cy)
				if !isC || k != 0 || exprStr(cx) != "len("+exprStr(ix.X)+")" {
					continue
				}
				lab := -1
				switch op {
				case token.GTR, token.NEQ:
					lab = LTrue
				case token.EQL:
					lab = LFalse
				}
				for _, e := range cv.Succs {
					if e.Label == lab && fc.G.EdgeDominates([]Edge{e}, v) {
						guarded = true
					}
				}
			}
			r.Check(guarded, rule, fmt.Sprintf("dns.(*%s).LookupIP:index:%s", tn, exprStr(ix)), p.posStr(ix.Pos()), "guarded by len > 0", "first element taken without a length check: an answer without addresses panics the caller's goroutine")
			return true
		})
		// falls through to ErrDomainNoAssociatedIPs
		last := false
		for _, ret := range fc.Returns() {
			if strings.Contains(exprStr(fc.G.V[ret].Node), "ErrDomainNoAssociatedIPs") {
				last = true
			}
		}
		r.Check(last && n >= 1, rule, "dns.(*"+tn+").LookupIP:no-address-is-error", p.posStr(fc.Body.Pos()), "no address → ErrDomainNoAssociatedIPs", "an answer without addresses is not reported as ErrDomainNoAssociatedIPs")
	}
	dt := p.Func("dns", "Resolver", "doTCP")
	info := dt.Info()
	var mk = -1
	var lenObj types.Object
	for _, v := range dt.G.V {
		if as, ok := v.Node.(*ast.AssignStmt); ok && len(as.Rhs) == 1 {
			if c, ok := ast.Unparen(as.Rhs[0]).(*ast.CallExpr); ok {
				if id, ok := ast.Unparen(c.Fun).(*ast.Ident); ok && id.Name == "make" && len(c.Args) == 2 {
					mk = v.ID
					lenObj = objOf(info, c.Args[1])
				}
			}
		}
	}
	okZero := false
	if mk >= 0 && lenObj != nil {
		for _, cv := range dt.G.V {
			x, y, op, ok := condParts(cv)
			if ok && y != nil && op == token.EQL && objOf(info, x) == lenObj {
				if k, isC := constInt(info, y); isC && k == 0 {
					for _, e := range cv.Succs {
						if e.Label == LFalse && dt.G.EdgeDominates([]Edge{e}, mk) {
							okZero = true
						}
					}
				}
			}
		}
	}
	r.Check(okZero, rule, "dns.(*Resolver).doTCP:zero-length-refused", p.posStr(dt.Body.Pos()), "a zero length prefix ends the exchange before the message is read", "a zero-length TCP message is read and parsed")
	r.Floor(rule, 6)
}

func c17R5(p *Prog, r *Report) {
	const rule = "C17-R5"
	r.Rule(rule, "bounded cache, map and list move together: insert evicts through remove(head) on the full edge before it stores, stores the new node under the inserted key and makes it the tail on every path; remove deletes the node's own key from the map on every path and re-links both neighbours (or head / tail) for both the nil and non-nil case; a node taken from the map is used only on the found edge; capacity is made positive at construction")
	ins := p.Inlined(p.Func("cache", "BoundedCache", "insert"))
	info := ins.Info()
	recv := ins.RecvObj()
	// roles of the cache's and the node's fields, from their types and from insert itself, so that
	// no rule depends on what the fields are called
	roles := c17CacheRoles(p, ins)
	if roles == nil {
		r.Fail(rule, "cache.BoundedCache:roles", p.posStr(ins.Body.Pos()), "undecided: could not identify the map / capacity / head / tail fields of BoundedCache and the prev / next links of its node from their types and from insert")
		return
	}
	isMap := func(i *types.Info, e ast.Expr) bool {
		f := fieldOrVar(i, e)
		return f != nil && f.Name() == roles.mapF && isField(f)
	}
	isCap := func(i *types.Info, e ast.Expr) bool {
		f := fieldOrVar(i, e)
		return f != nil && f.Name() == roles.capF && isField(f)
	}
	var store = -1
	var node types.Object
	for _, v := range ins.G.V {
		as, ok := v.Node.(*ast.AssignStmt)
		if !ok || len(as.Lhs) != 1 {
			continue
		}
		if ix, ok := ast.Unparen(as.Lhs[0]).(*ast.IndexExpr); ok && isMap(info, ix.X) && objOf(info, ix.Index) == ins.ParamObj(0) {
			store = v.ID
			node = objOf(info, as.Rhs[0])
		}
	}
	r.Check(store >= 0 && ins.G.Dominates([]int{store}, ins.G.Exit), rule, "cache.(*BoundedCache).insert:stores-under-key", p.posStr(ins.Body.Pos()), "the new node is stored under the inserted key on every path", "insert does not always store the node under its key")
	if store >= 0 {
		// eviction
		var fullT, fullF []Edge
		for _, cv := range ins.G.V {
			x, y, op, ok := condParts(cv)
			if !ok || y == nil {
				continue
			}
			isLen := func(e ast.Expr) bool {
				c, ok := ast.Unparen(e).(*ast.CallExpr)
				if !ok || len(c.Args) != 1 {
					return false
				}
				id, ok := ast.Unparen(c.Fun).(*ast.Ident)
				return ok && id.Name == "len" && isMap(info, c.Args[0])
			}
			full := (isLen(x) && isCap(info, y) && (op == token.EQL || op == token.GEQ)) || (isCap(info, x) && isLen(y) && (op == token.EQL || op == token.LEQ))
			notFull := (isLen(x) && isCap(info, y) && (op == token.NEQ || op == token.LSS)) || (isCap(info, x) && isLen(y) && (op == token.NEQ || op == token.GTR))
			if full || notFull {
				for _, e := range cv.Succs {
					if (e.Label == LTrue) == full {
						fullT = append(fullT, e)
					} else {
						fullF = append(fullF, e)
					}
				}
			}
		}
		evict := -1
		for _, cs := range ins.AllCalls() {
			if cs.Fn != nil && cs.Fn.Name() == "remove" && len(cs.Call.Args) == 1 && normExpr(p, ins, cs.Call.Args[0]) == "recv."+roles.head {
				evict = cs.V
			}
		}
		okEv := evict >= 0 && len(fullT) > 0 && ins.G.EdgeDominates(fullT, evict) &&
			!ins.G.Reach([]int{ins.G.Entry}, func(v *Vertex) bool { return v.ID == evict }, func(e Edge) bool {
				for _, f := range fullF {
					if f == e {
						return true
					}
				}
				return false
			})[store]
		r.Check(okEv, rule, "cache.(*BoundedCache).insert:evicts-when-full", p.posStr(ins.Body.Pos()), "when len == capacity the head is removed before the new node is stored", "insert can store a node while the cache is full without evicting the head (the bound is not kept), or evicts when not full")
		// tail
		tailSet := false
		for _, v := range ins.G.V {
			if as, ok := v.Node.(*ast.AssignStmt); ok && len(as.Lhs) == 1 && len(as.Rhs) == 1 && objOf(info, as.Rhs[0]) == node && node != nil {
				if root, path, ok := pathOf(info, as.Lhs[0]); ok && root == recv && path == "."+roles.tail && ins.G.Dominates([]int{v.ID}, ins.G.Exit) {
					tailSet = true
				}
			}
		}
		r.Check(tailSet, rule, "cache.(*BoundedCache).insert:becomes-tail", p.posStr(ins.Body.Pos()), "the new node becomes the tail on every path", "the inserted node is not made the tail on every path")
	}
	rm := p.Func("cache", "BoundedCache", "remove")
	rinfo := rm.Info()
	n := rm.ParamObj(0)
	del := -1
	for _, cs := range rm.AllCalls() {
		if id, ok := ast.Unparen(cs.Call.Fun).(*ast.Ident); ok && id.Name == "delete" && len(cs.Call.Args) == 2 && isMap(rinfo, cs.Call.Args[0]) {
			// the key deleted is a field of the removed node that has the map's key type
			root, path, okp := pathOf(rinfo, rm.Resolve(cs.Call.Args[1]))
			mt, _ := rinfo.TypeOf(cs.Call.Args[0]).Underlying().(*types.Map)
			if okp && root == n && path != "" && mt != nil && types.Identical(rinfo.TypeOf(cs.Call.Args[1]), mt.Key()) {
				del = cs.V
			}
		}
	}
	r.Check(del >= 0 && rm.G.Dominates([]int{del}, rm.G.Exit), rule, "cache.(*BoundedCache).remove:deletes-own-key", p.posStr(rm.Body.Pos()), "the node's key is deleted from the map on every path", "remove leaves the node's key in the map: Len never shrinks and a later eviction dereferences a nil head")
	// relinking: for side in prev,next: non-nil edge → write node.<side>.<other> ; nil edge → write c.head / c.tail
	// (expressions are compared after resolving locals to their definitions, so `p := node.prev;
	// if p != nil { p.next = … }` is the same as the direct form)
	for _, side := range [][4]string{{roles.prev, roles.next, roles.head, "prev"}, {roles.next, roles.prev, roles.tail, "next"}} {
		var nn, nl []Edge
		isSide := func(e ast.Expr) bool { return normExpr(p, rm, e) == n.Name()+"."+side[0] }
		nn = rm.TestEdges(isSide, WantNonNil)
		nl = rm.TestEdges(isSide, WantNil)
		var okNN, okNil bool
		for _, v := range rm.G.V {
			as, ok := v.Node.(*ast.AssignStmt)
			if !ok || len(as.Lhs) != 1 || len(as.Rhs) != 1 || v.Kind != VStmt {
				continue
			}
			sel, isSel := ast.Unparen(as.Lhs[0]).(*ast.SelectorExpr)
			if !isSel {
				continue
			}
			lbase, lfield, rhs := normExpr(p, rm, sel.X), sel.Sel.Name, normExpr(p, rm, as.Rhs[0])
			if lbase == n.Name()+"."+side[0] && lfield == side[1] && rhs == n.Name()+"."+side[1] && rm.G.EdgeDominates(nn, v.ID) {
				okNN = true
			}
			if lbase == "recv" && lfield == side[2] && rhs == n.Name()+"."+side[1] && rm.G.EdgeDominates(nl, v.ID) {
				okNil = true
			}
		}
		// each edge must lead to its write on every path to exit
		r.Check(okNN && okNil && len(nn) > 0 && len(nl) > 0, rule, "cache.(*BoundedCache).remove:relinks-"+side[3]+"-side", p.posStr(rm.Body.Pos()), "node."+side[0]+"'s "+side[1]+" pointer (or "+side[2]+") is redirected to node."+side[1], "remove does not redirect the "+side[3]+" neighbour (or the list end) past the removed node: the list keeps a node the map no longer has")
	}
	// found-edge discipline
	pkg := p.Pkg("cache")
	nUse := 0
	p.AllFuncs(pkg, func(fc *FuncCtx) {
		if fc.Decl == nil || fc.Decl.Recv == nil || recvTypeName(fc.Decl.Recv.List[0].Type) != "BoundedCache" {
			return
		}
		finfo := fc.Info()
		for _, v := range fc.G.V {
			as, ok := v.Node.(*ast.AssignStmt)
			if !ok || len(as.Lhs) != 2 || len(as.Rhs) != 1 {
				continue
			}
			ix, ok := ast.Unparen(as.Rhs[0]).(*ast.IndexExpr)
			if !ok || !isMap(finfo, ix.X) {
				continue
			}
			nodeObj, okObj := objOf(finfo, as.Lhs[0]), objOf(finfo, as.Lhs[1])
			if nodeObj == nil || okObj == nil {
				continue
			}
			found := fc.TestEdges(func(e ast.Expr) bool { return objOf(finfo, e) == okObj }, WantTrue)
			for _, u := range fc.G.V {
				if u.ID == v.ID || u.Node == nil || !usesObj(finfo, u.Node, nodeObj, false) {
					continue
				}
				nUse++
				r.Check(fc.G.EdgeDominates(found, u.ID), rule, fmt.Sprintf("cache.(*BoundedCache).%s:node-use-on-found-edge@%s", fc.Decl.Name.Name, exprStr(u.Node)), p.posStr(u.Node.Pos()), "node used only when found", "a node looked up in the map is used although the key was not found (nil dereference)")
			}
		}
	})
	nb := p.Func("cache", "", "NewBoundedCache")
	okCap := false
	for _, cv := range nb.G.V {
		x, y, op, ok := condParts(cv)
		if ok && y != nil && objOf(nb.Info(), x) == nb.ParamObj(0) && (op == token.LEQ || op == token.LSS) {
			okCap = true
		}
	}
	r.Check(okCap, rule, "cache.NewBoundedCache:capacity-positive", p.posStr(nb.Body.Pos()), "non-positive capacities are replaced", "a zero capacity reaches insert: the full test is true on an empty cache and remove(nil) panics")
	r.Floor(rule, 10)
}

func c17R6(p *Prog, r *Report) {
	const rule = "C17-R6"
	r.Rule(rule, "query and answer tables agree: the query built with transaction ID k asks for record type T(k); parseMsg's ID case k resets result list L(k) and sets done flag D(k); the answer switch appends records of type T(k) to that same list L(k) — for k in {4, 6}; both queries ask for the looked-up name with recursion desired")
	sq := p.Inlined(p.Func("dns", "Resolver", "sendQueries"))
	info := sq.Info()
	qType := map[int64]string{}
	ast.Inspect(sq.Body, func(n ast.Node) bool {
		cl, ok := n.(*ast.CompositeLit)
		if !ok || namedTypeName(info.TypeOf(cl)) != "Message" {
			return true
		}
		var id int64 = -1
		typ := ""
		rd := false
		ast.Inspect(cl, func(m ast.Node) bool {
			kv, ok := m.(*ast.KeyValueExpr)
			if !ok {
				return true
			}
			switch exprStr(kv.Key) {
			case "ID":
				if k, isC := constInt(info, kv.Value); isC {
					id = k
				}
			case "Type":
				typ = exprStr(kv.Value)
			case "RecursionDesired":
				rd = exprStr(kv.Value) == "true"
			}
			return true
		})
		if id >= 0 && rd {
			qType[id] = typ
		}
		return true
	})
	pm := p.Inlined(p.Func("dns", "resultBuilder", "parseMsg"))
	pinfo := pm.Info()
	reset := map[int64]string{}
	ast.Inspect(pm.Body, func(n ast.Node) bool {
		sw, ok := n.(*ast.SwitchStmt)
		if !ok || sw.Tag == nil {
			return true
		}
		tag := exprStr(sw.Tag)
		for _, cl := range sw.Body.List {
			cc := cl.(*ast.CaseClause)
			for _, ce := range cc.List {
				for _, st := range cc.Body {
					// the reset may sit in an expanded helper: look through nested blocks
					ast.Inspect(st, func(m ast.Node) bool {
						as, ok := m.(*ast.AssignStmt)
						if !ok || len(as.Lhs) != 1 || len(as.Rhs) != 1 {
							return true
						}
						lhs := exprStr(as.Lhs[0])
						if strings.HasSuffix(tag, ".ID") {
							if k, isC := constInt(pinfo, ce); isC && exprStr(as.Rhs[0]) == lhs+"[:0]" {
								reset[k] = lhs
							}
						}
						return true
					})
				}
			}
		}
		return true
	})
	appendTo := map[string]string{}
	ast.Inspect(pm.Body, func(n ast.Node) bool {
		sw, ok := n.(*ast.SwitchStmt)
		if !ok || sw.Tag == nil || !strings.HasSuffix(exprStr(sw.Tag), ".Type") {
			return true
		}
		for _, cl := range sw.Body.List {
			cc := cl.(*ast.CaseClause)
			for _, ce := range cc.List {
				ast.Inspect(cc, func(m ast.Node) bool {
					if as, ok := m.(*ast.AssignStmt); ok && len(as.Lhs) == 1 {
						if c, ok := ast.Unparen(as.Rhs[0]).(*ast.CallExpr); ok && exprStr(c.Fun) == "append" && exprStr(c.Args[0]) == exprStr(as.Lhs[0]) {
							appendTo[exprStr(ce)] = exprStr(as.Lhs[0])
						}
					}
					return true
				})
			}
		}
		return true
	})
	for _, k := range []int64{4, 6} {
		t := qType[k]
		ok := t != "" && reset[k] != "" && appendTo[t] == reset[k]
		r.Check(ok, rule, fmt.Sprintf("dns:query-answer-table:id-%d", k), p.posStr(sq.Body.Pos()),
			fmt.Sprintf("ID %d asks %s, resets %s, %s answers append to %s", k, t, reset[k], t, appendTo[t]),
			fmt.Sprintf("ID %d asks %q, its case resets %q, but %q answers are appended to %q: the answers to a retried query are not replaced, or land in the other family's list", k, t, reset[k], t, appendTo[t]))
	}
	r.Check(qType[4] == "dnsmessage.TypeA" && qType[6] == "dnsmessage.TypeAAAA", rule, "dns.(*Resolver).sendQueries:query-types", p.posStr(sq.Body.Pos()), "ID 4 asks A, ID 6 asks AAAA", fmt.Sprintf("query types by ID: %v", qType))
	// the question name is the looked-up name
	nameOK := false
	for _, cs := range sq.AllCalls() {
		if cs.Fn != nil && cs.Fn.Name() == "NewName" && len(cs.Call.Args) == 1 {
			if be, ok := ast.Unparen(cs.Call.Args[0]).(*ast.BinaryExpr); ok && objOf(info, be.X) == sq.ParamObj(1) {
				nameOK = true
			}
		}
	}
	r.Check(nameOK, rule, "dns.(*Resolver).sendQueries:asks-for-name", p.posStr(sq.Body.Pos()), "the question name derives from the looked-up name", "the question name is not the looked-up name")
	r.Floor(rule, 4)
}

type cacheRoles struct{ mapF, capF, head, tail, prev, next string }

func isField(o types.Object) bool {
	v, ok := o.(*types.Var)
	return ok && v.IsField()
}

// c17CacheRoles identifies BoundedCache's fields by type (the map, the int capacity, the two node
// pointers) and tells head from tail and prev from next by what insert does: the cache field that
// receives the new node on every path is the tail; the node link that is initialised from the old
// tail is prev.
func c17CacheRoles(p *Prog, ins *FuncCtx) *cacheRoles {
	pkg := p.Pkg("cache")
	obj := pkg.Types.Scope().Lookup("BoundedCache")
	if obj == nil {
		return nil
	}
	st, ok := obj.Type().Underlying().(*types.Struct)
	if !ok {
		return nil
	}
	ro := &cacheRoles{}
	var ends []string
	var nodeT *types.Struct
	nodeName := ""
	for i := 0; i < st.NumFields(); i++ {
		f := st.Field(i)
		switch t := f.Type().Underlying().(type) {
		case *types.Map:
			if ro.mapF != "" {
				return nil
			}
			ro.mapF = f.Name()
		case *types.Basic:
			if t.Kind() == types.Int {
				if ro.capF != "" {
					return nil
				}
				ro.capF = f.Name()
			}
		case *types.Pointer:
			if s2, ok := t.Elem().Underlying().(*types.Struct); ok {
				ends = append(ends, f.Name())
				nodeT = s2
				nodeName = namedTypeName(t.Elem())
			}
		}
	}
	if ro.mapF == "" || ro.capF == "" || len(ends) != 2 || nodeT == nil {
		return nil
	}
	var links []string
	for i := 0; i < nodeT.NumFields(); i++ {
		f := nodeT.Field(i)
		if pt, ok := f.Type().Underlying().(*types.Pointer); ok {
			if namedTypeName(pt.Elem()) == nodeName && nodeName != "" {
				links = append(links, f.Name())
			}
		}
	}
	if len(links) != 2 {
		return nil
	}
	info := ins.Info()
	recv := ins.RecvObj()
	// the new node: the value stored into the map under the key parameter
	var node types.Object
	for _, v := range ins.G.V {
		if as, ok := v.Node.(*ast.AssignStmt); ok && len(as.Lhs) == 1 && len(as.Rhs) == 1 {
			if ix, ok := ast.Unparen(as.Lhs[0]).(*ast.IndexExpr); ok {
				if f := fieldOrVar(info, ix.X); f != nil && f.Name() == ro.mapF {
					node = objOf(info, as.Rhs[0])
				}
			}
		}
	}
	if node == nil {
		return nil
	}
	for _, v := range ins.G.V {
		as, ok := v.Node.(*ast.AssignStmt)
		if !ok || len(as.Lhs) != 1 || len(as.Rhs) != 1 || objOf(info, as.Rhs[0]) != node {
			continue
		}
		if root, path, ok := pathOf(info, as.Lhs[0]); ok && root == recv && ins.G.Dominates([]int{v.ID}, ins.G.Exit) {
			for i, e := range ends {
				if path == "."+e {
					ro.tail, ro.head = e, ends[1-i]
				}
			}
		}
	}
	if ro.tail == "" {
		return nil
	}
	// prev: the link of the new node that is given the old tail
	set := func(link string, val ast.Expr) {
		if normExpr(p, ins, val) != "recv."+ro.tail {
			return
		}
		for i, l := range links {
			if l == link {
				ro.prev, ro.next = l, links[1-i]
			}
		}
	}
	ast.Inspect(ins.Body, func(x ast.Node) bool {
		switch y := x.(type) {
		case *ast.CompositeLit:
			if t := info.TypeOf(y); t != nil && namedTypeName(t) == nodeName {
				for _, el := range y.Elts {
					if kv, ok := el.(*ast.KeyValueExpr); ok {
						if id, ok := kv.Key.(*ast.Ident); ok {
							set(id.Name, kv.Value)
						}
					}
				}
			}
		case *ast.AssignStmt:
			if len(y.Lhs) == 1 && len(y.Rhs) == 1 {
				if sel, ok := ast.Unparen(y.Lhs[0]).(*ast.SelectorExpr); ok && objOf(info, sel.X) == node {
					set(sel.Sel.Name, y.Rhs[0])
				}
			}
		}
		return true
	})
	if ro.prev == "" {
		return nil
	}
	return ro
}

// isHeaderFlag: n is <a dnsmessage.Header value>.<flag>, whatever the variable is called.
func isHeaderFlag(info *types.Info, n ast.Node, flag string) bool {
	e, ok := n.(ast.Expr)
	if !ok {
		return false
	}
	sel, ok := ast.Unparen(e).(*ast.SelectorExpr)
	return ok && sel.Sel.Name == flag && namedTypeName(info.TypeOf(sel.X)) == "Header"
}

// isBoolParam: n is a parameter of fc of type bool (the transport flag of parseMsg).
func isBoolParam(fc *FuncCtx, n ast.Node) bool {
	e, ok := n.(ast.Expr)
	if !ok {
		return false
	}
	o := objOf(fc.Info(), e)
	if o == nil {
		return false
	}
	for i := 0; fc.ParamObj(i) != nil; i++ {
		if fc.ParamObj(i) == o {
			b, isB := o.Type().Underlying().(*types.Basic)
			return isB && b.Kind() == types.Bool
		}
	}
	return false
}
