package main

import (
	"fmt"
	"go/ast"
	"go/token"
	"go/types"
	"strings"
)

func init() {
	register(&PropCheck{ID: "C07", Pkgs: []string{"./socks5", "./httpproxy", "./ssnone", "./conn", "./netio", "./ss2022"}, Run: runC07})
}

func runC07(p *Prog, r *Report) {
	r.Explanation = "Structural necessary conditions of 'SOCKS5, HTTP CONNECT and Shadowsocks-none handshakes carry requests faithfully': with authentication enabled a request is only parsed/honoured on the success path of the credential check, which succeeds only when the user exists AND the presented password equals that user's (the failure status is set on both bad edges), and the reported identity is the matched user's; authentication is enabled by the configuration flag, not by the user list being non-empty; the user name is looked up before the buffer it lives in is reused for the password; every dial-result code maps to a reply, success only to success; every reply-bearing pending connection answers Abort with a failure reply and Proceed with a success reply, and the no-reply pending connection is only used by protocols without a reply; bytes already read ahead by a buffered reader are never dropped when the connection is handed on; wire length fields are widened before arithmetic."
	r.NotDecided = []string{"byte-exact equality of the extracted address and user with what the client encoded (parsers' offsets are covered by C06-R2)", "transparency of the stream after the handshake beyond the read-ahead rule", "TLS client-certificate identity"}
	r.Assumptions = []string{"net/http's request parsing", "map lookups and string comparison as specified"}
	c07R1(p, r)
	c07R2(p, r)
	c07R3(p, r)
	c07R4(p, r)
	c07R5(p, r)
	c07R6(p, r)
	c07R7(p, r)
	c07R8(p, r)
	c07R9(p, r)
}

func c07R1(p *Prog, r *Report) {
	const rule = "C07-R1"
	r.Rule(rule, "authentication gate: SOCKS5 — the request is handled only on the err == nil edge of the username/password exchange, whose success return is reached only past the status test, the failure status being set on both the unknown-user edge and the password-mismatch edge and never cleared, and the name returned is the matched user's; HTTP — a pending connection is built only when authentication is disabled (nil token map) or the Basic credentials were found in the token map, the map being non-nil exactly when the configuration enables authentication")
	// --- SOCKS5
	acc := p.Func("socks5", "", "ServerAcceptUsernamePassword")
	var up, hr *CallSite
	for _, cs := range acc.AllCalls() {
		if cs.Fn == nil {
			continue
		}
		c := cs
		switch cs.Fn.Name() {
		case "serverHandleUsernamePassword":
			up = &c
		case "serverHandleRequest":
			hr = &c
		}
	}
	r.Check(up != nil && hr != nil && up.SuccessGuards(hr.V), rule, "socks5.ServerAcceptUsernamePassword:request-after-auth", p.posStr(acc.Body.Pos()), "serverHandleRequest runs only on the err == nil edge of serverHandleUsernamePassword", "the request is handled although the username/password exchange may have failed")
	// the authenticated acceptor is the one the auth server uses
	ah := p.Func("socks5", "AuthStreamServer", "HandleStream")
	okAcc := len(ah.CallsTo(isFn(mp("socks5"), "", "ServerAcceptUsernamePassword"))) == 1 && len(ah.CallsTo(isFn(mp("socks5"), "", "ServerAccept"))) == 0
	r.Check(okAcc, rule, "socks5.AuthStreamServer.HandleStream:uses-authenticated-acceptor", p.posStr(ah.Body.Pos()), "uses ServerAcceptUsernamePassword", "the authenticating server accepts requests through the unauthenticated acceptor")
	// NewStreamServer: EnableUserPassAuth true edge returns AuthStreamServer
	ns := p.Func("socks5", "StreamServerConfig", "NewStreamServer")
	okSel := false
	for _, v := range ns.G.V {
		if v.Kind == VCond && strings.HasSuffix(exprStr(v.Node), ".EnableUserPassAuth") {
			for _, e := range v.Succs {
				reach := ns.G.Reach([]int{e.To}, nil, nil)
				for _, ret := range ns.Returns() {
					if !reach[ret] || !ns.G.EdgeDominates([]Edge{e}, ret) || ns.ErrAtReturn(ret) == ErrNonNil {
						continue
					}
					rs := ns.G.V[ret].Node.(*ast.ReturnStmt)
					isAuth := strings.HasPrefix(exprStr(rs.Results[0]), "AuthStreamServer{")
					if e.Label == LTrue && isAuth {
						okSel = true
					}
					if e.Label == LTrue && !isAuth {
						okSel = false
					}
				}
			}
		}
	}
	// the false edge must not return AuthStreamServer and the true edge must not return StreamServer: simple scan of returns
	for _, ret := range ns.Returns() {
		rs := ns.G.V[ret].Node.(*ast.ReturnStmt)
		if strings.HasPrefix(exprStr(rs.Results[0]), "StreamServer{") {
			// must be on the false edge
			for _, v := range ns.G.V {
				if v.Kind == VCond && strings.HasSuffix(exprStr(v.Node), ".EnableUserPassAuth") {
					for _, e := range v.Succs {
						if e.Label == LTrue && ns.G.Reach([]int{e.To}, nil, nil)[ret] {
							okSel = false
						}
					}
				}
			}
		}
	}
	r.Check(okSel, rule, "socks5.(*StreamServerConfig).NewStreamServer:auth-by-flag", p.posStr(ns.Body.Pos()), "EnableUserPassAuth selects the authenticating server on every path", "with username/password authentication enabled some path returns the unauthenticated server")
	// inside serverHandleUsernamePassword
	fc := p.Func("socks5", "", "serverHandleUsernamePassword")
	info := fc.Info()
	var lookupV = -1
	var okObj, userObj types.Object
	for _, v := range fc.G.V {
		as, ok := v.Node.(*ast.AssignStmt)
		if !ok || len(as.Lhs) != 2 || len(as.Rhs) != 1 {
			continue
		}
		if ix, ok := ast.Unparen(as.Rhs[0]).(*ast.IndexExpr); ok && objOf(info, ix.X) == fc.ParamObj(2) {
			lookupV = v.ID
			userObj, okObj = objOf(info, as.Lhs[0]), objOf(info, as.Lhs[1])
		}
	}
	if lookupV < 0 {
		r.Fail(rule, "socks5.serverHandleUsernamePassword:lookup", p.posStr(fc.Body.Pos()), "no lookup of the presented user name in the user table")
	} else {
		// success returns: second result may be nil and first result is not the empty string
		var succ []int
		for _, ret := range fc.Returns() {
			rs := fc.G.V[ret].Node.(*ast.ReturnStmt)
			if len(rs.Results) == 2 && fc.ErrAtReturn(ret) != ErrNonNil {
				succ = append(succ, ret)
				sel, ok := ast.Unparen(rs.Results[0]).(*ast.SelectorExpr)
				r.Check(ok && sel.Sel.Name == "Username" && objOf(info, sel.X) == userObj, rule, "socks5.serverHandleUsernamePassword:returns-matched-user", p.posStr(rs.Pos()), "returns the looked-up user's Username", "the identity returned is "+exprStr(rs.Results[0])+", not the matched user's name")
			}
		}
		// bad edges
		var badEdges []Edge
		for _, e := range fc.TestEdges(func(x ast.Expr) bool { return objOf(info, x) == okObj }, WantFalse) {
			badEdges = append(badEdges, e)
		}
		nPw := 0
		for _, v := range fc.G.V {
			x, y, op, ok := condParts(v)
			if !ok || y == nil || (op != token.NEQ && op != token.EQL) {
				continue
			}
			isPw := func(e ast.Expr) bool {
				sel, ok := ast.Unparen(e).(*ast.SelectorExpr)
				return ok && sel.Sel.Name == "Password" && objOf(info, sel.X) == userObj
			}
			if !isPw(x) && !isPw(y) {
				continue
			}
			nPw++
			want := LTrue
			if op == token.EQL {
				want = LFalse
			}
			for _, e := range v.Succs {
				if e.Label == want {
					badEdges = append(badEdges, e)
				}
			}
			// the other operand is the received password bytes
			other := x
			if isPw(x) {
				other = y
			}
			recv := false
			ast.Inspect(other, func(n ast.Node) bool {
				if id, ok := n.(*ast.Ident); ok {
					if o := info.Uses[id]; o != nil {
						// a slice of the buffer parameter that was filled by ReadFull
						for _, cs := range fc.CallsTo(isFn("io", "", "ReadFull")) {
							if objOf(info, cs.Call.Args[1]) == o {
								recv = true
							}
						}
					}
				}
				return true
			})
			r.Check(recv, rule, "socks5.serverHandleUsernamePassword:compares-received-password", p.posStr(v.Node.Pos()), "the user's password is compared with the bytes read from the client", "the password comparison does not involve the bytes received from the client")
		}
		r.Check(nPw >= 1, rule, "socks5.serverHandleUsernamePassword:password-compared", p.posStr(fc.Body.Pos()), "the looked-up user's Password is compared", "the looked-up user's password is never compared: any password is accepted for an existing user")
		// status discipline: find variable tested by the condition that dominates success (false edge of `status != 0`)
		for _, sret := range succ {
			var statusObj types.Object
			var passEdges []Edge
			for _, v := range fc.G.V {
				x, y, op, ok := condParts(v)
				if !ok || y == nil || (op != token.NEQ && op != token.EQL) {
					continue
				}
				k, isC := constInt(info, y)
				if !isC || k != 0 || objOf(info, x) == nil {
					continue
				}
				want := LFalse
				if op == token.EQL {
					want = LTrue
				}
				for _, e := range v.Succs {
					if e.Label == want && fc.G.EdgeDominates([]Edge{e}, sret) {
						statusObj = objOf(info, x)
						passEdges = append(passEdges, e)
					}
				}
			}
			if statusObj == nil {
				// direct form: success return guarded by ok true edge and password-equal edge
				var goodEdges []Edge
				goodEdges = append(goodEdges, fc.TestEdges(func(x ast.Expr) bool { return objOf(info, x) == okObj }, WantTrue)...)
				direct := len(goodEdges) > 0 && fc.G.EdgeDominates(goodEdges, sret)
				for _, be := range badEdges {
					if fc.G.Reach([]int{be.To}, nil, nil)[sret] {
						direct = false
					}
				}
				r.Check(direct, rule, "socks5.serverHandleUsernamePassword:success-needs-user-and-password", p.posStr(fc.G.V[sret].Node.Pos()), "success is unreachable from the unknown-user and wrong-password edges", "the success return is reachable although the user is unknown or the password differs")
				continue
			}
			// Value of the status at its test, on every path that starts at a bad edge (unknown user
			// / wrong password): the last constant assigned to it on the way must be non-zero; if
			// nothing is assigned on the way, every definition that reaches the bad condition must
			// be a non-zero constant (the "guilty until proven" form: status := 1; if ok && equal
			// { status = 0 }).
			constOfDef := func(d int) (int64, bool) {
				if d == fc.G.Entry {
					return 0, false
				}
				switch n := fc.G.V[d].Node.(type) {
				case *ast.AssignStmt:
					if len(n.Lhs) == len(n.Rhs) {
						for i, l := range n.Lhs {
							if objOf(info, l) == statusObj {
								e := ast.Unparen(n.Rhs[i])
								if inner, okc := isConversionExpr(info, e); okc {
									e = inner
								}
								return constInt(info, e)
							}
						}
					}
				case *ast.ValueSpec:
					if len(n.Values) == 0 {
						return 0, true
					}
				}
				return 0, false
			}
			isDef := map[int]bool{}
			for _, d := range fc.Defs(statusObj) {
				isDef[d] = true
			}
			tests := map[int]bool{}
			for _, pe := range passEdges {
				tests[pe.From] = true
			}
			ok := len(badEdges) >= 2
			for _, be := range badEdges {
				// last-definition tracking: state = (vertex, last def or -1)
				type st struct{ v, d int }
				seen := map[st]bool{}
				stack := []st{{be.To, -1}}
				for len(stack) > 0 {
					cur := stack[len(stack)-1]
					stack = stack[:len(stack)-1]
					if seen[cur] {
						continue
					}
					seen[cur] = true
					last := cur.d
					if isDef[cur.v] {
						last = cur.v
					}
					if tests[cur.v] {
						if last >= 0 {
							if k, isC := constOfDef(last); !isC || k == 0 {
								ok = false
							}
						} else {
							for _, d := range fc.ReachingDefs(be.From, statusObj) {
								if k, isC := constOfDef(d); !isC || k == 0 {
									ok = false
								}
							}
						}
						continue
					}
					for _, e := range fc.G.V[cur.v].Succs {
						stack = append(stack, st{e.To, last})
					}
				}
			}
			r.Check(ok, rule, "socks5.serverHandleUsernamePassword:success-needs-user-and-password", p.posStr(fc.G.V[sret].Node.Pos()),
				"the failure status is recorded on both the unknown-user and the wrong-password edge before the status test, and never cleared",
				"the success return is reachable although the user is unknown or the password differs (the failure status is not set on one of the two edges, e.g. `!ok && mismatch` instead of `!ok || mismatch`)")
		}
	}
	// --- HTTP
	sh := p.Func("httpproxy", "", "ServerHandle")
	sinfo := sh.Info()
	tokenMap := sh.ParamObj(2)
	var ba *CallSite
	for _, cs := range sh.CallsTo(isFn(mp("httpproxy"), "", "serverHandleBasicAuth")) {
		c := cs
		ba = &c
	}
	var pass []Edge
	pass = append(pass, sh.TestEdges(func(e ast.Expr) bool { return objOf(sinfo, e) == tokenMap }, WantNil)...)
	if ba != nil {
		pass = append(pass, ba.ResultEdges(1, WantTrue)...)
		r.Check(objOf(sinfo, ba.Call.Args[1]) == tokenMap, rule, "httpproxy.ServerHandle:checks-configured-tokens", ba.Pos(), "credentials are looked up in the server's token map", "credentials are checked against something other than the configured token map")
	}
	// the places that hand a pending connection back (a return whose first result is not nil),
	// whether it is built by a constructor or written as a literal
	nPC := 0
	for _, rv := range sh.Returns() {
		rs := sh.G.V[rv].Node.(*ast.ReturnStmt)
		if len(rs.Results) == 0 {
			r.Fail(rule, "httpproxy.ServerHandle:bare-return", p.posStr(rs.Pos()), "undecided: bare return in ServerHandle")
			continue
		}
		if tv, ok := sinfo.Types[ast.Unparen(rs.Results[0])]; ok && tv.IsNil() {
			continue
		}
		nPC++
		kind := "?"
		if t := sinfo.TypeOf(rs.Results[0]); t != nil {
			kind = types.TypeString(t, func(*types.Package) string { return "" })
		}
		if call, isCall := ast.Unparen(rs.Results[0]).(*ast.CallExpr); isCall {
			if fn := Callee(sinfo, call); fn != nil {
				if cf := p.CtxOfObj(fn); cf != nil && cf.Body != nil {
					if bvs := builtTypesReturned(cf); bvs != "" {
						kind = bvs
					}
				}
			}
		}
		r.Check(ba != nil && sh.G.EdgeDominates(pass, rv), rule, "httpproxy.ServerHandle:"+kind+"-after-auth", p.posStr(rs.Pos()), "reached only with authentication disabled or after valid credentials", "a request is honoured without valid credentials although authentication is enabled")
	}
	r.Check(nPC == 2, rule, "httpproxy.ServerHandle:pending-conn-sites", p.posStr(sh.Body.Pos()), "CONNECT and non-CONNECT pending connections", fmt.Sprintf("%d pending connection constructions", nPC))
	// 407 sent before looping
	bauth := p.Func("httpproxy", "", "serverHandleBasicAuth")
	binfo := bauth.Info()
	okRet := true
	nTrue := 0
	for _, ret := range bauth.Returns() {
		rs := bauth.G.V[ret].Node.(*ast.ReturnStmt)
		if len(rs.Results) != 2 {
			okRet = false
			continue
		}
		if v, isC := constOf(binfo, rs.Results[1]); isC && v.String() == "false" {
			continue
		}
		nTrue++
		// must be the comma-ok of a lookup in the token map parameter, and the name its value
		oo := objOf(binfo, rs.Results[1])
		found := false
		for _, v := range bauth.G.V {
			if as, ok := v.Node.(*ast.AssignStmt); ok && len(as.Lhs) == 2 && len(as.Rhs) == 1 {
				if ix, ok := ast.Unparen(as.Rhs[0]).(*ast.IndexExpr); ok && objOf(binfo, ix.X) == bauth.ParamObj(1) && objOf(binfo, as.Lhs[1]) == oo && objOf(binfo, as.Lhs[0]) == objOf(binfo, rs.Results[0]) && bauth.SoleDef(ret, oo, v.ID) {
					found = true
				}
			}
		}
		if !found {
			okRet = false
		}
	}
	r.Check(okRet && nTrue >= 1, rule, "httpproxy.serverHandleBasicAuth:true-only-from-lookup", p.posStr(bauth.Body.Pos()), "returns (name, true) only as the result of a token-map lookup", "serverHandleBasicAuth can report success without the token being in the configured map")
	// NewProxyServer: map non-nil iff EnableBasicAuth
	np := p.Inlined(p.Func("httpproxy", "ServerConfig", "NewProxyServer"))
	ninfo := np.Info()
	var mk = -1
	for _, v := range np.G.V {
		if as, ok := v.Node.(*ast.AssignStmt); ok && len(as.Lhs) == 1 && strings.HasSuffix(exprStr(as.Lhs[0]), ".usernameByToken") {
			if nonNilMapAt(np, as.Rhs[0], v.ID, 0) {
				mk = v.ID
			}
		}
	}
	var enT, enF []Edge
	for _, v := range np.G.V {
		if v.Kind == VCond && strings.HasSuffix(exprStr(v.Node), ".EnableBasicAuth") {
			for _, e := range v.Succs {
				if e.Label == LTrue {
					enT = append(enT, e)
				} else {
					enF = append(enF, e)
				}
			}
		}
	}
	okMap := mk >= 0 && len(enT) > 0
	if okMap {
		// every path from the enabled edge to a successful return passes the make; the make is not reachable when disabled
		for _, e := range enT {
			reach := np.G.Reach([]int{e.To}, func(v *Vertex) bool { return v.ID == mk }, nil)
			for _, ret := range np.Returns() {
				if reach[ret] && np.ErrAtReturn(ret) != ErrNonNil {
					okMap = false
				}
			}
		}
		if !np.G.EdgeDominates(enT, mk) {
			okMap = false
		}
	}
	_ = ninfo
	_ = enF
	r.Check(okMap, rule, "httpproxy.(*ServerConfig).NewProxyServer:auth-by-flag", p.posStr(np.Body.Pos()), "the token map is allocated on every path on which EnableBasicAuth is set (and only then)", "with Basic authentication enabled the token map can stay nil (e.g. no users configured): the handler treats a nil map as 'authentication disabled' and honours every request")
	r.Floor(rule, 12)
}

func c07R2(p *Prog, r *Report) {
	const rule = "C07-R2"
	r.Rule(rule, "lookup before overwrite: in the SOCKS5 username/password exchange the user name and the password live in overlapping regions of one buffer; the table lookup with the name happens before the read that stores the password over it, on every path")
	fc := p.Func("socks5", "", "serverHandleUsernamePassword")
	info := fc.Info()
	var lookupV = -1
	var unameObj types.Object
	for _, v := range fc.G.V {
		as, ok := v.Node.(*ast.AssignStmt)
		if !ok || len(as.Rhs) != 1 {
			continue
		}
		if ix, ok := ast.Unparen(as.Rhs[0]).(*ast.IndexExpr); ok && objOf(info, ix.X) == fc.ParamObj(2) {
			lookupV = v.ID
			ast.Inspect(ix.Index, func(n ast.Node) bool {
				if id, ok := n.(*ast.Ident); ok {
					if o, ok := info.Uses[id].(*types.Var); ok && o != fc.ParamObj(1) {
						unameObj = o
					}
				}
				return true
			})
		}
	}
	if lookupV < 0 || unameObj == nil {
		r.Fail(rule, "socks5.serverHandleUsernamePassword:lookup", p.posStr(fc.Body.Pos()), "no lookup by a name slice found")
		return
	}
	// uname := b[lo:hi]; reads into slices of b whose start <= uname's start region after the lookup
	urhs, _, _, ok := fc.SoleDefRHS(unameObj)
	usl, isSl := ast.Unparen(urhs).(*ast.SliceExpr)
	if !ok || !isSl {
		r.Fail(rule, "socks5.serverHandleUsernamePassword:name-slice", p.posStr(fc.Body.Pos()), "undecided: the name is not a slice of the buffer")
		return
	}
	n := 0
	for _, cs := range fc.CallsTo(isFn("io", "", "ReadFull")) {
		dst := fc.Resolve(cs.Call.Args[1])
		dsl, ok := dst.(*ast.SliceExpr)
		if !ok || !samePathOrObj(fc, dsl.X, usl.X) {
			continue
		}
		// overlapping: same constant start as the name slice
		ulo, _ := constInt(info, usl.Low)
		dlo, isC := constInt(info, dsl.Low)
		if !isC || dlo != ulo {
			continue
		}
		// this read overwrites the name region unless it is the read that filled it (before the name slice is defined)
		if fc.G.ReachAfter(cs.V, nil, nil)[lookupV] && !fc.G.ReachAfter(lookupV, nil, nil)[cs.V] {
			continue // happens before the lookup: it is what filled the name
		}
		n++
		r.Check(fc.G.Dominates([]int{lookupV}, cs.V), rule, "socks5.serverHandleUsernamePassword:lookup-before-password-read", cs.Pos(), "the lookup dominates the read that overwrites the name", "the password is read over the user name before the name was looked up: the lookup is done with password bytes")
	}
	r.Check(n >= 1, rule, "socks5.serverHandleUsernamePassword:overlap-found", p.posStr(fc.Body.Pos()), "the overlapping password read was identified", "no overlapping password read identified")
	r.Floor(rule, 2)
}

func c07R3(p *Prog, r *Report) {
	const rule = "C07-R3"
	r.Rule(rule, "reply mapping is total and faithful: evaluating socks5.ReplyFromDialResultCode on every constant of conn.DialResultCode, only Success maps to the succeeded reply, the policy / network / host / refused codes map to their RFC 1928 replies and everything else to a failure reply; reply-bearing pending connections answer Abort with the mapped failure (HTTP: 502) and Proceed with success; the no-reply pending connection is constructed only by protocols that have no reply")
	cpkg := p.Pkg("conn")
	codes := map[string]int64{}
	for _, name := range cpkg.Types.Scope().Names() {
		if c, ok := cpkg.Types.Scope().Lookup(name).(*types.Const); ok && namedTypeName(c.Type()) == "DialResultCode" {
			if v, ok := constIntVal(c); ok {
				codes[name] = v
			}
		}
	}
	fc := p.Func("socks5", "", "ReplyFromDialResultCode")
	info := fc.Info()
	// evaluate the switch
	mapping := map[int64]int64{}
	defaultVal := int64(-1)
	ast.Inspect(fc.Body, func(n ast.Node) bool {
		cc, ok := n.(*ast.CaseClause)
		if !ok {
			return true
		}
		ret := int64(-1)
		for _, st := range cc.Body {
			if rs, ok := st.(*ast.ReturnStmt); ok && len(rs.Results) == 1 {
				if v, isC := constInt(info, rs.Results[0]); isC {
					ret = v
				}
			}
		}
		if cc.List == nil {
			defaultVal = ret
			return true
		}
		for _, e := range cc.List {
			if v, isC := constInt(info, e); isC {
				mapping[v] = ret
			}
		}
		return true
	})
	eval := func(code int64) int64 {
		if v, ok := mapping[code]; ok {
			return v
		}
		return defaultVal
	}
	spkg := p.Pkg("socks5")
	reply := func(name string) int64 {
		if c, ok := spkg.Types.Scope().Lookup(name).(*types.Const); ok {
			v, _ := constIntVal(c)
			return v
		}
		return -99
	}
	want := map[string]string{
		"DialResultCodeSuccess":      "ReplySucceeded",
		"DialResultCodeEACCES":       "ReplyConnectionNotAllowedByRuleset",
		"DialResultCodeENETUNREACH":  "ReplyNetworkUnreachable",
		"DialResultCodeEHOSTUNREACH": "ReplyHostUnreachable",
		"DialResultCodeECONNREFUSED": "ReplyConnectionRefused",
	}
	succ := reply("ReplySucceeded")
	for name, code := range codes {
		got := eval(code)
		construct := "socks5.ReplyFromDialResultCode:" + name
		if name == "DialResultCodeSuccess" {
			r.Check(got == succ, rule, construct, p.posStr(fc.Body.Pos()), "success → succeeded", fmt.Sprintf("a successful dial is reported with reply %d", got))
			continue
		}
		ok := got != succ && got >= 0 && got <= 8
		detail := fmt.Sprintf("→ reply %d", got)
		if w, has := want[name]; has && got != reply(w) {
			ok = false
			detail = fmt.Sprintf("→ reply %d, RFC 1928 reply for this failure is %s (%d)", got, w, reply(w))
		}
		r.Check(ok, rule, construct, p.posStr(fc.Body.Pos()), detail, "dial failure "+name+" "+detail+": the client is told the wrong outcome (a failure reported as success makes the client send data into the void)")
	}
	// pending conns
	type pcSpec struct{ pkg, typ string }
	for _, s := range []pcSpec{{"socks5", "serverPendingConn"}, {"httpproxy", "serverConnectPendingConn"}, {"httpproxy", "serverNonConnectPendingConn"}} {
		ab := p.Func(s.pkg, s.typ, "Abort")
		pr := p.Func(s.pkg, s.typ, "Proceed")
		// Abort: every path to exit passes a reply write
		var writes []int
		okArg := true
		for _, cs := range ab.AllCalls() {
			if cs.Fn == nil {
				continue
			}
			switch cs.Fn.Name() {
			case "replyWithStatus":
				writes = append(writes, cs.V)
				// status argument is ReplyFromDialResultCode(dialResult.Code)
				c, ok := ast.Unparen(cs.Call.Args[2]).(*ast.CallExpr)
				if !ok || len(c.Args) != 1 {
					okArg = false
					break
				}
				fn := Callee(ab.Info(), c)
				sel, isSel := ast.Unparen(c.Args[0]).(*ast.SelectorExpr)
				if fn == nil || fn.Name() != "ReplyFromDialResultCode" || !isSel || sel.Sel.Name != "Code" || objOf(ab.Info(), sel.X) != ab.ParamObj(0) {
					okArg = false
				}
			case "send502":
				writes = append(writes, cs.V)
			}
		}
		r.Check(len(writes) > 0 && ab.G.Dominates(writes, ab.G.Exit) && okArg, rule, s.pkg+"."+s.typ+".Abort:failure-reply", p.posStr(ab.Body.Pos()), "Abort always writes the protocol's failure reply for the given dial result", "Abort does not (always) send the failure reply that corresponds to the dial result")
		// Proceed: success reply (socks5 / CONNECT) before returning the conn
		if s.typ != "serverNonConnectPendingConn" {
			var ok2 bool
			for _, cs := range pr.AllCalls() {
				if cs.Fn == nil {
					continue
				}
				isSucc := cs.Fn.Name() == "send200"
				if cs.Fn.Name() == "replyWithStatus" {
					if v, isC := constInt(pr.Info(), cs.Call.Args[2]); isC && v == succ {
						isSucc = true
					}
				}
				if isSucc {
					ok2 = true
					for _, ret := range pr.Returns() {
						if pr.ErrAtReturn(ret) != ErrNonNil && !(pr.G.Dominates([]int{cs.V}, ret) && (cs.ResultVar(-1) == nil || cs.SuccessGuards(ret) || len(cs.ResultEdges(-1, WantNil)) > 0)) {
							ok2 = false
						}
					}
				}
			}
			r.Check(ok2, rule, s.pkg+"."+s.typ+".Proceed:success-reply", p.posStr(pr.Body.Pos()), "Proceed sends the success reply before handing out the connection", "Proceed hands out the connection without a successful success reply")
		}
	}
	// who constructs NopPendingConn
	allowed := map[string]bool{mp("ss2022"): true, mp("ssnone"): true, mp("netio"): true}
	for _, pkg := range p.All {
		if pkg.Syntax == nil {
			continue
		}
		p.AllFuncs(pkg, func(top *FuncCtx) {
			for _, fc := range allCtxs(p, top) {
				for _, cs := range fc.CallsTo(isFn(mp("netio"), "", "NopPendingConn")) {
					r.Check(allowed[pkg.PkgPath], rule, "who-constructs:NopPendingConn:"+fc.Name, cs.Pos(), "a protocol without a reply (Shadowsocks, transparent, fixed-destination)", "the no-reply pending connection is used by a protocol that owes its client a reply: dial failures are never reported")
				}
			}
		})
	}
	r.Floor(rule, 20)
}

func c07R4(p *Prog, r *Report) {
	const rule = "C07-R4"
	r.Rule(rule, "read-ahead is never dropped: when a handshake reads a connection through a bufio.Reader, whatever continues to use the connection afterwards either keeps that reader (it is passed along) or checks Buffered() and wraps; a pending connection that holds both the connection and its reader hands out the bare connection only when Buffered() is zero")
	n := 0
	for _, rel := range []string{"httpproxy", "socks5", "ssnone"} {
		pkg := p.Pkg(rel)
		p.AllFuncs(pkg, func(fc *FuncCtx) {
			info := fc.Info()
			for _, cs := range fc.CallsTo(isFn("bufio", "", "NewReader")) {
				src := objOf(info, cs.Call.Args[0])
				br := cs.ResultVar(0)
				if src == nil || br == nil {
					continue
				}
				// only connections (netio.Conn typed values)
				if namedTypeName(src.Type()) != "Conn" {
					continue
				}
				// uses of src after the reader exists, in calls/returns that hand the connection on
				for _, v := range fc.G.V {
					if v.Node == nil || !fc.G.ReachAfter(cs.V, nil, nil)[v.ID] {
						continue
					}
					handsOn := false
					var where ast.Node
					switch st := v.Node.(type) {
					case *ast.ReturnStmt:
						if fc.ErrAtReturn(v.ID) == ErrNonNil {
							continue
						}
						for _, res := range st.Results {
							if usesObj(info, res, src, false) {
								handsOn = true
								where = res
							}
						}
					}
					if !handsOn {
						continue
					}
					n++
					keeps := usesObj(info, where, br, false)
					// or guarded by Buffered() == 0
					guarded := false
					for _, cv := range fc.G.V {
						x, y, op, ok := condParts(cv)
						if !ok || y == nil {
							continue
						}
						c, isCall := ast.Unparen(x).(*ast.CallExpr)
						if !isCall {
							continue
						}
						if sel, ok := ast.Unparen(c.Fun).(*ast.SelectorExpr); !ok || sel.Sel.Name != "Buffered" || objOf(info, sel.X) != br {
							continue
						}
						k, isC := constInt(info, y)
						if !isC || k != 0 {
							continue
						}
						zeroLabel := -1
						switch op {
						case token.GTR, token.NEQ:
							zeroLabel = LFalse
						case token.EQL, token.LEQ:
							zeroLabel = LTrue
						}
						for _, e := range cv.Succs {
							if e.Label == zeroLabel && fc.G.EdgeDominates([]Edge{e}, v.ID) {
								guarded = true
							}
						}
					}
					r.Check(keeps || guarded, rule, fmt.Sprintf("%s:hands-on:%s", fc.Name, exprStr(where)), p.posStr(v.Node.Pos()), "the reader travels with the connection, or Buffered() was checked to be zero",
						"the connection is handed on as "+exprStr(where)+" without its bufio.Reader and without a Buffered() check: bytes the peer sent right after the handshake (already read into the buffer) are lost")
				}
			}
		})
	}
	// structs holding both a conn and a *bufio.Reader: methods returning the conn field must check Buffered
	for _, rel := range []string{"httpproxy", "socks5"} {
		pkg := p.Pkg(rel)
		p.AllFuncs(pkg, func(fc *FuncCtx) {
			recv := fc.RecvObj()
			if recv == nil || fc.Obj.Name() != "Proceed" {
				return
			}
			st, ok := recv.Type().Underlying().(*types.Struct)
			if !ok {
				if pt, isP := recv.Type().(*types.Pointer); isP {
					st, ok = pt.Elem().Underlying().(*types.Struct)
				}
			}
			if !ok {
				return
			}
			var brField, connField string
			for i := 0; i < st.NumFields(); i++ {
				f := st.Field(i)
				if strings.HasSuffix(f.Type().String(), "bufio.Reader") {
					brField = f.Name()
				}
				if namedTypeName(f.Type()) == "Conn" && connField == "" {
					connField = f.Name()
				}
			}
			if brField == "" || connField == "" {
				return
			}
			info := fc.Info()
			for _, ret := range fc.Returns() {
				rs := fc.G.V[ret].Node.(*ast.ReturnStmt)
				if len(rs.Results) != 2 || fc.ErrAtReturn(ret) == ErrNonNil {
					continue
				}
				sel, ok := ast.Unparen(rs.Results[0]).(*ast.SelectorExpr)
				if !ok || sel.Sel.Name != connField || objOf(info, sel.X) != recv {
					continue // returns something else (a wrapper or a pipe)
				}
				n++
				guarded := false
				for _, cv := range fc.G.V {
					x, y, op, ok := condParts(cv)
					if !ok || y == nil {
						continue
					}
					if !strings.HasSuffix(exprStr(x), "."+brField+".Buffered()") {
						continue
					}
					k, isC := constInt(info, y)
					if !isC || k != 0 {
						continue
					}
					zeroLabel := -1
					switch op {
					case token.GTR, token.NEQ:
						zeroLabel = LFalse
					case token.EQL, token.LEQ:
						zeroLabel = LTrue
					}
					for _, e := range cv.Succs {
						if e.Label == zeroLabel && fc.G.EdgeDominates([]Edge{e}, ret) {
							guarded = true
						}
					}
				}
				r.Check(guarded, rule, fc.Name+":bare-conn-only-if-nothing-buffered", p.posStr(rs.Pos()), "the bare connection is returned only when the reader has nothing buffered", "Proceed returns the bare connection although its handshake reader may hold bytes already read from the client")
			}
		})
	}
	nWrap := wrapperInnerReads(p, r, rule)
	r.Count("wrapper_inner_reads", nWrap)
	r.Count("hand_on_sites", n)
	r.Floor(rule, 3)
}

// c07R5: narrow integer arithmetic on wire length fields.
func c07R5(p *Prog, r *Report) {
	const rule = "C07-R5"
	r.Rule(rule, "wire length fields are widened before arithmetic: in the handshake parsers no addition, subtraction, multiplication or shift is performed in an 8- or 16-bit integer type on a value read from the wire (int(b[1] + 2) wraps for lengths near 255; int(b[1]) + 2 does not)")
	n := 0
	for _, rel := range []string{"socks5", "ssnone", "httpproxy"} {
		pkg := p.Pkg(rel)
		p.AllFuncs(pkg, func(top *FuncCtx) {
			for _, fc := range allCtxs(p, top) {
				info := fc.Info()
				ast.Inspect(fc.Body, func(x ast.Node) bool {
					if _, isLit := x.(*ast.FuncLit); isLit && x != ast.Node(fc.Lit) {
						return false
					}
					be, ok := x.(*ast.BinaryExpr)
					if !ok {
						return true
					}
					switch be.Op {
					case token.ADD, token.SUB, token.MUL, token.SHL:
					default:
						return true
					}
					tv, ok := info.Types[be]
					if !ok || tv.Value != nil {
						return true
					}
					bt, ok := tv.Type.Underlying().(*types.Basic)
					if !ok {
						return true
					}
					switch bt.Kind() {
					case types.Uint8, types.Int8, types.Uint16, types.Int16:
					default:
						return true
					}
					n++
					// does an operand come from a byte buffer (index expression) ?
					fromWire := false
					ast.Inspect(be, func(m ast.Node) bool {
						if _, ok := m.(*ast.IndexExpr); ok {
							fromWire = true
						}
						return true
					})
					r.Check(!fromWire, rule, fmt.Sprintf("%s:narrow-arithmetic:%s", fc.Name, exprStr(be)), p.posStr(be.Pos()), "narrow arithmetic on a non-wire value", "arithmetic "+exprStr(be)+" is carried out in "+bt.Name()+" on a value read from the wire: it wraps for lengths near the type's maximum, so the parser reads too few bytes and fails (or misparses) exactly at the boundary sizes")
					return true
				})
			}
		})
	}
	r.Count("narrow_arithmetic_expressions", n)
	// positive fixture so the rule cannot pass vacuously when no such expression exists: the widened form must be present
	fc := p.Func("socks5", "", "AppendFromReader")
	wid := 0
	ast.Inspect(fc.Body, func(x ast.Node) bool {
		if be, ok := x.(*ast.BinaryExpr); ok && be.Op == token.ADD {
			if c, ok := ast.Unparen(be.X).(*ast.CallExpr); ok {
				if inner, isConv := isConversion(fc.Info(), c); isConv {
					if _, isIx := ast.Unparen(inner).(*ast.IndexExpr); isIx {
						wid++
					}
				}
			}
		}
		return true
	})
	r.Check(wid >= 1, rule, "socks5.AppendFromReader:widened-length", p.posStr(fc.Body.Pos()), "the domain length byte is widened to int before the +2", "the domain length computation in AppendFromReader is not of the widened form int(b[i]) + k")
	r.Floor(rule, 1)
}

// nonNilMapAt: expression e evaluated at vertex at is a freshly made (non-nil) map: make(...)
// itself, or a local every reaching definition of which is such an expression.
func nonNilMapAt(fc *FuncCtx, e ast.Expr, at int, depth int) bool {
	if depth > 4 {
		return false
	}
	info := fc.Info()
	e = ast.Unparen(e)
	if c, ok := e.(*ast.CallExpr); ok {
		if id, ok := ast.Unparen(c.Fun).(*ast.Ident); ok && id.Name == "make" {
			return true
		}
		return false
	}
	if _, ok := e.(*ast.CompositeLit); ok {
		return true
	}
	o := objOf(info, e)
	if o == nil {
		return false
	}
	defs := fc.ReachingDefs(at, o)
	if len(defs) == 0 {
		return false
	}
	for _, d := range defs {
		if d == fc.G.Entry {
			return false
		}
		ok := false
		switch st := fc.G.V[d].Node.(type) {
		case *ast.AssignStmt:
			if len(st.Lhs) == len(st.Rhs) {
				for i, l := range st.Lhs {
					if objOf(info, l) == o && nonNilMapAt(fc, st.Rhs[i], d, depth+1) {
						ok = true
					}
				}
			}
		case *ast.ValueSpec:
			for i, id := range st.Names {
				if info.Defs[id] == o && len(st.Values) == len(st.Names) && nonNilMapAt(fc, st.Values[i], d, depth+1) {
					ok = true
				}
			}
		}
		if !ok {
			return false
		}
	}
	return true
}

// c07R6: SOCKS5 method negotiation looks at every offered method and at nothing else. The
// methods field starts at offset 2 and is NMETHODS = b[1] bytes long: the bytes read are
// b[:3] and then b[3 : 3+n-1], and the search for the server's method runs over b[2 : 2+n].
func c07R6(p *Prog, r *Report) {
	const rule = "C07-R6"
	r.Rule(rule, "method negotiation covers exactly the offered methods: in serverHandleMethodSelection the search for the configured method runs over b[2 : 2+NMETHODS] of the handshake buffer (NMETHODS being b[1] widened), the single-method case compares b[2], and the bytes read are b[:3] followed by b[3 : 2+NMETHODS]")
	fc := p.Func("socks5", "", "serverHandleMethodSelection")
	info := fc.Info()
	buf := fc.ParamObj(1)
	var n types.Object // NMETHODS: the local defined as int(b[1])
	for _, v := range fc.G.V {
		var lhs, rhs ast.Expr
		switch x := v.Node.(type) {
		case *ast.AssignStmt:
			if len(x.Lhs) == 1 && len(x.Rhs) == 1 {
				lhs, rhs = x.Lhs[0], x.Rhs[0]
			}
		}
		if lhs == nil {
			continue
		}
		call, isCall := ast.Unparen(rhs).(*ast.CallExpr)
		if !isCall {
			continue
		}
		if inner, ok := isConversion(info, call); ok {
			if ix, ok := ast.Unparen(inner).(*ast.IndexExpr); ok && objOf(info, ix.X) == buf {
				if k, isC := constInt(info, ix.Index); isC && k == 1 {
					n = objOf(info, lhs)
				}
			}
		}
	}
	if n == nil || buf == nil {
		r.Fail(rule, "socks5.serverHandleMethodSelection:nmethods", p.posStr(fc.Body.Pos()), "undecided: the NMETHODS variable (int(b[1])) was not found")
		return
	}
	// a slice of the buffer as (low, high) linear forms over NMETHODS
	bounds := func(e ast.Expr) (lo, hi linForm, ok bool) {
		sl, isSl := ast.Unparen(fc.Resolve(e)).(*ast.SliceExpr)
		if !isSl || objOf(info, sl.X) != buf {
			return nil, nil, false
		}
		lo = linForm{}
		if sl.Low != nil {
			lo = linOf(p, fc, sl.Low, n)
		}
		if sl.High == nil {
			return nil, nil, false
		}
		hi = linOf(p, fc, sl.High, n)
		return lo, hi, true
	}
	isLin := func(f linForm, c, k int64) bool {
		g := linForm{}
		if c != 0 {
			g[""] = c
		}
		if k != 0 {
			g[n.Name()] = k
		}
		if len(f) != len(g) {
			return false
		}
		for a, v := range g {
			if f[a] != v {
				return false
			}
		}
		return true
	}
	nSearch := 0
	for _, cs := range fc.AllCalls() {
		if cs.Fn == nil || cs.Fn.Pkg() == nil {
			continue
		}
		if cs.Fn.Pkg().Path() == "bytes" && (cs.Fn.Name() == "IndexByte" || cs.Fn.Name() == "Contains" || cs.Fn.Name() == "ContainsRune") || cs.Fn.Pkg().Path() == "slices" && (cs.Fn.Name() == "Contains" || cs.Fn.Name() == "Index") {
			nSearch++
			lo, hi, ok := bounds(cs.Call.Args[0])
			r.Check(ok && isLin(lo, 2, 0) && isLin(hi, 2, 1), rule, "socks5.serverHandleMethodSelection:search-range", cs.Pos(), "searches b[2 : 2+NMETHODS]", "the search for the configured method does not cover exactly the offered methods b[2 : 2+NMETHODS] ("+exprStr(cs.Call.Args[0])+"): an offered method is overlooked (the client is refused) or bytes that were not offered are honoured")
		}
	}
	r.Check(nSearch == 1, rule, "socks5.serverHandleMethodSelection:one-search", p.posStr(fc.Body.Pos()), "one search over the methods", fmt.Sprintf("%d searches over the methods field", nSearch))
	// reads: b[:3] then b[3 : 2+n]
	var reads [][2]linForm
	for _, cs := range fc.CallsTo(isFn("io", "", "ReadFull")) {
		lo, hi, ok := bounds(cs.Call.Args[1])
		if !ok {
			r.Fail(rule, "socks5.serverHandleMethodSelection:read-range@"+exprStr(cs.Call.Args[1]), cs.Pos(), "undecided: the read does not fill a slice of the handshake buffer")
			continue
		}
		reads = append(reads, [2]linForm{lo, hi})
	}
	okReads := len(reads) == 2 && isLin(reads[0][0], 0, 0) && isLin(reads[0][1], 3, 0) && isLin(reads[1][0], 3, 0) && isLin(reads[1][1], 2, 1)
	r.Check(okReads, rule, "socks5.serverHandleMethodSelection:read-ranges", p.posStr(fc.Body.Pos()), "reads b[:3] and b[3 : 2+NMETHODS]", "the bytes read are not b[:3] followed by b[3 : 2+NMETHODS]: methods are compared that were never received, or received ones skipped")
	// single-method case compares b[2]
	okOne := false
	for _, v := range fc.G.V {
		x, y, op, ok := condParts(v)
		if !ok || y == nil || (op != token.NEQ && op != token.EQL) {
			continue
		}
		for _, pair := range [][2]ast.Expr{{x, y}, {y, x}} {
			if ix, isIx := ast.Unparen(pair[0]).(*ast.IndexExpr); isIx && objOf(info, ix.X) == buf && objOf(info, pair[1]) == fc.ParamObj(2) {
				if k, isC := constInt(info, ix.Index); isC && k == 2 {
					okOne = true
				}
			}
		}
	}
	r.Check(okOne, rule, "socks5.serverHandleMethodSelection:single-method", p.posStr(fc.Body.Pos()), "the single offered method is b[2]", "the single-method case does not compare b[2] with the configured method")
}

// c07R7: a buffer that accumulates one user's credential bytes inside a loop over the users is
// emptied (or fresh) in every iteration before it is consumed: otherwise the token of the i-th
// user is built from the concatenation of users 1..i, which locks the later users out and
// honours another string as theirs.
func c07R7(p *Prog, r *Report) {
	const rule = "C07-R7"
	r.Rule(rule, "per-user credential buffers do not leak across users: in packages httpproxy and socks5, when a byte slice built with append inside a loop is handed to a consumer (encoder, map key, comparison, write) in that loop, following its definitions backwards from the consumer reaches a reset (x = x[:0], a fresh slice) or the empty declaration before it reaches an append of an earlier iteration")
	n := 0
	for _, rel := range []string{"httpproxy", "socks5"} {
		pkg := p.Pkg(rel)
		p.AllFuncs(pkg, func(top *FuncCtx) {
			for _, fc := range allCtxs(p, top) {
				info := fc.Info()
				for _, cs := range fc.AllCalls() {
					// consumers: calls (other than the builders themselves) taking the slice variable
					name := ""
					if id, ok := ast.Unparen(cs.Call.Fun).(*ast.Ident); ok {
						name = id.Name
					} else if cs.Fn != nil {
						name = cs.Fn.Name()
					}
					if name == "append" || name == "len" || name == "cap" || name == "Grow" || name == "copy" {
						continue
					}
					for _, a := range cs.Call.Args {
						o, _ := objOf(info, a).(*types.Var)
						if o == nil || o.IsField() || !isByteSlice(o.Type()) {
							continue
						}
						// only accumulators: some definition is x = append(x, …)
						acc := false
						for _, d := range fc.Defs(o) {
							if isSelfAppend(info, fc.G.V[d].Node, o) {
								acc = true
							}
						}
						if !acc || !inLoop(fc, cs.V) {
							continue
						}
						n++
						carried := accumulatorCarried(fc, o, cs.V)
						r.Check(!carried, rule, fmt.Sprintf("%s:%s-consumed-by-%s", fc.Name, o.Name(), name), cs.Pos(), "the buffer is reset in every iteration before it is filled", "the buffer "+o.Name()+" handed to "+name+" still holds what earlier iterations appended (no reset such as "+o.Name()+" = "+o.Name()+"[:0] on the way): the value built for one user contains the previous users' bytes")
					}
				}
			}
		})
	}
	r.Count("accumulators_consumed_in_loops", n)
	r.Floor(rule, 1)
}

func isByteSlice(t types.Type) bool {
	s, ok := t.Underlying().(*types.Slice)
	if !ok {
		return false
	}
	b, ok := s.Elem().Underlying().(*types.Basic)
	return ok && b.Kind() == types.Byte
}

// isSelfAppend: node is `o = append(o, …)` or `o = slices.Grow(o, …)`.
func isSelfAppend(info *types.Info, n ast.Node, o types.Object) bool {
	as, ok := n.(*ast.AssignStmt)
	if !ok || len(as.Lhs) != 1 || len(as.Rhs) != 1 || objOf(info, as.Lhs[0]) != o {
		return false
	}
	c, ok := ast.Unparen(as.Rhs[0]).(*ast.CallExpr)
	if !ok || len(c.Args) == 0 || objOf(info, c.Args[0]) != o {
		return false
	}
	if id, ok := ast.Unparen(c.Fun).(*ast.Ident); ok && id.Name == "append" {
		return true
	}
	if fn := Callee(info, c); fn != nil && fn.Name() == "Grow" {
		return true
	}
	return false
}

func inLoop(fc *FuncCtx, v int) bool {
	return fc.G.ReachAfter(v, nil, nil)[v]
}

// accumulatorCarried: walking the definitions of o backwards from the use at `at` through
// self-appends meets the same definition twice (the content survives a whole iteration).
func accumulatorCarried(fc *FuncCtx, o types.Object, at int) bool {
	info := fc.Info()
	seen := map[int]bool{}
	var walk func(v int) bool
	walk = func(v int) bool {
		for _, d := range fc.ReachingDefs(v, o) {
			if d == fc.G.Entry {
				continue
			}
			if !isSelfAppend(info, fc.G.V[d].Node, o) {
				continue // a reset or a fresh value: the chain ends here
			}
			if seen[d] {
				return true
			}
			seen[d] = true
			if walk(d) {
				return true
			}
		}
		return false
	}
	return walk(at)
}

// isConversionExpr: e is a conversion T(x); returns x.
func isConversionExpr(info *types.Info, e ast.Expr) (ast.Expr, bool) {
	c, ok := ast.Unparen(e).(*ast.CallExpr)
	if !ok {
		return nil, false
	}
	return isConversion(info, c)
}

// wrapperInnerReads (shared by C07-R4 and C13-R6): see the comment in the body.
func wrapperInnerReads(p *Prog, r *Report, rule string) int {
	// wrapper types that pair a connection with the reader that read ahead of it: every read-side
	// operation on the inner connection (Read, WriteTo — directly or through a type assertion of
	// it) runs only when the reader has nothing buffered; otherwise the read goes through the
	// reader
	nWrap := 0
	for _, rel := range []string{"httpproxy", "socks5"} {
		pkg := p.Pkg(rel)
		p.AllFuncs(pkg, func(fc *FuncCtx) {
			recv := fc.RecvObj()
			if recv == nil {
				return
			}
			rt := recv.Type()
			if pt, isP := rt.Underlying().(*types.Pointer); isP {
				rt = pt.Elem()
			}
			st, ok := rt.Underlying().(*types.Struct)
			if !ok {
				return
			}
			var brField, connField string
			for i := 0; i < st.NumFields(); i++ {
				f := st.Field(i)
				if strings.HasSuffix(f.Type().String(), "bufio.Reader") {
					brField = f.Name()
				}
				if namedTypeName(f.Type()) == "Conn" && connField == "" {
					connField = f.Name()
				}
			}
			if brField == "" || connField == "" || fc.Obj.Name() == "Proceed" {
				return
			}
			info := fc.Info()
			isInner := func(e ast.Expr) bool {
				e = ast.Unparen(e)
				if id, isId := e.(*ast.Ident); isId {
					if o := objOf(info, id); o != nil {
						if rhs, _, _, okd := fc.SoleDefRHS(o); okd {
							e = ast.Unparen(rhs)
						}
					}
				}
				if ta, isTA := e.(*ast.TypeAssertExpr); isTA {
					e = ast.Unparen(ta.X)
				}
				root, path, okp := pathOf(info, e)
				return okp && root == recv && path == "."+connField
			}
			var zero []Edge
			for _, cv := range fc.G.V {
				x, y, op, okc := condParts(cv)
				if !okc || y == nil || !strings.HasSuffix(exprStr(x), "."+brField+".Buffered()") {
					continue
				}
				if k, isC := constInt(info, y); !isC || k != 0 {
					continue
				}
				zeroLabel := -1
				switch op {
				case token.GTR, token.NEQ:
					zeroLabel = LFalse
				case token.EQL, token.LEQ:
					zeroLabel = LTrue
				}
				for _, e := range cv.Succs {
					if e.Label == zeroLabel {
						zero = append(zero, e)
					}
				}
			}
			for _, cs := range fc.AllCalls() {
				sel, isSel := ast.Unparen(cs.Call.Fun).(*ast.SelectorExpr)
				if !isSel || (sel.Sel.Name != "Read" && sel.Sel.Name != "WriteTo") || !isInner(sel.X) {
					continue
				}
				nWrap++
				r.Check(len(zero) > 0 && fc.G.EdgeDominates(zero, cs.V), rule, fmt.Sprintf("%s:inner-%s-only-if-nothing-buffered", fc.Name, sel.Sel.Name), cs.Pos(), "the inner connection is read directly only when the reader has nothing buffered",
					"the wrapper reads from the inner connection ("+exprStr(cs.Call)+") although its bufio.Reader may still hold bytes read ahead during the handshake: those bytes are skipped and the stream that reaches the other side misses its beginning")
			}
		})
	}
	return nWrap
}

// c07R8: option plumbing. The servers and clients of these protocols are built by methods of
// their configuration types; a field of the object being built whose name is the name of a
// configuration option (enableUDP / EnableUDP) must be given that option, not a neighbouring one
// of the same type — a copy-and-paste slip there silently swaps what the handshake permits.
func c07R8(p *Prog, r *Report) {
	const rule = "C07-R8"
	r.Rule(rule, "options reach the field of their name: in the constructors on the configuration types of socks5, httpproxy and ssnone, a field initialised from an option of the configuration receiver takes the option of the same name (ignoring the case of the first letter) whenever the configuration has one")
	n := 0
	for _, rel := range []string{"socks5", "httpproxy", "ssnone"} {
		pkg := p.Pkg(rel)
		p.AllFuncs(pkg, func(top *FuncCtx) {
			recv := top.RecvObj()
			if recv == nil {
				return
			}
			rt := recv.Type()
			if pt, ok := rt.Underlying().(*types.Pointer); ok {
				rt = pt.Elem()
			}
			st, ok := rt.Underlying().(*types.Struct)
			if !ok || !strings.HasSuffix(namedTypeName(rt), "Config") {
				return
			}
			options := map[string]string{} // lower-cased name -> field name
			for i := 0; i < st.NumFields(); i++ {
				options[strings.ToLower(st.Field(i).Name())] = st.Field(i).Name()
			}
			info := top.Info()
			check := func(field string, val ast.Expr, pos token.Pos) {
				sel, ok := ast.Unparen(val).(*ast.SelectorExpr)
				if !ok || objOf(info, sel.X) != recv {
					return
				}
				want, has := options[strings.ToLower(field)]
				if !has {
					return
				}
				n++
				r.Check(sel.Sel.Name == want, rule, fmt.Sprintf("%s:%s-from-%s", top.Name, field, want), p.posStr(pos), field+" takes "+exprStr(val),
					fmt.Sprintf("%s is initialised from %s although the configuration has an option %s: the handshake honours another option than the one the operator set", field, exprStr(val), want))
			}
			ast.Inspect(top.Body, func(x ast.Node) bool {
				switch y := x.(type) {
				case *ast.KeyValueExpr:
					if id, ok := y.Key.(*ast.Ident); ok {
						check(id.Name, y.Value, y.Pos())
					}
				case *ast.AssignStmt:
					if len(y.Lhs) == len(y.Rhs) {
						for i, l := range y.Lhs {
							if sel, ok := ast.Unparen(l).(*ast.SelectorExpr); ok {
								check(sel.Sel.Name, y.Rhs[i], y.Pos())
							}
						}
					}
				}
				return true
			})
		})
	}
	r.Count("option_to_field_initialisations", n)
	r.Floor(rule, 6)
}

// builtTypesReturned: the type of the composite literal a one-line constructor returns.
func builtTypesReturned(cf *FuncCtx) string {
	out := ""
	for _, rv := range cf.Returns() {
		rs := cf.G.V[rv].Node.(*ast.ReturnStmt)
		if len(rs.Results) != 1 {
			return ""
		}
		e := ast.Unparen(rs.Results[0])
		if ue, ok := e.(*ast.UnaryExpr); ok && ue.Op == token.AND {
			e = ast.Unparen(ue.X)
		}
		if _, ok := e.(*ast.CompositeLit); !ok {
			return ""
		}
		t := cf.Info().TypeOf(rs.Results[0])
		if t == nil {
			return ""
		}
		s := types.TypeString(t, func(*types.Package) string { return "" })
		if out != "" && out != s {
			return ""
		}
		out = s
	}
	return out
}

// c07R9: the connection a handshake hands back is the connection that is used from then on. A
// handshake function that takes a connection and returns a connection (plus an error) may return
// a wrapper that still holds bytes read ahead of the reply (httpproxy.ClientConnect does when the
// server spoke first). A caller that goes on with the connection it passed in, instead of the one
// it got back, loses exactly those bytes — only when the peer's first data arrives in the same
// segment as the reply, which no test through the in-memory pipe produces.
func c07R9(p *Prog, r *Report) {
	const rule = "C07-R9"
	r.Rule(rule, "the connection returned by a handshake is the one handed on: in a function that calls a handshake function of the module taking a connection and returning (connection, error), where some successful return of that handshake yields something other than its bare parameter, every successful return of a connection yields the handshake's result (through copies), never the connection that was passed in or any other one")
	isConn := func(t types.Type) bool { return namedTypeName(t) == "Conn" }
	mayWrapMemo := map[*types.Func]bool{}
	mayWrap := func(fn *types.Func) bool {
		if v, ok := mayWrapMemo[fn]; ok {
			return v
		}
		res := false
		defer func() { mayWrapMemo[fn] = res }()
		if fn.Pkg() == nil || !strings.HasPrefix(fn.Pkg().Path(), modPath) {
			return false
		}
		sig := fn.Type().(*types.Signature)
		if sig.Results().Len() != 2 || !isConn(sig.Results().At(0).Type()) || sig.Results().At(1).Type().String() != "error" {
			return false
		}
		var params []types.Object
		for i := 0; i < sig.Params().Len(); i++ {
			if isConn(sig.Params().At(i).Type()) {
				params = append(params, sig.Params().At(i))
			}
		}
		if len(params) == 0 {
			return false
		}
		hc := p.CtxOfObj(fn)
		if hc == nil {
			return false
		}
		info := hc.Info()
		for _, ret := range hc.Returns() {
			rs, ok := hc.G.V[ret].Node.(*ast.ReturnStmt)
			if !ok || len(rs.Results) != 2 || hc.ErrAtReturn(ret) == ErrNonNil {
				continue
			}
			bare := false
			if o := objOf(info, hc.Resolve(rs.Results[0])); o != nil {
				for _, pr := range params {
					if o == pr {
						bare = true
					}
				}
			}
			if o := objOf(info, rs.Results[0]); o != nil {
				for _, pr := range params {
					if o == pr {
						bare = true
					}
				}
			}
			if !bare {
				res = true
			}
		}
		return res
	}
	n := 0
	for _, rel := range []string{"httpproxy", "socks5", "ssnone"} {
		pkg := p.Pkg(rel)
		p.AllFuncs(pkg, func(top *FuncCtx) {
			info := top.Info()
			var got []types.Object
			var where []string
			for _, fc := range allCtxs(p, top) {
				for _, cs := range fc.CallsTo(mayWrap) {
					where = append(where, cs.Pos())
					if o := cs.ResultVar(0); o != nil {
						got = append(got, o)
					}
				}
			}
			if len(where) == 0 {
				return
			}
			isGot := func(o types.Object) bool {
				for _, g := range got {
					if o == g {
						return true
					}
				}
				return false
			}
			var ft *ast.FuncType
			if top.Decl != nil {
				ft = top.Decl.Type
			}
			for _, ret := range top.Returns() {
				if top.ErrAtReturn(ret) == ErrNonNil {
					continue
				}
				rs, ok := top.G.V[ret].Node.(*ast.ReturnStmt)
				if !ok {
					continue
				}
				var vals []ast.Expr
				if len(rs.Results) > 0 {
					vals = rs.Results
				} else if ft != nil && ft.Results != nil {
					for _, f := range ft.Results.List {
						for _, nm := range f.Names {
							vals = append(vals, nm)
						}
					}
				}
				for _, e := range vals {
					tv := info.TypeOf(e)
					if tv == nil || !isConn(tv) || isNilExpr(info, e) {
						continue
					}
					n++
					o := objOf(info, e)
					okv := o != nil && isGot(o)
					if !okv && o != nil {
						// a local that is a plain copy of the handshake's result
						if rhs, _, _, sole := top.SoleDefRHS(o); sole {
							if o2 := objOf(info, rhs); o2 != nil && isGot(o2) {
								okv = true
							}
						}
					}
					if !okv {
						// the handshake call itself returned directly
						if c, isCall := ast.Unparen(e).(*ast.CallExpr); isCall {
							if fn := Callee(info, c); fn != nil && mayWrap(fn) {
								okv = true
							}
						}
					}
					r.Check(okv, rule, fmt.Sprintf("%s:continues-with-handshake-result:%s", top.Name, roleOf(top, e)), p.posStr(rs.Pos()), "the returned connection is the handshake's result",
						"the function performs a handshake that returns the connection to continue with ("+strings.Join(where, ", ")+") but its successful return yields "+exprStr(e)+", not that result: when the handshake wrapped the connection because the peer's first bytes arrived together with the reply, those bytes are lost")
				}
			}
		})
	}
	r.Count("handshake_result_returns", n)
	r.Floor(rule, 1)
}
