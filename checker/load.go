package main

import (
	"bytes"
	"fmt"
	"go/ast"
	"go/parser"
	"go/printer"
	"go/token"
	"go/types"
	"os"
	"path/filepath"
	"sort"
	"strings"

	"golang.org/x/tools/go/packages"
	"golang.org/x/tools/go/types/typeutil"
)

const modPath = "github.com/database64128/shadowsocks-go"

var repoDir = "/repo"

type Prog struct {
	Fset    *token.FileSet
	Pkgs    map[string]*packages.Package // by import path
	All     []*packages.Package
	funcs   map[*types.Func]*FuncCtx
	lits    map[*ast.FuncLit]*FuncCtx
	NFuncs  int
	Overlay map[string][]byte
	funcsInl map[*types.Func]*FuncCtx
	// KeepCalls: names ("pkgrel.Recv.name" or "pkgrel.name") of helpers that are never expanded
	// because rules of the running property anchor on calls to them
	KeepCalls map[string]bool
	// AnchorsInlined: Func/LookupFunc return the variant with unexported helpers expanded
	AnchorsInlined bool
	litsInl  map[*ast.FuncLit]*FuncCtx
	Inline  bool // expand statement-level calls to same-package helpers before building graphs (inline.go)
}

// FuncCtx is a function declaration or literal with its graph.
type FuncCtx struct {
	Prog   *Prog
	Pkg    *packages.Package
	Decl   *ast.FuncDecl
	Lit    *ast.FuncLit
	Obj    *types.Func // nil for literals
	Parent *FuncCtx    // for literals
	Body   *ast.BlockStmt
	G      *Graph
	Name   string
	Inl    bool // body has helper calls expanded (inline.go)
}

func goEnv() []string {
	env := os.Environ()
	out := env[:0:0]
	for _, e := range env {
		if strings.HasPrefix(e, "PATH=") || strings.HasPrefix(e, "GOWORK=") || strings.HasPrefix(e, "GOFLAGS=") ||
			strings.HasPrefix(e, "GOTOOLCHAIN=") || strings.HasPrefix(e, "GOPROXY=") || strings.HasPrefix(e, "GOSUMDB=") {
			continue
		}
		out = append(out, e)
	}
	out = append(out,
		"PATH=/opt/veriftools/go1.26.8/bin:"+os.Getenv("PATH"),
		"GOWORK=off", "GOFLAGS=-mod=mod", "GOTOOLCHAIN=local", "GOPROXY=off", "GOSUMDB=off")
	return out
}

// Load type-checks the given package patterns (relative to the repo) with full syntax.
// extraEnv may carry GOOS/GOARCH. Any load or type error is fatal (exit 2): a tree that
// does not type-check is never reported as "held".
func Load(mode packages.LoadMode, overlay map[string][]byte, extraEnv []string, patterns ...string) *Prog {
	p, err := LoadE(mode, overlay, extraEnv, patterns...)
	if err != nil {
		fatalf("%v", err)
	}
	return p
}

// LoadE is Load returning errors instead of exiting (used for overlay mutants that may not compile).
func LoadE(mode packages.LoadMode, overlay map[string][]byte, extraEnv []string, patterns ...string) (*Prog, error) {
	fset := token.NewFileSet()
	cfg := &packages.Config{
		Mode:    mode,
		Dir:     repoDir,
		Fset:    fset,
		Env:     append(goEnv(), extraEnv...),
		Tests:   false,
		Overlay: overlay,
	}
	pkgs, err := packages.Load(cfg, patterns...)
	if err != nil {
		return nil, fmt.Errorf("load: %v", err)
	}
	p := &Prog{Fset: fset, Pkgs: map[string]*packages.Package{}, funcs: map[*types.Func]*FuncCtx{}, lits: map[*ast.FuncLit]*FuncCtx{}, Overlay: overlay}
	nerr := 0
	packages.Visit(pkgs, nil, func(pkg *packages.Package) {
		for _, e := range pkg.Errors {
			if overlay == nil {
				fmt.Fprintf(os.Stderr, "load error: %s: %v\n", pkg.PkgPath, e)
			}
			nerr++
		}
		p.Pkgs[pkg.PkgPath] = pkg
	})
	if nerr > 0 {
		return nil, fmt.Errorf("load: %d package errors", nerr)
	}
	if len(pkgs) == 0 {
		return nil, fmt.Errorf("load: no packages matched %v", patterns)
	}
	p.All = pkgs
	sort.Slice(p.All, func(i, j int) bool { return p.All[i].PkgPath < p.All[j].PkgPath })
	for _, pkg := range pkgs {
		if pkg.Syntax == nil || pkg.TypesInfo == nil {
			return nil, fmt.Errorf("load: package %s has no syntax/type info", pkg.PkgPath)
		}
		for _, f := range pkg.Syntax {
			for _, d := range f.Decls {
				if fd, ok := d.(*ast.FuncDecl); ok && fd.Body != nil {
					p.NFuncs++
				}
			}
		}
	}
	return p, nil
}

// anchorPanic is raised by Func when an anchor does not resolve while analysing a mutant.
type anchorPanic struct{ msg string }

var inMutant bool

func fatalf(format string, args ...any) {
	if inMutant {
		panic(anchorPanic{fmt.Sprintf(format, args...)})
	}
	fmt.Fprintf(os.Stderr, "ssverif: fatal: "+format+"\n", args...)
	os.Exit(2)
}

// Pkg returns a module package by its path relative to the module root ("" = root).
func (p *Prog) Pkg(rel string) *packages.Package {
	path := modPath
	if rel != "" {
		path += "/" + rel
	}
	pkg := p.Pkgs[path]
	if pkg == nil || pkg.Syntax == nil {
		fatalf("anchor: package %s not loaded", path)
	}
	return pkg
}

// LookupFunc finds a function or method. recv is the bare type name ("" for functions).
// Returns nil if not found.
func (p *Prog) LookupFunc(rel, recv, name string) *FuncCtx {
	pkg := p.Pkg(rel)
	for _, f := range pkg.Syntax {
		for _, d := range f.Decls {
			fd, ok := d.(*ast.FuncDecl)
			if !ok || fd.Name.Name != name || fd.Body == nil {
				continue
			}
			if recv == "" {
				if fd.Recv != nil {
					continue
				}
			} else {
				if fd.Recv == nil || len(fd.Recv.List) != 1 || recvTypeName(fd.Recv.List[0].Type) != recv {
					continue
				}
			}
			if p.AnchorsInlined {
				return p.ctxOfDeclMode(pkg, fd, true)
			}
			return p.ctxOfDecl(pkg, fd)
		}
	}
	return nil
}

// Func is LookupFunc that treats a missing function as a broken anchor (fatal, exit 2).
func (p *Prog) Func(rel, recv, name string) *FuncCtx {
	fc := p.LookupFunc(rel, recv, name)
	if fc == nil {
		fatalf("anchor: function %s.(%s).%s not found — the rule's anchor no longer resolves", rel, recv, name)
	}
	return fc
}

func recvTypeName(e ast.Expr) string {
	for {
		switch x := e.(type) {
		case *ast.StarExpr:
			e = x.X
		case *ast.ParenExpr:
			e = x.X
		case *ast.IndexExpr:
			e = x.X
		case *ast.IndexListExpr:
			e = x.X
		case *ast.Ident:
			return x.Name
		default:
			return ""
		}
	}
}

func (p *Prog) ctxOfDecl(pkg *packages.Package, fd *ast.FuncDecl) *FuncCtx {
	return p.ctxOfDeclMode(pkg, fd, p.Inline)
}

// Inlined returns the variant of fc whose body has statement-level calls to unexported
// same-package helpers expanded (see inline.go). Path rules that must not depend on how a
// function is split into helpers use it.
func (p *Prog) Inlined(fc *FuncCtx) *FuncCtx {
	if fc == nil || fc.Inl {
		return fc
	}
	if fc.Decl != nil {
		return p.ctxOfDeclMode(fc.Pkg, fc.Decl, true)
	}
	if fc.Lit != nil && fc.Parent != nil {
		return p.LitCtx(p.Inlined(fc.Parent), fc.Lit)
	}
	return fc
}

func (p *Prog) ctxOfDeclMode(pkg *packages.Package, fd *ast.FuncDecl, inl bool) *FuncCtx {
	obj, _ := pkg.TypesInfo.Defs[fd.Name].(*types.Func)
	cache := p.funcs
	if inl {
		if p.funcsInl == nil {
			p.funcsInl = map[*types.Func]*FuncCtx{}
		}
		cache = p.funcsInl
	}
	if fc, ok := cache[obj]; ok && obj != nil {
		return fc
	}
	name := fd.Name.Name
	if fd.Recv != nil && len(fd.Recv.List) == 1 {
		name = "(" + exprStr(fd.Recv.List[0].Type) + ")." + name
	}
	body := fd.Body
	if inl {
		body = p.InlineBody(pkg, fd.Body, obj)
	}
	fc := &FuncCtx{Prog: p, Pkg: pkg, Decl: fd, Obj: obj, Body: body, Name: relPkg(pkg.PkgPath) + "." + name, Inl: inl}
	fc.G = BuildGraph(body, pkg.TypesInfo, func(c *ast.CallExpr) bool { return isNoReturn(pkg.TypesInfo, c) })
	if obj != nil {
		cache[obj] = fc
	}
	return fc
}

// CtxOfObj returns the FuncCtx of a module function object with a body, or nil.
func (p *Prog) CtxOfObj(fn *types.Func) *FuncCtx {
	if fn == nil {
		return nil
	}
	fn = fn.Origin()
	if fc, ok := p.funcs[fn]; ok {
		return fc
	}
	if fn.Pkg() == nil {
		return nil
	}
	pkg := p.Pkgs[fn.Pkg().Path()]
	if pkg == nil || pkg.Syntax == nil {
		return nil
	}
	for _, f := range pkg.Syntax {
		if f.Pos() <= fn.Pos() && fn.Pos() <= f.End() {
			for _, d := range f.Decls {
				if fd, ok := d.(*ast.FuncDecl); ok && fd.Body != nil && pkg.TypesInfo.Defs[fd.Name] == fn {
					return p.ctxOfDecl(pkg, fd)
				}
			}
		}
	}
	// the object may come from another copy of the package's type information (overlay re-check): match by name
	want := fn.FullName()
	for _, f := range pkg.Syntax {
		for _, d := range f.Decls {
			if fd, ok := d.(*ast.FuncDecl); ok && fd.Body != nil && fd.Name.Name == fn.Name() {
				if o, ok := pkg.TypesInfo.Defs[fd.Name].(*types.Func); ok && o.FullName() == want {
					return p.ctxOfDecl(pkg, fd)
				}
			}
		}
	}
	return nil
}

// LitCtx returns the FuncCtx for a function literal found inside parent.
func (p *Prog) LitCtx(parent *FuncCtx, lit *ast.FuncLit) *FuncCtx {
	litCache := p.lits
	if parent.Inl {
		if p.litsInl == nil {
			p.litsInl = map[*ast.FuncLit]*FuncCtx{}
		}
		litCache = p.litsInl
	}
	if fc, ok := litCache[lit]; ok {
		return fc
	}
	body := lit.Body
	if parent.Inl {
		var self *types.Func
		for pp := parent; pp != nil; pp = pp.Parent {
			if pp.Obj != nil {
				self = pp.Obj
			}
		}
		body = p.InlineBody(parent.Pkg, lit.Body, self)
	}
	fc := &FuncCtx{Prog: p, Pkg: parent.Pkg, Lit: lit, Parent: parent, Body: body,
		Name: parent.Name + "$lit@" + p.posStr(lit.Pos()), Inl: parent.Inl}
	fc.G = BuildGraph(body, parent.Pkg.TypesInfo, func(c *ast.CallExpr) bool { return isNoReturn(parent.Pkg.TypesInfo, c) })
	litCache[lit] = fc
	return fc
}

// AllFuncs calls fn for every function declaration with a body in the given package.
func (p *Prog) AllFuncs(pkg *packages.Package, fn func(fc *FuncCtx)) {
	for _, f := range pkg.Syntax {
		for _, d := range f.Decls {
			if fd, ok := d.(*ast.FuncDecl); ok && fd.Body != nil {
				fn(p.ctxOfDecl(pkg, fd))
			}
		}
	}
}

// Lits returns the function literals directly inside fc (not nested in other literals),
// in source order.
func (fc *FuncCtx) Lits() []*ast.FuncLit {
	var out []*ast.FuncLit
	ast.Inspect(fc.Body, func(n ast.Node) bool {
		if l, ok := n.(*ast.FuncLit); ok {
			out = append(out, l)
			return false
		}
		return true
	})
	return out
}

func (fc *FuncCtx) Info() *types.Info { return fc.Pkg.TypesInfo }

func relPkg(path string) string {
	if path == modPath {
		return "."
	}
	return strings.TrimPrefix(path, modPath+"/")
}

func (p *Prog) posStr(pos token.Pos) string {
	ps := p.Fset.Position(pos)
	rel, err := filepath.Rel(repoDir, ps.Filename)
	if err != nil {
		rel = ps.Filename
	}
	return fmt.Sprintf("%s:%d", rel, ps.Line)
}

func exprStr(e ast.Node) string {
	if e == nil {
		return "<nil>"
	}
	var buf bytes.Buffer
	printer.Fprint(&buf, token.NewFileSet(), e)
	s := buf.String()
	s = strings.Join(strings.Fields(s), " ")
	if len(s) > 160 {
		s = s[:157] + "..."
	}
	return s
}

// fullStr prints a node without truncation.
func fullStr(e ast.Node) string {
	if e == nil {
		return "<nil>"
	}
	var buf bytes.Buffer
	printer.Fprint(&buf, token.NewFileSet(), e)
	return strings.Join(strings.Fields(buf.String()), " ")
}

func nodeStr(fset *token.FileSet, n ast.Node) string { return exprStr(n) }

// isNoReturn reports calls that never return: panic, os.Exit, log.Fatal*, (*zap.Logger).Fatal/Panic.
func isNoReturn(info *types.Info, call *ast.CallExpr) bool {
	if id, ok := ast.Unparen(call.Fun).(*ast.Ident); ok {
		if b, ok := info.Uses[id].(*types.Builtin); ok && b.Name() == "panic" {
			return true
		}
	}
	fn := typeutil.StaticCallee(info, call)
	if fn == nil || fn.Pkg() == nil {
		return false
	}
	switch fn.Pkg().Path() {
	case "os":
		return fn.Name() == "Exit"
	case "log":
		return strings.HasPrefix(fn.Name(), "Fatal") || strings.HasPrefix(fn.Name(), "Panic")
	case "go.uber.org/zap":
		return fn.Name() == "Fatal" || fn.Name() == "Panic"
	}
	return false
}

// Callee resolves the called function/method object of a call (static or interface method), or nil.
func Callee(info *types.Info, call *ast.CallExpr) *types.Func {
	fn, _ := typeutil.Callee(info, call).(*types.Func)
	return fn
}

// funcIs reports whether fn is pkgPath.name (function) or a method name on type recv of pkgPath.
func funcIs(fn *types.Func, pkgPath, recv, name string) bool {
	if fn == nil || fn.Name() != name {
		return false
	}
	fn = fn.Origin()
	if fn.Pkg() == nil || fn.Pkg().Path() != pkgPath {
		return false
	}
	sig := fn.Type().(*types.Signature)
	if recv == "" {
		return sig.Recv() == nil
	}
	if sig.Recv() == nil {
		return false
	}
	return namedTypeName(sig.Recv().Type()) == recv
}

func namedTypeName(t types.Type) string {
	if p, ok := t.(*types.Pointer); ok {
		t = p.Elem()
	}
	switch n := t.(type) {
	case *types.Named:
		return n.Obj().Name()
	case *types.Alias:
		return n.Obj().Name()
	}
	return ""
}

// namedTypePkg returns the package path of a (pointer to) named type.
func namedTypePkg(t types.Type) string {
	if p, ok := t.(*types.Pointer); ok {
		t = p.Elem()
	}
	if n, ok := t.(*types.Named); ok && n.Obj().Pkg() != nil {
		return n.Obj().Pkg().Path()
	}
	return ""
}

func mp(rel string) string {
	if rel == "" {
		return modPath
	}
	return modPath + "/" + rel
}

// Recheck re-parses and re-type-checks base's root packages with the given file overlay,
// entirely in memory: imports outside the roots are satisfied by the type information base
// already holds, roots importing an edited root are re-checked against the edited one.
func Recheck(base *Prog, overlay map[string][]byte) (*Prog, error) {
	fset := base.Fset // append-only: re-parsed files are added under the same names
	np := &Prog{Fset: fset, Pkgs: map[string]*packages.Package{}, funcs: map[*types.Func]*FuncCtx{}, lits: map[*ast.FuncLit]*FuncCtx{}, Overlay: overlay, Inline: base.Inline, AnchorsInlined: base.AnchorsInlined, KeepCalls: base.KeepCalls}
	known := map[string]*types.Package{}
	var walk func(tp *types.Package)
	walk = func(tp *types.Package) {
		if tp == nil || known[tp.Path()] != nil {
			return
		}
		known[tp.Path()] = tp
		for _, ip := range tp.Imports() {
			walk(ip)
		}
	}
	for _, pkg := range base.All {
		walk(pkg.Types)
	}
	var firstErr error
	for _, pkg := range base.All {
		edited := false
		for _, fn := range pkg.CompiledGoFiles {
			if _, ok := overlay[fn]; ok {
				edited = true
			}
		}
		if !edited {
			// untouched root: reuse as is (its references to an edited package keep pointing at the
			// unedited type objects; cross-package matching in the rules is by name)
			np.Pkgs[pkg.PkgPath] = pkg
			np.All = append(np.All, pkg)
			continue
		}
		var files []*ast.File
		for _, fn := range pkg.CompiledGoFiles {
			var src any
			if b, ok := overlay[fn]; ok {
				src = b
			}
			f, err := parser.ParseFile(fset, fn, src, parser.ParseComments|parser.SkipObjectResolution)
			if err != nil {
				return nil, err
			}
			files = append(files, f)
		}
		info := &types.Info{
			Types: map[ast.Expr]types.TypeAndValue{}, Defs: map[*ast.Ident]types.Object{}, Uses: map[*ast.Ident]types.Object{},
			Implicits: map[ast.Node]types.Object{}, Instances: map[*ast.Ident]types.Instance{}, Scopes: map[ast.Node]*types.Scope{},
			Selections: map[*ast.SelectorExpr]*types.Selection{}, FileVersions: map[*ast.File]string{},
		}
		conf := types.Config{
			Sizes:     pkg.TypesSizes,
			GoVersion: "go1.26",
			Importer: importerFunc(func(path string) (*types.Package, error) {
				if path == "unsafe" {
					return types.Unsafe, nil
				}
				if tp, ok := known[path]; ok {
					return tp, nil
				}
				return nil, fmt.Errorf("import %s not available", path)
			}),
			Error: func(err error) {
				if firstErr == nil {
					firstErr = err
				}
			},
		}
		tp, _ := conf.Check(pkg.PkgPath, fset, files, info)
		npkg := &packages.Package{ID: pkg.ID, Name: pkg.Name, PkgPath: pkg.PkgPath, CompiledGoFiles: pkg.CompiledGoFiles, GoFiles: pkg.GoFiles,
			Syntax: files, Types: tp, TypesInfo: info, TypesSizes: pkg.TypesSizes, Fset: fset}
		np.Pkgs[pkg.PkgPath] = npkg
		np.All = append(np.All, npkg)
	}
	if firstErr != nil {
		return nil, firstErr
	}
	sort.Slice(np.All, func(i, j int) bool { return np.All[i].PkgPath < np.All[j].PkgPath })
	np.NFuncs = base.NFuncs
	return np, nil
}

type importerFunc func(path string) (*types.Package, error)

func (f importerFunc) Import(path string) (*types.Package, error) { return f(path) }
