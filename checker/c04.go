package main

import (
	"fmt"
	"go/ast"
	"go/token"
	"go/types"
	"strings"
)

func init() {
	register(&PropCheck{ID: "C04", Pkgs: []string{"./ss2022"}, Run: runC04})
}

func runC04(p *Prog, r *Report) {
	r.Explanation = "Structural necessary conditions of 'authenticated UDP packets are delivered at most once; fresh ones never refused': the replay filter is consulted before and updated only after the AEAD open and the message-header validation succeeded, on the same packet ID and on the session's own filter; failing packets change no unpacker state; the client's server-session switch is throttled, moves the current session's (ID, cipher, filter) triple to the old slot intact, and the throttle covers the replay window; message-header parsers enforce type, timestamp and client session ID; the two implementations of the sliding window (IsOk+MustAdd and Add) agree formula by formula and clear exactly the ring blocks between the old and new newest block."
	r.NotDecided = []string{"the sliding-window arithmetic as values over all ID sequences (only formula agreement between siblings and with the block-index form)", "allocation behaviour", "time.Since against a real clock"}
	r.Assumptions = []string{"cipher.AEAD.Open fails on any forged or altered packet", "one goroutine drives one unpacker (the relay's per-session ownership, C11)"}
	c04R1R2(p, r)
	c04R3(p, r)
	c04R4(p, r)
	c04R5(p, r)
	c04R6(p, r)
}

type unpackSite struct {
	recv string
	pid  string // name hint only for messages
}

func c04R1R2(p *Prog, r *Report) {
	const r1 = "C04-R1"
	const r2 = "C04-R2"
	r.Rule(r1, "the replay filter is updated only by authenticated, validated packets: MustAdd and NewSlidingWindowFilter are reached only on the err == nil edges of the AEAD open and of the message-header parser; when a filter exists the open is reached only on the IsOk(id) == true edge for the same packet ID later passed to MustAdd, on the same filter; a refused ID is an error")
	r.Rule(r2, "failing packets are effect-free: every store to a field of the unpacker is reached only after the AEAD open and the header parse succeeded, so forged, stale, wrong-type or foreign-session packets cannot change which later packets are accepted")
	for _, recv := range []string{"ShadowPacketClientUnpacker", "ShadowPacketServerUnpacker"} {
		fc := p.Inlined(p.Func("ss2022", recv, "UnpackInPlace"))
		info := fc.Info()
		prefix := "ss2022.(*" + recv + ").UnpackInPlace"
		var open, parse *CallSite
		var isoks, mustadds, news []CallSite
		for _, cs := range fc.AllCalls() {
			if cs.Fn == nil {
				continue
			}
			switch {
			case cs.Fn.Name() == "Open" && cs.Fn.Pkg() != nil && cs.Fn.Pkg().Path() == "crypto/cipher":
				c := cs
				open = &c
			case strings.HasPrefix(cs.Fn.Name(), "ParseUDP") && strings.HasSuffix(cs.Fn.Name(), "MessageHeader"):
				c := cs
				parse = &c
			case cs.Fn.Name() == "IsOk" && namedTypeName(recvTypeOf(cs.Fn)) == "SlidingWindowFilter":
				isoks = append(isoks, cs)
			case cs.Fn.Name() == "MustAdd" && namedTypeName(recvTypeOf(cs.Fn)) == "SlidingWindowFilter":
				mustadds = append(mustadds, cs)
			case cs.Fn.Name() == "Add" && namedTypeName(recvTypeOf(cs.Fn)) == "SlidingWindowFilter":
				mustadds = append(mustadds, cs)
			case cs.Fn.Name() == "NewSlidingWindowFilter":
				news = append(news, cs)
			}
		}
		if open == nil || parse == nil || len(isoks) != 1 || len(mustadds) != 1 {
			r.Fail(r1, prefix+":shape", p.posStr(fc.Body.Pos()), fmt.Sprintf("expected one AEAD open, one header parse, one IsOk and one MustAdd; found open=%v parse=%v IsOk=%d MustAdd=%d", open != nil, parse != nil, len(isoks), len(mustadds)))
			continue
		}
		isok, madd := isoks[0], mustadds[0]
		// parse input is the plaintext of the open, on its success edge
		pl := objOf(info, parse.Call.Args[0])
		r.Check(pl != nil && pl == open.ResultVar(0) && open.SuccessGuards(parse.V), r1, prefix+":parses-authenticated-plaintext", parse.Pos(), "the header parsed is the plaintext of the successful open", "the message header is parsed from bytes that were not (successfully) authenticated")
		for _, cs := range append(append([]CallSite{}, mustadds...), news...) {
			r.Check(open.SuccessGuards(cs.V) && parse.SuccessGuards(cs.V), r1, fmt.Sprintf("%s:%s-after-open-and-parse", prefix, cs.Fn.Name()), cs.Pos(),
				"reached only after the open and the header validation succeeded", cs.Fn.Name()+" is reachable for a packet that failed authentication or header validation: a forged or stale packet burns IDs (genuine packets are then refused) or creates filter state")
		}
		// same packet id
		idA, idB := objOf(info, isok.Call.Args[0]), objOf(info, madd.Call.Args[0])
		_, _, _, single := fc.SoleDefRHS(idA)
		r.Check(idA != nil && idA == idB && single, r1, prefix+":same-packet-id", madd.Pos(), "IsOk and MustAdd receive the same, once-defined packet ID variable", "the ID checked and the ID recorded differ")
		// packet id provenance: Uint64 of separateHeader[8:]
		if idA != nil {
			rhs, idx, _, ok := fc.SoleDefRHS(idA)
			good := false
			rinfo := info
			if ok {
				if idx >= 0 {
					// the ID is a result of a decoding helper of this package: look at what that
					// result is inside the helper
					if c, isCall := ast.Unparen(rhs).(*ast.CallExpr); isCall {
						if e, ei, ok2 := soleResultExpr(p, info, c, idx); ok2 {
							rhs, rinfo = e, ei
						}
					}
				}
				if c, isCall := ast.Unparen(rhs).(*ast.CallExpr); isCall && len(c.Args) == 1 {
					if fn := Callee(rinfo, c); fn != nil && fn.Name() == "Uint64" {
						if sl, isSl := ast.Unparen(c.Args[0]).(*ast.SliceExpr); isSl && sl.Low != nil && sl.High == nil {
							if k, isC := constInt(rinfo, sl.Low); isC && k == 8 {
								good = true
							}
						}
					}
				}
			}
			r.Check(good, r1, prefix+":packet-id-is-header-field", p.posStr(fc.Body.Pos()), "the packet ID is the big-endian uint64 at offset 8 of the separate header", "the packet ID is not read from offset 8 of the separate header")
		}
		// same filter
		fA := ast.Unparen(isok.Call.Fun).(*ast.SelectorExpr).X
		fB := ast.Unparen(madd.Call.Fun).(*ast.SelectorExpr).X
		r.Check(samePathOrObj(fc, fA, fB), r1, prefix+":same-filter", madd.Pos(), "IsOk and MustAdd act on the same filter expression", "the filter consulted is not the filter updated")
		// open is reached only via (filter == nil) or IsOk true
		var pass []Edge
		pass = append(pass, isok.ResultEdges(0, WantTrue)...)
		pass = append(pass, fc.TestEdges(func(e ast.Expr) bool { return samePathOrObj(fc, e, fA) }, WantNil)...)
		r.Check(fc.G.EdgeDominates(pass, open.V), r1, prefix+":open-only-if-id-acceptable", open.Pos(), "the open is reached only when no filter exists yet or IsOk(id) is true", "a packet whose ID the filter refuses can still be opened and delivered: replays are accepted")
		// IsOk false → error
		bad := ""
		fe := isok.ResultEdges(0, WantFalse)
		if len(fe) == 0 {
			bad = "the result of IsOk is not tested"
		}
		for _, e := range fe {
			reach := fc.G.Reach([]int{e.To}, nil, nil)
			for _, ret := range fc.ExitPreds() {
				if reach[ret] && fc.ErrAtReturn(ret) != ErrNonNil {
					bad = "a refused packet ID can reach a return without error"
				}
			}
		}
		r.Check(bad == "", r1, prefix+":refused-id-is-error", isok.Pos(), "IsOk == false ends in an error", bad)
		// success returns are guarded by the MustAdd
		for _, ret := range fc.Returns() {
			if fc.ErrAtReturn(ret) == ErrNonNil {
				continue
			}
			if open.SuccessGuards(ret) && parse.SuccessGuards(ret) {
				r.Check(fc.G.Dominates([]int{madd.V}, ret), r1, prefix+":delivered-implies-recorded", p.posStr(fc.G.V[ret].Node.Pos()), "every delivering return has recorded the ID", "a packet can be delivered without its ID being recorded: the same packet is delivered again")
			}
		}
		// filter created lazily: New... guarded by filter==nil / new-session status — at least after validation (above)
		// R2: stores to receiver fields
		recvObj := fc.RecvObj()
		nStores := 0
		for _, v := range fc.G.V {
			if v.Node == nil {
				continue
			}
			w := writeTargets(info, v.Node)
			for sel := range w {
				root, _, ok := pathOf(info, sel)
				if !ok || root != recvObj {
					continue
				}
				// reviewed exception: the socks5.DomainCache is a pure string-interning cache handed to the parser
				// (it never influences which packets are accepted)
				if tv, ok := info.Types[sel]; ok && namedTypeName(tv.Type) == "DomainCache" {
					continue
				}
				nStores++
				construct := fmt.Sprintf("%s:store:%s", prefix, exprStr(sel))
				r.Check(open.SuccessGuards(v.ID) && parse.SuccessGuards(v.ID), r2, construct, p.posStr(sel.Pos()), "after open + header validation succeeded", "unpacker state "+exprStr(sel)+" is modified on a path where the packet may have failed authentication or validation")
			}
		}
		// method calls that mutate fields of the receiver's filter before validation (anything other than IsOk)
		for _, cs := range fc.AllCalls() {
			if cs.Fn == nil || namedTypeName(recvTypeOf(cs.Fn)) != "SlidingWindowFilter" || cs.Fn.Name() == "IsOk" || cs.Fn.Name() == "Size" {
				continue
			}
			nStores++
			r.Check(open.SuccessGuards(cs.V) && parse.SuccessGuards(cs.V), r2, fmt.Sprintf("%s:filter-mutation:%s", prefix, cs.Fn.Name()), cs.Pos(), "after open + header validation succeeded", "the filter is mutated by "+cs.Fn.Name()+" before the packet is validated")
		}
		r.Count("unpacker_state_stores", nStores)
	}
	// IsOk itself must be read-only
	iso := p.Func("ss2022", "SlidingWindowFilter", "IsOk")
	w := 0
	for _, fa := range iso.FieldAccesses(mp("ss2022"), "SlidingWindowFilter", nil) {
		if fa.Write {
			w++
		}
	}
	r.Check(w == 0, r2, "ss2022.(*SlidingWindowFilter).IsOk:read-only", p.posStr(iso.Body.Pos()), "IsOk writes no filter state", "IsOk modifies the filter: merely checking a forged packet changes later acceptance")
	r.Floor(r1, 18)
	r.Floor(r2, 10)
}

func c04R3(p *Prog, r *Report) {
	const rule = "C04-R3"
	r.Rule(rule, "server-session change on the client: a packet for an unknown server session is considered only past the false edge of the throttle test time.Since(oldServerSessionLastSeenTime) < window with window >= the replay window; on acceptance the current session's ID, cipher and filter move to the old slot each from its own current field before the current slot is overwritten, the last-seen time is refreshed for old-session and new-session packets, and the new session's filter is a fresh one")
	fc := p.Inlined(p.Func("ss2022", "ShadowPacketClientUnpacker", "UnpackInPlace"))
	info := fc.Info()
	recv := fc.RecvObj()
	prefix := "ss2022.(*ShadowPacketClientUnpacker).UnpackInPlace"
	// throttle condition
	var throttleFalse []Edge
	var windowNs int64 = -1
	for _, v := range fc.G.V {
		x, y, op, ok := condParts(v)
		if !ok || y == nil || op != token.LSS {
			continue
		}
		c, isCall := ast.Unparen(x).(*ast.CallExpr)
		if !isCall {
			continue
		}
		if fn := Callee(info, c); fn == nil || fn.Name() != "Since" || fn.Pkg().Path() != "time" {
			continue
		}
		if sel, isSel := ast.Unparen(c.Args[0]).(*ast.SelectorExpr); !isSel || sel.Sel.Name != "oldServerSessionLastSeenTime" {
			continue
		}
		if k, isC := constInt(info, y); isC {
			windowNs = k
		}
		for _, e := range v.Succs {
			if e.Label == LFalse {
				throttleFalse = append(throttleFalse, e)
			}
		}
		// true edge → error
		for _, e := range v.Succs {
			if e.Label == LTrue {
				reach := fc.G.Reach([]int{e.To}, nil, nil)
				good := true
				for _, ret := range fc.ExitPreds() {
					if reach[ret] && fc.ErrAtReturn(ret) != ErrNonNil {
						good = false
					}
				}
				r.Check(good, rule, prefix+":throttled-change-is-error", p.posStr(v.Node.Pos()), "a second session change within the window is refused with an error", "a session change inside the throttle window does not end in an error")
			}
		}
	}
	replayNs := int64(60e9)
	if c, ok := fc.Pkg.Types.Scope().Lookup("ReplayWindowDuration").(*types.Const); ok {
		if v, ok := constIntVal(c); ok {
			replayNs = v
		}
	}
	r.Check(len(throttleFalse) > 0 && windowNs >= replayNs, rule, prefix+":throttle-covers-replay-window", p.posStr(fc.Body.Pos()),
		fmt.Sprintf("throttle window %s >= replay window %s", durStr(windowNs), durStr(replayNs)), fmt.Sprintf("throttle window %s is shorter than the replay window %s (or the throttle test is missing): packets of a session dropped from the old slot still carry acceptable timestamps and are delivered again", durStr(windowNs), durStr(replayNs)))
	// key derivation for a new session only past the throttle
	for _, cs := range fc.AllCalls() {
		if cs.Fn != nil && cs.Fn.Name() == "AEAD" && namedTypeName(recvTypeOf(cs.Fn)) == "ClientCipherConfig" {
			r.Check(fc.G.EdgeDominates(throttleFalse, cs.V), rule, prefix+":new-session-only-past-throttle", cs.Pos(), "a cipher for an unknown session is derived only past the throttle", "an unknown server session is accepted without the throttle test")
		}
	}
	// moves: p.old<S> = p.current<S>
	type move struct {
		v        int
		suffix   string
		fromCur  bool
		fromWhat string
	}
	var moves []move
	curWrites := map[string]int{}
	lastSeenWrites := 0
	for _, v := range fc.G.V {
		as, ok := v.Node.(*ast.AssignStmt)
		if !ok || len(as.Lhs) != 1 || len(as.Rhs) != 1 {
			continue
		}
		l, ok := ast.Unparen(as.Lhs[0]).(*ast.SelectorExpr)
		if !ok || objOf(info, l.X) != recv {
			continue
		}
		name := l.Sel.Name
		switch {
		case name == "oldServerSessionLastSeenTime":
			lastSeenWrites++
			// value is the `now` validated by the parser
		case strings.HasPrefix(name, "oldServerSession"):
			suffix := strings.TrimPrefix(name, "oldServerSession")
			rs, isSel := ast.Unparen(as.Rhs[0]).(*ast.SelectorExpr)
			from := isSel && objOf(info, rs.X) == recv && rs.Sel.Name == "currentServerSession"+suffix
			moves = append(moves, move{v.ID, suffix, from, exprStr(as.Rhs[0])})
		case strings.HasPrefix(name, "currentServerSession"):
			curWrites[strings.TrimPrefix(name, "currentServerSession")] = v.ID
		}
	}
	// the struct's old*/current* pairs
	st := p.Pkg("ss2022").Types.Scope().Lookup("ShadowPacketClientUnpacker").Type().Underlying().(*types.Struct)
	var suffixes []string
	for i := 0; i < st.NumFields(); i++ {
		n := st.Field(i).Name()
		if strings.HasPrefix(n, "currentServerSession") {
			suffixes = append(suffixes, strings.TrimPrefix(n, "currentServerSession"))
		}
	}
	for _, s := range suffixes {
		var mv *move
		for i := range moves {
			if moves[i].suffix == s {
				mv = &moves[i]
			}
		}
		construct := prefix + ":session-move:" + s
		if mv == nil {
			r.Fail(rule, construct, p.posStr(fc.Body.Pos()), "oldServerSession"+s+" is never set from the current session: the previous session's "+s+" is lost on a session change")
			continue
		}
		cw, hasCW := curWrites[s]
		okOrder := hasCW && fc.G.Dominates([]int{mv.v}, cw) && !fc.G.ReachAfter(cw, nil, nil)[mv.v]
		r.Check(mv.fromCur && okOrder, rule, construct, p.posStr(fc.G.V[mv.v].Node.Pos()),
			"oldServerSession"+s+" = currentServerSession"+s+" before the current slot is overwritten",
			"oldServerSession"+s+" is set from "+mv.fromWhat+" (expected the current session's own "+s+", before it is overwritten): the previous session keeps its ID and cipher but loses or shares its replay history, so its delivered packets are accepted again")
	}
	// generation consistency: a read of a current*/old* session field never lies behind the true
	// edge of a test of a field of the other generation (the old session's packets are checked
	// against the old session's filter and opened with the old session's cipher)
	genOf := func(e ast.Expr) string {
		sel, ok := ast.Unparen(e).(*ast.SelectorExpr)
		if !ok || objOf(info, sel.X) != recv {
			return ""
		}
		switch {
		case sel.Sel.Name == "oldServerSessionLastSeenTime":
			return ""
		case strings.HasPrefix(sel.Sel.Name, "oldServerSession"):
			return "old"
		case strings.HasPrefix(sel.Sel.Name, "currentServerSession"):
			return "current"
		}
		return ""
	}
	type genTest struct {
		gen  string
		edge Edge
		at   token.Pos
	}
	var genTests []genTest
	for _, v := range fc.G.V {
		if v.Kind != VCond || v.Node == nil {
			continue
		}
		gens := map[string]bool{}
		ast.Inspect(v.Node, func(n ast.Node) bool {
			if e, ok := n.(ast.Expr); ok {
				if g := genOf(e); g != "" {
					gens[g] = true
				}
			}
			return true
		})
		if len(gens) != 1 {
			continue
		}
		for g := range gens {
			for _, e := range v.Succs {
				if e.Label == LTrue {
					genTests = append(genTests, genTest{g, e, v.Node.Pos()})
				}
			}
		}
	}
	nGen := 0
	for _, v := range fc.G.V {
		as, ok := v.Node.(*ast.AssignStmt)
		if !ok || v.Kind != VStmt {
			continue
		}
		for _, rhs := range as.Rhs {
			g := genOf(rhs)
			if g == "" {
				continue
			}
			// only selections into locals (the rotation block copies current into old by design)
			if l, isSel := ast.Unparen(as.Lhs[0]).(*ast.SelectorExpr); isSel && objOf(info, l.X) == recv {
				continue
			}
			nGen++
			mixed := ""
			for _, gt := range genTests {
				if gt.gen != g && fc.G.EdgeDominates([]Edge{gt.edge}, v.ID) {
					mixed = p.posStr(gt.at)
				}
			}
			r.Check(mixed == "", rule, prefix+":generation-consistent:"+exprStr(rhs), p.posStr(as.Pos()), "the field read belongs to the session generation whose test selected this branch",
				"a packet that matched the "+map[string]string{"old": "current", "current": "old"}[g]+" server session (test at "+mixed+") is handled with "+exprStr(rhs)+" of the other generation: it is checked against / recorded in the wrong replay filter or opened with the wrong cipher, so a delivered packet of that session is accepted again")
		}
	}
	r.Check(nGen >= 4, rule, prefix+":generation-reads-found", p.posStr(fc.Body.Pos()), "the selection reads cipher and filter of both generations", fmt.Sprintf("only %d selections of a session generation's cipher/filter found (expected 4)", nGen))
	r.Check(lastSeenWrites >= 2, rule, prefix+":last-seen-refreshed", p.posStr(fc.Body.Pos()), "last-seen time refreshed for old-session and new-session packets", fmt.Sprintf("oldServerSessionLastSeenTime is written at %d site(s) (old-session packets and session changes both must refresh it)", lastSeenWrites))
	// new session filter is fresh: the value stored into currentServerSessionFilter on the new-session path is the NewSlidingWindowFilter result
	if cw, ok := curWrites["Filter"]; ok {
		as := fc.G.V[cw].Node.(*ast.AssignStmt)
		fo := objOf(info, as.Rhs[0])
		fresh := false
		for _, cs := range fc.AllCalls() {
			if cs.Fn != nil && cs.Fn.Name() == "NewSlidingWindowFilter" && cs.ResultVar(0) == fo && fo != nil {
				fresh = true
			}
		}
		r.Check(fresh, rule, prefix+":new-session-fresh-filter", p.posStr(as.Pos()), "the new current filter is a NewSlidingWindowFilter result", "the new session does not get a fresh filter")
	}
	r.Floor(rule, 7)
}

func c04R4(p *Prog, r *Report) {
	const rule = "C04-R4"
	r.Rule(rule, "message-header validation: ParseUDPClientMessageHeader / ParseUDPServerMessageHeader reach a success return only past the direction's type byte test, the timestamp validation and (server messages) the client-session-ID equality test")
	for _, spec := range [][3]string{{"ParseUDPClientMessageHeader", "HeaderTypeClientPacket", ""}, {"ParseUDPServerMessageHeader", "HeaderTypeServerPacket", "csid"}} {
		fc := p.Inlined(p.Func("ss2022", "", spec[0]))
		info := fc.Info()
		var typeEdges, csidEdges []Edge
		for _, v := range fc.G.V {
			x, y, op, ok := condParts(v)
			if !ok || y == nil || (op != token.EQL && op != token.NEQ) {
				continue
			}
			eqLab := LTrue
			if op == token.NEQ {
				eqLab = LFalse
			}
			isB0 := func(e ast.Expr) bool {
				ix, ok := ast.Unparen(e).(*ast.IndexExpr)
				if !ok || objOf(info, ix.X) != fc.ParamObj(0) {
					return false
				}
				k, isC := constInt(info, ix.Index)
				return isC && k == 0
			}
			isType := func(e ast.Expr) bool { return exprStr(e) == spec[1] }
			if (isB0(x) && isType(y)) || (isB0(y) && isType(x)) {
				for _, e := range v.Succs {
					if e.Label == eqLab {
						typeEdges = append(typeEdges, e)
					}
				}
			}
			if spec[2] != "" {
				csidParam := fc.ParamObj(2)
				isParam := func(e ast.Expr) bool { return objOf(info, e) == csidParam }
				isField := func(e ast.Expr) bool { // Uint64(b[9:])
					c, ok := fc.Resolve(e).(*ast.CallExpr)
					if !ok || len(c.Args) != 1 {
						return false
					}
					if fn := Callee(info, c); fn == nil || fn.Name() != "Uint64" {
						return false
					}
					sl, ok := ast.Unparen(c.Args[0]).(*ast.SliceExpr)
					if !ok || sl.Low == nil || objOf(info, sl.X) != fc.ParamObj(0) {
						return false
					}
					k, isC := constInt(info, sl.Low)
					return isC && k == 9
				}
				if (isParam(x) && isField(y)) || (isParam(y) && isField(x)) {
					for _, e := range v.Succs {
						if e.Label == eqLab {
							csidEdges = append(csidEdges, e)
						}
					}
				}
			}
		}
		ts := fc.CallsTo(isFn(mp("ss2022"), "", "ValidateUnixEpochTimestamp"))
		n := 0
		for _, ret := range fc.Returns() {
			if fc.ErrAtReturn(ret) == ErrNonNil {
				continue
			}
			// returns right after a failed call propagate that call's error; identify success returns as those
			// not guarded by any "err != nil" edge: approximate by requiring all three guards and counting
			guardedFail := false
			for _, cs := range fc.AllCalls() {
				if cs.ResultVar(-1) != nil && fc.GuardedBy(cs.V, cs.ResultEdges(-1, WantNonNil), ret) {
					guardedFail = true
				}
			}
			if guardedFail {
				continue
			}
			n++
			pos := p.posStr(fc.G.V[ret].Node.Pos())
			r.Check(len(typeEdges) > 0 && fc.G.EdgeDominates(typeEdges, ret), rule, "ss2022."+spec[0]+":type-enforced", pos, "success only when b[0] == "+spec[1], "the direction type byte is not enforced: a reflected packet of the other direction is accepted")
			r.Check(len(ts) == 1 && ts[0].SuccessGuards(ret), rule, "ss2022."+spec[0]+":timestamp-enforced", pos, "success only after the timestamp validated", "the timestamp is not enforced: stale packets are accepted")
			if spec[2] != "" {
				r.Check(len(csidEdges) > 0 && fc.G.EdgeDominates(csidEdges, ret), rule, "ss2022."+spec[0]+":client-session-id-enforced", pos, "success only when the embedded client session ID equals ours", "the client session ID is not enforced: packets addressed to another client's session are delivered")
			}
		}
		r.Check(n >= 1, rule, "ss2022."+spec[0]+":has-success-return", p.posStr(fc.Body.Pos()), "has a success return", "no success return")
	}
	// the client passes its own session id
	cu := p.Inlined(p.Func("ss2022", "ShadowPacketClientUnpacker", "UnpackInPlace"))
	for _, cs := range cu.CallsTo(isFn(mp("ss2022"), "", "ParseUDPServerMessageHeader")) {
		sel, ok := ast.Unparen(cs.Call.Args[2]).(*ast.SelectorExpr)
		r.Check(ok && sel.Sel.Name == "csid" && objOf(cu.Info(), sel.X) == cu.RecvObj(), rule, "ss2022.(*ShadowPacketClientUnpacker).UnpackInPlace:passes-own-csid", cs.Pos(), "expects p.csid", "the session ID expected in server messages is not this client's session ID")
	}
	r.Floor(rule, 7)
}

func c04R5(p *Prog, r *Report) {
	const rule = "C04-R5"
	r.Rule(rule, "sliding-window formula agreement: the combined Add and the split IsOk+MustAdd implement one window — same ahead / behind / seen conditions, same number of ring blocks cleared, same bit set — and the number of blocks cleared when the window advances is the difference of the block indices of the new and the previous newest counter capped by the ring length (not a function of the counter difference)")
	// analysed with unexported helpers expanded: how the window code is split into helpers
	// must not matter
	isok := p.Inlined(p.Func("ss2022", "SlidingWindowFilter", "IsOk"))
	madd := p.Inlined(p.Func("ss2022", "SlidingWindowFilter", "MustAdd"))
	add := p.Inlined(p.Func("ss2022", "SlidingWindowFilter", "Add"))
	condSet := func(fc *FuncCtx) map[string]bool {
		out := map[string]bool{}
		for _, v := range fc.G.V {
			if v.Kind == VCond {
				out[normExpr(p, fc, v.Node.(ast.Expr))] = true
			}
		}
		return out
	}
	ci, cm, ca := condSet(isok), condSet(madd), condSet(add)
	// every condition of Add appears in IsOk or MustAdd (possibly negated by structure) and vice versa
	norm := func(s string) string { // compare modulo the polarity of the seen-bit test
		s = strings.ReplaceAll(s, " != 0)", " ?= 0)")
		s = strings.ReplaceAll(s, " == 0)", " ?= 0)")
		s = strings.ReplaceAll(s, "(0 != ", "(0 ?= ")
		s = strings.ReplaceAll(s, "(0 == ", "(0 ?= ")
		return s
	}
	union := map[string]bool{}
	for c := range ci {
		union[norm(c)] = true
	}
	for c := range cm {
		union[norm(c)] = true
	}
	// IsOk's final `return bitTest` is not a condition vertex: add it
	for _, ret := range isok.Returns() {
		rs := isok.G.V[ret].Node.(*ast.ReturnStmt)
		if len(rs.Results) == 1 {
			if _, isConst := constOf(isok.Info(), rs.Results[0]); !isConst {
				union[norm(normExpr(p, isok, rs.Results[0]))] = true
			}
		}
	}
	for c := range ca {
		r.Check(union[norm(c)], rule, "ss2022.SlidingWindowFilter:Add-condition-has-sibling:"+c, p.posStr(add.Body.Pos()), "the same condition appears in IsOk/MustAdd", "condition "+c+" of Add has no counterpart in IsOk/MustAdd: the two entry points disagree on which IDs are acceptable")
	}
	for c := range union {
		found := false
		for a := range ca {
			if norm(a) == c {
				found = true
			}
		}
		r.Check(found, rule, "ss2022.SlidingWindowFilter:split-condition-has-sibling:"+c, p.posStr(isok.Body.Pos()), "the same condition appears in Add", "condition "+c+" of IsOk/MustAdd has no counterpart in Add")
	}
	// assignments (state updates) agree: collect normalised "lhs = rhs" of MustAdd and Add
	updates := func(fc *FuncCtx) map[string]bool {
		out := map[string]bool{}
		for _, v := range fc.G.V {
			as, ok := v.Node.(*ast.AssignStmt)
			if !ok || len(as.Lhs) != 1 || len(as.Rhs) != 1 {
				continue
			}
			root, _, okp := pathOf(fc.Info(), baseOfIndex(as.Lhs[0]))
			if !okp || root != fc.RecvObj() {
				continue
			}
			out[normLHS(p, fc, as.Lhs[0])+" "+as.Tok.String()+" "+normExpr(p, fc, as.Rhs[0])] = true
		}
		return out
	}
	um, ua := updates(madd), updates(add)
	for u := range um {
		r.Check(ua[u], rule, "ss2022.SlidingWindowFilter:MustAdd-update-in-Add:"+u, p.posStr(madd.Body.Pos()), "same state update in Add", "state update "+u+" of MustAdd has no identical counterpart in Add")
	}
	for u := range ua {
		r.Check(um[u], rule, "ss2022.SlidingWindowFilter:Add-update-in-MustAdd:"+u, p.posStr(add.Body.Pos()), "same state update in MustAdd", "state update "+u+" of Add has no identical counterpart in MustAdd")
	}
	// clear count formula
	for _, fc := range []*FuncCtx{madd, add} {
		// the loop that zeroes ring blocks, as `for range n` or `for i := 0; i < n; i++`
		var rng *Vertex
		var bound ast.Expr
		for _, v := range fc.G.V {
			if v.Kind == VRange {
				rng = v
				bound = v.Stmt.(*ast.RangeStmt).X
			}
			if fs, isFor := v.Stmt.(*ast.ForStmt); isFor && v.Kind == VCond && fs.Init != nil && fs.Post != nil {
				init, ok1 := fs.Init.(*ast.AssignStmt)
				post, ok2 := fs.Post.(*ast.IncDecStmt)
				cond, ok3 := ast.Unparen(fs.Cond).(*ast.BinaryExpr)
				if !ok1 || !ok2 || !ok3 || len(init.Lhs) != 1 || len(init.Rhs) != 1 || post.Tok != token.INC || cond.Op != token.LSS {
					continue
				}
				iv := objOf(fc.Info(), init.Lhs[0])
				k, isC := constInt(fc.Info(), init.Rhs[0])
				if iv == nil || !isC || k != 0 || objOf(fc.Info(), post.X) != iv || objOf(fc.Info(), cond.X) != iv {
					continue
				}
				// the counter is not assigned inside the body
				assigned := false
				for _, d := range fc.Defs(iv) {
					if n := fc.G.V[d].Node; n != nil && fs.Body.Pos() <= n.Pos() && n.End() <= fs.Body.End() {
						assigned = true
					}
				}
				if !assigned {
					rng = v
					bound = cond.Y
				}
			}
		}
		if rng == nil {
			r.Fail(rule, fc.Name+":clear-loop", p.posStr(fc.Body.Pos()), "no block-clearing loop")
			continue
		}
		got := normExpr(p, fc, bound)
		bits := "64"
		if c, ok := fc.Pkg.Types.Scope().Lookup("swfBlockBits").(*types.Const); ok {
			bits = c.Val().ExactString()
		}
		want1 := fmt.Sprintf("min(int(((%s / %s) - (recv.last / %s))), len(recv.ring))", fc.ParamObj(0).Name(), bits, bits)
		want2 := fmt.Sprintf("min(len(recv.ring), int(((%s / %s) - (recv.last / %s))))", fc.ParamObj(0).Name(), bits, bits)
		r.Check(got == want1 || got == want2, rule, fc.Name+":clear-count-is-block-index-difference", p.posStr(rng.Stmt.Pos()),
			"blocks cleared = min(blockIndex(counter) - blockIndex(last), len(ring))",
			"blocks cleared = "+got+"; expected the difference of block indices "+want1+": an advance that crosses a block edge by fewer than a block's worth of IDs clears nothing (stale bits refuse fresh packets) or clears too much (seen packets accepted again)")
		// the loop is on the counter > last branch and precedes f.last = counter
		var lastSet = -1
		for _, v := range fc.G.V {
			if as, ok := v.Node.(*ast.AssignStmt); ok && len(as.Lhs) == 1 {
				if sel, ok := ast.Unparen(as.Lhs[0]).(*ast.SelectorExpr); ok && sel.Sel.Name == "last" && objOf(fc.Info(), as.Rhs[0]) == fc.ParamObj(0) {
					lastSet = v.ID
				}
			}
		}
		r.Check(lastSet >= 0 && fc.G.Dominates([]int{rng.ID}, lastSet) && !fc.G.ReachAfter(lastSet, nil, nil)[rng.ID], rule, fc.Name+":clear-before-advancing-last", p.posStr(rng.Stmt.Pos()), "blocks are cleared before last is advanced to the counter", "last is advanced before / without clearing the blocks ahead")
	}
	r.Floor(rule, 12)
}

func baseOfIndex(e ast.Expr) ast.Expr {
	for {
		switch x := ast.Unparen(e).(type) {
		case *ast.IndexExpr:
			e = x.X
		default:
			return e
		}
	}
}

func normLHS(p *Prog, fc *FuncCtx, e ast.Expr) string { return normExpr(p, fc, e) }

// c04R6: the ring must hold the whole window plus the block being entered. Advancing the window
// clears the blocks between the old and the new newest block; a ring of exactly `size` bits lets
// the oldest block of the window alias the newest and be cleared with it, so identifiers still
// inside the window are accepted a second time. The constructor's ring size is checked as a
// symbolic lower bound: 1 << bits.Len64(E) >= E + 1, max(a, b) >= each lower bound of a and b.
func c04R6(p *Prog, r *Report) {
	const rule = "C04-R6"
	r.Rule(rule, "the sliding-window ring is larger than the window by at least one block: in NewSlidingWindowFilter the number of ring bits has a symbolic lower bound L with L - size - blockBits >= 0 for every size (using 1 << Len64(E) > E), the ring is made of ringBits / blockBits blocks and the index mask is that block count minus one")
	fc := p.Func("ss2022", "", "NewSlidingWindowFilter")
	info := fc.Info()
	size := fc.ParamObj(0)
	blockBits := int64(0)
	if c, ok := fc.Pkg.Types.Scope().Lookup("swfBlockBits").(*types.Const); ok {
		if v, ok := constIntVal(c); ok {
			blockBits = v
		}
	}
	if size == nil || blockBits == 0 {
		r.Fail(rule, "ss2022.NewSlidingWindowFilter:shape", p.posStr(fc.Body.Pos()), "undecided: size parameter or swfBlockBits not found")
		return
	}
	// lower bounds of an expression as linear forms over `size`
	var lower func(e ast.Expr, depth int) []linForm
	lower = func(e ast.Expr, depth int) []linForm {
		if depth > 8 {
			return nil
		}
		e = ast.Unparen(fc.Resolve(e))
		if k, isC := constInt(info, e); isC {
			return []linForm{{"": k}}
		}
		switch x := e.(type) {
		case *ast.CallExpr:
			if inner, ok := isConversion(info, x); ok {
				return lower(inner, depth+1)
			}
			if id, ok := ast.Unparen(x.Fun).(*ast.Ident); ok && id.Name == "max" {
				var out []linForm
				for _, a := range x.Args {
					out = append(out, lower(a, depth+1)...)
				}
				return out
			}
		case *ast.BinaryExpr:
			if x.Op == token.SHL {
				if k, isC := constInt(info, x.X); isC && k == 1 {
					// 1 << bits.Len64(E) >= E + 1
					if c, ok := ast.Unparen(x.Y).(*ast.CallExpr); ok && len(c.Args) == 1 {
						if fn := Callee(info, c); fn != nil && fn.Pkg() != nil && fn.Pkg().Path() == "math/bits" && strings.HasPrefix(fn.Name(), "Len") {
							return []linForm{linOf(p, fc, c.Args[0], size).add(linForm{"": 1}, 1)}
						}
					}
				}
				// the shifted one may be written uint64(1)
				if inner, ok := isConversionExpr(info, x.X); ok {
					if k, isC := constInt(info, inner); isC && k == 1 {
						if c, ok := ast.Unparen(x.Y).(*ast.CallExpr); ok && len(c.Args) == 1 {
							if fn := Callee(info, c); fn != nil && fn.Pkg() != nil && fn.Pkg().Path() == "math/bits" && strings.HasPrefix(fn.Name(), "Len") {
								return []linForm{linOf(p, fc, c.Args[0], size).add(linForm{"": 1}, 1)}
							}
						}
					}
				}
			}
		}
		return nil
	}
	// the ring: make([]uint, B); B := ringBits / blockBits; mask := B - 1
	var blocks ast.Expr
	for _, v := range fieldInits(fc, "ring") {
		if c, ok := ast.Unparen(fc.Resolve(v)).(*ast.CallExpr); ok && len(c.Args) >= 2 {
			if id, ok := ast.Unparen(c.Fun).(*ast.Ident); ok && id.Name == "make" {
				blocks = c.Args[1]
			}
		}
	}
	okBits, detail := false, "no make(…, ringBits / blockBits) found"
	if blocks != nil {
		if be, ok := ast.Unparen(fc.Resolve(blocks)).(*ast.BinaryExpr); ok && be.Op == token.QUO {
			if k, isC := constInt(info, be.Y); isC && k == blockBits {
				var strs []string
				for _, lb := range lower(be.X, 0) {
					d := lb.add(linForm{size.Name(): 1, "": blockBits}, -1)
					strs = append(strs, lb.String())
					good := true
					for a, c := range d {
						if a == "" {
							if c < 0 {
								good = false
							}
						} else if c != 0 {
							good = false
						}
					}
					if good {
						okBits = true
					}
				}
				detail = fmt.Sprintf("lower bounds of the ring size in bits: %v; needed: size + %d", strs, blockBits)
			}
		}
	}
	r.Check(okBits, rule, "ss2022.NewSlidingWindowFilter:ring-exceeds-window-by-a-block", p.posStr(fc.Body.Pos()), "ring bits >= size + block bits for every size", "the ring is not provably larger than the window by one block ("+detail+"): when the window advances, the block that is cleared can be the oldest block of the window, and identifiers still inside the window are accepted again")
	okMask := false
	for _, v := range fieldInits(fc, "ringBlockIndexMask") {
		if blocks != nil {
			want := linOf(p, fc, blocks).add(linForm{"": 1}, -1)
			if linOf(p, fc, v).add(want, -1).isZero() {
				okMask = true
			}
		}
	}
	r.Check(okMask, rule, "ss2022.NewSlidingWindowFilter:mask-is-blocks-minus-one", p.posStr(fc.Body.Pos()), "index mask = number of blocks - 1", "the block index mask is not the number of ring blocks minus one")
}

// soleResultExpr: for a call of a function of the analysed module, the one expression its idx-th
// result always is — the operand of its only return statement, or the only definition of the
// named result when the returns are bare.
func soleResultExpr(p *Prog, info *types.Info, call *ast.CallExpr, idx int) (ast.Expr, *types.Info, bool) {
	fn := Callee(info, call)
	if fn == nil {
		return nil, nil, false
	}
	cf := p.CtxOfObj(fn.Origin())
	if cf == nil || cf.Body == nil {
		return nil, nil, false
	}
	rets := cf.Returns()
	if len(rets) == 0 {
		return nil, nil, false
	}
	var exprs []ast.Expr
	for _, rv := range rets {
		rs := cf.G.V[rv].Node.(*ast.ReturnStmt)
		if len(rs.Results) == 0 {
			o := cf.ResultObj(idx)
			if o == nil {
				return nil, nil, false
			}
			rhs, i2, _, ok := cf.SoleDefRHS(o)
			if !ok || i2 >= 0 {
				return nil, nil, false
			}
			exprs = append(exprs, rhs)
			continue
		}
		if idx >= len(rs.Results) {
			return nil, nil, false
		}
		exprs = append(exprs, rs.Results[idx])
	}
	for _, e := range exprs[1:] {
		if fullStr(e) != fullStr(exprs[0]) {
			return nil, nil, false
		}
	}
	return exprs[0], cf.Info(), true
}
