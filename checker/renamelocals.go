package main

// renamelocals.go: a test aid, not a check. `ssverif renamelocals -repo <scratch worktree> <pkgs…>`
// rewrites the worktree in place, giving every local variable, parameter, named result and
// receiver of the listed packages a new name (suffix "Z"). The result is a behaviour-preserving
// edit of the whole program that no rule may react to; it is used to probe the rules for
// dependence on what locals are called (see DESIGN.md §5.5). Never run it on /repo itself.

import (
	"fmt"
	"go/ast"
	"go/token"
	"go/types"
	"os"
	"sort"
	"strings"
)

func renameLocals(patterns []string) {
	if strings.TrimRight(repoDir, "/") == "/repo" {
		fatalf("renamelocals refuses to rewrite /repo itself: give it a scratch worktree")
	}
	p := Load(loadSyntax, nil, nil, patterns...)
	type edit struct {
		off, n int
		text   string
	}
	edits := map[string][]edit{}
	nObj := 0
	for _, pkg := range p.All {
		if pkg.Syntax == nil {
			continue
		}
		info := pkg.TypesInfo
		rename := map[types.Object]string{}
		isLocal := func(o types.Object) bool {
			v, ok := o.(*types.Var)
			if !ok || v.IsField() || v.Pkg() == nil || v.Name() == "_" || v.Name() == "" {
				return false
			}
			return v.Parent() != v.Pkg().Scope() && v.Parent() != types.Universe
		}
		// names that document an API are left alone: parameters of interface methods and of
		// function types (they have no scope), and the parameters and named results of exported
		// functions and methods —
		// a few rules read the roles of same-typed values from exactly these names (§5.5)
		keep := map[types.Object]bool{}
		for _, f := range pkg.Syntax {
			for _, d := range f.Decls {
				fd, ok := d.(*ast.FuncDecl)
				if !ok || !fd.Name.IsExported() {
					continue
				}
				for _, fl := range []*ast.FieldList{fd.Type.Params, fd.Type.Results} {
					if fl == nil {
						continue
					}
					for _, fld := range fl.List {
						for _, nm := range fld.Names {
							if o := info.Defs[nm]; o != nil {
								keep[o] = true
							}
						}
					}
				}
			}
		}
		for _, f := range pkg.Syntax {
			ast.Inspect(f, func(n ast.Node) bool {
				it, ok := n.(*ast.InterfaceType)
				if !ok || it.Methods == nil {
					return true
				}
				for _, m := range it.Methods.List {
					ft, ok := m.Type.(*ast.FuncType)
					if !ok {
						continue
					}
					for _, fl := range []*ast.FieldList{ft.Params, ft.Results} {
						if fl == nil {
							continue
						}
						for _, fld := range fl.List {
							for _, nm := range fld.Names {
								if o := info.Defs[nm]; o != nil {
									keep[o] = true
								}
							}
						}
					}
				}
				return true
			})
		}
		for id, o := range info.Defs {
			if o != nil && isLocal(o) && id.Name != "_" && !keep[o] && o.Parent() != nil {
				rename[o] = id.Name + "Z"
			}
		}
		for _, o := range info.Implicits {
			if o != nil && isLocal(o) {
				rename[o] = o.Name() + "Z"
			}
		}
		nObj += len(rename)
		add := func(id *ast.Ident, nn string) {
			pos := p.Fset.Position(id.Pos())
			if !strings.HasSuffix(pos.Filename, ".go") || strings.HasSuffix(pos.Filename, "_test.go") {
				return
			}
			edits[pos.Filename] = append(edits[pos.Filename], edit{pos.Offset, len(id.Name), nn})
		}
		for id, o := range info.Defs {
			if nn, ok := rename[o]; ok && o != nil {
				add(id, nn)
			}
		}
		for id, o := range info.Uses {
			if nn, ok := rename[o]; ok {
				add(id, nn)
			}
		}
		// the symbolic variable of `switch v := x.(type)`: its identifier has no object
		for _, f := range pkg.Syntax {
			ast.Inspect(f, func(n ast.Node) bool {
				ts, ok := n.(*ast.TypeSwitchStmt)
				if !ok {
					return true
				}
				if as, ok := ts.Assign.(*ast.AssignStmt); ok && as.Tok == token.DEFINE && len(as.Lhs) == 1 {
					if id, ok := as.Lhs[0].(*ast.Ident); ok && id.Name != "_" {
						add(id, id.Name+"Z")
					}
				}
				return true
			})
		}
	}
	nFiles := 0
	for file, es := range edits {
		sort.Slice(es, func(i, j int) bool { return es[i].off > es[j].off })
		src, err := os.ReadFile(file)
		if err != nil {
			fatalf("%v", err)
		}
		last := -1
		for _, e := range es {
			if e.off == last {
				continue
			}
			last = e.off
			src = append(src[:e.off], append([]byte(e.text), src[e.off+e.n:]...)...)
		}
		if err := os.WriteFile(file, src, 0o644); err != nil {
			fatalf("%v", err)
		}
		nFiles++
	}
	fmt.Printf("renamed %d local objects in %d files\n", nObj, nFiles)
}
