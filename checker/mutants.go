package main

// runMutants is filled in by mutants support (overlay-based self-test); see mutate.go.
func runMutants(pc *PropCheck, r *Report) {}
