package main

// mutants.go: overlay-based self-test (thorough tier). Each mutant is a small textual edit of one
// source file, applied in memory through go/packages' Overlay (nothing is written to disk); the
// property's rules must report a violation of the expected rule on the edited program. A mutant
// whose anchor text is no longer present, or that no longer type-checks, is skipped (reported as
// such): the self-test never turns into an alarm about /repo.

import (
	"encoding/json"
	"fmt"
	"os"
	"path/filepath"
	"strings"
)

type Mutant struct {
	Name   string `json:"name"`
	File   string `json:"file"` // relative to the repository
	Old    string `json:"old"`
	New    string `json:"new"`
	Expect string `json:"expect"` // rule id prefix expected to fire
	Why    string `json:"why,omitempty"`
}

func runMutants(pc *PropCheck, base *Prog, r *Report) {
	data, err := os.ReadFile(filepath.Join(verifDir, "mutants", pc.ID+".json"))
	if err != nil {
		return
	}
	var ms []Mutant
	if err := json.Unmarshal(data, &ms); err != nil {
		fatalf("mutants/%s.json: %v", pc.ID, err)
	}
	for _, m := range ms {
		res := MutantResult{Name: m.Name, Rule: m.Expect}
		path := filepath.Join(repoDir, m.File)
		src, err := os.ReadFile(path)
		if err != nil || strings.Count(string(src), m.Old) != 1 {
			res.Reported = "skipped: anchor text not present exactly once in " + m.File
			r.Mutants = append(r.Mutants, res)
			continue
		}
		edited := strings.Replace(string(src), m.Old, m.New, 1)
		prog, err := Recheck(base, map[string][]byte{path: []byte(edited)})
		if err != nil {
			res.Reported = "skipped: mutant does not type-check: " + err.Error()
			r.Mutants = append(r.Mutants, res)
			continue
		}
		sub := NewReport(pc.ID, "quick")
		func() {
			inMutant = true
			defer func() {
				inMutant = false
				if x := recover(); x != nil {
					if ap, ok := x.(anchorPanic); ok {
						sub.Rule("anchor", "anchors resolve")
						sub.Fail("anchor", "anchor", "", ap.msg)
						return
					}
					panic(x)
				}
			}()
			activeProg = prog
			pc.Run(prog, sub)
			activeProg = base
		}()
		known := loadKnown()
		var fired []string
		for _, o := range sub.Obs {
			if o.Status != "violation" {
				continue
			}
			isKnown := false
			for _, k := range known {
				if k.Status == "known" && k.Property == pc.ID && k.Rule == o.Rule && k.Construct == o.Construct {
					isKnown = true
				}
			}
			if !isKnown {
				fired = append(fired, o.Rule+":"+o.Construct)
			}
		}
		for _, f := range fired {
			if strings.HasPrefix(f, m.Expect) {
				res.Caught = true
			}
		}
		if len(fired) > 0 {
			res.Reported = fired[0]
			if len(fired) > 1 {
				res.Reported += fmt.Sprintf(" (+%d more)", len(fired)-1)
			}
			if !res.Caught {
				res.Reported = "fired other rule(s): " + res.Reported
			}
		} else {
			res.Reported = "NOT CAUGHT"
		}
		r.Mutants = append(r.Mutants, res)
	}
	caught, applicable := 0, 0
	for _, m := range r.Mutants {
		if strings.HasPrefix(m.Reported, "skipped") {
			continue
		}
		applicable++
		if m.Caught {
			caught++
		}
	}
	r.Count("overlay_mutants_applicable", applicable)
	r.Count("overlay_mutants_caught_by_expected_rule", caught)
	fmt.Printf("%s thorough: overlay self-test: %d mutants, %d applicable, %d caught by the expected rule\n", pc.ID, len(r.Mutants), applicable, caught)
	for _, m := range r.Mutants {
		if !m.Caught {
			fmt.Printf("  self-test note: mutant %q (expect %s): %s\n", m.Name, m.Rule, m.Reported)
		}
	}
}
