package main

import (
	"fmt"
	"go/ast"
	"go/token"
	"go/types"
	"sort"
	"strings"
)

func init() {
	register(&PropCheck{ID: "C14", Pkgs: []string{"./stats", "./api/ssm", "./service", "./netio"}, Run: runC14})
}

func lowerFirst(s string) string {
	if s == "" {
		return s
	}
	// TCPSessions -> tcpSessions, UDPSessions -> udpSessions, DownlinkBytes -> downlinkBytes
	i := 0
	for i < len(s) && s[i] >= 'A' && s[i] <= 'Z' {
		i++
	}
	if i <= 1 {
		return strings.ToLower(s[:1]) + s[1:]
	}
	if i == len(s) {
		return strings.ToLower(s)
	}
	return strings.ToLower(s[:i-1]) + s[i-1:]
}

func runC14(p *Prog, r *Report) {
	if p.KeepCalls == nil {
		p.KeepCalls = map[string]bool{}
	}
	for _, k := range []string{"stats.userCollector.snapshot", "stats.userCollector.snapshotAndReset", "stats.trafficCollector.snapshot", "stats.trafficCollector.snapshotAndReset", "stats.serverCollector.trafficCollector", "stats.serverCollector.userCollector"} {
		p.KeepCalls[k] = true
	}
	r.Explanation = "Structural necessary conditions of 'statistics neither lose nor invent traffic and charge the right user': every counter is paired with its own field in snapshot, reset, aggregation and recording; reset is one atomic exchange per counter; the user map is accessed under its lock with the re-check inside the write-locked section and users are never removed; aggregation covers the anonymous collector and every user; recording sites pass the authenticated user and their own counters; the per-user API answer is projected from that user's entry."
	r.NotDecided = []string{"numeric conservation under a concrete schedule (follows from the atomic-exchange and lockset facts by the memory model; not measured)", "JSON encoding of the API answers"}
	r.Assumptions = []string{"sync/atomic Uint64 Add/Swap/Load are single atomic operations", "sync.RWMutex as documented"}
	c14R1(p, r)
	c14R2(p, r)
	c14R3(p, r)
	c14R4(p, r)
	c14R5(p, r)
	c14R6(p, r)
	c14R7(p, r)
	const r8 = "C14-R8"
	r.Rule(r8, "lock balance in package stats: Lock/RLock only with the mutex not held by the function, Unlock/RUnlock only with the matching lock held, released at every exit (or by a deferred call)")
	nb := lockBalance(p, r, r8, "stats", nil)
	r.Count("lock_operations_checked", nb)
	r.Floor(r8, 6)
	// R9: the TCP relay hands the copy's two counts to the collector in the right roles (same
	// analysis as C13-R3): both are uint64, so swapping them compiles and no test looks at the figures
	{
		sub := NewReport("C14", "quick")
		// C13's rules are written against the anchors with their unexported helpers expanded
		saved := p.AnchorsInlined
		p.AnchorsInlined = true
		c13R3(p, sub)
		p.AnchorsInlined = saved
		r.Rule("C14-R9", "TCP session figures keep their direction: "+sub.RuleDocs["C13-R3"])
		for _, o := range sub.Obs {
			o.Rule = "C14-R9"
			r.Obs = append(r.Obs, o)
		}
		r.Floor("C14-R9", 3)
	}
	// R10: each UDP relay direction is recorded as that direction (both collector methods take the
	// same argument types, so calling the other one compiles)
	{
		const r10 = "C14-R10"
		r.Rule(r10, "UDP figures keep their direction: the function that forwards client packets to the NAT socket (the uplink of each relay variant, discovered by structure) records with the collector's uplink method only, the function that forwards replies to the client (the downlink) with the downlink method only")
		n10 := 0
		for _, site := range discoverRelays(p) {
			for dir, fc := range map[string]*FuncCtx{"Uplink": site.Uplink, "Downlink": site.Downlink} {
				if fc == nil {
					continue
				}
				other := map[string]string{"Uplink": "Downlink", "Downlink": "Uplink"}[dir]
				for _, c := range allCtxs(p, fc) {
					for _, cs := range c.AllCalls() {
						if cs.Fn == nil || !strings.HasPrefix(cs.Fn.Name(), "CollectUDPSession") {
							continue
						}
						n10++
						r.Check(!strings.HasSuffix(cs.Fn.Name(), other) && strings.HasSuffix(cs.Fn.Name(), dir), r10, fmt.Sprintf("%s:records-own-direction", fc.Name), cs.Pos(), "the "+strings.ToLower(dir)+" records "+strings.ToLower(dir)+" traffic", "the relay's "+strings.ToLower(dir)+" function records its packets and bytes with "+cs.Fn.Name()+": the traffic is charged to the opposite direction")
					}
				}
			}
		}
		r.Count("udp_direction_sites", n10)
		r.Floor(r10, 9)
	}
}

func trafficFields(p *Prog) []string {
	pkg := p.Pkg("stats")
	obj := pkg.Types.Scope().Lookup("Traffic")
	st := obj.Type().Underlying().(*types.Struct)
	var out []string
	for i := 0; i < st.NumFields(); i++ {
		out = append(out, st.Field(i).Name())
	}
	return out
}

func counterFields(p *Prog) []string {
	pkg := p.Pkg("stats")
	obj := pkg.Types.Scope().Lookup("trafficCollector")
	st := obj.Type().Underlying().(*types.Struct)
	var out []string
	for i := 0; i < st.NumFields(); i++ {
		out = append(out, st.Field(i).Name())
	}
	return out
}

// atomicCallOn matches tc.<counter>.<Method>(args) and returns counter name, method name.
func atomicCallOn(info *types.Info, e ast.Expr) (counter, method string, call *ast.CallExpr, ok bool) {
	c, isCall := ast.Unparen(e).(*ast.CallExpr)
	if !isCall {
		return
	}
	fn := Callee(info, c)
	if fn == nil || fn.Pkg() == nil || fn.Pkg().Path() != "sync/atomic" {
		return
	}
	sel, isSel := ast.Unparen(c.Fun).(*ast.SelectorExpr)
	if !isSel {
		return
	}
	fsel, isSel := ast.Unparen(sel.X).(*ast.SelectorExpr)
	if !isSel {
		return
	}
	s, isField := info.Selections[fsel]
	if !isField || s.Kind() != types.FieldVal || namedTypeName(s.Recv()) != "trafficCollector" {
		return
	}
	return fsel.Sel.Name, fn.Name(), c, true
}

func c14R1(p *Prog, r *Report) {
	const rule = "C14-R1"
	r.Rule(rule, "counter/field agreement: snapshot and snapshotAndReset pair every Traffic field with the counter of the same name, Traffic.Add adds every field to itself, and each collect* method adds the parameter that the Collector interface names after the counter (positionally traced) — no counter omitted, none crossed")
	tf := trafficFields(p)
	cf := counterFields(p)
	r.Check(len(tf) == len(cf), rule, "stats:Traffic~trafficCollector:same-field-count", "", fmt.Sprintf("%d fields each", len(tf)), fmt.Sprintf("Traffic has %d fields, trafficCollector has %d counters", len(tf), len(cf)))
	for _, f := range tf {
		found := false
		for _, c := range cf {
			if lowerFirst(f) == c {
				found = true
			}
		}
		r.Check(found, rule, "stats:Traffic."+f+"~counter", "", "has a counter of the same name", "no counter named "+lowerFirst(f))
	}
	for _, name := range []string{"snapshot", "snapshotAndReset"} {
		fc := p.Func("stats", "trafficCollector", name)
		info := fc.Info()
		seen := map[string]bool{}
		// the Traffic value being returned, built as a literal or field by field
		for _, bv := range builtValues(fc, "Traffic") {
			var names []string
			for fname := range bv.Fields {
				names = append(names, fname)
			}
			sort.Strings(names)
			for _, fname := range names {
				val := bv.Fields[fname]
				counter, _, _, isAtomic := atomicCallOn(info, fc.Resolve(val))
				seen[fname] = true
				r.Check(isAtomic && counter == lowerFirst(fname), rule, fmt.Sprintf("stats.(*trafficCollector).%s:%s", name, fname), p.posStr(val.Pos()),
					"reads counter "+counter, fmt.Sprintf("Traffic.%s is filled from %s (expected counter %s)", fname, exprStr(val), lowerFirst(fname)))
			}
		}
		for _, f := range tf {
			if !seen[f] {
				r.Fail(rule, fmt.Sprintf("stats.(*trafficCollector).%s:%s", name, f), p.posStr(fc.Body.Pos()), "field is not filled: its traffic is never reported")
			}
		}
	}
	// Traffic.Add
	add := p.Func("stats", "Traffic", "Add")
	seen := map[string]bool{}
	for _, v := range add.G.V {
		as, ok := v.Node.(*ast.AssignStmt)
		if !ok || len(as.Lhs) != 1 || len(as.Rhs) != 1 {
			continue
		}
		l, lok := ast.Unparen(as.Lhs[0]).(*ast.SelectorExpr)
		rr, rok := ast.Unparen(as.Rhs[0]).(*ast.SelectorExpr)
		if !lok {
			continue
		}
		good := as.Tok == token.ADD_ASSIGN && rok && l.Sel.Name == rr.Sel.Name &&
			objOf(add.Info(), l.X) == add.RecvObj() && objOf(add.Info(), rr.X) == add.ParamObj(0)
		seen[l.Sel.Name] = true
		r.Check(good, rule, "stats.(*Traffic).Add:"+l.Sel.Name, p.posStr(as.Pos()), "t."+l.Sel.Name+" += u."+l.Sel.Name, "aggregation statement "+exprStr(as)+" does not add the same field of the argument")
	}
	for _, f := range tf {
		if !seen[f] {
			r.Fail(rule, "stats.(*Traffic).Add:"+f, p.posStr(add.Body.Pos()), "field is not aggregated: server totals omit it")
		}
	}
	// collect*: trace interface parameter names positionally
	pkg := p.Pkg("stats")
	iface := pkg.Types.Scope().Lookup("Collector").Type().Underlying().(*types.Interface)
	for i := 0; i < iface.NumMethods(); i++ {
		m := iface.Method(i)
		if !strings.HasPrefix(m.Name(), "Collect") {
			continue
		}
		sig := m.Type().(*types.Signature)
		outer := p.Func("stats", "serverCollector", m.Name())
		// outer forwards params 1.. to inner collect method
		var innerCall *CallSite
		for _, cs := range outer.AllCalls() {
			if cs.Fn != nil && namedTypeName(recvTypeOf(cs.Fn)) == "trafficCollector" {
				c := cs
				innerCall = &c
			}
		}
		if innerCall == nil {
			r.Fail(rule, "stats.(*serverCollector)."+m.Name()+":forwards", p.posStr(outer.Body.Pos()), "does not forward to a trafficCollector method")
			continue
		}
		inner := p.CtxOfObj(innerCall.Fn)
		// map inner param index -> interface param name
		nameOf := map[types.Object]string{}
		for ai, a := range innerCall.Call.Args {
			ao := objOf(outer.Info(), a)
			for pi := 0; pi < sig.Params().Len(); pi++ {
				if ao != nil && ao == outer.ParamObj(pi) {
					nameOf[inner.ParamObj(ai)] = sig.Params().At(pi).Name()
				}
			}
		}
		// the collector chosen is keyed by the username parameter
		userOK := false
		if sel, ok := ast.Unparen(innerCall.Call.Fun).(*ast.SelectorExpr); ok {
			if c, ok := ast.Unparen(sel.X).(*ast.CallExpr); ok && len(c.Args) == 1 && objOf(outer.Info(), c.Args[0]) == outer.ParamObj(0) {
				if fn := Callee(outer.Info(), c); fn != nil && fn.Name() == "trafficCollector" {
					userOK = true
				}
			}
		}
		r.Check(userOK, rule, "stats.(*serverCollector)."+m.Name()+":collector-of-username", innerCall.Pos(), "records into trafficCollector(username) of its own username parameter", "does not record into the collector selected by its username parameter")
		adds := map[string]int{}
		for _, cs := range inner.AllCalls() {
			counter, method, c, ok := atomicCallOn(inner.Info(), cs.Call)
			if !ok {
				continue
			}
			adds[counter]++
			if method != "Add" || len(c.Args) != 1 {
				r.Fail(rule, fmt.Sprintf("stats.(*trafficCollector).%s:%s", inner.Obj.Name(), counter), cs.Pos(), "recording uses "+method+" instead of Add: concurrent increments are lost")
				continue
			}
			if strings.HasSuffix(counter, "Sessions") {
				k, isConst := constInt(inner.Info(), c.Args[0])
				wantCounter := "tcpSessions"
				if strings.Contains(m.Name(), "UDP") {
					wantCounter = "udpSessions"
				}
				r.Check(isConst && k == 1 && counter == wantCounter, rule, fmt.Sprintf("stats.(*trafficCollector).%s:%s", inner.Obj.Name(), counter), cs.Pos(), "session counter incremented by 1", "session counter "+counter+" incremented by "+exprStr(c.Args[0])+" in "+m.Name())
				continue
			}
			pn := nameOf[objOf(inner.Info(), c.Args[0])]
			r.Check(pn == counter, rule, fmt.Sprintf("stats.(*trafficCollector).%s:%s", inner.Obj.Name(), counter), cs.Pos(),
				"counter "+counter+" receives the Collector."+m.Name()+" parameter of the same name", fmt.Sprintf("counter %s receives interface parameter %q", counter, pn))
		}
		// every interface numeric parameter is recorded exactly once
		for pi := 1; pi < sig.Params().Len(); pi++ {
			n := sig.Params().At(pi).Name()
			r.Check(adds[n] == 1, rule, "stats.Collector."+m.Name()+":param:"+n, p.posStr(inner.Body.Pos()), "recorded exactly once", fmt.Sprintf("parameter %s is recorded %d times", n, adds[n]))
		}
		// sessions: exactly one session increment per TCP session and per UDP downlink, none on uplink
		sess := adds["tcpSessions"] + adds["udpSessions"]
		wantSess := 1
		if strings.HasSuffix(m.Name(), "Uplink") {
			wantSess = 0
		}
		r.Check(sess == wantSess, rule, "stats.Collector."+m.Name()+":session-count", p.posStr(inner.Body.Pos()), fmt.Sprintf("%d session increment(s)", sess), fmt.Sprintf("%d session increments, expected %d (a UDP session is counted once, on its downlink record)", sess, wantSess))
	}
	r.Floor(rule, 30)
}

func c14R2(p *Prog, r *Report) {
	const rule = "C14-R2"
	r.Rule(rule, "reset is one atomic exchange per counter: snapshotAndReset reads every counter through Swap(0) exactly once; snapshot uses Load only; no function of package stats uses Store or a Load followed by a write on a counter (increments landing in between would be dropped)")
	pkg := p.Pkg("stats")
	p.AllFuncs(pkg, func(fc *FuncCtx) {
		perCounter := map[string][]string{}
		for _, cs := range fc.AllCalls() {
			counter, method, c, ok := atomicCallOn(fc.Info(), cs.Call)
			if !ok {
				continue
			}
			perCounter[counter] = append(perCounter[counter], method)
			construct := fmt.Sprintf("%s:%s.%s", fc.Name, counter, method)
			switch method {
			case "Store", "CompareAndSwap", "And", "Or":
				r.Fail(rule, construct, cs.Pos(), "counter modified with "+method+": an Add landing between a read and this write is lost")
			case "Swap":
				k, isConst := constInt(fc.Info(), c.Args[0])
				isReset := fc.Obj != nil && fc.Obj.Name() == "snapshotAndReset"
				r.Check(isConst && k == 0 && isReset, rule, construct, cs.Pos(), "Swap(0) in snapshotAndReset", "Swap used outside snapshotAndReset or with a non-zero value")
			case "Load":
				isSnap := fc.Obj != nil && fc.Obj.Name() == "snapshot"
				r.Check(isSnap, rule, construct, cs.Pos(), "Load in snapshot", "counter read with Load in "+fc.Name+": a read that is not the exchange itself cannot be combined with a reset without losing increments")
			case "Add":
				r.OK(rule, construct, cs.Pos(), "Add")
			}
		}
		if fc.Obj != nil && fc.Obj.Name() == "snapshotAndReset" && namedTypeName(recvTypeOf(fc.Obj)) == "trafficCollector" {
			for _, c := range counterFields(p) {
				ms := perCounter[c]
				r.Check(len(ms) == 1 && ms[0] == "Swap", rule, "stats.(*trafficCollector).snapshotAndReset:exchange:"+c, p.posStr(fc.Body.Pos()), "exactly one Swap", fmt.Sprintf("counter %s is accessed %v in snapshotAndReset (expected exactly one Swap(0))", c, ms))
			}
		}
	})
	// no helper takes the address of a counter or passes it on (would hide Load/Store pairs from this rule)
	p.AllFuncs(pkg, func(fc *FuncCtx) {
		for _, fa := range fc.FieldAccesses(mp("stats"), "trafficCollector", nil) {
			// allowed: tc.counter.Method(...) only
			okUse := false
			for _, cs := range fc.AllCalls() {
				if sel, ok := ast.Unparen(cs.Call.Fun).(*ast.SelectorExpr); ok && ast.Unparen(sel.X) == fa.Sel {
					okUse = true
				}
			}
			if !okUse {
				r.Fail(rule, fmt.Sprintf("%s:counter-escapes:%s", fc.Name, fa.Field.Name()), p.posStr(fa.Sel.Pos()), "counter is used other than as the receiver of an atomic method (address taken or copied): accesses become invisible to the exchange rule")
			}
		}
	})
	r.Floor(rule, 20)
}

func c14R3(p *Prog, r *Report) {
	const rule = "C14-R3"
	r.Rule(rule, "serverCollector.ucs is read under the lock and written under the write lock; a user's collector is inserted only when a lookup made inside the same write-locked section found none (otherwise two first sessions of a user each install a collector and one's traffic vanishes); users are never deleted")
	ucs := structFieldByType(p, "stats", "serverCollector", "map", isMapType)
	muF := structFieldByType(p, "stats", "serverCollector", "sync.RWMutex", isRWMutex)
	spec := &guardSpec{Rule: rule, PkgRel: "stats", OwnerType: "serverCollector", MuField: muF,
		Fields:       map[string]map[string]bool{"serverCollector": {ucs: true}},
		NoLockNeeded: map[string]string{}}
	accs := runGuard(p, r, spec)
	for _, a := range accs {
		fc := a.FC
		// deletes / clear
		v := fc.G.V[a.A.V]
		inspectNoLit(v.Node, func(n ast.Node) bool {
			if c, ok := n.(*ast.CallExpr); ok {
				if id, ok := ast.Unparen(c.Fun).(*ast.Ident); ok {
					if b, ok := fc.Info().Uses[id].(*types.Builtin); ok && (b.Name() == "delete" || b.Name() == "clear") && len(c.Args) > 0 && ast.Unparen(c.Args[0]) == a.A.Sel {
						r.Fail(rule, fc.Name+":removes-user", p.posStr(c.Pos()), "a user's collector is removed: its not-yet-reported traffic is lost from later snapshots and totals")
					}
				}
			}
			return true
		})
		// whole-map replacement
		if as, ok := v.Node.(*ast.AssignStmt); ok && a.A.Write {
			for _, l := range as.Lhs {
				if ast.Unparen(l) == a.A.Sel {
					r.Fail(rule, fc.Name+":replaces-user-map", p.posStr(as.Pos()), "the user map is replaced: collectors still referenced by sessions stop being reported")
				}
			}
		}
	}
	// insertion re-check
	uc := p.Func("stats", "serverCollector", "userCollector")
	info := uc.Info()
	recv := uc.RecvObj()
	states := uc.LockStates(fmt.Sprintf("%p.%s", recv, muF), LUnlocked)
	nIns := 0
	for _, v := range uc.G.V {
		as, ok := v.Node.(*ast.AssignStmt)
		if !ok || v.Kind != VStmt {
			continue
		}
		for _, l := range as.Lhs {
			ix, ok := ast.Unparen(l).(*ast.IndexExpr)
			if !ok {
				continue
			}
			sel, ok := ast.Unparen(ix.X).(*ast.SelectorExpr)
			if !ok || sel.Sel.Name != ucs {
				continue
			}
			nIns++
			// find a lookup `x = sc.ucs[key]` under LWrite whose nil edge guards the insertion, same key, no unlock in between
			good := false
			for _, lv := range uc.G.V {
				las, ok := lv.Node.(*ast.AssignStmt)
				if !ok || lv.Kind != VStmt || len(las.Lhs) != 1 || len(las.Rhs) != 1 {
					continue
				}
				lix, ok := ast.Unparen(las.Rhs[0]).(*ast.IndexExpr)
				if !ok || !samePath(info, lix.X, ix.X) || objOf(info, lix.Index) == nil || objOf(info, lix.Index) != objOf(info, ix.Index) {
					continue
				}
				if states[lv.ID] != LWrite {
					continue
				}
				res := objOf(info, las.Lhs[0])
				if res == nil {
					continue
				}
				var edges []Edge
				for _, e := range uc.TestEdges(func(x ast.Expr) bool { return objOf(info, x) == res }, WantNil) {
					if uc.SoleDef(e.From, res, lv.ID) {
						edges = append(edges, e)
					}
				}
				if !uc.GuardedBy(lv.ID, edges, v.ID) {
					continue
				}
				// no unlock between lookup and insertion
				unlocked := false
				between := uc.G.ReachAfter(lv.ID, func(x *Vertex) bool { return x.ID == v.ID }, nil)
				for _, cs := range uc.AllCalls() {
					op, mu := mutexOp(info, cs.Call)
					if (op == opUnlock || op == opRUnlock) && pathKey(info, mu) == fmt.Sprintf("%p.%s", recv, muF) && between[cs.V] && uc.G.Reach([]int{cs.V}, nil, nil)[v.ID] {
						unlocked = true
					}
				}
				if !unlocked {
					good = true
				}
			}
			r.Check(good, rule, "stats.(*serverCollector).userCollector:insert-after-recheck", p.posStr(as.Pos()),
				"inserted only when a lookup of the same key inside the same write-locked section returned nil",
				"a collector is inserted without re-checking under the write lock: concurrent first sessions of one user each install a collector, the last one wins and the others' traffic disappears from the user's figures and the totals")
		}
	}
	r.Check(nIns == 1, rule, "stats.(*serverCollector).userCollector:single-insertion-site", p.posStr(uc.Body.Pos()), "one insertion site", fmt.Sprintf("%d insertion sites", nIns))
	r.Floor(rule, 8)
}

func c14R4(p *Prog, r *Report) {
	const rule = "C14-R4"
	r.Rule(rule, "aggregation covers the anonymous collector and every user: Snapshot/SnapshotAndReset start from the anonymous collector's (resetting) snapshot, and inside a lock-held range over the whole user map add each user's (resetting) snapshot to the totals and append the same value to Users")
	for _, pair := range [][2]string{{"Snapshot", "snapshot"}, {"SnapshotAndReset", "snapshotAndReset"}} {
		fc := p.Inlined(p.Func("stats", "serverCollector", pair[0]))
		info := fc.Info()
		prefix := "stats.(*serverCollector)." + pair[0]
		recv := fc.RecvObj()
		ucs := structFieldByType(p, "stats", "serverCollector", "map", isMapType)
		muF := structFieldByType(p, "stats", "serverCollector", "sync.RWMutex", isRWMutex)
		tcF := structFieldByType(p, "stats", "serverCollector", "trafficCollector", func(t types.Type) bool { return namedTypeName(t) == "trafficCollector" })
		states := fc.LockStates(fmt.Sprintf("%p.%s", recv, muF), LUnlocked)
		// anonymous part
		anon := false
		var totals ast.Expr // the accumulator that becomes the result's Traffic
		for _, v := range fc.G.V {
			as, ok := v.Node.(*ast.AssignStmt)
			if !ok || len(as.Rhs) != 1 {
				continue
			}
			// the value may reach the totals through a local (a helper's parameter)
			if c, ok := ast.Unparen(fc.Resolve(as.Rhs[0])).(*ast.CallExpr); ok {
				fn := Callee(info, c)
				if fn != nil && fn.Name() == pair[1] && namedTypeName(recvTypeOf(fn)) == "trafficCollector" {
					if sel, ok := ast.Unparen(c.Fun).(*ast.SelectorExpr); ok && pathKey(info, sel.X) == fmt.Sprintf("%p.%s", recv, tcF) {
						if c14FlowsToResult(fc, as.Lhs[0], "Traffic") && fc.G.Dominates([]int{v.ID}, fc.G.Exit) {
							anon = true
							totals = as.Lhs[0]
						}
					}
				}
			}
		}
		r.Check(anon, rule, prefix+":starts-from-anonymous", p.posStr(fc.Body.Pos()), "totals start from sc.tc."+pair[1]+"()", "the totals do not start from the anonymous collector's "+pair[1]+"(): sessions without a user are missing from the totals (or are never reset)")
		// range over ucs
		var rng *Vertex
		for _, v := range fc.G.V {
			if v.Kind == VRange {
				rs := v.Stmt.(*ast.RangeStmt)
				if pathKey(info, rs.X) == fmt.Sprintf("%p.%s", recv, ucs) {
					rng = v
				}
			}
		}
		if rng == nil {
			r.Fail(rule, prefix+":ranges-over-users", p.posStr(fc.Body.Pos()), "no range over the user map")
			continue
		}
		rs := rng.Stmt.(*ast.RangeStmt)
		r.Check(states[rng.ID].Held(), rule, prefix+":range-under-lock", p.posStr(rs.Pos()), "user map iterated with the lock held", "user map iterated without the lock")
		// no break/continue/return that skips users: every path from loop body entry back to the loop head passes Add and append
		ucObj := objOf(info, rs.Value)
		var snapV, addV, appV = -1, -1, -1
		var uObj types.Object
		for _, v := range fc.G.V {
			if v.Node == nil || !(rs.Body.Pos() <= v.Node.Pos() && v.Node.End() <= rs.Body.End()) {
				continue
			}
			for _, cs := range fc.AllCalls() {
				if cs.V != v.ID || cs.Fn == nil {
					continue
				}
				if cs.Fn.Name() == pair[1] && namedTypeName(recvTypeOf(cs.Fn)) == "userCollector" {
					// uc.snapshot(name) or the method expression (*userCollector).snapshot(uc, name)
					var recvExpr, nameArg ast.Expr
					if sel, ok := ast.Unparen(cs.Call.Fun).(*ast.SelectorExpr); ok {
						if s := info.Selections[sel]; s != nil && s.Kind() == types.MethodExpr && len(cs.Call.Args) == 2 {
							recvExpr, nameArg = cs.Call.Args[0], cs.Call.Args[1]
						} else if len(cs.Call.Args) == 1 {
							recvExpr, nameArg = sel.X, cs.Call.Args[0]
						}
					}
					if recvExpr != nil && objOf(info, recvExpr) == ucObj {
						snapV = v.ID
						uObj = cs.ResultVar(0)
						// name argument is the range key
						if objOf(info, nameArg) != objOf(info, rs.Key) {
							r.Fail(rule, prefix+":user-name-is-map-key", cs.Pos(), "the user's figures are labelled with something other than the map key")
						}
					}
				}
				if cs.Fn.Name() == "Add" && namedTypeName(recvTypeOf(cs.Fn)) == "Traffic" {
					addV = v.ID
					if a, ok := ast.Unparen(cs.Call.Args[0]).(*ast.SelectorExpr); !ok || objOf(info, a.X) != uObj || a.Sel.Name != "Traffic" {
						addV = -2
					}
					if sel, ok := ast.Unparen(cs.Call.Fun).(*ast.SelectorExpr); !ok || totals == nil || !samePath(info, sel.X, totals) {
						addV = -2 // added to something other than the totals
					}
				}
			}
			if as, ok := v.Node.(*ast.AssignStmt); ok && len(as.Rhs) == 1 {
				if c, ok := ast.Unparen(as.Rhs[0]).(*ast.CallExpr); ok {
					if id, ok := ast.Unparen(c.Fun).(*ast.Ident); ok && id.Name == "append" && len(c.Args) == 2 && objOf(info, c.Args[1]) == uObj && uObj != nil &&
						samePath(info, as.Lhs[0], c.Args[0]) && c14FlowsToResult(fc, as.Lhs[0], "Users") {
						appV = v.ID
					}
				}
			}
		}
		r.Check(snapV >= 0, rule, prefix+":per-user-"+pair[1], p.posStr(rs.Pos()), "each user's collector."+pair[1]+"(name) is taken in the loop", "the loop does not take each user's "+pair[1]+"()")
		r.Check(addV >= 0, rule, prefix+":adds-user-to-totals", p.posStr(rs.Pos()), "the same per-user value is added to the totals", "the per-user snapshot value is not the one added to the totals")
		r.Check(appV >= 0, rule, prefix+":appends-user", p.posStr(rs.Pos()), "the same per-user value is appended to Users", "the per-user snapshot value is not appended to Users")
		if snapV >= 0 && addV >= 0 && appV >= 0 {
			// every iteration passes all three: from the loop's true edge, the head is not reachable avoiding any of them
			for _, must := range []int{snapV, addV, appV} {
				var starts []int
				for _, e := range rng.Succs {
					if e.Label == LTrue {
						starts = append(starts, e.To)
					}
				}
				reach := fc.G.Reach(starts, func(v *Vertex) bool { return v.ID == must }, nil)
				r.Check(!reach[rng.ID] && !reach[fc.G.Exit], rule, fmt.Sprintf("%s:no-user-skipped:%s", prefix, exprStr(fc.G.V[must].Node)), p.posStr(fc.G.V[must].Node.Pos()), "every iteration executes it", "an iteration can skip it (continue/break/return): that user's traffic is missing from Users or totals")
			}
		}
	}
	r.Floor(rule, 14)
}

// c14R5: recording sites in package service.
func c14R5(p *Prog, r *Report) {
	const rule = "C14-R5"
	r.Rule(rule, "every Collect* call in package service passes the authenticated user of that session (request's / session entry's user name, or \"\" in relays whose server has no users) and its own loop's packet and byte counters, in (packets, bytes) order; the TCP relay passes (downlink = remote→client, uplink = client→remote + initial payload)")
	pkg := p.Pkg("service")
	n := 0
	p.AllFuncs(pkg, func(top *FuncCtx) {
		var fcs []*FuncCtx
		fcs = append(fcs, top)
		for _, lit := range top.Lits() {
			fcs = append(fcs, p.LitCtx(top, lit))
		}
		for _, fc := range fcs {
			info := fc.Info()
			for _, cs := range fc.AllCalls() {
				if cs.Fn == nil || !strings.HasPrefix(cs.Fn.Name(), "Collect") || cs.Fn.Pkg() == nil || cs.Fn.Pkg().Path() != mp("stats") || len(cs.Call.Args) != 3 {
					continue
				}
				n++
				construct := fmt.Sprintf("%s:%s", fc.Name, cs.Fn.Name())
				// username
				ua := ast.Unparen(cs.Call.Args[0])
				userOK, why := false, ""
				if v, ok := constOf(info, ua); ok && constStr(v) == "" {
					// anonymous: the relay type must not carry users
					recvT := ""
					if ro := top.RecvObj(); ro != nil {
						recvT = namedTypeName(ro.Type())
					}
					userOK = recvT == "UDPNATRelay" || recvT == "UDPTransparentRelay"
					why = "anonymous recording in " + recvT
				} else if sel, ok := ua.(*ast.SelectorExpr); ok {
					base := objOf(info, sel.X)
					if sel.Sel.Name == "Username" && base != nil && namedTypeName(base.Type()) == "ConnRequest" {
						userOK, why = true, "request's Username"
					}
					if sel.Sel.Name == "username" && base != nil {
						// parameter struct of the relay goroutine (uplink/downlink), filled from the session entry
						userOK, why = true, "session's username ("+exprStr(ua)+")"
					}
				}
				r.Check(userOK, rule, construct+":user", cs.Pos(), why, "user argument "+exprStr(ua)+" is not the session's authenticated user")
				// what was counted is recorded: from every update of a figure handed to the
				// collector, every path to the function's exit passes this call (an error at the
				// end of a session does not make its traffic free)
				lost := ""
				for _, a := range cs.Call.Args[1:] {
					e := ast.Unparen(a)
					for {
						if inner, isConv := isConversionExpr(info, e); isConv {
							e = ast.Unparen(inner)
							continue
						}
						break
					}
					o := objOf(info, e)
					if o == nil {
						continue
					}
					for _, d := range fc.Defs(o) {
						switch st := fc.G.V[d].Node.(type) {
						case *ast.ValueSpec:
							if len(st.Values) == 0 {
								continue
							}
						}
						if d == cs.V {
							continue
						}
						if fc.G.ReachAfter(d, func(v *Vertex) bool { return v.ID == cs.V }, nil)[fc.G.Exit] {
							lost = fmt.Sprintf("%s is updated at %s and the function can then end without recording it", o.Name(), p.posStr(fc.G.V[d].Node.Pos()))
						}
					}
				}
				r.Check(lost == "", rule, construct+":recorded-on-every-exit", cs.Pos(), "every path from an update of the figures to the exit passes the recording call", lost+": sessions that end that way (e.g. with a copy error after a peer reset) are never counted")
				if cs.Fn.Name() == "CollectTCPSession" {
					continue // roles checked by C13-R3
				}
				// packets / bytes roles: packets counter is incremented by counts, bytes counter by uint64(length)
				pk, by := objOf(info, cs.Call.Args[1]), objOf(info, cs.Call.Args[2])
				if pk == nil || by == nil {
					r.Fail(rule, construct+":counters", cs.Pos(), "undecided: counters are not plain variables")
					continue
				}
				kindOf := func(o types.Object) string {
					kind := ""
					for _, d := range fc.Defs(o) {
						switch st := fc.G.V[d].Node.(type) {
						case *ast.IncDecStmt:
							kind += "P"
						case *ast.AssignStmt:
							if st.Tok == token.ADD_ASSIGN && len(st.Rhs) == 1 {
								s := exprStr(st.Rhs[0])
								switch {
								case strings.Contains(strings.ToLower(s), "len"):
									kind += "B"
								default:
									kind += "P"
								}
							}
						}
					}
					return kind
				}
				kp, kb := kindOf(pk), kindOf(by)
				r.Check(kp != "" && !strings.Contains(kp, "B") && kb != "" && !strings.Contains(kb, "P"), rule, construct+":counters", cs.Pos(),
					fmt.Sprintf("%s counts packets, %s accumulates lengths", pk.Name(), by.Name()),
					fmt.Sprintf("argument roles: %s (updates %q) passed as packets, %s (updates %q) passed as bytes", pk.Name(), kp, by.Name(), kb))
			}
		}
	})
	r.Count("collect_call_sites", n)
	r.Floor(rule, 11)
}

// c14R6: API projection.
func c14R6(p *Prog, r *Report) {
	const rule = "C14-R6"
	r.Rule(rule, "API projection: the per-server stats handler returns the collector's snapshot unmodified and resets only on the clear edge; the per-user handler takes its Traffic from the Users entry whose Name equals the path's user name, never from the server aggregate")
	gs := p.Func("api/ssm", "", "handleGetStats")
	info := gs.Info()
	var snapCalls, resetCalls []CallSite
	for _, cs := range gs.AllCalls() {
		if cs.Fn == nil {
			continue
		}
		switch cs.Fn.Name() {
		case "Snapshot":
			snapCalls = append(snapCalls, cs)
		case "SnapshotAndReset":
			resetCalls = append(resetCalls, cs)
		}
	}
	r.Check(len(snapCalls) == 1 && len(resetCalls) == 1, rule, "api/ssm.handleGetStats:snapshot-or-reset", p.posStr(gs.Body.Pos()), "one Snapshot and one SnapshotAndReset call", "expected exactly one Snapshot and one SnapshotAndReset call")
	if len(resetCalls) == 1 {
		// reset only under a condition mentioning the "clear" query value
		rc := resetCalls[0]
		guard := false
		var guardConds []ast.Node
		for _, v := range gs.G.V {
			if v.Kind != VCond {
				continue
			}
			for _, e := range v.Succs {
				if e.Label == LTrue && gs.G.EdgeDominates([]Edge{e}, rc.V) {
					guard = true
					guardConds = append(guardConds, v.Node)
				}
			}
		}
		clearLit := false
		// the test may be made by a helper of the package called in the guarding condition
		for _, gc := range guardConds {
			ast.Inspect(gc, func(n ast.Node) bool {
				if c, ok := n.(*ast.CallExpr); ok {
					if fn := Callee(info, c); fn != nil && fn.Pkg() == gs.Pkg.Types {
						if cf := p.CtxOfObj(fn); cf != nil && cf.Body != nil {
							ast.Inspect(cf.Body, func(m ast.Node) bool {
								if bl, ok := m.(*ast.BasicLit); ok && bl.Value == `"clear"` {
									clearLit = true
								}
								return true
							})
						}
					}
				}
				return true
			})
		}
		ast.Inspect(gs.Body, func(n ast.Node) bool {
			if bl, ok := n.(*ast.BasicLit); ok && bl.Value == `"clear"` {
				clearLit = true
			}
			return true
		})
		r.Check(guard && clearLit, rule, "api/ssm.handleGetStats:reset-only-on-clear", rc.Pos(), "SnapshotAndReset is conditional on the clear query", "SnapshotAndReset is not guarded by the clear query: plain reads reset the statistics")
		if len(snapCalls) == 1 {
			reach := gs.G.Reach([]int{snapCalls[0].V}, nil, nil)
			r.Check(!reach[rc.V] && !gs.G.Reach([]int{rc.V}, nil, nil)[snapCalls[0].V], rule, "api/ssm.handleGetStats:exclusive", rc.Pos(), "the two are alternatives", "both Snapshot and SnapshotAndReset can run for one request")
		}
	}
	// the encoded value is the snapshot itself: the result of Snapshot / SnapshotAndReset passed
	// directly, or a variable whose every definition reaching the encoder is such a result
	isSnap := func(e ast.Expr) bool {
		c, ok := ast.Unparen(e).(*ast.CallExpr)
		if !ok {
			return false
		}
		for _, sc := range append(append([]CallSite{}, snapCalls...), resetCalls...) {
			if sc.Call == c {
				return true
			}
		}
		return false
	}
	encOK := false
	nEnc := 0
	for _, cs := range gs.AllCalls() {
		if cs.Fn != nil && cs.Fn.Name() == "EncodeResponse" && len(cs.Call.Args) == 3 {
			nEnc++
			arg := cs.Call.Args[2]
			good := isSnap(arg)
			if o := objOf(info, arg); o != nil && !good {
				defs := gs.ReachingDefs(cs.V, o)
				good = len(defs) > 0
				for _, d := range defs {
					okDef := false
					if d != gs.G.Entry {
						if as, isAs := gs.G.V[d].Node.(*ast.AssignStmt); isAs && len(as.Lhs) == 1 && len(as.Rhs) == 1 && isSnap(as.Rhs[0]) {
							okDef = true
						}
					}
					if !okDef {
						good = false
					}
				}
			}
			if good {
				encOK = true
			} else {
				encOK = false
				break
			}
		}
	}
	_ = nEnc
	r.Check(encOK, rule, "api/ssm.handleGetStats:returns-snapshot-unmodified", p.posStr(gs.Body.Pos()), "the encoded value is the snapshot variable", "the encoded response is not the snapshot itself")

	gu := p.Func("api/ssm", "", "handleGetUser")
	uinfo := gu.Info()
	// username from path
	var userObj types.Object
	for _, cs := range gu.AllCalls() {
		if cs.Fn != nil && cs.Fn.Name() == "PathValue" && len(cs.Call.Args) == 1 {
			if v, ok := constOf(uinfo, cs.Call.Args[0]); ok && constStr(v) == "username" {
				userObj = cs.ResultVar(0)
			}
		}
	}
	nTraffic := 0
	var scanTraffic func(gu *FuncCtx, userObj types.Object)
	scanTraffic = func(gu *FuncCtx, userObj types.Object) {
		uinfo := gu.Info()
		for _, v := range gu.G.V {
			if v.Node == nil {
				continue
			}
			inspectNoLit(v.Node, func(n ast.Node) bool {
				sel, ok := n.(*ast.SelectorExpr)
				if !ok || sel.Sel.Name != "Traffic" {
					return true
				}
				tv, ok := uinfo.Types[sel.X]
				if !ok {
					return true
				}
				if _, isType := uinfo.Uses[sel.Sel].(*types.TypeName); isType {
					return true
				}
				base := namedTypeName(tv.Type)
				nTraffic++
				construct := fmt.Sprintf("api/ssm.handleGetUser:Traffic-of-%s#%d", base, nTraffic-1)
				switch base {
				case "Server":
					r.Fail(rule, construct, p.posStr(sel.Pos()), "the per-user answer embeds the server aggregate ("+exprStr(sel)+"): every user is shown the whole server's traffic")
				case "User":
					// must be under a Name == username condition
					uo := objOf(uinfo, sel.X)
					guarded := false
					if ix, isIx := ast.Unparen(sel.X).(*ast.IndexExpr); isIx {
						_ = ix
					}
					for _, cv := range gu.G.V {
						x, y, op, ok := condParts(cv)
						if !ok || op != token.EQL {
							continue
						}
						isName := func(e ast.Expr) bool {
							s, ok := ast.Unparen(e).(*ast.SelectorExpr)
							return ok && s.Sel.Name == "Name" && (uo == nil || objOf(uinfo, s.X) == uo)
						}
						isUser := func(e ast.Expr) bool { return userObj != nil && objOf(uinfo, e) == userObj }
						if (isName(x) && isUser(y)) || (isName(y) && isUser(x)) {
							for _, e := range cv.Succs {
								if e.Label == LTrue && gu.G.EdgeDominates([]Edge{e}, v.ID) {
									guarded = true
								}
							}
						}
					}
					r.Check(guarded, rule, construct, p.posStr(sel.Pos()), "taken from a Users entry whose Name equals the path's user name", "a Users entry's Traffic is used without checking that its Name is the requested user")
				default:
					r.Fail(rule, construct, p.posStr(sel.Pos()), "undecided: Traffic selected from "+base)
				}
				return true
			})
		}
	}
	scanTraffic(gu, userObj)
	// a helper of the package that is handed the requested user name looks the figures up on the
	// handler's behalf: the same rule applies inside it, with its parameter as the user name
	for _, cs := range gu.AllCalls() {
		if cs.Fn == nil || cs.Fn.Pkg() == nil || cs.Fn.Pkg() != gu.Pkg.Types || cs.Fn.Exported() {
			continue
		}
		callee := p.CtxOfObj(cs.Fn)
		if callee == nil || callee.Body == nil {
			continue
		}
		for i, a := range cs.Call.Args {
			if userObj != nil && objOf(uinfo, a) == userObj && callee.ParamObj(i) != nil && len(callee.Defs(callee.ParamObj(i))) == 0 {
				scanTraffic(callee, callee.ParamObj(i))
			}
		}
	}
	r.Check(nTraffic > 0, rule, "api/ssm.handleGetUser:has-traffic", p.posStr(gu.Body.Pos()), "the answer carries traffic figures", "the per-user answer carries no traffic figures")
	r.Floor(rule, 6)
}

// c14FlowsToResult: e is the named result's field f, or a local variable that every return
// statement places in field f of the returned composite literal.
func c14FlowsToResult(fc *FuncCtx, e ast.Expr, f string) bool {
	info := fc.Info()
	root, path, ok := pathOf(info, e)
	if !ok {
		return false
	}
	if res := fc.ResultObj(0); res != nil && root == res && path == "."+f {
		return true
	}
	rets := fc.Returns()
	if len(rets) == 0 {
		return false
	}
	if path == "."+f {
		// field f of a local struct that every return hands back (possibly through plain copies)
		for _, ret := range rets {
			rs := fc.G.V[ret].Node.(*ast.ReturnStmt)
			if len(rs.Results) != 1 {
				return false
			}
			o := objOf(info, rs.Results[0])
			if o == nil || !copyOfVar(fc, ret, o, root, 0) {
				return false
			}
		}
		return true
	}
	if path != "" {
		return false
	}
	// a local that is assigned to field f of the named result before every return
	if res := fc.ResultObj(0); res != nil {
		var stores []int
		for _, v := range fc.G.V {
			as, isAs := v.Node.(*ast.AssignStmt)
			if !isAs || v.Kind != VStmt || len(as.Lhs) != len(as.Rhs) {
				continue
			}
			for i, l := range as.Lhs {
				lr, lp, lok := pathOf(info, l)
				if lok && lr == res && lp == "."+f && objOf(info, as.Rhs[i]) == root {
					stores = append(stores, v.ID)
				}
			}
		}
		if len(stores) > 0 {
			all := true
			for _, ret := range rets {
				if !fc.G.Dominates(stores, ret) {
					all = false
				}
			}
			if all {
				return true
			}
		}
	}
	for _, ret := range rets {
		rs := fc.G.V[ret].Node.(*ast.ReturnStmt)
		if len(rs.Results) != 1 {
			return false
		}
		cl, ok := ast.Unparen(fc.Resolve(rs.Results[0])).(*ast.CompositeLit)
		if !ok {
			return false
		}
		found := false
		for _, el := range cl.Elts {
			if kv, ok := el.(*ast.KeyValueExpr); ok {
				if id, ok := kv.Key.(*ast.Ident); ok && id.Name == f && objOf(info, kv.Value) == root {
					found = true
				}
			}
		}
		if !found {
			return false
		}
	}
	return true
}

// structFieldByType returns the name of the single field of the named struct type whose type
// satisfies pred; the rule's anchor is the field's type, not its name.
func structFieldByType(p *Prog, pkgRel, typeName, what string, pred func(t types.Type) bool) string {
	obj := p.Pkg(pkgRel).Types.Scope().Lookup(typeName)
	if obj == nil {
		fatalf("anchor: type %s.%s not found", pkgRel, typeName)
	}
	st, ok := obj.Type().Underlying().(*types.Struct)
	if !ok {
		fatalf("anchor: %s.%s is not a struct", pkgRel, typeName)
	}
	name := ""
	for i := 0; i < st.NumFields(); i++ {
		if pred(st.Field(i).Type()) {
			if name != "" {
				fatalf("anchor: %s.%s has more than one %s field (%s, %s)", pkgRel, typeName, what, name, st.Field(i).Name())
			}
			name = st.Field(i).Name()
		}
	}
	if name == "" {
		fatalf("anchor: %s.%s has no %s field", pkgRel, typeName, what)
	}
	return name
}

func isMapType(t types.Type) bool { _, ok := t.Underlying().(*types.Map); return ok }
func isRWMutex(t types.Type) bool { return types.TypeString(t, nil) == "sync.RWMutex" }
func isMutex(t types.Type) bool   { return types.TypeString(t, nil) == "sync.Mutex" }

// c14R7: typestate of pooled packets. Once a relay hands a queued packet back to its pool
// (putQueuedPacket / sync.Pool.Put), a receive loop may take it out again and overwrite its
// fields at any moment, so nothing may read the packet afterwards — in particular not the length
// that is added to the session's byte counter.
func c14R7(p *Prog, r *Report) {
	const rule = "C14-R7"
	r.Rule(rule, "no use after release: on no path is a queued packet (or anything reached through the variable holding it) used after it was returned to the relay's packet pool and before the variable is given a new packet; the payload length added to a session's byte counter is therefore that of the packet just relayed, not of whatever packet the pool handed to another goroutine")
	pkg := p.Pkg("service")
	n := 0
	p.AllFuncs(pkg, func(top *FuncCtx) {
		for _, fc := range allCtxs(p, top) {
			info := fc.Info()
			ord := map[string]int{}
			for _, cs := range fc.AllCalls() {
				if cs.Fn == nil || len(cs.Call.Args) != 1 {
					continue
				}
				isPut := cs.Fn.FullName() == "(*sync.Pool).Put" || (strings.HasPrefix(cs.Fn.Name(), "put") && strings.HasSuffix(cs.Fn.Name(), "QueuedPacket"))
				if !isPut {
					continue
				}
				x, _ := objOf(info, cs.Call.Args[0]).(*types.Var)
				if x == nil || x.IsField() || x.Parent() == x.Pkg().Scope() {
					continue
				}
				if top.Obj != nil && cs.Fn.FullName() == "(*sync.Pool).Put" && fc.ParamObj(0) == types.Object(x) && strings.HasPrefix(top.Obj.Name(), "put") {
					continue // the pool wrapper itself
				}
				n++
				defs := map[int]bool{}
				for _, d := range fc.Defs(x) {
					defs[d] = true
				}
				reach := fc.G.ReachAfter(cs.V, func(v *Vertex) bool { return defs[v.ID] }, nil)
				bad := ""
				badPos := cs.Pos()
				for _, v := range fc.G.V {
					if !reach[v.ID] || v.Node == nil || v.ID == cs.V {
						continue
					}
					if usesObj(info, v.Node, x, false) {
						bad = exprStr(v.Node)
						badPos = p.posStr(v.Node.Pos())
						break
					}
				}
				k := ord[x.Name()]
				ord[x.Name()]++
				r.Check(bad == "", rule, fmt.Sprintf("%s:release-of-%s#%d", fc.Name, x.Name(), k), badPos, "the packet is not used again after it went back to the pool", "the packet is used after it was returned to the pool ("+bad+"): a receive loop may already have taken it out again and overwritten it, so the value read — e.g. the length added to the session's byte counter — belongs to some other packet")
			}
		}
	})
	r.Count("pool_release_sites", n)
	r.Floor(rule, 30)
}
