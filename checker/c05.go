package main

import (
	"fmt"
	"go/ast"
	"go/token"
	"go/types"
	"sort"
	"strings"
)

func init() {
	register(&PropCheck{ID: "C05", Pkgs: []string{"./ss2022", "./direct", "./zerocopy", "./service", "./socks5", "./clientgroups"}, Run: runC05})
}

func runC05(p *Prog, r *Report) {
	r.Explanation = "Structural necessary conditions of 'UDP packets survive pack/unpack and never exceed the path MTU, in place': each packer's packet covers exactly header + payload (+ tag) as a linear identity over its own offsets, headers are written at the offsets the identity implies, the front space a packer claims is bounded by the headroom its Info() declares (address-length bounds folded from socks5 constants), every packer compares the packed length with the MTU-derived limit and errors instead of truncating (for the self-limiting ss2022 packers: the padding budget identities imply packetLen <= limit and packetStart >= 0), unpackers hand their parsers exactly the packet region and return offsets inside it, the headroom combinators keep Front with Front and Rear with Rear, and every relay sizes and slices its buffers from UDPRelayHeadroom(packer headroom, unpacker headroom) in that role order."
	r.NotDecided = []string{"byte equality of payload and address after unpack", "randomised padding values", "that the runtime aead.Overhead() equals the declared 16-byte rear headroom (AES-GCM tag size, trusted)", "the identity-header count entering the declared ss2022 front headroom (value-level)"}
	r.Assumptions = []string{"socks5.LengthOfAddrFromConnAddr <= socks5.MaxAddrLen and LengthOfAddrFromAddrPort <= socks5.IPv6AddrLen (checked structurally in C06)", "cipher.AEAD.Seal appends Overhead() bytes to the plaintext"}
	c05Packers(p, r)
	c05Unpackers(p, r)
	c05Combinators(p, r)
	c05Relays(p, r)
	c05HeaderSlots(p, r)
	c05DeclaredHeadrooms(p, r)
	// R8: the size limit follows the client's address (shared analysis with C11-R6)
	r.Rule("C05-R8", "the packet size limit follows the client: in the session relays' downlinks, when the client's address record changes, everything computed from the address when the session started (the maximum packet size for the address family) is recomputed on every path through the update, and recomputed from the freshly loaded record: no field of the address record is read through an older snapshot inside the update (a size limit computed from the session's first address lets replies to a client that roamed from IPv4 to IPv6 exceed the path MTU by 20 bytes)")
	nb := addrChangeBlocks(p, r, "C05-R8", true, true)
	r.Count("address_change_blocks_C05", nb)
	r.Floor("C05-R8", 2)
}

// implementations of an interface method among the loaded packages
func implsOf(p *Prog, ifacePkg, ifaceName, method string) []*FuncCtx {
	ipkg := p.Pkg(ifacePkg)
	iface := ipkg.Types.Scope().Lookup(ifaceName).Type().Underlying().(*types.Interface)
	var out []*FuncCtx
	for _, pkg := range p.All {
		if pkg.Syntax == nil {
			continue
		}
		p.AllFuncs(pkg, func(fc *FuncCtx) {
			if fc.Obj == nil || fc.Obj.Name() != method {
				return
			}
			rt := recvTypeOf(fc.Obj)
			if rt == nil {
				return
			}
			if types.Implements(rt, iface) || types.Implements(types.NewPointer(rt), iface) {
				out = append(out, fc)
			}
		})
	}
	sort.Slice(out, func(i, j int) bool { return out[i].Name < out[j].Name })
	return out
}

// declaredHeadroom evaluates the Headroom a type's *Info() method declares: (front, rear, ok, description).
// Front may be symbolic for ss2022 client packers (runtime identity header count): then ok=false.
func declaredHeadroom(p *Prog, fc *FuncCtx, infoMethod string) (front, rear int64, ok bool, desc string) {
	rt := recvTypeOf(fc.Obj)
	tn := namedTypeName(rt)
	im := p.LookupFunc(relPkg(fc.Pkg.PkgPath), tn, infoMethod)
	if im == nil {
		return 0, 0, false, "no " + infoMethod
	}
	info := im.Info()
	var hr ast.Expr
	for _, ret := range im.Returns() {
		rs := im.G.V[ret].Node.(*ast.ReturnStmt)
		if len(rs.Results) != 1 {
			continue
		}
		cl, isCl := ast.Unparen(rs.Results[0]).(*ast.CompositeLit)
		if !isCl {
			return 0, 0, false, "dynamic: " + exprStr(rs.Results[0])
		}
		if len(cl.Elts) == 0 {
			return 0, 0, true, "zero headroom"
		}
		for _, el := range cl.Elts {
			if kv, isKV := el.(*ast.KeyValueExpr); isKV {
				if id, isId := kv.Key.(*ast.Ident); isId && id.Name == "Headroom" {
					hr = kv.Value
				}
			}
		}
	}
	if hr == nil {
		return 0, 0, false, "no Headroom key"
	}
	// package-level variable with a composite literal initialiser
	if o, isVar := objOf(info, hr).(*types.Var); isVar && o.Pkg() != nil && o.Parent() == o.Pkg().Scope() {
		pkg := p.Pkgs[o.Pkg().Path()]
		for _, f := range pkg.Syntax {
			for _, d := range f.Decls {
				gd, isGD := d.(*ast.GenDecl)
				if !isGD {
					continue
				}
				for _, sp := range gd.Specs {
					vs, isVS := sp.(*ast.ValueSpec)
					if !isVS {
						continue
					}
					for i, nm := range vs.Names {
						if pkg.TypesInfo.Defs[nm] == o && i < len(vs.Values) {
							if cl, isCl := ast.Unparen(vs.Values[i]).(*ast.CompositeLit); isCl {
								okF, okR := false, false
								for _, el := range cl.Elts {
									kv := el.(*ast.KeyValueExpr)
									k := kv.Key.(*ast.Ident).Name
									v, isC := constInt(pkg.TypesInfo, kv.Value)
									if k == "Front" && isC {
										front, okF = v, true
									}
									if k == "Rear" && isC {
										rear, okR = v, true
									}
								}
								if okF && okR {
									return front, rear, true, fmt.Sprintf("%s{Front: %d, Rear: %d}", o.Name(), front, rear)
								}
							}
						}
					}
				}
			}
		}
	}
	return 0, 0, false, "dynamic: " + exprStr(hr)
}

// atom upper bounds used for claim bounds
func atomBounds(p *Prog) map[string]int64 {
	sp := p.Pkg("socks5").Types.Scope()
	get := func(n string) int64 {
		if c, ok := sp.Lookup(n).(*types.Const); ok {
			if v, ok := constIntVal(c); ok {
				return v
			}
		}
		fatalf("anchor: socks5.%s constant", n)
		return 0
	}
	return map[string]int64{"LengthOfAddrFromConnAddr": get("MaxAddrLen"), "LengthOfAddrFromAddrPort": get("IPv6AddrLen")}
}

// upperBound of a linear form whose atoms are calls to the bounded length functions (coefficient >= 0).
func upperBound(lf linForm, bounds map[string]int64) (int64, bool, string) {
	total := int64(0)
	for a, c := range lf {
		if a == "" {
			total += c
			continue
		}
		found := false
		for fn, b := range bounds {
			if strings.Contains(a, fn+"(") {
				if c < 0 {
					return 0, false, "negative coefficient on " + a
				}
				total += c * b
				found = true
			}
		}
		if !found {
			return 0, false, "unbounded term " + a
		}
	}
	return total, true, ""
}

func c05Packers(p *Prog, r *Report) {
	const r1 = "C05-R1"
	const r2 = "C05-R2"
	const r3 = "C05-R3"
	r.Rule(r1, "headroom: for every PackInPlace the front space claimed (payloadStart - packetStart) is, for the fixed-size protocols, bounded by the Front the same type declares in its *Info() (address lengths bounded by socks5.MaxAddrLen / IPv6AddrLen), the declared rear headroom covers the AEAD tag for ss2022, and for the self-limiting ss2022 packers packetStart = frontBudget - padding with padding <= frontBudget and a negative budget refused before any write")
	r.Rule(r2, "exact cover: packetStart + packetLen == payloadStart + payloadLen (+ aead.Overhead() for ss2022) as a linear identity, and each header write starts at an offset of packetStart that the identity implies (the header ends exactly where the payload starts)")
	r.Rule(r3, "size limit: every PackInPlace compares the packed length with the MTU-derived bound (maxPacketSize field, maxPacketLen parameter or MaxPacketSizeForAddr) and sets a non-nil error when it is exceeded, never assigning packetLen from a min/truncation; for ss2022 the padding budget satisfies packetLen + mtuBudget - padding == limit identically, with padding in [0, budget]")
	bounds := atomBounds(p)
	var packers []*FuncCtx
	packers = append(packers, implsOf(p, "zerocopy", "ClientPacker", "PackInPlace")...)
	packers = append(packers, implsOf(p, "zerocopy", "ServerPacker", "PackInPlace")...)
	seen := map[*FuncCtx]bool{}
	n := 0
	for _, fc := range packers {
		if seen[fc] {
			continue
		}
		seen[fc] = true
		n++
		info := fc.Info()
		sig := fc.Obj.Type().(*types.Signature)
		isClient := sig.Params().Len() == 5 && types.TypeString(sig.Params().At(0).Type(), nil) == "context.Context"
		var payloadStart, payloadLen, maxLenParam types.Object
		infoMethod := "ServerPackerInfo"
		if isClient {
			payloadStart, payloadLen = fc.ParamObj(3), fc.ParamObj(4)
			infoMethod = "ClientPackerInfo"
		} else {
			payloadStart, payloadLen, maxLenParam = fc.ParamObj(2), fc.ParamObj(3), fc.ParamObj(4)
		}
		var packetStart, packetLen, errObj types.Object
		nres := sig.Results().Len()
		packetStart, packetLen, errObj = fc.ResultObj(nres-3), fc.ResultObj(nres-2), fc.ResultObj(nres-1)
		if packetStart == nil || packetLen == nil || errObj == nil {
			r.Fail(r2, fc.Name+":shape", p.posStr(fc.Body.Pos()), "undecided: results are not named")
			continue
		}
		// success exits: returns where err may be nil
		var exits []int
		for _, ret := range fc.Returns() {
			if fc.ErrAtReturn(ret) != ErrNonNil {
				exits = append(exits, ret)
			}
		}
		if len(exits) == 0 {
			r.Fail(r2, fc.Name+":success-exit", p.posStr(fc.Body.Pos()), "no return that can succeed")
			continue
		}
		usesAEAD := false
		for _, cs := range fc.AllCalls() {
			if cs.Fn != nil && cs.Fn.Name() == "Seal" {
				usesAEAD = true
			}
		}
		for ei, ex := range exits {
			ps := linOfResultAt(p, fc, nres-3, ex)
			pl := linOfResultAt(p, fc, nres-2, ex)
			// identity
			diff := ps.add(pl, 1).add(linForm{payloadStart.Name(): 1}, -1).add(linForm{payloadLen.Name(): 1}, -1)
			tagAtom := "recv.aead.Overhead()"
			if usesAEAD {
				diff = diff.add(linForm{tagAtom: 1}, -1)
			}
			r.Check(diff.isZero(), r2, fmt.Sprintf("%s:exact-cover#%d", fc.Name, ei), p.posStr(fc.G.V[ex].Node.Pos()),
				"packetStart + packetLen == payloadStart + payloadLen"+map[bool]string{true: " + tag", false: ""}[usesAEAD],
				"packetStart + packetLen - (payloadStart + payloadLen"+map[bool]string{true: " + tag", false: ""}[usesAEAD]+") = "+diff.String()+" (must be 0): the packet handed to the socket misses payload bytes or includes bytes beyond it")
			// front claim
			claim := linForm{payloadStart.Name(): 1}.add(ps, -1)
			front, rear, okDecl, desc := declaredHeadroom(p, fc, infoMethod)
			if !usesAEAD {
				ub, okUB, why := upperBound(claim, bounds)
				switch {
				case !okUB:
					r.Fail(r1, fmt.Sprintf("%s:front-claim#%d", fc.Name, ei), p.posStr(fc.G.V[ex].Node.Pos()), "undecided: front claim "+claim.String()+": "+why)
				case !okDecl:
					r.Fail(r1, fmt.Sprintf("%s:front-claim#%d", fc.Name, ei), p.posStr(fc.G.V[ex].Node.Pos()), "undecided: declared headroom is "+desc)
				default:
					r.Check(ub <= front && rear >= 0, r1, fmt.Sprintf("%s:front-claim#%d", fc.Name, ei), p.posStr(fc.G.V[ex].Node.Pos()),
						fmt.Sprintf("claims %s <= %d bytes in front; declares %s", claim.String(), ub, desc),
						fmt.Sprintf("claims up to %d bytes in front (%s) but declares only %s: relay buffers sized from the declaration are written before their start (index out of range) for long addresses", ub, claim.String(), desc))
				}
			}
		}
		// header writes: socks5.Write*(b[off:], ...) — off - packetStart must be a constant k, and header pieces must end at payloadStart
		for _, cs := range fc.AllCalls() {
			if cs.Fn == nil || cs.Fn.Pkg() == nil || cs.Fn.Pkg().Path() != mp("socks5") || !strings.HasPrefix(cs.Fn.Name(), "Write") {
				continue
			}
			sl, ok := ast.Unparen(cs.Call.Args[0]).(*ast.SliceExpr)
			if !ok || sl.Low == nil {
				r.Fail(r2, fc.Name+":header-write:"+cs.Fn.Name(), cs.Pos(), "undecided: header destination is not b[offset:]")
				continue
			}
			off := linOf(p, fc, sl.Low).add(linOfVarAt(p, fc, packetStart, cs.V), -1)
			want := int64(0)
			if cs.Fn.Name() == "WriteAddrFromConnAddr" || cs.Fn.Name() == "WriteAddrFromAddrPort" {
				// address goes right before the payload: offset + addrLen == payloadStart
				end := linOf(p, fc, sl.Low)
				var alen linForm
				for _, c2 := range fc.AllCalls() {
					if c2.Fn != nil && strings.HasPrefix(c2.Fn.Name(), "LengthOfAddrFrom") && c2.ResultVar(0) != nil {
						alen = linOfVarAt(p, fc, c2.ResultVar(0), cs.V)
					}
				}
				d := end.add(alen, 1).add(linForm{payloadStart.Name(): 1}, -1)
				r.Check(alen != nil && d.isZero(), r2, fc.Name+":address-ends-at-payload:"+cs.Fn.Name(), cs.Pos(), "address offset + address length == payloadStart", "the address is written at an offset such that it ends "+d.String()+" bytes away from the payload start")
				continue
			}
			_ = want
			c, isConst := off[""], len(off) == 0 || (len(off) == 1 && off[""] != 0)
			r.Check(isConst && c == 0, r2, fc.Name+":header-write-at-packet-start:"+cs.Fn.Name(), cs.Pos(), "written at packetStart", "the fixed header is written at packetStart"+off.String())
		}
		// R3 size limit
		if !usesAEAD {
			found := false
			for _, v := range fc.G.V {
				x, y, op, ok := condParts(v)
				if !ok || y == nil {
					continue
				}
				isLen := func(e ast.Expr) bool { return objOf(info, e) == packetLen }
				isLimit := func(e ast.Expr) bool {
					if maxLenParam != nil && objOf(info, e) == maxLenParam {
						return true
					}
					if sel, ok := ast.Unparen(e).(*ast.SelectorExpr); ok && sel.Sel.Name == "maxPacketSize" {
						return true
					}
					if c, ok := ast.Unparen(e).(*ast.CallExpr); ok {
						if fn := Callee(info, c); fn != nil && fn.Name() == "MaxPacketSizeForAddr" {
							return true
						}
					}
					if o := objOf(info, e); o != nil {
						if rhs, _, _, ok := fc.SoleDefRHS(o); ok {
							if c, ok := ast.Unparen(rhs).(*ast.CallExpr); ok {
								if fn := Callee(info, c); fn != nil && fn.Name() == "MaxPacketSizeForAddr" {
									return true
								}
							}
						}
					}
					return false
				}
				tooBigLabel := -1
				switch {
				case isLen(x) && isLimit(y) && op == token.GTR:
					tooBigLabel = LTrue
				case isLen(x) && isLimit(y) && op == token.LEQ:
					tooBigLabel = LFalse
				case isLimit(x) && isLen(y) && op == token.LSS:
					tooBigLabel = LTrue
				case isLimit(x) && isLen(y) && op == token.GEQ:
					tooBigLabel = LFalse
				}
				if tooBigLabel < 0 {
					continue
				}
				// the comparison is made on the final packetLen
				finalLen := true
				for _, d := range fc.Defs(packetLen) {
					if fc.G.ReachAfter(v.ID, nil, nil)[d] {
						finalLen = false
					}
				}
				// on the too-big edge err becomes non-nil and stays so
				okErr := true
				for _, e := range v.Succs {
					if e.Label != tooBigLabel {
						continue
					}
					for _, ex := range fc.ExitPreds() {
						if !fc.G.Reach([]int{e.To}, nil, nil)[ex] {
							continue
						}
						// every path from the edge to this exit must pass an assignment err = <non-nil>, with no later err = nil
						setV := map[int]bool{}
						for _, d := range fc.Defs(errObj) {
							if as, ok := fc.G.V[d].Node.(*ast.AssignStmt); ok && len(as.Lhs) == len(as.Rhs) {
								for i, l := range as.Lhs {
									if objOf(info, l) == errObj && nonNilErrExpr(info, as.Rhs[i]) {
										setV[d] = true
									}
								}
							}
						}
						if fc.G.Reach([]int{e.To}, func(x *Vertex) bool { return setV[x.ID] }, nil)[ex] {
							if rs, isRet := fc.G.V[ex].Node.(*ast.ReturnStmt); !isRet || len(rs.Results) == 0 || fc.ErrAtReturn(ex) != ErrNonNil {
								okErr = false
							}
						}
						for _, d := range fc.Defs(errObj) {
							if !setV[d] && fc.G.Reach([]int{e.To}, nil, nil)[d] {
								if as, ok := fc.G.V[d].Node.(*ast.AssignStmt); ok {
									for i, l := range as.Lhs {
										if objOf(info, l) == errObj && len(as.Lhs) == len(as.Rhs) && isNilExpr(info, as.Rhs[i]) {
											okErr = false
										}
									}
									if len(as.Lhs) != len(as.Rhs) {
										okErr = false // err overwritten by a call result after the size check
									}
								}
							}
						}
					}
				}
				if finalLen && okErr {
					found = true
				}
			}
			r.Check(found, r3, fc.Name+":size-limit", p.posStr(fc.Body.Pos()), "the final packetLen is compared with the MTU-derived limit and exceeding it leaves a non-nil error", "no effective comparison of the packed length with the MTU-derived limit: an oversized payload is sent (or truncated) instead of being refused")
			// no truncation
			for _, d := range fc.Defs(packetLen) {
				if as, ok := fc.G.V[d].Node.(*ast.AssignStmt); ok && len(as.Rhs) == 1 {
					if c, ok := ast.Unparen(as.Rhs[0]).(*ast.CallExpr); ok {
						if id, ok := ast.Unparen(c.Fun).(*ast.Ident); ok && id.Name == "min" {
							r.Fail(r3, fc.Name+":no-truncation", p.posStr(as.Pos()), "packetLen is computed with min(): a payload that does not fit is truncated instead of refused")
						}
					}
				}
			}
		} else {
			c05SelfLimiting(p, r, fc, payloadStart, payloadLen, packetStart, packetLen, maxLenParam, exits)
			// declared rear covers the tag
			_, rear, okDecl, desc := declaredHeadroom(p, fc, infoMethod)
			tag := int64(16)
			if c, ok := fc.Pkg.Types.Scope().Lookup("tagSize").(*types.Const); ok {
				if v, ok := constIntVal(c); ok {
					tag = v
				}
			}
			if okDecl {
				r.Check(rear >= tag, r1, fc.Name+":rear-covers-tag", p.posStr(fc.Body.Pos()), fmt.Sprintf("declares Rear %d >= tag size %d", rear, tag), fmt.Sprintf("declares Rear %d < AEAD tag size %d (%s): Seal appends the tag past the payload, beyond the space relay buffers reserve", rear, tag, desc))
			} else {
				// dynamic headroom (client packer: function of identity header count): check the function's Rear
				hf := p.LookupFunc("ss2022", "", "ShadowPacketClientMessageHeadroom")
				okRear := false
				if hf != nil {
					ast.Inspect(hf.Body, func(n ast.Node) bool {
						if kv, ok := n.(*ast.KeyValueExpr); ok {
							if id, ok := kv.Key.(*ast.Ident); ok && id.Name == "Rear" {
								if v, isC := constInt(hf.Info(), kv.Value); isC && v >= tag {
									okRear = true
								}
							}
						}
						return true
					})
				}
				r.Check(okRear, r1, fc.Name+":rear-covers-tag", p.posStr(fc.Body.Pos()), "ShadowPacketClientMessageHeadroom declares Rear >= tag size", "the client message headroom declares a Rear smaller than the AEAD tag")
			}
		}
	}
	r.Count("pack_in_place_implementations", n)
	r.Floor(r1, 8)
	r.Floor(r2, 14)
	r.Floor(r3, 8)
}

// c05SelfLimiting checks the ss2022 packers' padding budget.
func c05SelfLimiting(p *Prog, r *Report, fc *FuncCtx, payloadStart, payloadLen, packetStart, packetLen, maxLenParam types.Object, exits []int) {
	const r1 = "C05-R1"
	const r3 = "C05-R3"
	info := fc.Info()
	// maxPaddingLen := min(A, B, C)
	var budget types.Object
	var minArgs []ast.Expr
	for _, v := range fc.G.V {
		as, ok := v.Node.(*ast.AssignStmt)
		if !ok || len(as.Rhs) != 1 || len(as.Lhs) != 1 {
			continue
		}
		c, ok := ast.Unparen(as.Rhs[0]).(*ast.CallExpr)
		if !ok {
			continue
		}
		if id, ok := ast.Unparen(c.Fun).(*ast.Ident); ok && id.Name == "min" && len(c.Args) >= 2 {
			budget = objOf(info, as.Lhs[0])
			minArgs = c.Args
		}
	}
	if budget == nil {
		r.Fail(r3, fc.Name+":padding-budget", p.posStr(fc.Body.Pos()), "no padding budget min(...) found")
		return
	}
	// padding variable: defs are the zero declaration and 1 + IntN(budget) guarded by budget > 0
	var pad types.Object
	for _, cs := range fc.AllCalls() {
		if cs.Fn != nil && cs.Fn.Name() == "IntN" && len(cs.Call.Args) == 1 && objOf(info, cs.Call.Args[0]) == budget {
			if as, ok := fc.G.V[cs.V].Node.(*ast.AssignStmt); ok && len(as.Lhs) == 1 {
				pad = objOf(info, as.Lhs[0])
				lf := linOf(p, fc, as.Rhs[0])
				okForm := len(lf) == 2 && lf[""] == 1
				posEdges := fc.TestEdgesCmp(budget, token.GTR, 0)
				r.Check(okForm && fc.G.EdgeDominates(posEdges, cs.V), r3, fc.Name+":padding-in-1..budget", cs.Pos(), "padding = 1 + IntN(budget), only when budget > 0", "padding is not 1 + IntN(budget) under budget > 0: it can exceed the budget (packet over the MTU / before the buffer) or IntN panics on a non-positive argument")
			}
		}
	}
	if pad == nil {
		r.Fail(r3, fc.Name+":padding-var", p.posStr(fc.Body.Pos()), "no padding variable drawn from the budget")
		return
	}
	for _, d := range fc.Defs(pad) {
		switch n := fc.G.V[d].Node.(type) {
		case *ast.ValueSpec:
			if len(n.Values) != 0 {
				r.Fail(r3, fc.Name+":padding-def", p.posStr(n.Pos()), "padding initialised to something other than zero")
			}
		case *ast.AssignStmt:
			if n.Tok == token.DEFINE && len(n.Rhs) == len(n.Lhs) {
				zero := false
				for i, l := range n.Lhs {
					if objOf(info, l) == pad {
						if k, isC := constInt(info, n.Rhs[i]); isC && k == 0 {
							zero = true
						}
					}
				}
				if zero {
					continue // declared with an explicit zero
				}
			}
			if !usesCall(info, n, "IntN") {
				r.Fail(r3, fc.Name+":padding-def", p.posStr(n.Pos()), "padding assigned from something other than the budgeted random draw")
			}
		}
	}
	// negative budget refused before any write to b / any exit that can succeed
	negEdges := fc.TestEdgesCmp(budget, token.LSS, 0)
	okNeg := len(negEdges) > 0
	for _, e := range negEdges {
		reach := fc.G.Reach([]int{e.To}, nil, nil)
		for _, ex := range fc.ExitPreds() {
			if reach[ex] && fc.ErrAtReturn(ex) != ErrNonNil {
				okNeg = false
			}
		}
	}
	nonNeg := fc.TestEdgesCmp(budget, token.GEQ, 0)
	for _, ex := range exits {
		if !fc.G.EdgeDominates(nonNeg, ex) {
			okNeg = false
		}
	}
	r.Check(okNeg, r3, fc.Name+":negative-budget-refused", p.posStr(fc.Body.Pos()), "budget < 0 returns an error; success only with budget >= 0", "a negative padding budget (payload too big for the MTU or for the front space) is not refused")
	// identities at each success exit
	limit := linForm{}
	if maxLenParam != nil {
		limit = linForm{maxLenParam.Name(): 1}
	} else {
		limit = linForm{"recv.maxPacketSize": 1}
	}
	nresSL := fc.Obj.Type().(*types.Signature).Results().Len()
	for ei, ex := range exits {
		ps := linOfResultAt(p, fc, nresSL-3, ex)
		pl := linOfResultAt(p, fc, nresSL-2, ex)
		okMTU, okFront := false, false
		var got []string
		for _, a := range minArgs {
			la := linOf(p, fc, a)
			// MTU: packetLen + A - pad - limit == 0
			d1 := pl.add(la, 1).add(linForm{pad.Name(): 1}, -1).add(limit, -1)
			if d1.isZero() {
				okMTU = true
			}
			// front: packetStart - A + pad == 0
			d2 := ps.add(la, -1).add(linForm{pad.Name(): 1}, 1)
			if d2.isZero() {
				okFront = true
			}
			got = append(got, la.String())
		}
		r.Check(okMTU, r3, fmt.Sprintf("%s:mtu-budget-identity#%d", fc.Name, ei), p.posStr(fc.G.V[ex].Node.Pos()),
			"one budget term A satisfies packetLen + A - padding == limit, so padding <= A gives packetLen <= limit",
			fmt.Sprintf("no budget term A satisfies packetLen + A - padding == %s (packetLen = %s; terms: %v): with maximal padding or a boundary payload the packed packet exceeds the MTU-derived limit instead of being refused", limit.String(), pl.String(), got))
		r.Check(okFront, r1, fmt.Sprintf("%s:front-budget-identity#%d", fc.Name, ei), p.posStr(fc.G.V[ex].Node.Pos()),
			"one budget term B satisfies packetStart == B - padding, so padding <= B gives packetStart >= 0",
			fmt.Sprintf("no budget term B satisfies packetStart == B - padding (packetStart = %s; terms: %v): the header can start before the buffer", ps.String(), got))
	}
}

func usesCall(info *types.Info, n ast.Node, name string) bool {
	found := false
	ast.Inspect(n, func(x ast.Node) bool {
		if c, ok := x.(*ast.CallExpr); ok {
			if fn := Callee(info, c); fn != nil && fn.Name() == name {
				found = true
			}
		}
		return true
	})
	return found
}

// TestEdgesCmp returns the edges on which `obj op k` holds, recognising the comparison in
// either operand order and through its negation.
func (fc *FuncCtx) TestEdgesCmp(obj types.Object, op token.Token, k int64) []Edge {
	info := fc.Info()
	var out []Edge
	neg := map[token.Token]token.Token{token.LSS: token.GEQ, token.GEQ: token.LSS, token.GTR: token.LEQ, token.LEQ: token.GTR}
	for _, v := range fc.G.V {
		x, y, cop, ok := condParts(v)
		if !ok || y == nil {
			continue
		}
		var got token.Token
		if objOf(info, x) == obj {
			if c, isC := constInt(info, y); !isC || c != k {
				continue
			}
			got = cop
		} else if objOf(info, y) == obj {
			if c, isC := constInt(info, x); !isC || c != k {
				continue
			}
			got = flipOp(cop)
		} else {
			continue
		}
		for _, e := range v.Succs {
			if (e.Label == LTrue && got == op) || (e.Label == LFalse && neg[got] == op) {
				out = append(out, e)
			}
		}
	}
	return out
}

func c05Unpackers(p *Prog, r *Report) {
	const rule = "C05-R4"
	r.Rule(rule, "unpackers stay inside the packet: the fixed-format UnpackInPlace implementations hand their address parser exactly b[packetStart : packetStart+packetLen] (or a constant-offset suffix of it after a length check) and return payloadStart + payloadLen == packetStart + packetLen as a linear identity with payloadStart >= packetStart; the ss2022 unpackers slice ciphertext as b[header end : packetStart+packetLen] after the minimum-length check and return offsets relative to the opened plaintext")
	var ups []*FuncCtx
	ups = append(ups, implsOf(p, "zerocopy", "ClientUnpacker", "UnpackInPlace")...)
	ups = append(ups, implsOf(p, "zerocopy", "ServerUnpacker", "UnpackInPlace")...)
	seen := map[*FuncCtx]bool{}
	for _, fc := range ups {
		if seen[fc] {
			continue
		}
		seen[fc] = true
		info := fc.Info()
		packetStart, packetLen := fc.ParamObj(2), fc.ParamObj(3)
		payloadStart, payloadLen := fc.ResultObj(1), fc.ResultObj(2)
		if payloadStart == nil || payloadLen == nil {
			r.Fail(rule, fc.Name+":shape", p.posStr(fc.Body.Pos()), "undecided: results are not named")
			continue
		}
		isAEAD := false
		for _, cs := range fc.AllCalls() {
			if cs.Fn != nil && cs.Fn.Name() == "Open" {
				isAEAD = true
			}
		}
		end := linForm{packetStart.Name(): 1, packetLen.Name(): 1}
		// every slice of b with explicit bounds: high == packetStart + packetLen or <= it by construction
		for _, v := range fc.G.V {
			if v.Node == nil {
				continue
			}
			inspectNoLit(v.Node, func(n ast.Node) bool {
				sl, ok := n.(*ast.SliceExpr)
				if !ok || objOf(info, sl.X) != fc.ParamObj(0) {
					return true
				}
				construct := fmt.Sprintf("%s:slice:%s", fc.Name, exprStr(sl))
				if sl.High == nil {
					r.Fail(rule, construct, p.posStr(sl.Pos()), "the buffer is sliced without an upper bound: parsing can run past the packet into stale bytes of the relay buffer")
					return true
				}
				hi := linOf(p, fc, sl.High)
				d := hi.add(end, -1)
				lo := linForm{}
				if sl.Low != nil {
					lo = linOf(p, fc, sl.Low)
				}
				dl := lo.add(linForm{packetStart.Name(): 1}, -1)
				// allowed: high == end; or (AEAD header pieces) high - packetStart is a non-negative constant / field bounded by the min-length check
				okHi := d.isZero()
				if !okHi && isAEAD {
					hOff := hi.add(linForm{packetStart.Name(): 1}, -1)
					okHi = true
					for a, c := range hOff {
						if a == "" {
							if c < 0 {
								okHi = false
							}
						} else if a != "recv.nonAEADHeaderLen" || c != 1 {
							okHi = false
						}
					}
				}
				okLo := true
				for a, c := range dl {
					if a == "" {
						if c < 0 {
							okLo = false
						}
					} else if !(a == "recv.nonAEADHeaderLen" && c == 1) {
						okLo = false
					}
				}
				r.Check(okHi && okLo, rule, construct, p.posStr(sl.Pos()), "bounds lie within [packetStart, packetStart+packetLen]", fmt.Sprintf("slice bounds relative to the packet: low = packetStart%+v, high - end = %s: the unpacker reads or writes outside the received packet", dl.String(), d.String()))
				return true
			})
		}
		if isAEAD {
			// minimum length check dominates the slicing
			minOK := false
			for _, v := range fc.G.V {
				x, y, op, ok := condParts(v)
				if ok && y != nil && op == token.LSS && objOf(info, x) == packetLen {
					for _, e := range v.Succs {
						if e.Label == LTrue {
							reach := fc.G.Reach([]int{e.To}, nil, nil)
							all := true
							for _, ex := range fc.ExitPreds() {
								if reach[ex] && fc.ErrAtReturn(ex) != ErrNonNil {
									all = false
								}
							}
							if all {
								minOK = true
							}
						}
					}
				}
			}
			r.Check(minOK, rule, fc.Name+":minimum-length", p.posStr(fc.Body.Pos()), "packets shorter than header + tag are refused first", "no minimum-length check before slicing the packet")
			// payloadStart is relative to plaintext start: payloadStart += messageHeaderStart after parse
			continue
		}
		// linear identity at each exit that can succeed
		for ei, ex := range fc.ExitPreds() {
			if fc.ErrAtReturn(ex) == ErrNonNil {
				continue
			}
			ps := linOfResultAt(p, fc, 1, ex)
			pl := linOfResultAt(p, fc, 2, ex)
			d := ps.add(pl, 1).add(end, -1)
			r.Check(d.isZero(), rule, fmt.Sprintf("%s:payload-ends-with-packet#%d", fc.Name, ei), p.posStr(fc.Body.Pos()), "payloadStart + payloadLen == packetStart + packetLen", "payloadStart + payloadLen - (packetStart + packetLen) = "+d.String()+": the payload handed on is not the tail of the received packet")
			// payloadStart - packetStart is a sum of non-negative terms (header length, constants >= 0)
			off := ps.add(linForm{packetStart.Name(): 1}, -1)
			okOff := true
			for _, c := range off {
				if c < 0 {
					okOff = false
				}
			}
			r.Check(okOff, rule, fmt.Sprintf("%s:payload-after-packet-start#%d", fc.Name, ei), p.posStr(fc.Body.Pos()), "payloadStart = packetStart + non-negative header length", "payloadStart - packetStart = "+off.String()+" can be negative")
		}
	}
	r.Floor(rule, 20)
}

func c05Combinators(p *Prog, r *Report) {
	const rule = "C05-R5"
	r.Rule(rule, "headroom combinators keep fields apart: in zerocopy.UDPRelayHeadroom and MaxHeadroom the Front result is computed only from Front fields and Rear only from Rear fields, UDPRelayHeadroom subtracts the unpacker's from the packer's (clamped at 0), MaxHeadroom takes the maximum")
	for _, name := range []string{"UDPRelayHeadroom", "MaxHeadroom"} {
		fc := p.Func("zerocopy", "", name)
		info := fc.Info()
		nKeys := 0
		// the result is put together once, as a literal or field by field
		bvs := builtValues(fc, "Headroom")
		if len(bvs) != 1 {
			r.Fail(rule, "zerocopy."+name+":one-result", p.posStr(fc.Body.Pos()), fmt.Sprintf("undecided: the function puts together %d Headroom values, expected one", len(bvs)))
			continue
		}
		for _, key := range []string{"Front", "Rear"} {
			val, has := bvs[0].Fields[key]
			if !has {
				continue
			}
			kv := &ast.KeyValueExpr{Key: ast.NewIdent(key), Colon: val.Pos(), Value: val}
			nKeys++
			var fields []string
			var bases []types.Object
			ast.Inspect(kv.Value, func(m ast.Node) bool {
				if sel, ok := m.(*ast.SelectorExpr); ok {
					if s, isSel := info.Selections[sel]; isSel && s.Kind() == types.FieldVal {
						fields = append(fields, sel.Sel.Name)
						bases = append(bases, objOf(info, sel.X))
					}
				}
				return true
			})
			same := len(fields) == 2
			for _, f := range fields {
				if f != key {
					same = false
				}
			}
			both := same && bases[0] != bases[1] && ((bases[0] == fc.ParamObj(0) && bases[1] == fc.ParamObj(1)) || (bases[0] == fc.ParamObj(1) && bases[1] == fc.ParamObj(0)))
			r.Check(same && both, rule, "zerocopy."+name+":"+key, p.posStr(kv.Pos()), key+" is computed from the two arguments' "+key+" fields", key+" is computed from "+fmt.Sprint(fields)+": front and rear space are mixed up, so relay buffers lack room for the tag / header of some protocol pairs")
			ns := normExpr(p, fc, kv.Value)
			a, b := fc.ParamObj(0).Name(), fc.ParamObj(1).Name()
			if name == "UDPRelayHeadroom" {
				want := fmt.Sprintf("max(%s.%s - %s.%s)", a, key, b, key)
				_ = want
				okForm := ns == fmt.Sprintf("max((%s.%s - %s.%s), 0)", a, key, b, key) || ns == fmt.Sprintf("max(0, (%s.%s - %s.%s))", a, key, b, key)
				r.Check(okForm, rule, "zerocopy."+name+":"+key+":formula", p.posStr(kv.Pos()), "max(0, packer - unpacker)", "formula is "+ns+", expected max(0, "+a+"."+key+" - "+b+"."+key+")")
			} else {
				okForm := strings.HasPrefix(ns, "max(") && strings.Contains(ns, a+"."+key) && strings.Contains(ns, b+"."+key) && !strings.Contains(ns, " - ") && !strings.Contains(ns, " + ")
				r.Check(okForm, rule, "zerocopy."+name+":"+key+":formula", p.posStr(kv.Pos()), "max of the two", "formula is "+ns+", expected the maximum of the two")
			}
		}
		r.Check(nKeys == 2, rule, "zerocopy."+name+":sets-both", p.posStr(fc.Body.Pos()), "sets Front and Rear", fmt.Sprintf("sets %d of Front/Rear", nKeys))
	}
	r.Floor(rule, 10)
}

func c05Relays(p *Prog, r *Report) {
	const rule = "C05-R6"
	r.Rule(rule, "relay formula roles and buffer layout: every UDPRelayHeadroom(a, b) call passes a packer's headroom as a and an unpacker's as b; a buffer sized from a headroom H is H.Front + receive size + H.Rear, received into [H.Front : H.Front + receive size] and unpacked with packetStart = H.Front; the headroom of all UDP clients is folded with MaxHeadroom and client groups fold their members'")
	pkg := p.Pkg("service")
	nCalls := 0
	classify := func(fc *FuncCtx, e ast.Expr) string {
		s := normExpr(p, fc, e)
		hasUn := strings.Contains(s, "Unpacker")
		hasP := strings.Contains(s, "Packer") || strings.Contains(s, "packer")
		// "UnpackerHeadroom" contains "packer" too: strip it first
		t := strings.ReplaceAll(strings.ReplaceAll(s, "Unpacker", ""), "unpacker", "")
		hasP = strings.Contains(t, "Packer") || strings.Contains(t, "packer")
		switch {
		case hasUn && !hasP:
			return "unpacker"
		case hasP && !hasUn:
			return "packer"
		}
		return "unknown:" + s
	}
	p.AllFuncs(pkg, func(top *FuncCtx) {
		for _, fc := range allCtxs(p, top) {
			info := fc.Info()
			for _, cs := range fc.CallsTo(isFn(mp("zerocopy"), "", "UDPRelayHeadroom")) {
				nCalls++
				a, b := classify(fc, cs.Call.Args[0]), classify(fc, cs.Call.Args[1])
				r.Check(a == "packer" && b == "unpacker", rule, fc.Name+":UDPRelayHeadroom-roles", cs.Pos(), "UDPRelayHeadroom(packer headroom, unpacker headroom)", fmt.Sprintf("argument roles are (%s, %s): both parameters have the same type, so a swap compiles; the buffer then lacks the space the packer needs", a, b))
				h := cs.ResultVar(0)
				if h == nil {
					continue
				}
				// buffers sized from h
				hName := h.Name()
				nBuf := 0
				for _, v := range fc.G.V {
					if v.Node == nil {
						continue
					}
					inspectNoLit(v.Node, func(n ast.Node) bool {
						c, ok := n.(*ast.CallExpr)
						if !ok {
							return true
						}
						if id, ok := ast.Unparen(c.Fun).(*ast.Ident); ok && id.Name == "make" && len(c.Args) == 2 && usesObj(info, c.Args[1], h, false) {
							nBuf++
							lf := linOf(p, fc, c.Args[1], h)
							okSize := lf[hName+".Front"] == 1 && lf[hName+".Rear"] == 1 && len(lf) == 3
							r.Check(okSize, rule, fc.Name+":buffer-size", p.posStr(c.Pos()), "size = H.Front + receive size + H.Rear", "buffer size is "+lf.String()+", expected H.Front + receive size + H.Rear")
						}
						return true
					})
					// packetBufSize := H.Front + recv + H.Rear (server.go)
					if as, ok := v.Node.(*ast.AssignStmt); ok && len(as.Rhs) == 1 && len(as.Lhs) == 1 {
						if _, isBin := ast.Unparen(as.Rhs[0]).(*ast.BinaryExpr); isBin && usesObj(info, as.Rhs[0], h, false) {
							nBuf++
							lf := linOf(p, fc, as.Rhs[0], h)
							okSize := lf[hName+".Front"] == 1 && lf[hName+".Rear"] == 1 && len(lf) == 3
							r.Check(okSize, rule, fc.Name+":buffer-size-var", p.posStr(as.Pos()), "size = H.Front + receive size + H.Rear", "buffer size is "+lf.String()+", expected H.Front + receive size + H.Rear")
						}
					}
				}
				// receive slice and unpack start
				for _, v := range fc.G.V {
					if v.Node == nil {
						continue
					}
					inspectNoLit(v.Node, func(n ast.Node) bool {
						sl, ok := n.(*ast.SliceExpr)
						if !ok || sl.Low == nil || sl.High == nil || !usesObj(info, sl.Low, h, false) {
							return true
						}
						lo, hi := linOf(p, fc, sl.Low, h), linOf(p, fc, sl.High, h)
						okLo := len(lo) == 1 && lo[hName+".Front"] == 1
						ext := hi.add(lo, -1)
						okExt := len(ext) == 1
						r.Check(okLo && okExt, rule, fc.Name+":receive-slice", p.posStr(sl.Pos()), "receives into [H.Front : H.Front + receive size]", "receive slice is ["+lo.String()+" : "+hi.String()+"]")
						return true
					})
				}
				for _, uc := range fc.AllCalls() {
					if uc.Fn != nil && uc.Fn.Name() == "UnpackInPlace" && len(uc.Call.Args) == 4 {
						lf := linOf(p, fc, uc.Call.Args[2], h)
						r.Check(len(lf) == 1 && lf[hName+".Front"] == 1, rule, fc.Name+":unpack-start", uc.Pos(), "UnpackInPlace is told the packet starts at H.Front", "UnpackInPlace is told the packet starts at "+lf.String()+" but it was received at H.Front")
					}
				}
			}
		}
	})
	// relays receive at packetBufFrontHeadroom and unpack/pack from there
	for _, pat := range []string{"recvFromServerConnGeneric", "recvFromServerConnRecvmmsg"} {
		for _, rt := range []string{"UDPNATRelay", "UDPSessionRelay"} {
			fc := p.LookupFunc("service", rt, pat)
			if fc == nil {
				continue
			}
			info := fc.Info()
			for _, uc := range fc.AllCalls() {
				if uc.Fn != nil && uc.Fn.Name() == "UnpackInPlace" && len(uc.Call.Args) == 4 {
					sel, ok := ast.Unparen(fc.ResolveUp(uc.Call.Args[2])).(*ast.SelectorExpr)
					r.Check(ok && sel.Sel.Name == "packetBufFrontHeadroom" && objOf(info, sel.X) == fc.RecvObj(), rule, fc.Name+":unpack-start", uc.Pos(), "packet start is the relay's front headroom", "the unpacker is told a packet start other than the front headroom the packet was received at")
				}
			}
			// receive position: slice low or iovec base index is packetBufFrontHeadroom
			found := false
			ast.Inspect(fc.Body, func(n ast.Node) bool {
				switch x := n.(type) {
				case *ast.SliceExpr:
					if x.Low != nil && strings.HasSuffix(exprStr(fc.ResolveUp(x.Low)), ".packetBufFrontHeadroom") {
						found = true
					}
				case *ast.IndexExpr:
					if strings.HasSuffix(exprStr(fc.ResolveUp(x.Index)), ".packetBufFrontHeadroom") {
						found = true
					}
				}
				return true
			})
			// the mmsg variants set iovec bases in a helper
			if !found {
				p.AllFuncs(pkg, func(f2 *FuncCtx) {
					if f2.RecvObj() != nil && namedTypeName(f2.RecvObj().Type()) == rt {
						ast.Inspect(f2.Body, func(n ast.Node) bool {
							if x, ok := n.(*ast.IndexExpr); ok && strings.HasSuffix(exprStr(x.Index), ".packetBufFrontHeadroom") {
								found = true
							}
							return true
						})
					}
				})
			}
			r.Check(found, rule, fc.Name+":receives-at-front-headroom", p.posStr(fc.Body.Pos()), "packets are received at the front headroom offset", "packets are not received at the front headroom offset")
		}
	}
	// folding of client headrooms
	mgr := p.Func("service", "Config", "Manager")
	fold := false
	for _, cs := range mgr.CallsTo(isFn(mp("zerocopy"), "", "MaxHeadroom")) {
		if as, ok := mgr.G.V[cs.V].Node.(*ast.AssignStmt); ok && len(as.Lhs) == 1 {
			acc := objOf(mgr.Info(), as.Lhs[0])
			if acc != nil && objOf(mgr.Info(), cs.Call.Args[0]) == acc && strings.Contains(exprStr(cs.Call.Args[1]), "PackerHeadroom") {
				// the accumulated value is what UDPRelay receives
				for _, uc := range mgr.AllCalls() {
					if uc.Fn != nil && uc.Fn.Name() == "UDPRelay" {
						for _, a := range uc.Call.Args {
							if objOf(mgr.Info(), a) == acc {
								fold = true
							}
						}
					}
				}
			}
		}
	}
	r.Check(fold, rule, "service.(*Config).Manager:folds-client-headroom", p.posStr(mgr.Body.Pos()), "the maximum packer headroom over all UDP clients is accumulated with MaxHeadroom and handed to every UDP relay", "the headroom handed to the relays is not the maximum over all UDP clients: packets routed to a client with a larger header are packed before the start of the buffer")
	cg := p.Pkg("clientgroups")
	gfold := false
	p.AllFuncs(cg, func(fc *FuncCtx) {
		for _, cs := range fc.CallsTo(isFn(mp("zerocopy"), "", "MaxHeadroom")) {
			if strings.Contains(exprStr(cs.Call.Args[1]), "PackerHeadroom") {
				gfold = true
			}
		}
	})
	r.Check(gfold, rule, "clientgroups:folds-member-headroom", "", "client groups report the maximum headroom of their members", "client groups do not fold their members' packer headroom")
	r.Count("relay_headroom_calls", nCalls)
	r.Floor(rule, 20)
}

// c05DeclaredHeadrooms: the relays size their buffers from what a server / client *declares*
// (Info().UnpackerHeadroom, Info().PackerHeadroom), while the bytes are claimed by the codec
// object the same server / client hands out (NewUnpacker, NewSession). The two must be the same
// headroom: the declaration of the server type is the Headroom its unpacker type declares, the
// declaration of the client type is the Headroom its packer type declares.
func c05DeclaredHeadrooms(p *Prog, r *Report) {
	const rule = "C05-R7"
	r.Rule(rule, "declared headrooms agree with the codecs handed out: for every type with an Info() method declaring UnpackerHeadroom (or PackerHeadroom) and a NewUnpacker (NewSession) method, the declared value is the same named headroom that the unpacker (packer) type created there returns as Headroom from its own *UnpackerInfo() (*PackerInfo())")
	n := 0
	for _, rel := range []string{"direct", "ss2022"} {
		pkg := p.Pkg(rel)
		// codec type -> the expression it declares as Headroom, per info-method name
		codecDecl := func(t types.Type, method string) (ast.Expr, *FuncCtx) {
			tn := namedTypeName(t)
			if tn == "" {
				return nil, nil
			}
			fc := p.LookupFunc(rel, tn, method)
			if fc == nil {
				return nil, nil
			}
			var val ast.Expr
			for _, v := range fieldInits(fc, "Headroom") {
				val = v
			}
			return val, fc
		}
		p.AllFuncs(pkg, func(info *FuncCtx) {
			if info.Obj == nil || info.Obj.Name() != "Info" || info.Decl == nil || info.Decl.Recv == nil || len(info.Decl.Recv.List) != 1 {
				return
			}
			owner := recvTypeName(info.Decl.Recv.List[0].Type)
			for _, side := range []struct{ field, maker, codecInfo string }{
				{"UnpackerHeadroom", "NewUnpacker", "ServerUnpackerInfo"},
				{"PackerHeadroom", "NewSession", "ClientPackerInfo"},
			} {
				var declared ast.Expr
				for _, v := range fieldInits(info, side.field) {
					declared = v
				}
				maker := p.LookupFunc(rel, owner, side.maker)
				if declared == nil || maker == nil {
					continue
				}
				// codec types created in the maker: static types of composite literals and call results
				seen := map[string]bool{}
				// the maker and the unexported helpers of the package it builds the session through
				makers := []*FuncCtx{maker}
				inList := map[*FuncCtx]bool{maker: true}
				for i := 0; i < len(makers) && i < 8; i++ {
					for _, cs := range makers[i].AllCalls() {
						if cs.Fn == nil || cs.Fn.Exported() || cs.Fn.Pkg() == nil || cs.Fn.Pkg() != pkg.Types {
							continue
						}
						if h := p.CtxOfObj(cs.Fn.Origin()); h != nil && h.Body != nil && !inList[h] {
							inList[h] = true
							makers = append(makers, h)
						}
					}
				}
				for _, maker := range makers {
					minfo := maker.Info()
					ast.Inspect(maker.Body, func(x ast.Node) bool {
						e, ok := x.(ast.Expr)
						if !ok {
							return true
						}
						switch e.(type) {
						case *ast.CompositeLit, *ast.CallExpr:
						default:
							return true
						}
						t := minfo.TypeOf(e)
						if t == nil {
							return true
						}
						if pt, ok := t.Underlying().(*types.Pointer); ok {
							t = pt.Elem()
						}
						tn := namedTypeName(t)
						if tn == "" || seen[tn] || namedTypePkg(t) != mp(rel) {
							return true
						}
						val, cfc := codecDecl(t, side.codecInfo)
						if val == nil {
							return true
						}
						seen[tn] = true
						do, co := objOf(info.Info(), declared), objOf(cfc.Info(), val)
						if do == nil || co == nil || do.Parent() != do.Pkg().Scope() || co.Parent() != co.Pkg().Scope() {
							return true // not both named package-level headrooms: decided by value elsewhere (R1), not here
						}
						n++
						r.Check(do == co, rule, fmt.Sprintf("%s.%s:%s-is-%s's", rel, owner, side.field, tn), p.posStr(declared.Pos()),
							"declares "+do.Name()+", the headroom of the "+tn+" it hands out",
							owner+".Info() declares "+side.field+" "+do.Name()+" but the "+tn+" it hands out needs "+co.Name()+": relays size the packet buffer from the declaration, so the other side's packer is given too little room (negative packet start) or the formula wastes/misplaces it")
						return true
					})
				}
			}
		})
	}
	r.Count("declared_headroom_pairs", n)
	r.Floor(rule, 3)
}

// c05HeaderSlots (R9): a message header writer fills exactly the slot it is handed.
func c05HeaderSlots(p *Prog, r *Report) {
	const rule = "C05-R9"
	r.Rule(rule, "the message header exactly fills its slot: where an ss2022 packer hands b[S:E] to a header writer together with a padding length and an address, E - S is the writer's fixed part (the constant offset at which the writer puts the address, less the padding) + that padding + the socks5 length function applied to the very address handed over, and the length function is the sibling (LengthOfAddrFromX) of the address writer the header writer uses (WriteAddrFromX)")
	pkg := p.Pkg("ss2022")
	n := 0
	p.AllFuncs(pkg, func(fc *FuncCtx) {
		if baseFuncName(fc) != "PackInPlace" {
			return
		}
		info := fc.Info()
		for _, cs := range fc.AllCalls() {
			if cs.Fn == nil || cs.Fn.Pkg() == nil || cs.Fn.Pkg().Path() != mp("ss2022") || len(cs.Call.Args) < 3 {
				continue
			}
			wf := p.CtxOfObj(cs.Fn)
			if wf == nil || wf.Body == nil {
				continue
			}
			// the header writer: a function that writes an address parameter with socks5.WriteAddrFrom*
			var aw *CallSite
			for _, c2 := range wf.AllCalls() {
				if c2.Fn != nil && c2.Fn.Pkg() != nil && c2.Fn.Pkg().Path() == mp("socks5") && strings.HasPrefix(c2.Fn.Name(), "WriteAddrFrom") && len(c2.Call.Args) == 2 {
					c := c2
					aw = &c
				}
			}
			if aw == nil {
				continue
			}
			n++
			key := fc.Name + ":" + cs.Fn.Name()
			addrParam, padParam := -1, -1
			var fixed int64 = -1
			if ao := objOf(wf.Info(), aw.Call.Args[1]); ao != nil {
				for i := 0; i < 8; i++ {
					if wf.ParamObj(i) == ao {
						addrParam = i
					}
				}
			}
			if sl, ok := ast.Unparen(aw.Call.Args[0]).(*ast.SliceExpr); ok && sl.Low != nil && sl.High == nil && objOf(wf.Info(), sl.X) == wf.ParamObj(0) {
				off := linOf(p, wf, sl.Low)
				for i := 1; i < 8; i++ {
					po := wf.ParamObj(i)
					if po == nil {
						continue
					}
					if c, has := off[po.Name()]; has && c == 1 && len(off) == 2 {
						padParam = i
						fixed = off[""]
					}
				}
			}
			if addrParam < 0 || padParam < 0 || fixed <= 0 || addrParam >= len(cs.Call.Args) || padParam >= len(cs.Call.Args) {
				r.Fail(rule, key, cs.Pos(), "undecided: the header writer does not put its address parameter at <constant> + <padding parameter> of its buffer")
				continue
			}
			sl, ok := ast.Unparen(cs.Call.Args[0]).(*ast.SliceExpr)
			if !ok || sl.Low == nil || sl.High == nil {
				r.Fail(rule, key, cs.Pos(), "undecided: the header slot is not b[start:end]")
				continue
			}
			rest := linOf(p, fc, sl.High).add(linOf(p, fc, sl.Low), -1).add(linOf(p, fc, cs.Call.Args[padParam]), -1).add(linForm{"": fixed}, -1)
			addrArg := cs.Call.Args[addrParam]
			family := strings.TrimPrefix(aw.Fn.Name(), "WriteAddrFrom")
			want := ""
			for _, c2 := range fc.AllCalls() {
				if c2.Fn != nil && c2.Fn.Pkg() != nil && c2.Fn.Pkg().Path() == mp("socks5") && c2.Fn.Name() == "LengthOfAddrFrom"+family && len(c2.Call.Args) == 1 && objOf(info, c2.Call.Args[0]) != nil && objOf(info, c2.Call.Args[0]) == objOf(info, addrArg) {
					nc := &normCtx{p: p, fc: fc, subst: map[types.Object]string{}, at: c2.V}
					if ro := fc.RecvObj(); ro != nil {
						nc.subst[ro] = "recv"
					}
					want = nc.expr(c2.Call)
				}
			}
			okSlot := want != "" && len(rest) == 1 && rest[want] == 1
			r.Check(okSlot, rule, key, cs.Pos(), fmt.Sprintf("slot length = %d + padding + %s", fixed, want), fmt.Sprintf("the header slot is %d + padding + [%s] long, but the writer puts socks5.%s(%s) there: for an address whose written length differs (an IPv4-mapped source, a domain name) a hole of stale buffer bytes or an overlap with the payload is sealed into the packet", fixed, rest.String(), aw.Fn.Name(), exprStr(addrArg)))
		}
	})
	r.Count("header_writer_calls", n)
	// the length function and the writer of the IP family agree: along every combination of
	// outcomes of the tests on the address, both report the same number of bytes
	sp := p.Pkg("socks5")
	_ = sp
	wr := p.Func("socks5", "", "WriteAddrFromAddrPort")
	ln := p.Func("socks5", "", "LengthOfAddrFromAddrPort")
	wt, wok := c05OutcomeTable(p, wr, 1, 0)
	lt, lok := c05OutcomeTable(p, ln, 0, 0)
	same := wok && lok && len(wt) == len(lt) && len(wt) > 1
	detail := ""
	for k, v := range wt {
		if lt[k] != v {
			same = false
			detail = fmt.Sprintf("for %s the writer reports %s and the length function %q", k, v, lt[k])
		}
	}
	r.Check(same, rule, "socks5.LengthOfAddrFromAddrPort~WriteAddrFromAddrPort", p.posStr(ln.Body.Pos()), fmt.Sprintf("%d outcome combinations, same byte count in both", len(wt)), "the length function and the writer disagree about how many bytes an address takes: "+detail+" — every packer that reserves the one and writes the other leaves a hole or overlaps the payload")
	// the reader's table agrees with the writer's: for every address type byte the writer stores,
	// the readers consume, on the case of that constant, exactly the number of bytes the writer
	// reports for it
	wtab, wok2 := c05WriterAtypTable(p, wr)
	nReaders := 0
	for _, rn := range [][2]string{{"", "AddrPortFromSlice"}, {"", "ConnAddrFromSlice"}, {"DomainCache", "ConnAddrFromSlice"}} {
		rd := p.LookupFunc("socks5", rn[0], rn[1])
		if rd == nil {
			continue
		}
		nReaders++
		rtab, rok := c05ReaderAtypTable(p, rd)
		okT := wok2 && rok && len(wtab) >= 2
		det := ""
		for k, n := range wtab {
			if rn2, has := rtab[k]; !has || rn2 != n {
				okT = false
				det = fmt.Sprintf("for address type %d the writer produces %d bytes and %s consumes %d", k, n, rd.Name, rtab[k])
			}
		}
		r.Check(okT, rule, "socks5.WriteAddrFromAddrPort~"+rd.Name, p.posStr(rd.Body.Pos()), fmt.Sprintf("writer %v, reader %v", wtab, rtab), "the SOCKS address reader and writer disagree on the length of an address type: "+det+" — every payload offset computed from the reader's count is off for that family")
	}
	r.Check(nReaders >= 2, rule, "socks5:slice-readers", "socks5/addr.go", fmt.Sprintf("%d readers", nReaders), "the SOCKS address slice readers were not found")
	r.Floor(rule, 5)
}

// c05WriterAtypTable: along each path of the writer, the constant stored into b[0] and the
// constant byte count reported.
func c05WriterAtypTable(p *Prog, fc *FuncCtx) (map[int64]int64, bool) {
	info := fc.Info()
	out := map[int64]int64{}
	ok := true
	resObj := fc.ResultObj(0)
	env := map[types.Object]int64{}
	var walk func(v int, atyp, n int64, seen map[int]bool)
	walk = func(v int, atyp, n int64, seen map[int]bool) {
		if !ok || seen[v] {
			if seen[v] {
				ok = false
			}
			return
		}
		seen[v] = true
		defer delete(seen, v)
		vx := fc.G.V[v]
		if as, isAs := vx.Node.(*ast.AssignStmt); isAs && vx.Kind == VStmt && len(as.Lhs) == len(as.Rhs) {
			for i, l := range as.Lhs {
				if ix, isIx := ast.Unparen(l).(*ast.IndexExpr); isIx && objOf(info, ix.X) == fc.ParamObj(0) {
					if k, isC := constInt(info, ix.Index); isC && k == 0 {
						if c, isC2 := constInt(info, as.Rhs[i]); isC2 {
							atyp = c
						} else {
							ok = false
						}
					}
				}
				if lo := objOf(info, l); lo != nil {
					if _, isId := ast.Unparen(l).(*ast.Ident); isId {
						prev, had := env[lo]
						if c, isC := constInt(info, as.Rhs[i]); isC {
							env[lo] = c
						} else {
							delete(env, lo)
						}
						defer func() {
							if had {
								env[lo] = prev
							} else {
								delete(env, lo)
							}
						}()
					}
				}
			}
		}
		if v == fc.G.Exit {
			return
		}
		for _, e := range vx.Succs {
			if e.To == fc.G.Exit {
				if rs, isRS := vx.Node.(*ast.ReturnStmt); isRS && len(rs.Results) == 1 {
					if c, isC := constInt(info, rs.Results[0]); isC {
						n = c
					} else if c, has := env[objOf(info, rs.Results[0])]; has && objOf(info, rs.Results[0]) != nil {
						n = c
					} else {
						ok = false
					}
				} else if resObj != nil {
					if c, has := env[resObj]; has {
						n = c
					}
				}
				if atyp < 0 || n < 0 {
					ok = false
					return
				}
				if prev, has := out[atyp]; has && prev != n {
					ok = false
				}
				out[atyp] = n
				continue
			}
			walk(e.To, atyp, n, seen)
		}
	}
	walk(fc.G.Entry, -1, -1, map[int]bool{})
	return out, ok
}

// c05ReaderAtypTable: for each constant case of the switch on b[0], the constant count the
// reader returns together with a nil error.
func c05ReaderAtypTable(p *Prog, fc *FuncCtx) (map[int64]int64, bool) {
	info := fc.Info()
	out := map[int64]int64{}
	ok := true
	isTypeByte := func(e ast.Expr) bool {
		ix, isIx := ast.Unparen(e).(*ast.IndexExpr)
		if !isIx || objOf(info, ix.X) == nil {
			return false
		}
		k, isC := constInt(info, ix.Index)
		return isC && k == 0
	}
	for _, ret := range fc.Returns() {
		rs := fc.G.V[ret].Node.(*ast.ReturnStmt)
		if len(rs.Results) != 3 || fc.ErrAtReturn(ret) == ErrNonNil {
			continue
		}
		n, isC := constInt(info, rs.Results[1])
		if !isC {
			continue // the domain form: its length is not a constant
		}
		// the case constant whose equal edge dominates this return
		found := false
		for _, cv := range fc.G.V {
			x, y, op, okc := condParts(cv)
			if !okc || y == nil || op != token.EQL || !isTypeByte(fc.Resolve(x)) {
				continue
			}
			k, isK := constInt(info, y)
			if !isK {
				continue
			}
			for _, e := range cv.Succs {
				if e.Label == LTrue && fc.G.EdgeDominates([]Edge{e}, ret) {
					if prev, has := out[k]; has && prev != n {
						ok = false
					}
					out[k] = n
					found = true
				}
			}
		}
		if !found {
			ok = false
		}
	}
	return out, ok && len(out) > 0
}

// c05OutcomeTable walks every acyclic path of fc, recording the outcomes of the conditions that
// mention parameter addrIdx (normalised with the parameter called "addr"), and maps each
// combination to the linear form of result resIdx at the return. ok=false when the function
// loops, a result is not a constant, or a combination maps to two values.
func c05OutcomeTable(p *Prog, fc *FuncCtx, addrIdx, resIdx int) (map[string]string, bool) {
	out := map[string]string{}
	ok := true
	po := fc.ParamObj(addrIdx)
	if po == nil {
		return nil, false
	}
	resObj := fc.ResultObj(resIdx)
	info := fc.Info()
	// constants held by locals along the path walked (named results included)
	env := map[types.Object]int64{}
	var walk func(v int, conds []string, seen map[int]bool)
	walk = func(v int, conds []string, seen map[int]bool) {
		if !ok {
			return
		}
		if as, isAs := fc.G.V[v].Node.(*ast.AssignStmt); isAs && fc.G.V[v].Kind == VStmt && len(as.Lhs) == len(as.Rhs) {
			for i, l := range as.Lhs {
				if lo := objOf(info, l); lo != nil {
					if _, isId := ast.Unparen(l).(*ast.Ident); isId {
						prev, had := env[lo]
						if c, isC := constInt(info, as.Rhs[i]); isC && (as.Tok == token.ASSIGN || as.Tok == token.DEFINE) {
							env[lo] = c
						} else {
							delete(env, lo)
						}
						defer func() {
							if had {
								env[lo] = prev
							} else {
								delete(env, lo)
							}
						}()
					}
				}
			}
		}
		if seen[v] {
			ok = false
			return
		}
		seen[v] = true
		defer delete(seen, v)
		vx := fc.G.V[v]
		if v == fc.G.Exit {
			return
		}
		isRet := false
		for _, e := range vx.Succs {
			if e.To == fc.G.Exit {
				isRet = true
			}
		}
		if isRet {
			var lf linForm
			if rs, isRS := vx.Node.(*ast.ReturnStmt); isRS && len(rs.Results) > resIdx {
				if c, has := env[objOf(info, rs.Results[resIdx])]; has && objOf(info, rs.Results[resIdx]) != nil {
					lf = linForm{"": c}
				} else {
					lf = linOf(p, fc, rs.Results[resIdx])
				}
			} else if resObj != nil {
				// bare return of a named result: the value it was last given on this path
				if c, has := env[resObj]; has {
					lf = linForm{"": c}
				}
			}
			if lf == nil {
				ok = false
				return
			}
			if len(lf) > 1 || (len(lf) == 1 && lf[""] == 0) {
				ok = false
				return
			}
			cs := append([]string{}, conds...)
			sort.Strings(cs)
			k := strings.Join(cs, " & ")
			val := lf.String()
			if prev, has := out[k]; has && prev != val {
				ok = false
			}
			out[k] = val
			return
		}
		for _, e := range vx.Succs {
			nc := conds
			if vx.Kind == VCond && (e.Label == LTrue || e.Label == LFalse) {
				nctx := &normCtx{p: p, fc: fc, subst: map[types.Object]string{po: "addr"}, at: v}
				cstr := nctx.expr(vx.Node.(ast.Expr))
				if strings.Contains(cstr, "addr") {
					if e.Label == LFalse {
						cstr = "!" + cstr
					}
					nc = append(append([]string{}, conds...), cstr)
				}
			}
			walk(e.To, nc, seen)
		}
	}
	walk(fc.G.Entry, nil, map[int]bool{})
	return out, ok
}
