package main

import (
	"fmt"
	"go/ast"
	"go/constant"
	"go/token"
	"go/types"
	"os"
	"strings"
)

func init() {
	register(&PropCheck{ID: "C02", Pkgs: []string{"./ss2022"}, Run: runC02})
}

func runC02(p *Prog, r *Report) {
	r.Explanation = "Structural necessary conditions of 'tampered, spliced or foreign SS2022 TCP traffic is never delivered as data': every content use of bytes read from the transport is dominated by a successful AEAD open of those bytes; a failing read reports zero bytes; the client binds the response to its own request salt and the server echoes the salt of the request it authenticated; before authentication nothing decrypts in place over the received bytes, the fallback window closes exactly when the request is authenticated, and the fallback carries the untouched received bytes; the nonce advances only on successful opens (shared with C01-R2)."
	r.NotDecided = []string{"cryptographic strength of AES-GCM / key derivation", "that a cut exactly on a chunk boundary surfaces as an error (it reaches the reader as io.EOF; the delivered bytes are still a prefix of the genuine stream)", "value-level padding bounds beyond the parser's guards"}
	r.Assumptions = []string{"cipher.AEAD.Open returns an error for any modified ciphertext, wrong key or wrong nonce", "crypto/cipher.Block.Decrypt writes only into dst"}
	c02R1(p, r)
	c02R2(p, r)
	c02R3(p, r)
	c02R4(p, r)
	// R5: nonce lock-step is a clause of this property too (replayed / reordered / duplicated chunks fail to open)
	c01R2as(p, r, "C02-R5")
	c02R6(p, r)
	erasedErrorRequests(p, r, "C02-R7")
}

// c02R6: a chunk that failed to open leaves nothing to hand out.
func c02R6(p *Prog, r *Report) {
	const rule = "C02-R6"
	r.Rule(rule, "a failed chunk read leaves nothing to hand out: the connection's left-over window (readBuf[readStart:]) only ever shrinks (readStart += the count a copy / Write reported) except on the err == nil edge of the chunk reader, where readBuf becomes the buffer just filled cut at the reader's count and readStart returns to 0 together; the only other assignment of readBuf is the growth of a nil buffer (length 0)")
	pkg := p.Pkg("ss2022")
	nW := 0
	p.AllFuncs(pkg, func(top *FuncCtx) {
		for _, fc := range allCtxs(p, top) {
			info := fc.Info()
			reads := fc.CallsTo(isFn(mp("ss2022"), "ShadowStreamConn", "read"))
			// the first payload chunk of a response is opened by its own reader
			reads = append(reads, fc.CallsTo(isFn(mp("ss2022"), "ShadowStreamClientConn", "readFirstPayloadChunk"))...)
			// … or, written out in place, by the in-place AEAD open itself
			for _, cs := range fc.AllCalls() {
				if isDecryptCall(cs.Fn) && cs.Fn.Name() == "DecryptInPlace" {
					reads = append(reads, cs)
				}
			}
			guardedByRead := func(v int) *CallSite {
				for i := range reads {
					if reads[i].SuccessGuards(v) {
						return &reads[i]
					}
				}
				return nil
			}
			for _, fa := range fc.FieldAccesses(mp("ss2022"), "ShadowStreamConn", map[string]bool{"readStart": true, "readBuf": true}) {
				if !fa.Write {
					continue
				}
				nW++
				key := fmt.Sprintf("%s:%s:%s", fc.Name, fa.Field.Name(), exprStr(fc.G.V[fa.V].Node))
				as, isAs := fc.G.V[fa.V].Node.(*ast.AssignStmt)
				var rhs ast.Expr
				if isAs && len(as.Lhs) == len(as.Rhs) {
					for i, l := range as.Lhs {
						if ast.Unparen(l) == ast.Expr(fa.Sel) {
							rhs = as.Rhs[i]
						}
					}
				}
				if rhs == nil {
					r.Fail(rule, key, p.posStr(fa.Sel.Pos()), "undecided: the left-over window is modified by something other than a plain assignment")
					continue
				}
				switch fa.Field.Name() {
				case "readStart":
					if as.Tok == token.ADD_ASSIGN {
						// advance by what a copy / Write consumed
						okAdv := false
						if o := objOf(info, rhs); o != nil {
							for _, cs := range fc.AllCalls() {
								name := ""
								if cs.Fn != nil {
									name = cs.Fn.Name()
								} else if id, ok := ast.Unparen(cs.Call.Fun).(*ast.Ident); ok {
									name = id.Name
								}
								if (name == "copy" || name == "Write" || name == "write") && cs.ResultVar(0) == o && fc.SoleDef(fa.V, o, cs.V) {
									okAdv = true
								}
							}
						}
						r.Check(okAdv, rule, key, p.posStr(fa.Sel.Pos()), "advances by the count a copy / Write reported", "readStart advances by something other than the count of bytes handed on")
						continue
					}
					// closing the window: readStart = len(readBuf) of the same connection
					if call, ok := ast.Unparen(rhs).(*ast.CallExpr); ok && len(call.Args) == 1 && as.Tok == token.ASSIGN {
						if id, ok := ast.Unparen(call.Fun).(*ast.Ident); ok && id.Name == "len" {
							if s2, ok := ast.Unparen(call.Args[0]).(*ast.SelectorExpr); ok && s2.Sel.Name == "readBuf" && pathKey(info, s2.X) == pathKey(info, fa.Sel.X) && pathKey(info, s2.X) != "" {
								r.OK(rule, key, p.posStr(fa.Sel.Pos()), "closes the window (readStart = len(readBuf))")
								continue
							}
						}
					}
					rc := guardedByRead(fa.V)
					k, isC := constInt(info, rhs)
					okVal := isC && k == 0
					if !okVal {
						// the count of a copy out of the very buffer that becomes readBuf here
						if o := objOf(info, rhs); o != nil {
							for _, cs := range fc.AllCalls() {
								id, ok := ast.Unparen(cs.Call.Fun).(*ast.Ident)
								if !ok || id.Name != "copy" || cs.ResultVar(0) != o || !fc.SoleDef(fa.V, o, cs.V) || len(cs.Call.Args) != 2 {
									continue
								}
								src := objOf(info, cs.Call.Args[1])
								for _, fb := range fc.FieldAccesses(mp("ss2022"), "ShadowStreamConn", map[string]bool{"readBuf": true}) {
									if !fb.Write {
										continue
									}
									if a2, ok := fc.G.V[fb.V].Node.(*ast.AssignStmt); ok && len(a2.Lhs) == len(a2.Rhs) {
										for i, l := range a2.Lhs {
											if ast.Unparen(l) == ast.Expr(fb.Sel) && src != nil && objOf(info, a2.Rhs[i]) == src && !fc.G.ReachAfter(cs.V, nil, nil)[cs.V] {
												// nothing redefines the buffer between the copy and the two assignments
												redef := false
												for _, d := range fc.Defs(src) {
													if fc.G.ReachAfter(cs.V, nil, nil)[d] {
														redef = true
													}
												}
												okVal = !redef
											}
										}
									}
								}
							}
						}
					}
					r.Check(as.Tok == token.ASSIGN && rc != nil && okVal, rule, key, p.posStr(fa.Sel.Pos()), "rewound (to 0, or to what was already copied out of the new chunk) only on the chunk reader's err == nil edge", "the read cursor is rewound outside the success edge of the chunk reader: after a chunk that fails to open (or after EOF) the previous chunk's bytes — by then overwritten with unauthenticated input — are handed out again as data")
				case "readBuf":
					if rc := guardedByRead(fa.V); rc != nil {
						// the buffer just filled, cut at the reader's count (or, for the reader that
						// opens in place without reporting a count, cut one tag short of what it was given)
						okCut := false
						if sl, ok := ast.Unparen(rhs).(*ast.SliceExpr); ok && sl.Low == nil && sl.High != nil && len(rc.Call.Args) == 1 {
							okCut = objOf(info, sl.High) != nil && objOf(info, sl.High) == rc.ResultVar(0) && objOf(info, sl.X) != nil && objOf(info, sl.X) == objOf(info, rc.Call.Args[0])
						}
						if !okCut && len(rc.Call.Args) == 1 {
							if wo := objOf(info, rhs); wo != nil {
								if fsl, ok := ast.Unparen(fc.Resolve(rc.Call.Args[0])).(*ast.SliceExpr); ok && fsl.Low == nil && fsl.High != nil && objOf(info, fsl.X) == wo {
									rd := fc.ReachingDefs(fa.V, wo)
									if len(rd) == 1 && rd[0] != fc.G.Entry && fc.G.ReachAfter(rc.V, nil, nil)[rd[0]] {
										if a2, ok := fc.G.V[rd[0]].Node.(*ast.AssignStmt); ok && len(a2.Lhs) == 1 && len(a2.Rhs) == 1 && objOf(info, a2.Lhs[0]) == wo {
											if wsl, ok := ast.Unparen(a2.Rhs[0]).(*ast.SliceExpr); ok && wsl.Low == nil && wsl.High != nil && objOf(info, wsl.X) == wo {
												d := linOf(p, fc, fsl.High).add(linOf(p, fc, wsl.High), -1)
												ts, _ := constIntOfName(p, "ss2022", "tagSize")
												okCut = len(d) == 1 && d[""] == ts && ts > 0
											}
										}
									}
								}
							}
						}
						r.Check(okCut, rule, key, p.posStr(fa.Sel.Pos()), "readBuf = the plaintext of the chunk just opened", "readBuf is not the buffer the reader filled cut at the count it reported")
						if objOf(info, rhs) != nil {
							continue // the cursor is set by the companion assignment checked above
						}
						// … and the cursor returns to 0 with it
						after := fc.G.ReachAfter(fa.V, func(v *Vertex) bool {
							a2, ok := v.Node.(*ast.AssignStmt)
							if !ok || a2.Tok != token.ASSIGN || len(a2.Lhs) != len(a2.Rhs) {
								return false
							}
							for i, l := range a2.Lhs {
								if s2, ok := ast.Unparen(l).(*ast.SelectorExpr); ok && s2.Sel.Name == "readStart" {
									if k, isC := constInt(info, a2.Rhs[i]); isC && k == 0 {
										return true
									}
								}
							}
							return false
						}, nil)
						r.Check(!after[fc.G.Exit], rule, key+":cursor-reset", p.posStr(fa.Sel.Pos()), "readStart = 0 follows on every path", "a new chunk becomes the left-over without the cursor returning to 0: its head is skipped")
						continue
					}
					// growth of a nil buffer
					okGrow := false
					if call, ok := ast.Unparen(rhs).(*ast.CallExpr); ok {
						if fn := Callee(info, call); fn != nil && fn.FullName() == "slices.Grow" && len(call.Args) == 2 {
							if s2, ok := ast.Unparen(call.Args[0]).(*ast.SelectorExpr); ok && s2.Sel.Name == "readBuf" {
								nilEdges := fc.TestEdges(func(e ast.Expr) bool {
									s3, ok := ast.Unparen(e).(*ast.SelectorExpr)
									return ok && s3.Sel.Name == "readBuf"
								}, WantNil)
								okGrow = len(nilEdges) > 0 && fc.G.EdgeDominates(nilEdges, fa.V)
							}
						}
					}
					r.Check(okGrow, rule, key, p.posStr(fa.Sel.Pos()), "capacity growth of a nil buffer (length stays 0)", "readBuf is assigned outside the success edge of the chunk reader: bytes that were never authenticated can become the left-over that the next Read hands out")
				}
			}
		}
	})
	r.Count("leftover_window_writes", nW)
	r.Floor(rule, 5)
}

func isDecryptCall(fn *types.Func) bool {
	return fn != nil && namedTypeName(recvTypeOf(fn)) == "ShadowStreamCipher" && strings.HasPrefix(fn.Name(), "Decrypt")
}

func c02R1(p *Prog, r *Report) {
	const rule = "C02-R1"
	r.Rule(rule, "authenticate before use: the length field is read, headers are parsed and byte counts are reported only on the err == nil edge of the AEAD open of the very bytes concerned; a chunk reader that fails reports zero bytes; callers touch the chunk only on the reader's err == nil edge")
	// (a) ShadowStreamConn.read
	rd := p.Inlined(p.Func("ss2022", "ShadowStreamConn", "read"))
	info := rd.Info()
	var decs []CallSite
	for _, cs := range rd.AllCalls() {
		if isDecryptCall(cs.Fn) {
			decs = append(decs, cs)
		}
	}
	r.Check(len(decs) == 2, rule, "ss2022.(*ShadowStreamConn).read:two-opens", p.posStr(rd.Body.Pos()), "length chunk and payload chunk are each opened", fmt.Sprintf("%d AEAD opens in read (length and payload chunk each need one)", len(decs)))
	// each open is of a buffer that was filled by a guarded ReadFull
	for i, d := range decs {
		buf := objOf(info, d.Call.Args[len(d.Call.Args)-1])
		filled := false
		for _, cs := range rd.CallsTo(isFn("io", "", "ReadFull")) {
			if isTransport(rd, cs.Call.Args[0]) && objOf(info, cs.Call.Args[1]) == buf && buf != nil && cs.SuccessGuards(d.V) && rd.SoleDefBetween(buf, cs.V, d.V) {
				filled = true
			}
		}
		r.Check(filled, rule, fmt.Sprintf("ss2022.(*ShadowStreamConn).read:open#%d-of-fully-read-buffer", i), d.Pos(), "opens the buffer just filled by a successful io.ReadFull", "the AEAD open is not applied to the buffer just read in full")
	}
	// length use after first open
	for _, cs := range rd.AllCalls() {
		if cs.Fn != nil && cs.Fn.Pkg() != nil && cs.Fn.Pkg().Path() == "encoding/binary" && strings.HasPrefix(cs.Fn.Name(), "Uint") {
			ok := false
			for _, d := range decs {
				if d.SuccessGuards(cs.V) && samePathOrObj(rd, d.Call.Args[len(d.Call.Args)-1], cs.Call.Args[0]) {
					ok = true
				}
			}
			r.Check(ok, rule, "ss2022.(*ShadowStreamConn).read:length-after-open", cs.Pos(), "the length is read only after its chunk opened successfully", "the length field is used before (or regardless of) the AEAD open of the length chunk: a forged length steers the next read")
		}
	}
	// zero length refused
	zero := false
	for _, v := range rd.G.V {
		x, y, op, ok := condParts(v)
		if ok && y != nil && op == token.EQL {
			if k, isC := constInt(info, y); isC && k == 0 && objOf(info, x) != nil && objOf(info, x).Name() != "" {
				for _, e := range v.Succs {
					if e.Label == LTrue {
						reach := rd.G.Reach([]int{e.To}, nil, nil)
						all := true
						for _, ret := range rd.ExitPreds() {
							if reach[ret] && rd.ErrAtReturn(ret) != ErrNonNil {
								all = false
								if os.Getenv("VERIF_DBG") != "" {
									fmt.Fprintln(os.Stderr, "DBG zero: reaches", ret, exprStr(rd.G.V[ret].Node), rd.ErrAtReturn(ret))
								}
							}
						}
						if all {
							zero = true
						}
					}
				}
			}
		}
	}
	r.Check(zero, rule, "ss2022.(*ShadowStreamConn).read:zero-length-chunk-refused", p.posStr(rd.Body.Pos()), "a zero length is an error", "a zero-length chunk is accepted (an attacker-free stream never contains one; accepting it lets Read return 0, nil forever)")
	// (b) count/err discipline for chunk readers
	for _, fn := range [][2]string{{"ShadowStreamConn", "read"}, {"ShadowStreamClientConn", "initRead"}, {"ShadowStreamConn", "Read"}, {"ShadowStreamClientConn", "Read"}} {
		fc := p.Func("ss2022", fn[0], fn[1])
		finfo := fc.Info()
		var fdecs []CallSite
		for _, cs := range fc.AllCalls() {
			if isDecryptCall(cs.Fn) {
				fdecs = append(fdecs, cs)
			}
		}
		for i, ret := range fc.Returns() {
			rs := fc.G.V[ret].Node.(*ast.ReturnStmt)
			construct := fmt.Sprintf("ss2022.(*%s).%s:return#%d", fn[0], fn[1], i)
			if len(rs.Results) == 1 {
				// return c.read(b): passes both through
				if c, ok := ast.Unparen(rs.Results[0]).(*ast.CallExpr); ok {
					if f := Callee(finfo, c); f != nil && (f.Name() == "read" || f.Name() == "Read") {
						r.OK(rule, construct, p.posStr(rs.Pos()), "passes the chunk reader's (count, error) through")
						continue
					}
				}
			}
			if len(rs.Results) != 2 {
				r.Fail(rule, construct, p.posStr(rs.Pos()), "undecided: unexpected return shape "+exprStr(rs))
				continue
			}
			ek := fc.ErrAtReturn(ret)
			k, isConst := constInt(finfo, rs.Results[0])
			zeroCount := isConst && k == 0
			switch {
			case ek == ErrNil:
				// success: must be guarded by every open in this function that dominates... at least: all opens that can reach it
				good := true
				for _, d := range fdecs {
					if fc.G.Reach([]int{d.V}, nil, nil)[ret] && !d.SuccessGuards(ret) {
						good = false
					}
				}
				r.Check(good, rule, construct, p.posStr(rs.Pos()), "success return only after every AEAD open on the path succeeded", "a success return is reachable although an AEAD open on the path failed: unauthenticated bytes are delivered")
			case zeroCount:
				r.OK(rule, construct, p.posStr(rs.Pos()), "failure return reports 0 bytes")
			default:
				r.Fail(rule, construct, p.posStr(rs.Pos()), "a return that may carry a non-nil error reports a non-zero byte count ("+exprStr(rs)+"): io.Reader callers consume that many bytes of a buffer holding unauthenticated or zeroed data")
			}
		}
	}
	// (c) callers of read: the count / buffer are used only on the success edge
	pkg := p.Pkg("ss2022")
	p.AllFuncs(pkg, func(top *FuncCtx) {
		for _, fc := range allCtxs(p, top) {
			for _, cs := range fc.CallsTo(isFn(mp("ss2022"), "ShadowStreamConn", "read")) {
				nr := cs.ResultVar(0)
				if nr == nil {
					continue // returned directly
				}
				bad := ""
				for _, v := range fc.G.V {
					if v.ID == cs.V || v.Node == nil {
						continue
					}
					if usesObj(fc.Info(), v.Node, nr, false) && fc.G.ReachAfter(cs.V, nil, nil)[v.ID] && fc.SoleDef(v.ID, nr, cs.V) {
						if !cs.SuccessGuards(v.ID) {
							bad = exprStr(v.Node)
						}
					}
				}
				r.Check(bad == "", rule, fc.Name+":uses-chunk-only-on-success", cs.Pos(), "count and data of the chunk are used only on the reader's err == nil edge", "the chunk is used although the reader may have failed: "+bad)
			}
		}
	})
	// (d) initRead: parse input is plaintext of successful open; readFirstPayloadChunk returns the open's error
	ir := p.Func("ss2022", "ShadowStreamClientConn", "initRead")
	for _, ps := range ir.CallsTo(isFn(mp("ss2022"), "", "ParseTCPResponseHeader")) {
		src := objOf(ir.Info(), ps.Call.Args[0])
		good := false
		for _, cs := range ir.AllCalls() {
			if isDecryptCall(cs.Fn) && cs.ResultVar(0) != nil && cs.ResultVar(0) == src && cs.SuccessGuards(ps.V) && ir.SoleDef(ps.V, src, cs.V) {
				good = true
			}
		}
		r.Check(good, rule, "ss2022.(*ShadowStreamClientConn).initRead:parses-authenticated-plaintext", ps.Pos(), "the response header parsed is the plaintext of a successful AEAD open", "the response header is parsed before / without a successful AEAD open")
	}
	// (d2) no AEAD verdict is dropped, whichever function holds the open: in every function of
	// the package the error of an AEAD open (or of a helper that passes one through, found by
	// fixpoint) is either tested or returned as the function's own error, and every io.ReadFull
	// that can reach the open does so only on its success edge.
	passThrough := map[*types.Func]bool{}
	type verdict struct {
		cs       CallSite
		ok, read bool
	}
	var verdicts map[string]verdict
	for changed := true; changed; {
		changed = false
		verdicts = map[string]verdict{}
		p.AllFuncs(pkg, func(top *FuncCtx) {
			if top.Obj != nil && recvTypeOf(top.Obj) != nil && strings.HasSuffix(namedTypeName(recvTypeOf(top.Obj)), "Cipher") {
				return // the ciphers themselves (C01)
			}
			for _, fc := range allCtxs(p, top) {
				n := 0
				for _, cs := range fc.AllCalls() {
					if cs.Fn == nil || !(isDecryptCall(cs.Fn) || passThrough[cs.Fn]) {
						continue
					}
					n++
					tested := len(cs.ResultEdges(-1, WantNil)) > 0
					returned := false
					eo := cs.ResultVar(-1)
					for _, ret := range fc.Returns() {
						rs := fc.G.V[ret].Node.(*ast.ReturnStmt)
						if len(rs.Results) == 0 {
							continue
						}
						last := ast.Unparen(rs.Results[len(rs.Results)-1])
						if last == cs.Call || (len(rs.Results) == 1 && last == cs.Call) {
							returned = true
						}
						if eo != nil && objOf(fc.Info(), last) == eo && fc.SoleDef(ret, eo, cs.V) && fc.G.Dominates([]int{cs.V}, ret) {
							returned = true
						}
					}
					if returned && !tested && fc.Obj != nil && !passThrough[fc.Obj] {
						passThrough[fc.Obj] = true
						changed = true
					}
					readOK := true
					for _, rf := range fc.CallsTo(isFn("io", "", "ReadFull")) {
						if fc.G.ReachAfter(rf.V, nil, nil)[cs.V] && !rf.SuccessGuards(cs.V) {
							readOK = false
						}
					}
					verdicts[fmt.Sprintf("%s:open#%d", fc.Name, n)] = verdict{cs, tested || returned, readOK}
				}
			}
		})
	}
	for key, v := range verdicts {
		r.Check(v.ok, rule, key+":verdict-used", v.cs.Pos(), "the AEAD verdict is tested or returned as the function's error", "the result of "+exprStr(v.cs.Call)+" is ignored: unauthenticated bytes are treated as opened")
		r.Check(v.read, rule, key+":after-full-read", v.cs.Pos(), "every full read that reaches this open does so on its success edge", "the open runs although the io.ReadFull before it may have failed: a partially filled buffer is authenticated/consumed")
	}
	r.Count("aead_open_sites_"+rule, len(verdicts))
	// (e) HandleStream: variable-length header parse after in-place open after full read
	hs := p.Func("ss2022", "StreamServer", "HandleStream")
	for _, ps := range hs.CallsTo(isFn(mp("ss2022"), "", "ParseTCPRequestVariableLengthHeader")) {
		src := objOf(hs.Info(), ps.Call.Args[0])
		good := false
		for _, cs := range hs.AllCalls() {
			if isDecryptCall(cs.Fn) && cs.ResultVar(0) != nil && cs.ResultVar(0) == src && cs.SuccessGuards(ps.V) && hs.SoleDef(ps.V, src, cs.V) {
				// the opened buffer was read in full
				for _, rf := range hs.CallsTo(isFn("io", "", "ReadFull")) {
					if rf.SuccessGuards(cs.V) && samePathOrObj(hs, rf.Call.Args[1], cs.Call.Args[len(cs.Call.Args)-1]) {
						good = true
					}
				}
			}
		}
		r.Check(good, rule, "ss2022.(*StreamServer).HandleStream:variable-header-authenticated", ps.Pos(), "target address and payload are parsed from the plaintext of a successful open of a fully read chunk", "the variable-length header is parsed from bytes that were not (successfully) authenticated")
		// success return guarded by the parse
		for _, ret := range hs.Returns() {
			if hs.ErrAtReturn(ret) == ErrNonNil {
				continue
			}
			if hs.G.ReachAfter(ps.V, nil, nil)[ret] {
				r.Check(ps.SuccessGuards(ret), rule, "ss2022.(*StreamServer).HandleStream:request-after-parse-ok", p.posStr(hs.G.V[ret].Node.Pos()), "the request is returned only when the header parsed", "a request is returned although the variable-length header failed to parse")
			}
		}
	}
	r.Floor(rule, 24)
}

// SoleDefBetween: obj is not reassigned on any path from a to b (a's own definition excepted).
func (fc *FuncCtx) SoleDefBetween(obj types.Object, a, b int) bool {
	if obj == nil {
		return false
	}
	for _, d := range fc.Defs(obj) {
		if d == a || d == b {
			continue
		}
		if fc.G.ReachAfter(a, func(v *Vertex) bool { return v.ID == b }, nil)[d] && fc.G.Reach([]int{d}, nil, nil)[b] {
			return false
		}
	}
	return true
}

func c02R2(p *Prog, r *Report) {
	const rule = "C02-R2"
	r.Rule(rule, "response binding: ParseTCPResponseHeader succeeds only past the type, timestamp, request-salt-equality and non-zero-length tests; the client compares against the salt it sealed its own request with; the server echoes the salt of the request it has just authenticated")
	ph := p.Inlined(p.Func("ss2022", "", "ParseTCPResponseHeader"))
	info := ph.Info()
	reqSalt := ph.ParamObj(2)
	// salt equality edges
	var eqEdges []Edge
	for _, v := range ph.G.V {
		if v.Kind != VCond {
			continue
		}
		c, ok := ast.Unparen(v.Node.(ast.Expr)).(*ast.CallExpr)
		if !ok {
			continue
		}
		if fn := Callee(info, c); fn != nil && fn.Pkg() != nil && ((fn.Pkg().Path() == "bytes" && fn.Name() == "Equal") || (fn.Pkg().Path() == "crypto/subtle" && fn.Name() == "ConstantTimeCompare")) && len(c.Args) == 2 {
			a0, a1 := objOf(info, c.Args[0]), objOf(info, c.Args[1])
			other := c.Args[1]
			if a1 == reqSalt {
				other = c.Args[0]
			} else if a0 != reqSalt {
				continue
			}
			// the other operand must be a slice of the header buffer b of len(requestSalt) at offset 1+8
			or := ph.Resolve(other)
			sl, isSl := or.(*ast.SliceExpr)
			okSlice := false
			if isSl && objOf(info, sl.X) == ph.ParamObj(0) && sl.Low != nil && sl.High != nil && reqSalt != nil {
				// bounds compared after resolving locals and folding constants
				lo := linOf(p, ph, sl.Low)
				hi := normExpr(p, ph, sl.High)
				want := "len(" + reqSalt.Name() + ")"
				if len(lo) == 1 && lo[""] == 9 && (hi == "(9 + "+want+")" || hi == "("+want+" + 9)") {
					okSlice = true
				}
			}
			r.Check(okSlice, rule, "ss2022.ParseTCPResponseHeader:salt-field-position", p.posStr(c.Pos()), "compares requestSalt with header[9 : 9+len(requestSalt)]", "the salt comparison does not cover the whole request-salt field of the header")
			if fn.Name() == "Equal" {
				for _, e := range v.Succs {
					if e.Label == LTrue {
						eqEdges = append(eqEdges, e)
					}
				}
			}
		}
	}
	// type test edges: b[0] == HeaderTypeServerStream
	var typeEdges []Edge
	for _, v := range ph.G.V {
		x, y, op, ok := condParts(v)
		if !ok || y == nil || (op != token.EQL && op != token.NEQ) {
			continue
		}
		isB0 := func(e ast.Expr) bool {
			ix, ok := ast.Unparen(ph.Resolve(e)).(*ast.IndexExpr)
			if !ok || objOf(info, ix.X) != ph.ParamObj(0) {
				return false
			}
			k, isC := constInt(info, ix.Index)
			return isC && k == 0
		}
		isType := func(e ast.Expr) bool {
			k, isC := constInt(info, e)
			return isC && k == 1 && exprStr(e) == "HeaderTypeServerStream"
		}
		if (isB0(x) && isType(y)) || (isType(x) && isB0(y)) {
			want := LTrue
			if op == token.NEQ {
				want = LFalse
			}
			for _, e := range v.Succs {
				if e.Label == want {
					typeEdges = append(typeEdges, e)
				}
			}
		}
	}
	ts := ph.CallsTo(isFn(mp("ss2022"), "", "ValidateUnixEpochTimestamp"))
	nSucc := 0
	for _, ret := range ph.Returns() {
		if ph.ErrAtReturn(ret) == ErrNonNil {
			continue
		}
		if len(ts) == 1 && ret == ts[0].V {
			continue
		}
		nSucc++
		pos := p.posStr(ph.G.V[ret].Node.Pos())
		r.Check(len(eqEdges) > 0 && ph.G.EdgeDominates(eqEdges, ret), rule, "ss2022.ParseTCPResponseHeader:success-requires-salt-match", pos, "success only on the salt-equal edge", "a response whose salt field differs from the request salt can be accepted: a response recorded from another session is taken for this one")
		r.Check(len(typeEdges) > 0 && ph.G.EdgeDominates(typeEdges, ret), rule, "ss2022.ParseTCPResponseHeader:success-requires-server-type", pos, "success only on the type == server-stream edge", "the header type is not enforced: a reflected client request header parses as a response")
		r.Check(len(ts) == 1 && ts[0].SuccessGuards(ret), rule, "ss2022.ParseTCPResponseHeader:success-requires-fresh-timestamp", pos, "success only after the timestamp validated", "the response timestamp is not enforced")
	}
	r.Check(nSucc >= 1, rule, "ss2022.ParseTCPResponseHeader:has-success-return", p.posStr(ph.Body.Pos()), "has a success return", "no success return found")
	// client call site: third argument is c.requestSalt[:c.requestSaltLen]
	isSaltSlice := func(fc *FuncCtx, e ast.Expr) bool {
		sl, ok := ast.Unparen(e).(*ast.SliceExpr)
		if !ok || sl.Low != nil || sl.High == nil {
			return false
		}
		a, okA := ast.Unparen(sl.X).(*ast.SelectorExpr)
		b, okB := ast.Unparen(sl.High).(*ast.SelectorExpr)
		return okA && okB && a.Sel.Name == "requestSalt" && b.Sel.Name == "requestSaltLen" && samePath(fc.Info(), a.X, b.X) && objOf(fc.Info(), a.X) == fc.RecvObj()
	}
	ir := p.Func("ss2022", "ShadowStreamClientConn", "initRead")
	for _, cs := range ir.CallsTo(isFn(mp("ss2022"), "", "ParseTCPResponseHeader")) {
		r.Check(isSaltSlice(ir, cs.Call.Args[2]), rule, "ss2022.(*ShadowStreamClientConn).initRead:compares-own-request-salt", cs.Pos(), "the expected salt is c.requestSalt[:c.requestSaltLen]", "the response is not compared with this connection's own request salt")
	}
	// DialStream: requestSalt is lengthExtendSalt(salt) of the salt used for the request cipher; requestSaltLen = len of that salt
	ds := p.Func("ss2022", "StreamClient", "DialStream")
	dinfo := ds.Info()
	var saltObj types.Object
	for _, cs := range ds.AllCalls() {
		if cs.Fn != nil && cs.Fn.Name() == "ShadowStreamCipher" && len(cs.Call.Args) == 1 {
			saltObj = objOf(dinfo, cs.Call.Args[0])
		}
	}
	bound, lenOK := false, false
	// the values given to the connection's requestSalt / requestSaltLen fields, whether in a
	// composite literal or by assignment
	for _, val := range fieldInits(ds, "requestSalt") {
		if c, ok := ast.Unparen(ds.Resolve(val)).(*ast.CallExpr); ok && len(c.Args) == 1 {
			if fn := Callee(dinfo, c); fn != nil && fn.Name() == "lengthExtendSalt" && saltObj != nil && objOf(dinfo, c.Args[0]) == saltObj {
				bound = true
			}
		}
	}
	for _, val := range fieldInits(ds, "requestSaltLen") {
		if saltObj == nil {
			break
		}
		// saltLen with salt := b[urspLen:identityHeadersStart], identityHeadersStart = urspLen + saltLen
		lo := objOf(dinfo, val)
		if rhs, _, _, ok := ds.SoleDefRHS(saltObj); ok && lo != nil {
			if sl, ok := ast.Unparen(rhs).(*ast.SliceExpr); ok && sl.Low != nil && sl.High != nil {
				hr := ds.Resolve(sl.High)
				if be, ok := hr.(*ast.BinaryExpr); ok && be.Op == token.ADD && exprStr(be.X) == exprStr(sl.Low) && objOf(dinfo, be.Y) == lo {
					lenOK = true
				}
			}
		}
	}
	r.Check(bound, rule, "ss2022.(*StreamClient).DialStream:remembers-sealed-salt", p.posStr(ds.Body.Pos()), "requestSalt is the salt the request cipher was derived from", "the salt remembered for response validation is not the salt the request was sealed with")
	r.Check(lenOK, rule, "ss2022.(*StreamClient).DialStream:remembers-salt-length", p.posStr(ds.Body.Pos()), "requestSaltLen is the length of that salt", "requestSaltLen is not the length of the request salt: the comparison covers only part of (or more than) the salt")
	// server: initWrite echoes c.requestSalt[:c.requestSaltLen]; HandleStream stores extendedSalt of the authenticated request
	iw := p.Func("ss2022", "ShadowStreamServerConn", "initWrite")
	for _, cs := range iw.CallsTo(isFn(mp("ss2022"), "", "AppendTCPResponseHeader")) {
		r.Check(isSaltSlice(iw, cs.Call.Args[2]), rule, "ss2022.(*ShadowStreamServerConn).initWrite:echoes-request-salt", cs.Pos(), "the response carries c.requestSalt[:c.requestSaltLen]", "the response header does not carry this connection's request salt")
	}
	hs := p.Func("ss2022", "StreamServer", "HandleStream")
	hinfo := hs.Info()
	var addArg, cipherSalt types.Object
	for _, cs := range hs.AllCalls() {
		if cs.Fn != nil && cs.Fn.Name() == "Add" && namedTypeName(recvTypeOf(cs.Fn)) == "SaltPool" {
			addArg = objOf(hinfo, cs.Call.Args[1])
		}
		if cs.Fn != nil && cs.Fn.Name() == "ShadowStreamCipher" && len(cs.Call.Args) == 1 {
			cipherSalt = objOf(hinfo, cs.Call.Args[0])
		}
	}
	echoed, extOK := false, false
	for _, val := range fieldInits(hs, "requestSalt") {
		if o := objOf(hinfo, val); o != nil && o == addArg {
			echoed = true
			if rhs, _, _, ok := hs.SoleDefRHS(o); ok {
				if c, ok := ast.Unparen(rhs).(*ast.CallExpr); ok && len(c.Args) == 1 {
					if fn := Callee(hinfo, c); fn != nil && fn.Name() == "lengthExtendSalt" && objOf(hinfo, c.Args[0]) == cipherSalt && cipherSalt != nil {
						extOK = true
					}
				}
			}
		}
	}
	r.Check(echoed && extOK, rule, "ss2022.(*StreamServer).HandleStream:stores-authenticated-request-salt", p.posStr(hs.Body.Pos()), "the salt stored for the response is the salt checked into the pool and used to derive the request cipher", "the salt stored for the response is not the salt of the request that was authenticated")
	// the read cipher is published only once the header that justifies it has been opened and
	// validated: "has a read cipher" is the connection's only record that the first read happened,
	// so a cipher stored before the header check leaves a connection whose response was refused
	// (foreign session, stale timestamp) in the state of an accepted one — the next Read decrypts and
	// delivers the foreign stream
	nPub := 0
	type pubRes struct {
		owner, pos, bad string
		anyValidation   bool
	}
	pubAt := map[token.Pos]*pubRes{}
	var pubOrder []token.Pos
	ownerOf := func(pos token.Pos) string {
		name := ""
		p.AllFuncs(p.Pkg("ss2022"), func(t *FuncCtx) {
			if t.Decl != nil && t.Decl.Pos() <= pos && pos < t.Decl.End() {
				name = t.Name
			}
		})
		return name
	}
	p.AllFuncs(p.Pkg("ss2022"), func(top *FuncCtx) {
		fc := p.Inlined(top)
		finfo := fc.Info()
		var pubs []int
		var pubExpr []ast.Expr
		for _, v := range fc.G.V {
			if v.Node == nil {
				continue
			}
			if as, ok := v.Node.(*ast.AssignStmt); ok && v.Kind == VStmt {
				for i, l := range as.Lhs {
					if sel, isSel := ast.Unparen(l).(*ast.SelectorExpr); isSel && sel.Sel.Name == "readCipher" && i < len(as.Rhs) && !isNilExpr(finfo, as.Rhs[i]) {
						pubs = append(pubs, v.ID)
						pubExpr = append(pubExpr, as.Rhs[i])
					}
				}
			}
			inspectNoLit(v.Node, func(n ast.Node) bool {
				if kv, ok := n.(*ast.KeyValueExpr); ok {
					if id, isId := kv.Key.(*ast.Ident); isId && id.Name == "readCipher" && !isNilExpr(finfo, kv.Value) {
						pubs = append(pubs, v.ID)
						pubExpr = append(pubExpr, kv.Value)
					}
				}
				return true
			})
		}
		if len(pubs) == 0 {
			return
		}
		// validations in the same function: opens with that cipher and header parsers
		var validations []CallSite
		for _, cs := range fc.AllCalls() {
			if cs.Fn == nil {
				continue
			}
			nm := cs.Fn.Name()
			if strings.HasPrefix(nm, "ParseTCP") || nm == "DecryptInPlace" || nm == "DecryptTo" {
				validations = append(validations, cs)
			}
		}
		for i, pv := range pubs {
			bad := ""
			co := objOf(finfo, pubExpr[i])
			// some header parse, and some open with the very cipher being published (when the
			// function has one), must lie on every path to the publication with its success edge
			// crossed; the two copies that expanding a helper into two branches produces do not
			// speak about each other
			okParse, okOpen, hasOpen := false, false, false
			for _, cs := range validations {
				isOpen := cs.Fn.Name() == "DecryptInPlace" || cs.Fn.Name() == "DecryptTo"
				if isOpen {
					sel, isSel := ast.Unparen(cs.Call.Fun).(*ast.SelectorExpr)
					if !isSel || co == nil || objOf(finfo, sel.X) != co {
						continue
					}
					hasOpen = true
				}
				if fc.G.Dominates([]int{cs.V}, pv) && cs.SuccessGuards(pv) {
					if isOpen {
						okOpen = true
					} else {
						okParse = true
					}
				} else if bad == "" || !isOpen {
					bad = cs.Fn.Name() + " at " + cs.Pos()
				}
			}
			if okParse && (okOpen || !hasOpen) {
				bad = ""
			} else if bad == "" {
				bad = "a header parse"
			}
			key := pubExpr[i].Pos()
			pr := pubAt[key]
			if pr == nil {
				pr = &pubRes{owner: ownerOf(key), pos: p.posStr(fc.G.V[pv].Node.Pos())}
				pubAt[key] = pr
				pubOrder = append(pubOrder, key)
			}
			if bad != "" {
				pr.bad = bad + " (in the context of " + fc.Name + ")"
			}
			if len(validations) > 0 {
				pr.anyValidation = true
			}
		}
	})
	for _, key := range pubOrder {
		pr := pubAt[key]
		r.Check(pr.bad == "" && pr.anyValidation, rule, fmt.Sprintf("%s:read-cipher-published-after-validation", pr.owner), pr.pos, "the read cipher is stored only behind the success of every header open / header parse of the function (helpers expanded)",
			"the connection's read cipher is stored before "+pr.bad+" has succeeded: when that check refuses the header (a response of another session under the same key, a stale timestamp) the error is returned but the connection already counts as initialised, and a further Read opens and delivers the refused stream's chunks")
	}
	nPub = len(pubOrder)
	r.Check(nPub >= 2, rule, "ss2022:read-cipher-publications-found", "", "client and server publications of the read cipher found", fmt.Sprintf("only %d stores of a read cipher found", nPub))

	r.Floor(rule, 9)
}

func c02R3(p *Prog, r *Report) {
	const rule = "C02-R3"
	r.Rule(rule, "fallback sees untouched bytes: in HandleStream, until the fallback window closes, nothing writes into the region that received the client's bytes — every decryption targets the reserved tail of the buffer, never the received bytes in place, and the buffer is not refilled")
	hs := p.Func("ss2022", "StreamServer", "HandleStream")
	info := hs.Info()
	// window close = assignments `n = 0` where n is the variable the deferred closure tests for fallback
	nObj, closeVs := fallbackWindow(p, hs)
	if nObj == nil || len(closeVs) == 0 {
		r.Fail(rule, "ss2022.(*StreamServer).HandleStream:window-close", p.posStr(hs.Body.Pos()), "no statement closes the fallback window (n = 0 after authentication): see C02-R4")
		return
	}
	// vertices before window close: reachable from entry without passing a close vertex
	isClose := map[int]bool{}
	for _, v := range closeVs {
		isClose[v] = true
	}
	before := hs.G.Reach([]int{hs.G.Entry}, func(v *Vertex) bool { return isClose[v.ID] }, nil)
	// the receive buffer: readBuf := b[:reservedStart]; reserved := b[reservedStart:]
	var firstRead *CallSite
	for _, cs := range hs.AllCalls() {
		if len(cs.Call.Args) == 2 && isTransport(hs, cs.Call.Args[0]) && before[cs.V] {
			if firstRead == nil {
				c := cs
				firstRead = &c
			} else {
				r.Fail(rule, "ss2022.(*StreamServer).HandleStream:second-read-before-auth", cs.Pos(), "the transport is read again before the request is authenticated: the fallback would miss or duplicate bytes")
			}
		}
	}
	if firstRead == nil {
		r.Fail(rule, "ss2022.(*StreamServer).HandleStream:first-read", p.posStr(hs.Body.Pos()), "no first read found")
		return
	}
	rbObj := objOf(info, firstRead.Call.Args[1])
	rbRHS, _, _, ok := hs.SoleDefRHS(rbObj)
	var baseObj types.Object
	var splitExpr ast.Expr
	if ok {
		if sl, isSl := ast.Unparen(rbRHS).(*ast.SliceExpr); isSl && sl.Low == nil && sl.High != nil {
			baseObj = objOf(info, sl.X)
			splitExpr = sl.High
		}
	}
	if baseObj == nil {
		r.Fail(rule, "ss2022.(*StreamServer).HandleStream:receive-buffer", firstRead.Pos(), "undecided: the receive buffer is not base[:split]")
		return
	}
	isReservedDst := func(e ast.Expr) bool {
		// expression resolves to base[split:]
		er := hs.Resolve(e)
		sl, ok := er.(*ast.SliceExpr)
		return ok && objOf(info, sl.X) == baseObj && sl.High == nil && sl.Low != nil && exprStr(sl.Low) == exprStr(splitExpr)
	}
	derivedFromBase := func(e ast.Expr) bool {
		er := hs.Resolve(e)
		found := false
		ast.Inspect(er, func(n ast.Node) bool {
			if id, ok := n.(*ast.Ident); ok && (info.Uses[id] == baseObj || info.Uses[id] == rbObj) {
				found = true
			}
			return true
		})
		return found
	}
	n := 0
	for _, cs := range hs.AllCalls() {
		if !before[cs.V] || cs.V == firstRead.V {
			continue
		}
		name := ""
		if cs.Fn != nil {
			name = cs.Fn.Name()
		} else if id, ok := ast.Unparen(cs.Call.Fun).(*ast.Ident); ok {
			name = id.Name
		}
		var dst ast.Expr
		switch {
		case isDecryptCall(cs.Fn) && name == "DecryptInPlace":
			dst = cs.Call.Args[0]
		case isDecryptCall(cs.Fn) && (name == "DecryptTo" || name == "DecryptAppend"):
			dst = cs.Call.Args[0]
		case name == "Decrypt" && len(cs.Call.Args) == 2: // cipher.Block
			dst = cs.Call.Args[0]
		case name == "copy" && len(cs.Call.Args) == 2:
			dst = cs.Call.Args[0]
		case name == "XORBytes" && len(cs.Call.Args) == 3:
			dst = cs.Call.Args[0]
		default:
			continue
		}
		if !derivedFromBase(dst) {
			continue
		}
		n++
		r.Check(isReservedDst(dst), rule, fmt.Sprintf("ss2022.(*StreamServer).HandleStream:pre-auth-write:%s", name), cs.Pos(),
			"destination is the reserved tail base[split:], outside the received bytes",
			"before the request is authenticated "+name+" writes into the received bytes ("+exprStr(dst)+"): when authentication then fails, the fallback server receives altered bytes instead of what the client sent")
	}
	// the buffer variable itself is not re-pointed / refilled before close
	for _, d := range hs.Defs(baseObj) {
		if before[d] {
			// the initial definitions happen before the first read
			if hs.G.ReachAfter(firstRead.V, nil, nil)[d] && !hs.G.Dominates(closeVs, d) {
				r.Fail(rule, "ss2022.(*StreamServer).HandleStream:buffer-reused-before-close", p.posStr(hs.G.V[d].Node.Pos()), "the handshake buffer is reassigned after the first read but before the fallback window closes")
			}
		}
	}
	// after close: reuse is allowed; but any reuse (ReadFull into base, in-place decrypt) must be dominated by the close
	for _, cs := range hs.AllCalls() {
		if before[cs.V] {
			continue
		}
		if isDecryptCall(cs.Fn) || (cs.Fn != nil && funcIs(cs.Fn, "io", "", "ReadFull")) {
			n++
			r.Check(hs.G.Dominates(closeVs, cs.V), rule, "ss2022.(*StreamServer).HandleStream:reuse-after-close:"+cs.Fn.Name(), cs.Pos(), "buffer reuse happens only after the fallback window closed", "the handshake buffer is overwritten on a path where the fallback window is still open")
		}
	}
	r.Count("pre_auth_writes_checked", n)
	r.Floor(rule, 4)
}

// fallbackWindow finds the variable n tested (n > 0) by HandleStream's deferred fallback closure
// and the vertices in the body that assign it the constant 0.
func fallbackWindow(p *Prog, hs *FuncCtx) (types.Object, []int) {
	info := hs.Info()
	var nObj types.Object
	for _, lit := range hs.Lits() {
		if !hs.IsDeferredLit(lit) {
			continue
		}
		lc := p.LitCtx(hs, lit)
		for _, v := range lc.G.V {
			x, y, op, ok := condParts(v)
			if !ok || y == nil || op != token.GTR {
				continue
			}
			if k, isC := constInt(info, y); isC && k == 0 {
				if o := objOf(info, x); o != nil {
					nObj = o
				}
			}
		}
	}
	if nObj == nil {
		return nil, nil
	}
	var out []int
	for _, d := range hs.Defs(nObj) {
		if as, ok := hs.G.V[d].Node.(*ast.AssignStmt); ok && len(as.Rhs) == 1 && len(as.Lhs) == 1 {
			if k, isC := constInt(info, as.Rhs[0]); isC && k == 0 {
				out = append(out, d)
			}
		}
	}
	return nObj, out
}

func c02R4(p *Prog, r *Report) {
	const rule = "C02-R4"
	r.Rule(rule, "the fallback window closes exactly at authentication: the statement that disables fallback is reached only after the AEAD open, the fixed-header parse and SaltPool.Add all succeeded, and every path from the successful Add to the function's exit passes it; the deferred handler falls back only when an error occurred, bytes were received and a fallback address is configured, hands over readBuf[:n] as received, and never replaces a successful request")
	hs := p.Func("ss2022", "StreamServer", "HandleStream")
	info := hs.Info()
	nObj, closeVs := fallbackWindow(p, hs)
	r.Check(nObj != nil, rule, "ss2022.(*StreamServer).HandleStream:fallback-guard-variable", p.posStr(hs.Body.Pos()), "the deferred handler tests a received-byte count > 0", "the deferred handler does not condition fallback on a received-byte count")
	if nObj == nil {
		return
	}
	var add *CallSite
	for _, cs := range hs.AllCalls() {
		if cs.Fn != nil && cs.Fn.Name() == "Add" && namedTypeName(recvTypeOf(cs.Fn)) == "SaltPool" {
			c := cs
			add = &c
		}
	}
	if add == nil {
		r.Fail(rule, "ss2022.(*StreamServer).HandleStream:Add", "", "no SaltPool.Add")
		return
	}
	trueEdges := add.ResultEdges(0, WantTrue)
	r.Check(len(closeVs) >= 1, rule, "ss2022.(*StreamServer).HandleStream:closes-window", add.Pos(), "n = 0 exists", "nothing closes the fallback window: a failure after authentication (variable-length header read/open/parse) still triggers fallback, which receives a buffer that has since been reused, decrypted in place and zeroed — and the server produces a request from an altered handshake")
	for i, cv := range closeVs {
		r.Check(hs.GuardedBy(add.V, trueEdges, cv), rule, fmt.Sprintf("ss2022.(*StreamServer).HandleStream:close#%d-only-after-Add", i), p.posStr(hs.G.V[cv].Node.Pos()), "reached only on the Add == true edge (which C03-R2 places after open + parse)", "the fallback window can be closed before the request is authenticated: an unauthenticated client no longer reaches the fallback")
	}
	// every path from Add-true to exit passes a close
	isClose := map[int]bool{}
	for _, v := range closeVs {
		isClose[v] = true
	}
	leak := false
	for _, e := range trueEdges {
		if hs.G.Reach([]int{e.To}, func(v *Vertex) bool { return isClose[v.ID] }, nil)[hs.G.Exit] {
			leak = true
		}
	}
	r.Check(!leak && len(trueEdges) > 0, rule, "ss2022.(*StreamServer).HandleStream:every-authenticated-path-closes", add.Pos(), "every path from Add == true to the exit passes n = 0", "a path from the authenticated state to the exit skips n = 0")
	// n's other definitions: only the first read's count
	for _, d := range hs.Defs(nObj) {
		if isClose[d] {
			continue
		}
		okDef := false
		if as, ok := hs.G.V[d].Node.(*ast.AssignStmt); ok && len(as.Rhs) == 1 {
			if c, ok := ast.Unparen(as.Rhs[0]).(*ast.CallExpr); ok && len(c.Args) == 2 && isTransport(hs, c.Args[0]) && objOf(info, as.Lhs[0]) == nObj {
				okDef = true
			}
		}
		if _, isSpec := hs.G.V[d].Node.(*ast.ValueSpec); isSpec {
			okDef = true
		}
		r.Check(okDef, rule, "ss2022.(*StreamServer).HandleStream:n-def:"+exprStr(hs.G.V[d].Node), p.posStr(hs.G.V[d].Node.Pos()), "n is the count of the first read", "n is assigned from something other than the first read's count")
		// once closed, the window stays closed: no statement that gives n a value is reachable
		// from a close
		reopened := false
		for _, cv := range closeVs {
			if hs.G.ReachAfter(cv, nil, nil)[d] {
				reopened = true
			}
		}
		r.Check(!reopened, rule, "ss2022.(*StreamServer).HandleStream:window-stays-closed:"+exprStr(hs.G.V[d].Node), p.posStr(hs.G.V[d].Node.Pos()), "not reachable after n = 0", "after the fallback window was closed (n = 0 past authentication) n is given a value again ("+exprStr(hs.G.V[d].Node)+"): a later failure — a tampered or truncated variable-length header — triggers the fallback with a buffer that has been reused, and the handshake is answered as if it were a foreign protocol")
	}
	// deferred handler
	for _, lit := range hs.Lits() {
		if !hs.IsDeferredLit(lit) {
			continue
		}
		lc := p.LitCtx(hs, lit)
		errObj := hs.ResultObj(1)
		reqObj := hs.ResultObj(0)
		// every assignment to req / err inside the handler is dominated by err != nil, n > 0 and IsValid()
		var errNonNil, nPos, valid []Edge
		errNonNil = lc.TestEdges(func(e ast.Expr) bool { return objOf(info, e) == errObj }, WantNonNil)
		nPos = append(lc.TestEdgesCmp(nObj, token.GTR, 0), lc.TestEdgesCmp(nObj, token.GEQ, 1)...)
		for _, v := range lc.G.V {
			x, y, _, ok := condParts(v)
			if !ok {
				continue
			}
			if y == nil {
				if c, ok := ast.Unparen(x).(*ast.CallExpr); ok {
					if fn := Callee(info, c); fn != nil && fn.Name() == "IsValid" {
						if sel, ok := ast.Unparen(c.Fun).(*ast.SelectorExpr); ok {
							if fs, ok := ast.Unparen(sel.X).(*ast.SelectorExpr); ok && fs.Sel.Name == "unsafeFallbackAddr" {
								for _, e := range v.Succs {
									if e.Label == LTrue {
										valid = append(valid, e)
									}
								}
							}
						}
					}
				}
			}
		}
		nAssign := 0
		vals := map[string]ast.Expr{} // request field -> value given by the handler (literal or field by field)
		var reqPos token.Pos
		for _, v := range lc.G.V {
			as, ok := v.Node.(*ast.AssignStmt)
			if !ok {
				continue
			}
			for i, l := range as.Lhs {
				lo := objOf(info, l)
				fieldName := ""
				if sel, isSel := ast.Unparen(l).(*ast.SelectorExpr); isSel && objOf(info, sel.X) == reqObj && reqObj != nil {
					lo = reqObj
					fieldName = sel.Sel.Name
				}
				if lo != reqObj && lo != errObj {
					continue
				}
				nAssign++
				g := lc.G.EdgeDominates(errNonNil, v.ID) && lc.G.EdgeDominates(nPos, v.ID) && lc.G.EdgeDominates(valid, v.ID)
				r.Check(g, rule, "ss2022.(*StreamServer).HandleStream$defer:assigns-"+lo.Name(), p.posStr(as.Pos()), "only under err != nil && n > 0 && fallback address valid", "the deferred handler rewrites the result outside err != nil && n > 0 && unsafeFallbackAddr.IsValid(): a successful request is replaced, or fallback happens with nothing received / configured")
				if lo == reqObj && len(as.Rhs) == len(as.Lhs) {
					if reqPos == token.NoPos {
						reqPos = as.Pos()
					}
					if fieldName != "" {
						vals[fieldName] = as.Rhs[i]
						continue
					}
					if cl, ok := ast.Unparen(as.Rhs[i]).(*ast.CompositeLit); ok {
						for _, el := range cl.Elts {
							if kv, ok := el.(*ast.KeyValueExpr); ok {
								if k, isId := kv.Key.(*ast.Ident); isId {
									vals[k.Name] = kv.Value
								}
							}
						}
					}
				}
			}
		}
		if reqPos != token.NoPos {
			// Payload: readBuf[:n], Addr: s.unsafeFallbackAddr
			payloadOK, addrOK := false, false
			if pv, ok := vals["Payload"]; ok {
				if sl, ok := ast.Unparen(lc.Resolve(pv)).(*ast.SliceExpr); ok && sl.Low == nil && objOf(info, sl.High) == nObj {
					// base is the first read's buffer
					for _, cs := range hs.AllCalls() {
						if len(cs.Call.Args) == 2 && isTransport(hs, cs.Call.Args[0]) && objOf(info, cs.Call.Args[1]) == objOf(info, sl.X) && cs.ResultVar(0) == nObj {
							payloadOK = true
						}
					}
				}
			}
			if av, ok := vals["Addr"]; ok {
				if fs, ok := ast.Unparen(lc.Resolve(av)).(*ast.SelectorExpr); ok && fs.Sel.Name == "unsafeFallbackAddr" {
					addrOK = true
				}
			}
			r.Check(payloadOK && addrOK, rule, "ss2022.(*StreamServer).HandleStream$defer:fallback-request", p.posStr(reqPos), "the fallback request carries readBuf[:n] of the first read and the configured fallback address", "the fallback request does not carry exactly the received bytes / the configured address")
		}
		r.Check(nAssign >= 2, rule, "ss2022.(*StreamServer).HandleStream$defer:has-fallback", p.posStr(lit.Pos()), "fallback handler present", "no fallback handler found")
	}
	r.Floor(rule, 8)
}

// c01R2as re-registers the nonce lock-step rule under another rule id (shared between C01 and C02).
func c01R2as(p *Prog, r *Report, rule string) {
	sub := NewReport("tmp", "quick")
	c01R2(p, sub)
	r.Rule(rule, sub.RuleDocs["C01-R2"])
	for _, o := range sub.Obs {
		o.Rule = rule
		r.Obs = append(r.Obs, o)
	}
}

// constIntOfName: the value of a package-level integer constant.
func constIntOfName(p *Prog, rel, name string) (int64, bool) {
	c, ok := p.Pkg(rel).Types.Scope().Lookup(name).(*types.Const)
	if !ok {
		return 0, false
	}
	k, exact := constant.Int64Val(constant.ToInt(c.Val()))
	return k, exact
}
