package main

// lockset.go: must-hold analysis for one sync.Mutex / sync.RWMutex access path inside one function.

import (
	"fmt"
	"go/ast"
	"go/types"
)

type LockState int

const (
	LUnknown  LockState = iota // conflicting or not yet computed
	LUnlocked                  // definitely not held by this function
	LRead                      // read lock definitely held
	LWrite                     // write lock definitely held
	LTryRead                   // internal: result of TryRLock pending its condition
)

func (s LockState) String() string {
	return [...]string{"unknown", "unlocked", "rlocked", "locked", "try"}[s]
}

func (s LockState) Held() bool { return s == LRead || s == LWrite }

type lockOp int

const (
	opNone lockOp = iota
	opLock
	opUnlock
	opRLock
	opRUnlock
	opTryLock
	opTryRLock
)

// mutexOp classifies a call as an operation on a sync mutex and returns the mutex expression.
func mutexOp(info *types.Info, call *ast.CallExpr) (lockOp, ast.Expr) {
	fn := Callee(info, call)
	if fn == nil || fn.Pkg() == nil || fn.Pkg().Path() != "sync" {
		return opNone, nil
	}
	sig := fn.Type().(*types.Signature)
	if sig.Recv() == nil {
		return opNone, nil
	}
	rn := namedTypeName(sig.Recv().Type())
	if rn != "Mutex" && rn != "RWMutex" {
		return opNone, nil
	}
	sel, ok := ast.Unparen(call.Fun).(*ast.SelectorExpr)
	if !ok {
		return opNone, nil
	}
	switch fn.Name() {
	case "Lock":
		return opLock, sel.X
	case "Unlock":
		return opUnlock, sel.X
	case "RLock":
		return opRLock, sel.X
	case "RUnlock":
		return opRUnlock, sel.X
	case "TryLock":
		return opTryLock, sel.X
	case "TryRLock":
		return opTryRLock, sel.X
	}
	return opNone, nil
}

// LockStates computes, for the mutex whose access path has key muKey (see pathKey), the lock
// state on entry to every vertex of fc. entry is the state assumed at function entry.
// Deferred unlocks keep the lock held until exit. TryLock/TryRLock are handled when the call
// is itself an atomic condition (held on the true edge).
func (fc *FuncCtx) LockStates(muKey string, entry LockState) []LockState {
	g := fc.G
	info := fc.Info()
	in := make([]LockState, len(g.V))
	have := make([]bool, len(g.V))
	in[g.Entry], have[g.Entry] = entry, true
	work := []int{g.Entry}
	transfer := func(v *Vertex, s LockState) (out LockState, tryKind lockOp) {
		out = s
		if v.Kind != VStmt && v.Kind != VCond && v.Kind != VSwitchCase {
			return
		}
		if _, isDefer := v.Node.(*ast.DeferStmt); isDefer {
			return
		}
		if _, isGo := v.Node.(*ast.GoStmt); isGo {
			return
		}
		inspectNoLit(v.Node, func(n ast.Node) bool {
			c, ok := n.(*ast.CallExpr)
			if !ok {
				return true
			}
			op, mu := mutexOp(info, c)
			if op == opNone || pathKey(info, mu) != muKey {
				return true
			}
			switch op {
			case opLock:
				out = LWrite
			case opRLock:
				out = LRead
			case opUnlock, opRUnlock:
				out = LUnlocked
			case opTryLock, opTryRLock:
				tryKind = op
			}
			return true
		})
		return
	}
	for len(work) > 0 {
		id := work[len(work)-1]
		work = work[:len(work)-1]
		v := g.V[id]
		out, try := transfer(v, in[id])
		for _, e := range v.Succs {
			o := out
			if try != opNone && v.Kind == VCond {
				if e.Label == LTrue {
					if try == opTryLock {
						o = LWrite
					} else {
						o = LRead
					}
				}
			} else if try != opNone {
				o = LUnknown
			}
			if !have[e.To] {
				have[e.To], in[e.To] = true, o
				work = append(work, e.To)
			} else if in[e.To] != o && in[e.To] != LUnknown {
				in[e.To] = LUnknown
				work = append(work, e.To)
			}
		}
	}
	return in
}

// FieldAccess is a read or write of a struct field through some base expression.
type FieldAccess struct {
	V     int
	Sel   *ast.SelectorExpr
	Field *types.Var
	Write bool // assigned, inc/dec'd, address taken, passed to delete/clear/append-assign, or element/field of it stored
}

// FieldAccesses lists accesses in fc's own body to fields of the named struct type
// (pkgPath.typeName) whose name is in fields (nil = all).
func (fc *FuncCtx) FieldAccesses(pkgPath, typeName string, fields map[string]bool) []FieldAccess {
	info := fc.Info()
	var out []FieldAccess
	for _, v := range fc.G.V {
		for _, n := range vertexNodes(v) {
			writes := writeTargets(info, n)
			inspectNoLit(n, func(x ast.Node) bool {
				sel, ok := x.(*ast.SelectorExpr)
				if !ok {
					return true
				}
				s, isSel := info.Selections[sel]
				if !isSel || s.Kind() != types.FieldVal {
					return true
				}
				fv := s.Obj().(*types.Var)
				if !fieldOf(fv, s, pkgPath, typeName) {
					return true
				}
				if fields != nil && !fields[fv.Name()] {
					return true
				}
				out = append(out, FieldAccess{V: v.ID, Sel: sel, Field: fv, Write: writes[sel]})
				return true
			})
		}
	}
	return out
}

// fieldOf reports whether the selection s selects a field declared in struct type pkgPath.typeName.
func fieldOf(fv *types.Var, s *types.Selection, pkgPath, typeName string) bool {
	recv := s.Recv()
	if namedTypeName(recv) == typeName && namedTypePkg(recv) == pkgPath {
		// direct field or promoted; accept only direct fields of that struct
		if len(s.Index()) == 1 {
			return true
		}
	}
	return false
}

// writeTargets returns the selector expressions in n that are written: left-hand sides
// (including the base of index/field stores `x.f[k] = v`, `x.f.g = v`), operands of ++/--,
// &x.f, and first arguments of delete/clear.
func writeTargets(info *types.Info, n ast.Node) map[*ast.SelectorExpr]bool {
	w := map[*ast.SelectorExpr]bool{}
	var markBase func(e ast.Expr)
	markBase = func(e ast.Expr) {
		switch x := ast.Unparen(e).(type) {
		case *ast.SelectorExpr:
			w[x] = true
			// a store into x.f.g also modifies x.f when f is a struct value (not pointer)
			if tv, ok := info.Types[x.X]; ok {
				if _, isPtr := tv.Type.Underlying().(*types.Pointer); !isPtr {
					if _, isSel := ast.Unparen(x.X).(*ast.SelectorExpr); isSel {
						markBase(x.X)
					}
				}
			}
		case *ast.IndexExpr:
			// store into element of map/slice/array held in a field
			markBase(x.X)
		case *ast.StarExpr:
			// *p = v : not a write to the field holding p
		}
	}
	inspectNoLit(n, func(x ast.Node) bool {
		switch s := x.(type) {
		case *ast.AssignStmt:
			for _, l := range s.Lhs {
				markBase(l)
			}
		case *ast.IncDecStmt:
			markBase(s.X)
		case *ast.UnaryExpr:
			if s.Op.String() == "&" {
				markBase(s.X)
			}
		case *ast.CallExpr:
			if id, ok := ast.Unparen(s.Fun).(*ast.Ident); ok {
				if b, ok := info.Uses[id].(*types.Builtin); ok && (b.Name() == "delete" || b.Name() == "clear") && len(s.Args) > 0 {
					markBase(s.Args[0])
				}
			}
		}
		return true
	})
	return w
}

// lockBalance decides, for every function (and literal) of a package and every mutex it operates
// on: a Lock/RLock is reached only with the mutex not held by this function, an Unlock/RUnlock
// only with the matching lock held, and the function ends with the mutex released (or releases
// it in a deferred call). States are per access path; LUnknown (held on some paths only) fails.
// entryHeld names functions that are entered with the lock held and must return with it held.
func lockBalance(p *Prog, r *Report, rule, rel string, entryHeld map[string]bool) int {
	pkg := p.Pkg(rel)
	n := 0
	p.AllFuncs(pkg, func(top *FuncCtx) {
		for _, fc := range allCtxs(p, top) {
			info := fc.Info()
			type opSite struct {
				v   int
				op  lockOp
				pos string
			}
			byKey := map[string][]opSite{}
			names := map[string]string{}
			deferred := map[string]bool{}
			deferV := map[string]map[int]bool{}
			for _, v := range fc.G.V {
				if v.Node == nil {
					continue
				}
				_, isDefer := v.Node.(*ast.DeferStmt)
				if _, isGo := v.Node.(*ast.GoStmt); isGo {
					continue
				}
				inspectNoLit(v.Node, func(x ast.Node) bool {
					c, ok := x.(*ast.CallExpr)
					if !ok {
						return true
					}
					op, mu := mutexOp(info, c)
					if op == opNone {
						return true
					}
					k := pathKey(info, mu)
					if k == "" {
						return true
					}
					names[k] = exprStr(mu)
					if isDefer {
						if op == opUnlock || op == opRUnlock {
							deferred[k] = true
							if deferV[k] == nil {
								deferV[k] = map[int]bool{}
							}
							deferV[k][v.ID] = true
						}
						return true
					}
					byKey[k] = append(byKey[k], opSite{v.ID, op, p.posStr(c.Pos())})
					return true
				})
			}
			siteOrdinal := map[string]int{}
			for k, sites := range byKey {
				entry := LUnlocked
				if entryHeld[fc.Name] {
					entry = LWrite
				}
				states := fc.LockStates(k, entry)
				for _, s := range sites {
					n++
					st := states[s.v]
					var ok bool
					var want string
					switch s.op {
					case opLock, opRLock:
						ok, want = st == LUnlocked, "not held"
					case opUnlock:
						ok, want = st == LWrite, "write-locked"
					case opRUnlock:
						ok, want = st == LRead, "read-locked"
					default:
						continue // TryLock: decided where its result is tested
					}
					opName := [...]string{"", "Lock", "Unlock", "RLock", "RUnlock", "TryLock", "TryRLock"}[s.op]
					siteOrdinal[names[k]+opName]++
					r.Check(ok, rule, fmt.Sprintf("%s:%s.%s#%d", fc.Name, names[k], opName, siteOrdinal[names[k]+opName]), s.pos, "reached only with the mutex "+want, fmt.Sprintf("%s.%s() is reached with the mutex %s on some path (expected: %s): a path that skips an Unlock ends in a self-deadlock at the next Lock, one that unlocks twice panics", names[k], opName, st, want))
				}
				if deferred[k] {
					// released by a deferred call: the defer (or an explicit unlock) lies on
					// every path from each Lock to the exit
					release := map[int]bool{}
					for v := range deferV[k] {
						release[v] = true
					}
					for _, s2 := range sites {
						if s2.op == opUnlock || s2.op == opRUnlock {
							release[s2.v] = true
						}
					}
					for _, s2 := range sites {
						if s2.op != opLock && s2.op != opRLock {
							continue
						}
						n++
						leak := fc.G.ReachAfter(s2.v, func(v *Vertex) bool { return release[v.ID] }, nil)[fc.G.Exit]
						r.Check(!leak, rule, fmt.Sprintf("%s:%s:deferred-release-covers-every-exit", fc.Name, names[k]), s2.pos, "every path from the Lock to the exit registers the deferred Unlock (or unlocks)", "a path from "+names[k]+".Lock() reaches the exit without the deferred Unlock having been registered: the mutex stays locked")
					}
				}
				if !deferred[k] {
					n++
					want := LUnlocked
					if entryHeld[fc.Name] {
						want = LWrite
					}
					st := states[fc.G.Exit]
					reachable := fc.G.Reach([]int{fc.G.Entry}, nil, nil)[fc.G.Exit]
					r.Check(!reachable || st == want, rule, fmt.Sprintf("%s:%s:released-at-exit", fc.Name, names[k]), p.posStr(fc.Body.Pos()), "the function ends with the mutex "+want.String(), fmt.Sprintf("the function can end with %s %s (expected %s): a lock leaks out of (or is released twice by) this function", names[k], st, want))
				}
			}
		}
	})
	return n
}

