package main

// lockset.go: must-hold analysis for one sync.Mutex / sync.RWMutex access path inside one function.

import (
	"go/ast"
	"go/types"
)

type LockState int

const (
	LUnknown  LockState = iota // conflicting or not yet computed
	LUnlocked                  // definitely not held by this function
	LRead                      // read lock definitely held
	LWrite                     // write lock definitely held
	LTryRead                   // internal: result of TryRLock pending its condition
)

func (s LockState) String() string {
	return [...]string{"unknown", "unlocked", "rlocked", "locked", "try"}[s]
}

func (s LockState) Held() bool { return s == LRead || s == LWrite }

type lockOp int

const (
	opNone lockOp = iota
	opLock
	opUnlock
	opRLock
	opRUnlock
	opTryLock
	opTryRLock
)

// mutexOp classifies a call as an operation on a sync mutex and returns the mutex expression.
func mutexOp(info *types.Info, call *ast.CallExpr) (lockOp, ast.Expr) {
	fn := Callee(info, call)
	if fn == nil || fn.Pkg() == nil || fn.Pkg().Path() != "sync" {
		return opNone, nil
	}
	sig := fn.Type().(*types.Signature)
	if sig.Recv() == nil {
		return opNone, nil
	}
	rn := namedTypeName(sig.Recv().Type())
	if rn != "Mutex" && rn != "RWMutex" {
		return opNone, nil
	}
	sel, ok := ast.Unparen(call.Fun).(*ast.SelectorExpr)
	if !ok {
		return opNone, nil
	}
	switch fn.Name() {
	case "Lock":
		return opLock, sel.X
	case "Unlock":
		return opUnlock, sel.X
	case "RLock":
		return opRLock, sel.X
	case "RUnlock":
		return opRUnlock, sel.X
	case "TryLock":
		return opTryLock, sel.X
	case "TryRLock":
		return opTryRLock, sel.X
	}
	return opNone, nil
}

// LockStates computes, for the mutex whose access path has key muKey (see pathKey), the lock
// state on entry to every vertex of fc. entry is the state assumed at function entry.
// Deferred unlocks keep the lock held until exit. TryLock/TryRLock are handled when the call
// is itself an atomic condition (held on the true edge).
func (fc *FuncCtx) LockStates(muKey string, entry LockState) []LockState {
	g := fc.G
	info := fc.Info()
	in := make([]LockState, len(g.V))
	have := make([]bool, len(g.V))
	in[g.Entry], have[g.Entry] = entry, true
	work := []int{g.Entry}
	transfer := func(v *Vertex, s LockState) (out LockState, tryKind lockOp) {
		out = s
		if v.Kind != VStmt && v.Kind != VCond && v.Kind != VSwitchCase {
			return
		}
		if _, isDefer := v.Node.(*ast.DeferStmt); isDefer {
			return
		}
		if _, isGo := v.Node.(*ast.GoStmt); isGo {
			return
		}
		inspectNoLit(v.Node, func(n ast.Node) bool {
			c, ok := n.(*ast.CallExpr)
			if !ok {
				return true
			}
			op, mu := mutexOp(info, c)
			if op == opNone || pathKey(info, mu) != muKey {
				return true
			}
			switch op {
			case opLock:
				out = LWrite
			case opRLock:
				out = LRead
			case opUnlock, opRUnlock:
				out = LUnlocked
			case opTryLock, opTryRLock:
				tryKind = op
			}
			return true
		})
		return
	}
	for len(work) > 0 {
		id := work[len(work)-1]
		work = work[:len(work)-1]
		v := g.V[id]
		out, try := transfer(v, in[id])
		for _, e := range v.Succs {
			o := out
			if try != opNone && v.Kind == VCond {
				if e.Label == LTrue {
					if try == opTryLock {
						o = LWrite
					} else {
						o = LRead
					}
				}
			} else if try != opNone {
				o = LUnknown
			}
			if !have[e.To] {
				have[e.To], in[e.To] = true, o
				work = append(work, e.To)
			} else if in[e.To] != o && in[e.To] != LUnknown {
				in[e.To] = LUnknown
				work = append(work, e.To)
			}
		}
	}
	return in
}

// FieldAccess is a read or write of a struct field through some base expression.
type FieldAccess struct {
	V     int
	Sel   *ast.SelectorExpr
	Field *types.Var
	Write bool // assigned, inc/dec'd, address taken, passed to delete/clear/append-assign, or element/field of it stored
}

// FieldAccesses lists accesses in fc's own body to fields of the named struct type
// (pkgPath.typeName) whose name is in fields (nil = all).
func (fc *FuncCtx) FieldAccesses(pkgPath, typeName string, fields map[string]bool) []FieldAccess {
	info := fc.Info()
	var out []FieldAccess
	for _, v := range fc.G.V {
		for _, n := range vertexNodes(v) {
			writes := writeTargets(info, n)
			inspectNoLit(n, func(x ast.Node) bool {
				sel, ok := x.(*ast.SelectorExpr)
				if !ok {
					return true
				}
				s, isSel := info.Selections[sel]
				if !isSel || s.Kind() != types.FieldVal {
					return true
				}
				fv := s.Obj().(*types.Var)
				if !fieldOf(fv, s, pkgPath, typeName) {
					return true
				}
				if fields != nil && !fields[fv.Name()] {
					return true
				}
				out = append(out, FieldAccess{V: v.ID, Sel: sel, Field: fv, Write: writes[sel]})
				return true
			})
		}
	}
	return out
}

// fieldOf reports whether the selection s selects a field declared in struct type pkgPath.typeName.
func fieldOf(fv *types.Var, s *types.Selection, pkgPath, typeName string) bool {
	recv := s.Recv()
	if namedTypeName(recv) == typeName && namedTypePkg(recv) == pkgPath {
		// direct field or promoted; accept only direct fields of that struct
		if len(s.Index()) == 1 {
			return true
		}
	}
	return false
}

// writeTargets returns the selector expressions in n that are written: left-hand sides
// (including the base of index/field stores `x.f[k] = v`, `x.f.g = v`), operands of ++/--,
// &x.f, and first arguments of delete/clear.
func writeTargets(info *types.Info, n ast.Node) map[*ast.SelectorExpr]bool {
	w := map[*ast.SelectorExpr]bool{}
	var markBase func(e ast.Expr)
	markBase = func(e ast.Expr) {
		switch x := ast.Unparen(e).(type) {
		case *ast.SelectorExpr:
			w[x] = true
			// a store into x.f.g also modifies x.f when f is a struct value (not pointer)
			if tv, ok := info.Types[x.X]; ok {
				if _, isPtr := tv.Type.Underlying().(*types.Pointer); !isPtr {
					if _, isSel := ast.Unparen(x.X).(*ast.SelectorExpr); isSel {
						markBase(x.X)
					}
				}
			}
		case *ast.IndexExpr:
			// store into element of map/slice/array held in a field
			markBase(x.X)
		case *ast.StarExpr:
			// *p = v : not a write to the field holding p
		}
	}
	inspectNoLit(n, func(x ast.Node) bool {
		switch s := x.(type) {
		case *ast.AssignStmt:
			for _, l := range s.Lhs {
				markBase(l)
			}
		case *ast.IncDecStmt:
			markBase(s.X)
		case *ast.UnaryExpr:
			if s.Op.String() == "&" {
				markBase(s.X)
			}
		case *ast.CallExpr:
			if id, ok := ast.Unparen(s.Fun).(*ast.Ident); ok {
				if b, ok := info.Uses[id].(*types.Builtin); ok && (b.Name() == "delete" || b.Name() == "clear") && len(s.Args) > 0 {
					markBase(s.Args[0])
				}
			}
		}
		return true
	})
	return w
}
