package main

// bounds_lf.go: linear forms over named atoms and a Fourier–Motzkin refutation procedure.
// An inequality is a form `sum(c_i * atom_i) + k >= 0`. To prove a goal G >= 0 from facts
// F_1 >= 0 … F_n >= 0 the prover adds -G - 1 >= 0 (the integer negation) and shows the system
// has no rational solution; rational infeasibility implies integer infeasibility, so a "proved"
// verdict is sound; "not proved" may be incompleteness.

import (
	"fmt"
	"math/big"
	"sort"
	"strings"
)

// LF is a linear form; the constant term is stored under the empty atom name.
type LF map[string]*big.Int

func lfConst(k int64) LF {
	if k == 0 {
		return LF{}
	}
	return LF{"": big.NewInt(k)}
}

func lfAtom(a string) LF { return LF{a: big.NewInt(1)} }

func (a LF) clone() LF {
	out := make(LF, len(a))
	for k, v := range a {
		out[k] = new(big.Int).Set(v)
	}
	return out
}

// plus returns a + k*b.
func (a LF) plus(b LF, k int64) LF {
	out := a.clone()
	kk := big.NewInt(k)
	for x, c := range b {
		t := new(big.Int).Mul(c, kk)
		if cur, ok := out[x]; ok {
			cur.Add(cur, t)
		} else {
			out[x] = t
		}
	}
	for x, c := range out {
		if c.Sign() == 0 {
			delete(out, x)
		}
	}
	return out
}

func (a LF) addConst(k int64) LF { return a.plus(lfConst(k), 1) }

func (a LF) scale(k int64) LF { return LF{}.plus(a, k) }

func (a LF) isConst() (int64, bool) {
	for x := range a {
		if x != "" {
			return 0, false
		}
	}
	if c, ok := a[""]; ok {
		if c.IsInt64() {
			return c.Int64(), true
		}
		return 0, false
	}
	return 0, true
}

func (a LF) atoms() []string {
	var out []string
	for x := range a {
		if x != "" {
			out = append(out, x)
		}
	}
	sort.Strings(out)
	return out
}

func (a LF) String() string {
	keys := a.atoms()
	var sb strings.Builder
	for _, k := range keys {
		c := a[k]
		switch {
		case c.Cmp(big.NewInt(1)) == 0:
			sb.WriteString(" + " + k)
		case c.Cmp(big.NewInt(-1)) == 0:
			sb.WriteString(" - " + k)
		case c.Sign() < 0:
			sb.WriteString(fmt.Sprintf(" - %s*%s", new(big.Int).Neg(c), k))
		default:
			sb.WriteString(fmt.Sprintf(" + %s*%s", c, k))
		}
	}
	if c, ok := a[""]; ok {
		if c.Sign() < 0 {
			sb.WriteString(fmt.Sprintf(" - %s", new(big.Int).Neg(c)))
		} else {
			sb.WriteString(fmt.Sprintf(" + %s", c))
		}
	}
	s := strings.TrimPrefix(strings.TrimSpace(sb.String()), "+ ")
	if s == "" {
		return "0"
	}
	return s
}

// ge(a, b): a - b >= 0
func lfGE(a, b LF) LF { return a.plus(b, -1) }

// gt(a, b): a - b - 1 >= 0
func lfGT(a, b LF) LF { return a.plus(b, -1).addConst(-1) }

// infeasible reports whether the system {f >= 0 | f in sys} has no rational solution.
func infeasible(sys []LF) bool {
	// work on copies with big.Rat? integer coefficients suffice: combine with cross-multiplication.
	cur := make([]LF, 0, len(sys))
	for _, f := range sys {
		cur = append(cur, f)
	}
	for iter := 0; iter < 64; iter++ {
		// constant contradictions
		vars := map[string]int{}
		next := cur[:0:0]
		for _, f := range cur {
			if k, isC := f.isConst(); isC {
				if k < 0 {
					return true
				}
				continue
			} else if len(f.atoms()) == 0 {
				// big constant
				if c := f[""]; c != nil && c.Sign() < 0 {
					return true
				}
				continue
			}
			next = append(next, f)
			for _, a := range f.atoms() {
				vars[a]++
			}
		}
		cur = next
		if len(cur) == 0 {
			return false
		}
		// choose the variable minimising pos*neg
		best, bestCost := "", -1
		var names []string
		for v := range vars {
			names = append(names, v)
		}
		sort.Strings(names)
		for _, v := range names {
			np, nn := 0, 0
			for _, f := range cur {
				if c, ok := f[v]; ok {
					if c.Sign() > 0 {
						np++
					} else {
						nn++
					}
				}
			}
			cost := np * nn
			if best == "" || cost < bestCost {
				best, bestCost = v, cost
			}
			if cost == 0 {
				break
			}
		}
		var pos, neg, rest []LF
		for _, f := range cur {
			c, ok := f[best]
			switch {
			case !ok:
				rest = append(rest, f)
			case c.Sign() > 0:
				pos = append(pos, f)
			default:
				neg = append(neg, f)
			}
		}
		if len(pos)*len(neg) > 4000 {
			return false // give up: not proved
		}
		for _, p := range pos {
			for _, n := range neg {
				cp := p[best]
				cn := new(big.Int).Neg(n[best])
				// cn*p + cp*n eliminates best
				comb := LF{}
				for x, c := range p {
					if x == best {
						continue
					}
					comb[x] = new(big.Int).Mul(c, cn)
				}
				for x, c := range n {
					if x == best {
						continue
					}
					t := new(big.Int).Mul(c, cp)
					if curc, ok := comb[x]; ok {
						curc.Add(curc, t)
					} else {
						comb[x] = t
					}
				}
				for x, c := range comb {
					if c.Sign() == 0 {
						delete(comb, x)
					}
				}
				rest = append(rest, comb)
			}
		}
		cur = dedupLF(rest)
		if len(cur) > 3000 {
			return false
		}
	}
	return false
}

func dedupLF(in []LF) []LF {
	seen := map[string]bool{}
	var out []LF
	for _, f := range in {
		// normalise by gcd
		g := new(big.Int)
		for _, c := range f {
			g.GCD(nil, nil, g, new(big.Int).Abs(c))
		}
		if g.Sign() > 0 && g.Cmp(big.NewInt(1)) != 0 {
			nf := LF{}
			for x, c := range f {
				if x == "" {
					// floor division keeps soundness for integer solutions: c/g rounded down
					q := new(big.Int)
					m := new(big.Int)
					q.DivMod(c, g, m)
					nf[x] = q
					continue
				}
				nf[x] = new(big.Int).Quo(c, g)
			}
			f = nf
		}
		k := f.String()
		if !seen[k] {
			seen[k] = true
			out = append(out, f)
		}
	}
	return out
}

// proves reports whether goal >= 0 follows from facts (each >= 0). Only facts connected to the
// goal's atoms (transitively) are used.
func proves(facts []LF, goal LF) bool {
	if k, isC := goal.isConst(); isC {
		return k >= 0
	}
	// cone of influence
	rel := map[string]bool{}
	for _, a := range goal.atoms() {
		rel[a] = true
	}
	used := make([]bool, len(facts))
	for changed := true; changed; {
		changed = false
		for i, f := range facts {
			if used[i] {
				continue
			}
			hit := false
			for _, a := range f.atoms() {
				if rel[a] {
					hit = true
				}
			}
			if hit {
				used[i] = true
				changed = true
				for _, a := range f.atoms() {
					rel[a] = true
				}
			}
		}
	}
	sys := []LF{goal.scale(-1).addConst(-1)}
	for i, f := range facts {
		if used[i] {
			sys = append(sys, f)
		}
	}
	return infeasible(sys)
}
