package main

// graph.go: a statement-level control-flow graph built from the AST.
//
// Unlike golang.org/x/tools/go/cfg (whose construction this file follows; BSD-3-Clause),
// the graph built here
//   - has one vertex per simple statement / atomic condition, so that rules can reason
//     about ordering inside what go/cfg would call one basic block;
//   - decomposes short-circuit conditions (&&, ||, !, parentheses) into atomic condition
//     vertices with labelled true/false edges;
//   - turns tagged switches into synthesized "tag == case" conditions and gives select
//     and type-switch statements one labelled edge per clause;
//   - has a single normal Exit vertex (all returns and the implicit return lead there)
//     and a separate PanicExit vertex for calls that never return.
//
// Function literals are not entered: each is analysed as a function of its own.

import (
	"os"
	"fmt"
	"go/ast"
	"go/constant"
	"go/token"
	"go/types"
	"sort"
	"strings"
)

type VKind int

const (
	VEntry VKind = iota
	VExit
	VPanic
	VStmt       // simple statement (assign, expr, incdec, send, go, defer, return, value spec)
	VCond       // atomic boolean condition; edges labelled T / F
	VSwitchCase // synthesized "tag == expr" condition; Node is the case expr, Tag is the tag
	VSelect     // select statement; one edge per comm clause (label = clause index), -1 default
	VTypeSwitch // type switch; one edge per clause
	VRange      // range loop head; edge T = next iteration, F = done
	VJoin       // empty join point
)

const (
	LNone  = -100
	LTrue  = 1
	LFalse = 0
)

type Edge struct {
	From, To int
	Label    int // LTrue/LFalse for VCond/VSwitchCase/VRange; clause index for VSelect/VTypeSwitch; LNone otherwise
}

type Vertex struct {
	ID    int
	Kind  VKind
	Node  ast.Node // simple statement, atomic condition expression, or case expression evaluated at this vertex (nil for Select/TypeSwitch/Range heads: see Stmt)
	Tag   ast.Expr // VSwitchCase: the switch tag
	Stmt  ast.Stmt // owning control statement: If/For/Switch for conditions; the *ast.SelectStmt / *ast.TypeSwitchStmt / *ast.RangeStmt for those heads
	Succs []Edge
	Preds []Edge
	// Clause is set for the first vertex of a select comm clause body: the comm statement.
}

type Graph struct {
	V        []*Vertex
	Entry    int
	Exit     int
	Panic    int
	Defers   []int // vertices holding *ast.DeferStmt, in source order
	info     *types.Info
	byNode   map[ast.Node]int
	noReturn func(*ast.CallExpr) bool
	// flag-sensitive reachability (see Reach)
	flagsDone bool
	flagVars  map[types.Object]bool
	flagEff   map[int][]flagEffect
	flagTest  map[int]flagTestT
}

type gbuilder struct {
	g       *Graph
	cur     int // current vertex to attach the next one to; -1 = unreachable
	curLab  int // label for the edge from cur
	lblocks map[string]*glblock
	targets *gtargets
}

type gtargets struct {
	tail         *gtargets
	_break       int
	_continue    int
	_fallthrough int
}

type glblock struct {
	_goto     int
	_break    int
	_continue int
}

func (g *Graph) newV(kind VKind, n ast.Node) int {
	v := &Vertex{ID: len(g.V), Kind: kind, Node: n}
	g.V = append(g.V, v)
	if n != nil && kind != VJoin {
		if _, dup := g.byNode[n]; !dup {
			g.byNode[n] = v.ID
		}
	}
	return v.ID
}

func (g *Graph) addEdge(from, to, label int) {
	e := Edge{From: from, To: to, Label: label}
	g.V[from].Succs = append(g.V[from].Succs, e)
	g.V[to].Preds = append(g.V[to].Preds, e)
}

// BuildGraph builds the graph for a function body.
func BuildGraph(body *ast.BlockStmt, info *types.Info, noReturn func(*ast.CallExpr) bool) *Graph {
	g := &Graph{info: info, byNode: map[ast.Node]int{}, noReturn: noReturn}
	b := &gbuilder{g: g}
	g.Entry = g.newV(VEntry, nil)
	g.Exit = g.newV(VExit, nil)
	g.Panic = g.newV(VPanic, nil)
	b.cur, b.curLab = g.Entry, LNone
	b.stmtList(body.List)
	// implicit return
	b.jumpTo(g.Exit)
	return g
}

// emit appends vertex v after the current point and makes it current.
func (b *gbuilder) emit(v int) {
	if b.cur >= 0 {
		b.g.addEdge(b.cur, v, b.curLab)
	}
	b.cur, b.curLab = v, LNone
}

// jumpTo adds an edge from the current point to target and makes the current point unreachable.
func (b *gbuilder) jumpTo(target int) {
	if b.cur >= 0 {
		b.g.addEdge(b.cur, target, b.curLab)
	}
	b.cur = -1
}

func (b *gbuilder) join() int { return b.g.newV(VJoin, nil) }

func (b *gbuilder) add(n ast.Node) int {
	v := b.g.newV(VStmt, n)
	b.emit(v)
	return v
}

// cond emits the decomposed condition e with branch targets t and f (join vertices).
func (b *gbuilder) cond(e ast.Expr, t, f int, owner ast.Stmt) {
	switch x := e.(type) {
	case *ast.ParenExpr:
		b.cond(x.X, t, f, owner)
		return
	case *ast.UnaryExpr:
		if x.Op == token.NOT {
			b.cond(x.X, f, t, owner)
			return
		}
	case *ast.BinaryExpr:
		switch x.Op {
		case token.LAND:
			mid := b.join()
			b.cond(x.X, mid, f, owner)
			b.cur, b.curLab = mid, LNone
			b.cond(x.Y, t, f, owner)
			return
		case token.LOR:
			mid := b.join()
			b.cond(x.X, t, mid, owner)
			b.cur, b.curLab = mid, LNone
			b.cond(x.Y, t, f, owner)
			return
		}
	}
	v := b.g.newV(VCond, e)
	b.g.V[v].Stmt = owner
	b.emit(v)
	b.g.addEdge(v, t, LTrue)
	b.g.addEdge(v, f, LFalse)
	b.cur = -1
}

func (b *gbuilder) stmtList(list []ast.Stmt) {
	for _, s := range list {
		b.stmt(s)
	}
}

func (b *gbuilder) stmt(_s ast.Stmt) {
	var label *glblock
start:
	switch s := _s.(type) {
	case *ast.BadStmt, *ast.SendStmt, *ast.IncDecStmt, *ast.GoStmt, *ast.EmptyStmt, *ast.AssignStmt:
		if _, ok := s.(*ast.EmptyStmt); ok {
			return
		}
		b.add(s)

	case *ast.DeferStmt:
		v := b.add(s)
		b.g.Defers = append(b.g.Defers, v)

	case *ast.ExprStmt:
		b.add(s)
		if call, ok := s.X.(*ast.CallExpr); ok && b.g.noReturn != nil && b.g.noReturn(call) {
			b.jumpTo(b.g.Panic)
		}

	case *ast.DeclStmt:
		d := s.Decl.(*ast.GenDecl)
		if d.Tok == token.VAR {
			for _, spec := range d.Specs {
				if spec, ok := spec.(*ast.ValueSpec); ok {
					if len(spec.Values) > 0 {
						// `var a, b = x, y` is the definition `a, b := x, y`: one vertex kind for
						// both spellings (the objects and their declared types are those the
						// type checker recorded for the identifiers)
						lhs := make([]ast.Expr, len(spec.Names))
						for i, id := range spec.Names {
							lhs[i] = id
						}
						b.add(&ast.AssignStmt{Lhs: lhs, TokPos: spec.Names[0].End(), Tok: token.DEFINE, Rhs: spec.Values})
					} else {
						b.add(spec)
					}
				}
			}
		}

	case *ast.LabeledStmt:
		label = b.labeledBlock(s.Label)
		b.jumpTo(label._goto)
		b.cur, b.curLab = label._goto, LNone
		_s = s.Stmt
		goto start

	case *ast.ReturnStmt:
		b.add(s)
		b.jumpTo(b.g.Exit)

	case *ast.BranchStmt:
		b.branchStmt(s)

	case *ast.BlockStmt:
		b.stmtList(s.List)

	case *ast.IfStmt:
		if s.Init != nil {
			b.stmt(s.Init)
		}
		then := b.join()
		done := b.join()
		_else := done
		if s.Else != nil {
			_else = b.join()
		}
		b.cond(s.Cond, then, _else, s)
		b.cur, b.curLab = then, LNone
		b.stmt(s.Body)
		b.jumpTo(done)
		if s.Else != nil {
			b.cur, b.curLab = _else, LNone
			b.stmt(s.Else)
			b.jumpTo(done)
		}
		b.cur, b.curLab = done, LNone

	case *ast.SwitchStmt:
		b.switchStmt(s, label)

	case *ast.TypeSwitchStmt:
		b.typeSwitchStmt(s, label)

	case *ast.SelectStmt:
		b.selectStmt(s, label)

	case *ast.ForStmt:
		b.forStmt(s, label)

	case *ast.RangeStmt:
		b.rangeStmt(s, label)

	default:
		panic(fmt.Sprintf("unexpected statement kind: %T", s))
	}
}

func (b *gbuilder) branchStmt(s *ast.BranchStmt) {
	target := -1
	switch s.Tok {
	case token.BREAK:
		if s.Label != nil {
			target = b.labeledBlock(s.Label)._break
		} else {
			for t := b.targets; t != nil && target < 0; t = t.tail {
				target = t._break
			}
		}
	case token.CONTINUE:
		if s.Label != nil {
			target = b.labeledBlock(s.Label)._continue
		} else {
			for t := b.targets; t != nil && target < 0; t = t.tail {
				target = t._continue
			}
		}
	case token.FALLTHROUGH:
		for t := b.targets; t != nil && target < 0; t = t.tail {
			target = t._fallthrough
		}
	case token.GOTO:
		target = b.labeledBlock(s.Label)._goto
	}
	if target < 0 {
		panic("branch statement without target")
	}
	b.jumpTo(target)
}

func (b *gbuilder) labeledBlock(label *ast.Ident) *glblock {
	lb := b.lblocks[label.Name]
	if lb == nil {
		lb = &glblock{_goto: b.join(), _break: -1, _continue: -1}
		if b.lblocks == nil {
			b.lblocks = map[string]*glblock{}
		}
		b.lblocks[label.Name] = lb
	}
	return lb
}

func (b *gbuilder) switchStmt(s *ast.SwitchStmt, label *glblock) {
	if s.Init != nil {
		b.stmt(s.Init)
	}
	if s.Tag != nil {
		b.add(s.Tag)
	}
	done := b.join()
	if label != nil {
		label._break = done
	}
	n := len(s.Body.List)
	bodies := make([]int, n+1)
	for i := range n {
		bodies[i] = b.join()
	}
	bodies[n] = done
	var defaultIdx = -1
	for i, clause := range s.Body.List {
		cc := clause.(*ast.CaseClause)
		if cc.List == nil {
			defaultIdx = i
			continue
		}
		for _, ce := range cc.List {
			next := b.join()
			if s.Tag != nil {
				v := b.g.newV(VSwitchCase, ce)
				b.g.V[v].Tag = s.Tag
				b.g.V[v].Stmt = s
				b.emit(v)
				b.g.addEdge(v, bodies[i], LTrue)
				b.g.addEdge(v, next, LFalse)
				b.cur = -1
			} else {
				b.cond(ce, bodies[i], next, s)
			}
			b.cur, b.curLab = next, LNone
		}
	}
	// no case matched
	if defaultIdx >= 0 {
		b.jumpTo(bodies[defaultIdx])
	} else {
		b.jumpTo(done)
	}
	for i, clause := range s.Body.List {
		cc := clause.(*ast.CaseClause)
		b.cur, b.curLab = bodies[i], LNone
		b.targets = &gtargets{tail: b.targets, _break: done, _continue: -1, _fallthrough: bodies[i+1]}
		b.stmtList(cc.Body)
		b.targets = b.targets.tail
		b.jumpTo(done)
	}
	b.cur, b.curLab = done, LNone
}

func (b *gbuilder) typeSwitchStmt(s *ast.TypeSwitchStmt, label *glblock) {
	if s.Init != nil {
		b.stmt(s.Init)
	}
	head := b.g.newV(VTypeSwitch, nil)
	b.g.V[head].Stmt = s
	b.emit(head)
	done := b.join()
	if label != nil {
		label._break = done
	}
	hasDefault := false
	for i, clause := range s.Body.List {
		cc := clause.(*ast.CaseClause)
		if cc.List == nil {
			hasDefault = true
		}
		body := b.join()
		b.g.addEdge(head, body, i)
		b.cur, b.curLab = body, LNone
		b.targets = &gtargets{tail: b.targets, _break: done, _continue: -1, _fallthrough: -1}
		b.stmtList(cc.Body)
		b.targets = b.targets.tail
		b.jumpTo(done)
	}
	if !hasDefault {
		b.g.addEdge(head, done, -1)
	}
	b.cur, b.curLab = done, LNone
}

func (b *gbuilder) selectStmt(s *ast.SelectStmt, label *glblock) {
	head := b.g.newV(VSelect, nil)
	b.g.V[head].Stmt = s
	b.emit(head)
	done := b.join()
	if label != nil {
		label._break = done
	}
	for i, cc := range s.Body.List {
		clause := cc.(*ast.CommClause)
		body := b.join()
		lab := i
		if clause.Comm == nil {
			lab = -1
		}
		b.g.addEdge(head, body, lab)
		b.cur, b.curLab = body, LNone
		if clause.Comm != nil {
			b.add(clause.Comm) // the communication itself, executed when this case is chosen
		}
		b.targets = &gtargets{tail: b.targets, _break: done, _continue: -1, _fallthrough: -1}
		b.stmtList(clause.Body)
		b.targets = b.targets.tail
		b.jumpTo(done)
	}
	b.cur, b.curLab = done, LNone
}

func (b *gbuilder) forStmt(s *ast.ForStmt, label *glblock) {
	if s.Init != nil {
		b.stmt(s.Init)
	}
	body := b.join()
	done := b.join()
	loop := body
	if s.Cond != nil {
		loop = b.join()
	}
	cont := loop
	if s.Post != nil {
		cont = b.join()
	}
	if label != nil {
		label._break = done
		label._continue = cont
	}
	b.jumpTo(loop)
	b.cur, b.curLab = loop, LNone
	if loop != body {
		b.cond(s.Cond, body, done, s)
		b.cur, b.curLab = body, LNone
	}
	b.targets = &gtargets{tail: b.targets, _break: done, _continue: cont, _fallthrough: -1}
	b.stmt(s.Body)
	b.targets = b.targets.tail
	b.jumpTo(cont)
	if s.Post != nil {
		b.cur, b.curLab = cont, LNone
		b.stmt(s.Post)
		b.jumpTo(loop)
	}
	b.cur, b.curLab = done, LNone
}

func (b *gbuilder) rangeStmt(s *ast.RangeStmt, label *glblock) {
	b.add(s.X)
	loop := b.g.newV(VRange, nil)
	b.g.V[loop].Stmt = s
	b.emit(loop)
	body := b.join()
	done := b.join()
	b.g.addEdge(loop, body, LTrue)
	b.g.addEdge(loop, done, LFalse)
	if label != nil {
		label._break = done
		label._continue = loop
	}
	b.cur, b.curLab = body, LNone
	b.targets = &gtargets{tail: b.targets, _break: done, _continue: loop, _fallthrough: -1}
	b.stmt(s.Body)
	b.targets = b.targets.tail
	b.jumpTo(loop)
	b.cur, b.curLab = done, LNone
}

// ---------------------------------------------------------------------------
// Queries

type VSet []bool

func (g *Graph) newSet() VSet { return make(VSet, len(g.V)) }

// Reach returns the set of vertices reachable from the given start vertices (inclusive)
// without entering a vertex for which blockV is true and without following an edge for
// which blockE is true. A start vertex that is blocked is not expanded but is in the set.
func (g *Graph) Reach(starts []int, blockV func(v *Vertex) bool, blockE func(e Edge) bool) VSet {
	return g.reach(starts, blockV, blockE, true)
}

// reach: markStarts=false leaves the start vertices out of the result unless they are reached
// again (used by ReachAfter, which must still apply the start vertex's own effects).
func (g *Graph) reach(starts []int, blockV func(v *Vertex) bool, blockE func(e Edge) bool, markStarts bool) VSet {
	return g.reachGhost(starts, blockV, blockE, markStarts, nil)
}

// ghostT adds one more tracked variable to a flag-sensitive search: eff gives the vertices that
// assign it (and the value), vals collects the values it can hold on arrival at vertex at
// (flagUnknown: never assigned on that path). Used to ask which definitions of a variable reach
// a use along paths the function's own flag tests allow.
type ghostT struct {
	eff    map[int]int64
	at     int
	vals   map[int64]bool
	failed bool
}

var ghostObj types.Object = types.NewVar(token.NoPos, nil, "·ghost", types.Typ[types.Int])

func (g *Graph) reachGhost(starts []int, blockV func(v *Vertex) bool, blockE func(e Edge) bool, markStarts bool, gh *ghostT) VSet {
	return g.reachCore(starts, nil, blockV, blockE, markStarts, gh)
}

// ReachFromEdges is Reach started at the targets of the given edges, knowing what crossing each
// edge tells about the flag its condition tests (the error is non-nil past `err != nil` …).
func (g *Graph) ReachFromEdges(edges []Edge, blockV func(v *Vertex) bool, blockE func(e Edge) bool) VSet {
	g.initFlags()
	var starts []int
	var envs []map[types.Object]int64
	for _, e := range edges {
		var env map[types.Object]int64
		if t, ok := g.flagTest[e.From]; ok && (e.Label == LTrue || e.Label == LFalse) {
			val := t.onTrue
			if t.onTrue >= flagIntBase-1000000 {
				if (e.Label == LTrue) == t.neq {
					val = flagUnknown
				}
			} else if e.Label == LFalse {
				val = flagComplement(val)
			}
			if val != flagUnknown {
				env = map[types.Object]int64{t.obj: val}
			}
		}
		starts = append(starts, e.To)
		envs = append(envs, env)
	}
	if len(g.flagVars) == 0 {
		return g.reachPlain(starts, blockV, blockE)
	}
	gh := &ghostT{eff: map[int]int64{}, at: -1, vals: map[int64]bool{}}
	seen := g.reachCore(starts, envs, blockV, blockE, true, gh)
	if gh.failed {
		return g.reachPlain(starts, blockV, blockE)
	}
	return seen
}

func (g *Graph) reachCore(starts []int, startEnvs []map[types.Object]int64, blockV func(v *Vertex) bool, blockE func(e Edge) bool, markStarts bool, gh *ghostT) VSet {
	g.initFlags()
	if len(g.flagVars) == 0 && gh == nil {
		if markStarts {
			return g.reachPlain(starts, blockV, blockE)
		}
		var succ []int
		for _, s := range starts {
			for _, e := range g.V[s].Succs {
				if blockE != nil && blockE(e) {
					continue
				}
				if blockV != nil && blockV(g.V[e.To]) {
					continue
				}
				succ = append(succ, e.To)
			}
		}
		return g.reachPlain(succ, blockV, blockE)
	}
	// Path-sensitive in the variables that are assigned the constants true / false / nil
	// somewhere ("flags"): a state is a vertex plus what is known about the flags on the path
	// taken so far; a condition that tests a flag with a known value only continues on the
	// consistent edge. Unknown values continue on both edges, so the result over-approximates
	// the feasible paths and under-approximates nothing.
	seen := g.newSet()
	type state struct {
		v   int
		env string
	}
	visited := map[state]bool{}
	type item struct {
		v   int
		env map[types.Object]int64
	}
	key := func(env map[types.Object]int64) string {
		if len(env) == 0 {
			return ""
		}
		var ks []string
		for o, val := range env {
			ks = append(ks, fmt.Sprintf("%p=%d", o, val))
		}
		sort.Strings(ks)
		return strings.Join(ks, ",")
	}
	var stack []item
	for i, s := range starts {
		if markStarts {
			var env0 map[types.Object]int64
			if i < len(startEnvs) {
				env0 = startEnvs[i]
			}
			st := state{s, key(env0)}
			if !visited[st] {
				visited[st] = true
				seen[s] = true
				stack = append(stack, item{s, env0})
			}
		} else {
			// not marked visited: re-entering the start with an empty environment must expand again
			stack = append(stack, item{s, nil})
		}
	}
	for len(stack) > 0 {
		it := stack[len(stack)-1]
		stack = stack[:len(stack)-1]
		v := g.V[it.v]
		env := it.env
		if gh != nil && it.v == gh.at {
			gh.vals[env[ghostObj]] = true
		}
		// effects of the vertex
		gval, gset := int64(0), false
		if gh != nil {
			gval, gset = gh.eff[it.v]
		}
		if effs := g.flagEff[it.v]; len(effs) > 0 || gset {
			ne := make(map[types.Object]int64, len(env)+len(effs)+1)
			for o, val := range env {
				ne[o] = val
			}
			for _, ef := range effs {
				switch {
				case ef.src != nil:
					// all right-hand sides are read before any left-hand side is written
					if val, known := env[ef.src]; known {
						ne[ef.obj] = val
					} else {
						delete(ne, ef.obj)
					}
				case ef.val == flagUnknown:
					delete(ne, ef.obj)
				default:
					ne[ef.obj] = ef.val
				}
			}
			if gset {
				ne[ghostObj] = gval
			}
			env = ne
		}
		decided := -1
		var learn *flagTestT
		if v.Kind == VCond || v.Kind == VSwitchCase {
			if t, ok := g.flagTest[it.v]; ok {
				if val, known := env[t.obj]; known {
					// t.onTrue: the value for which the condition is true
					if (val == t.onTrue) != t.neq {
						decided = LTrue
					} else {
						decided = LFalse
					}
				} else {
					learn = &t // the edge taken tells the value
				}
			}
		}
		baseEnv := env
		for _, e := range v.Succs {
			if decided >= 0 && (e.Label == LTrue || e.Label == LFalse) && e.Label != decided {
				continue
			}
			if blockE != nil && blockE(e) {
				continue
			}
			if blockV != nil && blockV(g.V[e.To]) {
				continue
			}
			env := baseEnv
			if learn != nil && (e.Label == LTrue || e.Label == LFalse) {
				val := learn.onTrue
				if learn.onTrue >= flagIntBase-1000000 {
					// integers: only the equal edge tells the value
					if (e.Label == LTrue) == learn.neq {
						val = flagUnknown
					}
				} else if e.Label == LFalse {
					val = flagComplement(val)
				}
				if val != flagUnknown {
					ne := make(map[types.Object]int64, len(baseEnv)+1)
					for o, x := range baseEnv {
						ne[o] = x
					}
					ne[learn.obj] = val
					env = ne
				}
			}
			st := state{e.To, key(env)}
			if visited[st] {
				continue
			}
			if len(visited) > 200000 {
				// give up on precision: fall back to plain reachability
				if gh != nil {
					gh.failed = true
					return seen
				}
				saved := g.flagVars
				g.flagVars = nil
				r := g.reach(starts, blockV, blockE, markStarts)
				g.flagVars = saved
				return r
			}
			visited[st] = true
			seen[e.To] = true
			stack = append(stack, item{e.To, env})
		}
	}
	return seen
}

// concreteOperand: the expression has a concrete (non-interface) type, so an interface variable
// it is assigned to holds a type and compares unequal to nil whatever the value is.
func concreteOperand(info *types.Info, e ast.Expr) bool {
	tv, ok := info.Types[ast.Unparen(e)]
	if !ok || tv.Type == nil || tv.IsNil() {
		return false
	}
	if b, isB := tv.Type.(*types.Basic); isB && b.Kind() == types.UntypedNil {
		return false
	}
	if _, isTP := tv.Type.(*types.TypeParam); isTP {
		return false
	}
	_, isIface := tv.Type.Underlying().(*types.Interface)
	return !isIface
}

// flagIntBase + k encodes the integer constant k (|k| < 10^6): small state variables assigned
// and compared with constants (session status codes …) are tracked like booleans
const flagIntBase int64 = 2000000

const (
	flagUnknown int64 = iota
	flagFalse
	flagTrue
	flagNil
	flagNonNil
)

type flagEffect struct {
	obj types.Object
	val int64
	src types.Object // x = y between tracked locals: x takes what is known about y
}

func flagComplement(v int64) int64 {
	switch v {
	case flagTrue:
		return flagFalse
	case flagFalse:
		return flagTrue
	case flagNil:
		return flagNonNil
	case flagNonNil:
		return flagNil
	}
	return flagUnknown
}

type flagTestT struct {
	obj    types.Object
	onTrue int64 // the flag value that makes the condition true
	neq    bool  // integer `x != c`: true for every value but onTrue
}

// initFlags finds the flag variables of the function and their per-vertex effects / tests.
func (g *Graph) initFlags() {
	if g.flagsDone {
		return
	}
	g.flagsDone = true
	info := g.info
	if info == nil {
		return
	}
	objOfIdent := func(e ast.Expr) types.Object {
		id, ok := ast.Unparen(e).(*ast.Ident)
		if !ok {
			return nil
		}
		if o := info.Uses[id]; o != nil {
			return o
		}
		return info.Defs[id]
	}
	constVal := func(e ast.Expr) int64 {
		e = ast.Unparen(e)
		if tv, ok := info.Types[e]; ok {
			if tv.IsNil() {
				return flagNil
			}
			if tv.Value != nil && tv.Value.Kind() == constant.Bool {
				if constant.BoolVal(tv.Value) {
					return flagTrue
				}
				return flagFalse
			}
		}
		if tv, ok := info.Types[e]; ok && tv.Value != nil && tv.Value.Kind() == constant.Int {
			if k, exact := constant.Int64Val(tv.Value); exact && k > -1000000 && k < 1000000 {
				return flagIntBase + k
			}
		}
		if id, ok := e.(*ast.Ident); ok {
			switch id.Name {
			case "true":
				if _, isConst := info.Uses[id].(*types.Const); isConst {
					return flagTrue
				}
			case "false":
				if _, isConst := info.Uses[id].(*types.Const); isConst {
					return flagFalse
				}
			case "nil":
				if _, isNil := info.Uses[id].(*types.Nil); isNil {
					return flagNil
				}
			}
		}
		return flagUnknown
	}
	isLocal := func(o types.Object) bool {
		v, ok := o.(*types.Var)
		// objects minted by the inliner for a helper's locals have no scope
		return ok && !v.IsField() && v.Pkg() != nil && (v.Parent() == nil || v.Parent() != v.Pkg().Scope())
	}
	// candidates: locals assigned a constant somewhere
	cands := map[types.Object]bool{}
	eff := map[int][]flagEffect{}
	captured := map[types.Object]bool{}
	for _, v := range g.V {
		if v.Node == nil {
			continue
		}
		// variables assigned or address-taken inside closures are not tracked; a closure that is
		// itself the deferred call runs only when the function exits, after every vertex of the
		// body, so what it assigns cannot change a value the body's own tests see
		var deferredLit *ast.FuncLit
		if ds, isDefer := v.Node.(*ast.DeferStmt); isDefer {
			deferredLit, _ = ast.Unparen(ds.Call.Fun).(*ast.FuncLit)
		}
		ast.Inspect(v.Node, func(n ast.Node) bool {
			lit, ok := n.(*ast.FuncLit)
			if !ok {
				return true
			}
			if lit == deferredLit {
				return false
			}
			ast.Inspect(lit.Body, func(m ast.Node) bool {
				switch x := m.(type) {
				case *ast.AssignStmt:
					for _, l := range x.Lhs {
						if o := objOfIdent(l); o != nil {
							captured[o] = true
						}
					}
				case *ast.UnaryExpr:
					if x.Op == token.AND {
						if o := objOfIdent(x.X); o != nil {
							captured[o] = true
						}
					}
				case *ast.IncDecStmt:
					if o := objOfIdent(x.X); o != nil {
						captured[o] = true
					}
				}
				return true
			})
			return false
		})
		if ue, ok := v.Node.(*ast.UnaryExpr); ok && ue.Op == token.AND {
			if o := objOfIdent(ue.X); o != nil {
				captured[o] = true
			}
		}
		inspectNoLit(v.Node, func(n ast.Node) bool {
			if ue, ok := n.(*ast.UnaryExpr); ok && ue.Op == token.AND {
				if o := objOfIdent(ue.X); o != nil {
					captured[o] = true
				}
			}
			return true
		})
		switch n := v.Node.(type) {
		case *ast.AssignStmt:
			if v.Kind != VStmt {
				break
			}
			for i, l := range n.Lhs {
				o := objOfIdent(l)
				if o == nil || !isLocal(o) {
					continue
				}
				val := flagUnknown
				if len(n.Lhs) == len(n.Rhs) && (n.Tok == token.ASSIGN || n.Tok == token.DEFINE) {
					val = constVal(n.Rhs[i])
					if val == flagUnknown {
						if _, isIface := o.Type().Underlying().(*types.Interface); isIface && (nonNilErrExpr(info, n.Rhs[i]) || concreteOperand(info, n.Rhs[i])) {
							val = flagNonNil
						}
					}
				}
				var src types.Object
				if val == flagUnknown && len(n.Lhs) == len(n.Rhs) && (n.Tok == token.ASSIGN || n.Tok == token.DEFINE) {
					if so := objOfIdent(n.Rhs[i]); so != nil && isLocal(so) && so != o {
						src = so
						cands[o], cands[so] = true, true
					}
				}
				eff[v.ID] = append(eff[v.ID], flagEffect{o, val, src})
				if val != flagUnknown {
					cands[o] = true
				}
			}
		case *ast.ValueSpec:
			for i, id := range n.Names {
				o := info.Defs[id]
				if o == nil || !isLocal(o) {
					continue
				}
				val := flagUnknown
				if len(n.Values) == len(n.Names) {
					val = constVal(n.Values[i])
				} else if len(n.Values) == 0 {
					switch u := o.Type().Underlying().(type) {
					case *types.Basic:
						if u.Info()&types.IsBoolean != 0 {
							val = flagFalse
						}
					case *types.Pointer, *types.Interface, *types.Slice, *types.Map, *types.Chan, *types.Signature:
						val = flagNil
					}
				}
				eff[v.ID] = append(eff[v.ID], flagEffect{o, val, nil})
				if val != flagUnknown {
					cands[o] = true
				}
			}
		case *ast.IncDecStmt:
			if o := objOfIdent(n.X); o != nil && isLocal(o) {
				eff[v.ID] = append(eff[v.ID], flagEffect{o, flagUnknown, nil})
			}
		}
		if v.Kind == VRange {
			rs := v.Stmt.(*ast.RangeStmt)
			for _, kv := range []ast.Expr{rs.Key, rs.Value} {
				if kv != nil {
					if o := objOfIdent(kv); o != nil && isLocal(o) {
						eff[v.ID] = append(eff[v.ID], flagEffect{o, flagUnknown, nil})
					}
				}
			}
		}
	}
	// select comm clauses (x := <-ch) define variables too: their vertices are AssignStmt nodes, handled above
	g.flagVars = map[types.Object]bool{}
	for o := range cands {
		if !captured[o] {
			g.flagVars[o] = true
		}
	}
	g.flagEff = map[int][]flagEffect{}
	for id, es := range eff {
		for _, e := range es {
			if g.flagVars[e.obj] {
				if e.src != nil && !g.flagVars[e.src] {
					e.src = nil
				}
				g.flagEff[id] = append(g.flagEff[id], e)
			}
		}
	}
	if os.Getenv("VERIF_DBG_FLAGS") != "" {
		for o := range g.flagVars {
			fmt.Fprintf(os.Stderr, "flagvar %s@%d ", o.Name(), o.Pos())
		}
		fmt.Fprintln(os.Stderr, len(g.V))
	}
	g.flagTest = map[int]flagTestT{}
	for _, v := range g.V {
		if v.Kind == VSwitchCase && v.Tag != nil {
			// switch x { case c: } is the test x == c
			if o := objOfIdent(v.Tag); o != nil && g.flagVars[o] {
				if c := constVal(v.Node.(ast.Expr)); c != flagUnknown {
					g.flagTest[v.ID] = flagTestT{o, c, false}
				}
			}
			continue
		}
		if v.Kind != VCond {
			continue
		}
		e := ast.Unparen(v.Node.(ast.Expr))
		if o := objOfIdent(e); o != nil && g.flagVars[o] {
			if b, ok := o.Type().Underlying().(*types.Basic); ok && b.Info()&types.IsBoolean != 0 {
				g.flagTest[v.ID] = flagTestT{o, flagTrue, false}
			}
			continue
		}
		if be, ok := e.(*ast.BinaryExpr); ok && (be.Op == token.EQL || be.Op == token.NEQ) {
			var o types.Object
			var c int64
			if oo := objOfIdent(be.X); oo != nil && g.flagVars[oo] {
				o, c = oo, constVal(be.Y)
			} else if oo := objOfIdent(be.Y); oo != nil && g.flagVars[oo] {
				o, c = oo, constVal(be.X)
			}
			if o == nil || c == flagUnknown {
				continue
			}
			// x == c is true exactly for the value c (values are only known when they are constants)
			if be.Op == token.EQL {
				g.flagTest[v.ID] = flagTestT{o, c, false}
			} else {
				// x != c: true for the other boolean value; for nil only "known nil" decides (false)
				switch c {
				case flagTrue:
					g.flagTest[v.ID] = flagTestT{o, flagFalse, false}
				case flagFalse:
					g.flagTest[v.ID] = flagTestT{o, flagTrue, false}
				case flagNil:
					g.flagTest[v.ID] = flagTestT{o, flagNonNil, false}
				default:
					if c >= flagIntBase-1000000 {
						g.flagTest[v.ID] = flagTestT{o, c, true}
					}
				}
			}
		}
	}
}

func (g *Graph) reachPlain(starts []int, blockV func(v *Vertex) bool, blockE func(e Edge) bool) VSet {
	seen := g.newSet()
	var stack []int
	for _, s := range starts {
		if !seen[s] {
			seen[s] = true
			stack = append(stack, s)
		}
	}
	for len(stack) > 0 {
		v := stack[len(stack)-1]
		stack = stack[:len(stack)-1]
		for _, e := range g.V[v].Succs {
			if blockE != nil && blockE(e) {
				continue
			}
			if seen[e.To] {
				continue
			}
			if blockV != nil && blockV(g.V[e.To]) {
				continue
			}
			seen[e.To] = true
			stack = append(stack, e.To)
		}
	}
	return seen
}

// ReachAfter is like Reach but starts from the successors of v (v itself is in the result
// only if it can be reached again).
func (g *Graph) ReachAfter(v int, blockV func(v *Vertex) bool, blockE func(e Edge) bool) VSet {
	return g.reach([]int{v}, blockV, blockE, false)
}

// Live returns the set of vertices reachable from entry.
func (g *Graph) Live() VSet { return g.Reach([]int{g.Entry}, nil, nil) }

// Dominates reports whether every path from entry to target passes through one of the
// vertices in through (target itself counts).
func (g *Graph) Dominates(through []int, target int) bool {
	in := map[int]bool{}
	for _, t := range through {
		in[t] = true
	}
	if in[target] {
		return true
	}
	if in[g.Entry] {
		return true
	}
	r := g.Reach([]int{g.Entry}, func(v *Vertex) bool { return in[v.ID] }, nil)
	return !r[target]
}

// EdgeDominates reports whether every path from entry to target crosses one of the edges.
func (g *Graph) EdgeDominates(edges []Edge, target int) bool {
	r := g.Reach([]int{g.Entry}, nil, func(e Edge) bool {
		for _, x := range edges {
			if x == e {
				return true
			}
		}
		return false
	})
	return !r[target]
}

// VertexOf returns the vertex whose node contains n (by position), or -1.
func (g *Graph) VertexOf(n ast.Node) int {
	if v, ok := g.byNode[n]; ok {
		return v
	}
	best := -1
	var bestSize token.Pos
	for _, v := range g.V {
		if v.Node == nil || v.Kind == VJoin {
			continue
		}
		var lo, hi token.Pos
		switch v.Kind {
		case VSelect, VTypeSwitch:
			continue
		case VRange:
			continue
		default:
			lo, hi = v.Node.Pos(), v.Node.End()
		}
		if lo <= n.Pos() && n.End() <= hi {
			if best < 0 || hi-lo < bestSize {
				best, bestSize = v.ID, hi-lo
			}
		}
	}
	return best
}

func (g *Graph) String(fset *token.FileSet) string {
	s := ""
	for _, v := range g.V {
		desc := ""
		switch v.Kind {
		case VEntry:
			desc = "ENTRY"
		case VExit:
			desc = "EXIT"
		case VPanic:
			desc = "PANIC"
		case VJoin:
			desc = "join"
		case VSelect:
			desc = "select"
		case VTypeSwitch:
			desc = "typeswitch"
		case VRange:
			desc = "range " + exprStr(v.Stmt.(*ast.RangeStmt).X)
		case VSwitchCase:
			desc = "case " + exprStr(v.Tag) + " == " + exprStr(v.Node.(ast.Expr))
		case VCond:
			desc = "cond " + exprStr(v.Node.(ast.Expr))
		default:
			desc = nodeStr(fset, v.Node)
		}
		s += fmt.Sprintf("%3d: %-60s ->", v.ID, desc)
		for _, e := range v.Succs {
			if e.Label == LNone {
				s += fmt.Sprintf(" %d", e.To)
			} else {
				s += fmt.Sprintf(" %d[%d]", e.To, e.Label)
			}
		}
		s += "\n"
	}
	return s
}
