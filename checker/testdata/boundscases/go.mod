module boundscases

go 1.26
