// Package boundscases holds small functions with known verdicts for the bounds prover's
// self-test: a function named ok* must be proved completely without preconditions; a function
// named bad* must have at least one obligation that is not proved locally (a precondition on
// the caller or an unproved obligation). The bad* cases are the traps a prover must not fall
// into: stale facts across redefinitions, loops, aliases, closures and callee side effects.
package boundscases

import (
	"encoding/binary"
	"io"
)

func okGuard(b []byte) byte {
	if len(b) < 2 {
		return 0
	}
	return b[1]
}

func badOffByOne(b []byte) byte {
	if len(b) < 1 {
		return 0
	}
	return b[1]
}

func okSub(b []byte) byte {
	if len(b) < 4 {
		return 0
	}
	c := b[2:]
	return c[1]
}

func badSub(b []byte) byte {
	if len(b) < 4 {
		return 0
	}
	c := b[2:]
	return c[2]
}

func okLengthPrefixed(b []byte) []byte {
	if len(b) < 2 {
		return nil
	}
	n := int(binary.BigEndian.Uint16(b))
	if len(b) < 2+n {
		return nil
	}
	return b[2 : 2+n]
}

func badLengthPrefixed(b []byte) []byte {
	if len(b) < 2 {
		return nil
	}
	n := int(binary.BigEndian.Uint16(b))
	if len(b) < n {
		return nil
	}
	return b[2 : 2+n]
}

func okContentTwice(b []byte) byte {
	if len(b) < 2 {
		return 0
	}
	n := int(b[0])
	if n+2 > len(b) {
		return 0
	}
	return b[1+int(b[0])]
}

func badContentRewritten(b []byte, r io.Reader) byte {
	if len(b) < 2 {
		return 0
	}
	n := int(b[0])
	if n+2 > len(b) {
		return 0
	}
	r.Read(b)
	return b[1+int(b[0])]
}

func badReslicedAfterCheck(b []byte, n int) byte {
	if n < 0 || n >= len(b) {
		return 0
	}
	for i := 0; i < 3 && len(b) > 0; i++ {
		b = b[1:]
	}
	return b[n]
}

func badLoopCarried(b []byte) byte {
	i := 0
	if i < len(b) {
		for j := 0; j < 10; j++ {
			i++
		}
		return b[i]
	}
	return 0
}

func okMultiDef(b []byte, c bool) byte {
	n := 1
	if c {
		n = 5
	}
	if len(b) < 6 {
		return 0
	}
	return b[n]
}

func badMultiDef(b []byte, c bool) byte {
	n := 1
	if c {
		n = 5
	}
	if len(b) < 2 {
		return 0
	}
	return b[n]
}

func okAfterCall(b []byte, f func([]byte)) byte {
	if len(b) < 1 {
		return 0
	}
	f(b)
	return b[0]
}

func badClosureAssign(b []byte) byte {
	if len(b) < 1 {
		return 0
	}
	func() { b = nil }()
	return b[0]
}

func badAddressTaken(b []byte) byte {
	p := &b
	if len(b) < 1 {
		return 0
	}
	*p = nil
	return b[0]
}

func okRange(a []byte) byte {
	var s byte
	for i := range a {
		s += a[i]
	}
	return s
}

func badRangeOther(a, b []byte) byte {
	var s byte
	for i := range a {
		s += b[i]
	}
	return s
}

func okShadow(b []byte) byte {
	if len(b) < 3 {
		return 0
	}
	{
		b := b[:1]
		_ = b
	}
	return b[2]
}

func badReassigned(b []byte) byte {
	if len(b) < 3 {
		return 0
	}
	b = b[:1]
	return b[2]
}

func badCap(b []byte) []byte {
	if len(b) < 4 {
		return nil
	}
	return b[:8]
}

func badNegativeIndex(b []byte, i int) byte {
	if i < len(b) {
		return b[i]
	}
	return 0
}

type holder struct {
	n   int
	buf []byte
}

func (h *holder) bump() { h.n += 100 }

func okField(h *holder) byte {
	if h.n < 0 || h.n >= len(h.buf) {
		return 0
	}
	return h.buf[h.n]
}

func badFieldChangedByMethod(h *holder) byte {
	if h.n < 0 || h.n >= len(h.buf) {
		return 0
	}
	h.bump()
	return h.buf[h.n]
}

func badFieldChangedByAlias(h *holder) byte {
	if h.n < 0 || h.n >= len(h.buf) {
		return 0
	}
	g := h
	g.n = 1 << 20
	return h.buf[h.n]
}

func badFieldChangedByCallee(h *holder, f func(*holder)) byte {
	if h.n < 0 || h.n >= len(h.buf) {
		return 0
	}
	f(h)
	return h.buf[h.n]
}

func badLoopFactFromEarlierIteration(b []byte, r io.Reader) byte {
	var n int
	for i := 0; i < 2; i++ {
		if i == 1 {
			return b[n]
		}
		n, _ = r.Read(b)
		if n >= len(b) {
			return 0
		}
		n = n + 1
	}
	return 0
}

func okUnsignedNarrow(b []byte) byte {
	if len(b) < 256 {
		return 0
	}
	return b[b[0]]
}

func badWiden(b []byte, x uint16) byte {
	if len(b) < 256 {
		return 0
	}
	return b[x]
}

func okNeq(b []byte) byte {
	switch {
	case len(b) == 0:
		return 0
	default:
		return b[0]
	}
}

func okStringIndex(s string) bool {
	if len(s) > 5 && s[5] == ' ' {
		return true
	}
	return false
}

func badStringIndex(s string) bool {
	if len(s) >= 5 && s[5] == ' ' {
		return true
	}
	return false
}

func badContentAlias(b []byte) byte {
	if len(b) < 4 {
		return 0
	}
	n := int(b[0])
	if n >= len(b) {
		return 0
	}
	c := b[:1]
	c[0] = 255
	return b[int(b[0])]
}

func okDistinctFresh(r io.Reader) byte {
	b := make([]byte, 2)
	if _, err := io.ReadFull(r, b); err != nil {
		return 0
	}
	b1 := make([]byte, int(b[1])+2)
	if _, err := io.ReadFull(r, b1); err != nil {
		return 0
	}
	return b1[b[1]]
}

func badParamAlias(a, b []byte) byte {
	if len(a) < 1 || len(b) < 300 {
		return 0
	}
	n := int(a[0])
	if n >= 200 {
		return 0
	}
	b[0] = 255 // a and b may share memory
	return b[int(a[0])+50]
}

func okSwitchTag(b []byte) byte {
	if len(b) < 2 {
		return 0
	}
	switch b[0] {
	case 1:
		if len(b) < 7 {
			return 0
		}
		return b[6]
	default:
		return b[1]
	}
}

func badSwitchTag(b []byte) byte {
	if len(b) < 2 {
		return 0
	}
	switch b[0] {
	case 1:
		return b[6]
	default:
		return b[1]
	}
}
