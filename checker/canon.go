package main

// Canonical names. The rules anchor on the names the reference tree gives its unexported
// functions, struct fields, types and package-level variables. A consistent rename of such an
// identifier changes no behaviour, so before the rules run the checker undoes it: when a name
// of the reference table (refnames.json, generated from the tree the rules were written
// against by `ssverif refnames`) is missing from its package, and exactly one identifier of the
// same kind, in the same container (package / receiver type / struct type), with the same shape
// (parameter and result types / field type / underlying type) exists that the reference tree
// does not know, the program is alpha-renamed back in memory (file overlay + re-type-check of
// that package only; unexported identifiers cannot be referenced from other packages). Nothing
// else is touched; an ambiguous or absent candidate leaves the tree as it is and the rules
// report their unresolved anchor as before. The renames applied are recorded in the evidence.

import (
	_ "embed"
	"encoding/json"
	"fmt"
	"go/ast"
	"go/token"
	"go/types"
	"hash/fnv"
	"os"
	"regexp"
	"sort"
	"strings"

	"golang.org/x/tools/go/packages"
)

//go:embed refnames.json
var refNamesJSON []byte

// refEntry: the shape of a named thing, a hash of its body's structure with all identifier names
// erased (functions only) and its declaration order inside its container.
type refEntry struct {
	S string `json:"s"`
	H string `json:"h,omitempty"`
	O int    `json:"o"`
}

type refTable struct {
	Types  map[string]refEntry `json:"types"`  // "pkg|Name"
	Funcs  map[string]refEntry `json:"funcs"`  // "pkg|Recv|name"
	Fields map[string]refEntry `json:"fields"` // "pkg|Type|field"
	Vars   map[string]refEntry `json:"vars"`   // "pkg|name"
}

type namedObj struct {
	obj   types.Object
	shape string
	hash  string
	ord   int
}

type curTable struct {
	types, funcs, fields, vars map[string]namedObj
}

func qualName(p *types.Package) string { return p.Name() }

func typeShape(t types.Type) string { return types.TypeString(t, qualName) }

// structShape: field types in order; names only for exported fields (unexported field names are
// themselves subject to renaming).
func underlyingShape(t types.Type) string {
	switch u := t.Underlying().(type) {
	case *types.Struct:
		var parts []string
		for i := 0; i < u.NumFields(); i++ {
			f := u.Field(i)
			n := "_"
			if f.Exported() || f.Embedded() {
				n = f.Name()
			}
			parts = append(parts, n+" "+typeShape(f.Type()))
		}
		return "struct{" + strings.Join(parts, "; ") + "}"
	case *types.Interface:
		return "interface/" + fmt.Sprint(u.NumMethods())
	default:
		return typeShape(u)
	}
}

func sigShape(sig *types.Signature) string {
	var ps, rs []string
	for i := 0; i < sig.Params().Len(); i++ {
		ps = append(ps, typeShape(sig.Params().At(i).Type()))
	}
	for i := 0; i < sig.Results().Len(); i++ {
		rs = append(rs, typeShape(sig.Results().At(i).Type()))
	}
	v := ""
	if sig.Variadic() {
		v = "..."
	}
	return "(" + strings.Join(ps, ", ") + v + ")(" + strings.Join(rs, ", ") + ")"
}

func buildCurTable(p *Prog) curTable {
	ct := curTable{map[string]namedObj{}, map[string]namedObj{}, map[string]namedObj{}, map[string]namedObj{}}
	for _, pkg := range p.All {
		if pkg.Syntax == nil || pkg.Types == nil || !strings.HasPrefix(pkg.PkgPath, modPath) || strings.HasSuffix(pkg.PkgPath, "_test") {
			continue
		}
		rel := relPkg(pkg.PkgPath)
		scope := pkg.Types.Scope()
		for _, name := range scope.Names() {
			obj := scope.Lookup(name)
			switch o := obj.(type) {
			case *types.TypeName:
				if o.IsAlias() {
					continue
				}
				if !o.Exported() {
					// the type's own name inside its shape (recursive types) is written "·self"
					sh := underlyingShape(o.Type())
					sh = selfRe(pkg.Types.Name(), name).ReplaceAllString(sh, "·self")
					ct.types[rel+"|"+name] = namedObj{o, sh, "", int(o.Pos())}
				}
				if st, ok := o.Type().Underlying().(*types.Struct); ok {
					for i := 0; i < st.NumFields(); i++ {
						f := st.Field(i)
						if f.Exported() || f.Embedded() || f.Name() == "_" {
							continue
						}
						ct.fields[rel+"|"+name+"|"+f.Name()] = namedObj{f, typeShape(f.Type()), "", i}
					}
				}
			case *types.Var:
				if !o.Exported() {
					ct.vars[rel+"|"+name] = namedObj{o, "var " + typeShape(o.Type()), "", int(o.Pos())}
				}
			case *types.Const:
				if !o.Exported() {
					ct.vars[rel+"|"+name] = namedObj{o, "const " + typeShape(o.Type()), "", int(o.Pos())}
				}
			}
		}
		for _, f := range pkg.Syntax {
			for _, d := range f.Decls {
				fd, ok := d.(*ast.FuncDecl)
				if !ok || fd.Name.Name == "_" || fd.Name.Name == "init" || ast.IsExported(fd.Name.Name) {
					continue
				}
				fn, _ := pkg.TypesInfo.Defs[fd.Name].(*types.Func)
				if fn == nil {
					continue
				}
				recv := ""
				if fd.Recv != nil && len(fd.Recv.List) == 1 {
					recv = recvTypeName(fd.Recv.List[0].Type)
				}
				ct.funcs[rel+"|"+recv+"|"+fd.Name.Name] = namedObj{fn, sigShape(fn.Type().(*types.Signature)), structHash(fd.Body), int(fd.Pos())}
			}
		}
	}
	return ct
}

func (ct curTable) toRef() refTable {
	rt := refTable{map[string]refEntry{}, map[string]refEntry{}, map[string]refEntry{}, map[string]refEntry{}}
	conv := func(m map[string]namedObj, out map[string]refEntry) {
		// positions become ranks inside the container
		byC := map[string][]string{}
		for k := range m {
			byC[container(k)] = append(byC[container(k)], k)
		}
		for _, ks := range byC {
			sort.Slice(ks, func(i, j int) bool { return m[ks[i]].ord < m[ks[j]].ord })
			for i, k := range ks {
				out[k] = refEntry{S: m[k].shape, H: m[k].hash, O: i}
			}
		}
	}
	conv(ct.types, rt.Types)
	conv(ct.funcs, rt.Funcs)
	conv(ct.fields, rt.Fields)
	conv(ct.vars, rt.Vars)
	return rt
}

// structHash hashes the structure of a function body with every identifier name erased: two
// bodies that differ only by consistent renaming hash alike.
func structHash(body *ast.BlockStmt) string {
	if body == nil {
		return ""
	}
	h := fnv.New64a()
	ast.Inspect(body, func(n ast.Node) bool {
		if n == nil {
			h.Write([]byte{')'})
			return true
		}
		fmt.Fprintf(h, "(%T", n)
		switch x := n.(type) {
		case *ast.BasicLit:
			h.Write([]byte(x.Value))
		case *ast.BinaryExpr:
			h.Write([]byte(x.Op.String()))
		case *ast.UnaryExpr:
			h.Write([]byte(x.Op.String()))
		case *ast.AssignStmt:
			h.Write([]byte(x.Tok.String()))
		case *ast.IncDecStmt:
			h.Write([]byte(x.Tok.String()))
		case *ast.BranchStmt:
			h.Write([]byte(x.Tok.String()))
		}
		return true
	})
	return fmt.Sprintf("%016x", h.Sum64())
}

// writeRefNames prints the reference table of the loaded program as JSON.
func writeRefNames(p *Prog) {
	b, err := json.MarshalIndent(buildCurTable(p).toRef(), "", " ")
	if err != nil {
		fatalf("%v", err)
	}
	os.Stdout.Write(b)
	os.Stdout.WriteString("\n")
}

// container returns the key with its last component (the name) removed.
func container(key string) string { return key[:strings.LastIndex(key, "|")+1] }

// matchRenames pairs reference names that are missing with current names the reference does not
// know, inside one container and for one shape: a single candidate is taken; among several, a
// function is matched by the structure hash of its body, and what remains is paired by
// declaration order when the numbers agree (a rename does not move declarations). Returns
// object -> reference name.
func matchRenames(ref map[string]refEntry, cur map[string]namedObj, loaded func(key string) bool) (map[types.Object]string, []string) {
	out := map[types.Object]string{}
	var notes []string
	type cs struct{ c, s string }
	unknown := map[cs][]string{}
	for k, v := range cur {
		if _, known := ref[k]; !known {
			x := cs{container(k), v.shape}
			unknown[x] = append(unknown[x], k)
		}
	}
	missing := map[cs][]string{}
	for k, e := range ref {
		if !loaded(k) {
			continue
		}
		if _, present := cur[k]; !present {
			x := cs{container(k), e.S}
			missing[x] = append(missing[x], k)
		}
	}
	var keys []cs
	for x := range missing {
		keys = append(keys, x)
	}
	sort.Slice(keys, func(i, j int) bool { return keys[i].c+keys[i].s < keys[j].c+keys[j].s })
	last := func(k string) string { return k[strings.LastIndex(k, "|")+1:] }
	for _, x := range keys {
		m, u := append([]string(nil), missing[x]...), append([]string(nil), unknown[x]...)
		pair := func(mk, uk string) {
			out[cur[uk].obj] = last(mk)
			notes = append(notes, fmt.Sprintf("%s%s (renamed to %s in this tree)", x.c, last(mk), last(uk)))
		}
		// by body structure
		for i := 0; i < len(m); i++ {
			if ref[m[i]].H == "" {
				continue
			}
			var hit []int
			for j, uk := range u {
				if cur[uk].hash == ref[m[i]].H {
					hit = append(hit, j)
				}
			}
			same := 0
			for _, mk := range m {
				if ref[mk].H == ref[m[i]].H {
					same++
				}
			}
			if len(hit) == 1 && same == 1 {
				pair(m[i], u[hit[0]])
				u = append(u[:hit[0]], u[hit[0]+1:]...)
				m = append(m[:i], m[i+1:]...)
				i--
			}
		}
		if len(m) == 0 || len(m) != len(u) {
			continue // nothing left, or ambiguous: leave alone
		}
		sort.Slice(m, func(i, j int) bool { return ref[m[i]].O < ref[m[j]].O })
		sort.Slice(u, func(i, j int) bool { return cur[u[i]].ord < cur[u[j]].ord })
		for i := range m {
			pair(m[i], u[i])
		}
	}
	return out, notes
}

// applyRenames rewrites every identifier that defines or uses one of the objects, in memory, and
// re-type-checks the packages concerned.
func applyRenames(p *Prog, ren map[types.Object]string) (*Prog, error) {
	if len(ren) == 0 {
		return p, nil
	}
	overlay := map[string][]byte{}
	for _, pkg := range p.All {
		if pkg.Syntax == nil || pkg.TypesInfo == nil {
			continue
		}
		touched := false
		for o := range ren {
			if o.Pkg() == pkg.Types {
				touched = true
			}
		}
		if !touched {
			continue
		}
		type edit struct {
			off, n int
			to     string
		}
		edits := map[string][]edit{}
		add := func(id *ast.Ident, to string) {
			pos := p.Fset.Position(id.Pos())
			edits[pos.Filename] = append(edits[pos.Filename], edit{pos.Offset, len(id.Name), to})
		}
		for id, o := range pkg.TypesInfo.Defs {
			if to, ok := ren[o]; ok && o != nil {
				add(id, to)
			}
		}
		for id, o := range pkg.TypesInfo.Uses {
			if to, ok := ren[o]; ok {
				add(id, to)
				continue
			}
			// fields and methods of instantiated generic types: compare by origin
			switch x := o.(type) {
			case *types.Var:
				if to, ok := ren[x.Origin()]; ok {
					add(id, to)
				}
			case *types.Func:
				if to, ok := ren[x.Origin()]; ok {
					add(id, to)
				}
			}
		}
		for fn, es := range edits {
			src, err := p.readFile(fn)
			if err != nil {
				return nil, err
			}
			sort.Slice(es, func(i, j int) bool { return es[i].off > es[j].off })
			last := -1
			for _, e := range es {
				if e.off == last {
					continue
				}
				last = e.off
				if e.off+e.n > len(src) {
					return nil, fmt.Errorf("canonical names: edit outside %s", fn)
				}
				src = append(src[:e.off:e.off], append([]byte(e.to), src[e.off+e.n:]...)...)
			}
			overlay[fn] = src
		}
	}
	// keep earlier overlays (a second pass edits the result of the first)
	for fn, b := range p.Overlay {
		if _, ok := overlay[fn]; !ok {
			overlay[fn] = b
		}
	}
	return Recheck(p, overlay)
}

func (p *Prog) readFile(fn string) ([]byte, error) {
	if b, ok := p.Overlay[fn]; ok {
		return append([]byte(nil), b...), nil
	}
	return os.ReadFile(fn)
}

// Canonicalise undoes consistent renames of unexported identifiers (see the file comment).
func Canonicalise(p *Prog) (*Prog, []string) {
	if os.Getenv("VERIF_NO_CANON") == "1" {
		return p, nil
	}
	var ref refTable
	if err := json.Unmarshal(refNamesJSON, &ref); err != nil {
		fatalf("refnames.json: %v", err)
	}
	loadedPkgs := map[string]bool{}
	for _, pkg := range p.All {
		if pkg.Syntax != nil {
			loadedPkgs[relPkg(pkg.PkgPath)] = true
		}
	}
	loaded := func(key string) bool { return loadedPkgs[key[:strings.Index(key, "|")]] }
	var notes []string
	// pass 1: types (their names occur in every other shape)
	cur := buildCurTable(p)
	ren, n1 := matchRenames(ref.Types, cur.types, loaded)
	if len(ren) > 0 {
		np, err := applyRenames(p, ren)
		if err != nil {
			return p, []string{"canonical names: type renames could not be undone: " + err.Error()}
		}
		p, notes = np, append(notes, n1...)
		cur = buildCurTable(p)
	}
	// pass 2: functions, fields, package-level variables and constants
	ren = map[types.Object]string{}
	for _, pair := range []struct {
		ref map[string]refEntry
		cur map[string]namedObj
	}{{ref.Funcs, cur.funcs}, {ref.Fields, cur.fields}, {ref.Vars, cur.vars}} {
		m, n := matchRenames(pair.ref, pair.cur, loaded)
		for o, to := range m {
			ren[o] = to
		}
		notes = append(notes, n...)
	}
	if len(ren) > 0 {
		np, err := applyRenames(p, ren)
		if err != nil {
			return p, append(notes, "canonical names: renames could not be undone: "+err.Error())
		}
		p = np
	}
	return p, notes
}

var _ = token.NoPos
var _ *packages.Package

func selfRe(pkgName, typeName string) *regexp.Regexp {
	return regexp.MustCompile(`\b` + regexp.QuoteMeta(pkgName+"."+typeName) + `\b`)
}
