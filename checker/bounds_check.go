package main

import (
	"fmt"
	"os"

	"golang.org/x/tools/go/packages"
	"go/ast"
	"go/token"
	"go/types"
	"math/big"
	"sort"
	"strings"
)

type bigInt = big.Int

// analyse runs the prover over the given functions (callees first, iterated to a fixpoint of
// the summaries) and returns the obligations.
func (e *boundsEngine) analyse(fcs []*FuncCtx) []*boundsOb {
	for _, fc := range fcs {
		if fc.Obj != nil {
			e.sum[fc.Obj] = &fnSummary{fc: fc}
		}
	}
	var pkgs []*packages.Package
	seenPkg := map[*packages.Package]bool{}
	for _, fc := range fcs {
		if !seenPkg[fc.Pkg] {
			seenPkg[fc.Pkg] = true
			pkgs = append(pkgs, fc.Pkg)
		}
	}
	e.computeFieldInvariants(pkgs, fcs)
	var obs []*boundsOb
	for round := 0; round < 4; round++ {
		obs = obs[:0]
		changed := false
		for _, fc := range fcs {
			// fresh context each round: summaries of callees may have changed
			delete(e.ctxs, fc)
			o, req, ens, ensS := e.analyseFunc(fc)
			obs = append(obs, o...)
			if fc.Obj != nil {
				s := e.sum[fc.Obj]
				if reqKey(req) != reqKey(s.requires) || lfsKey(ens) != lfsKey(s.ensures) || lfsKey(ensS) != lfsKey(s.ensuresSucc) {
					changed = true
				}
				s.requires, s.ensures, s.ensuresSucc = req, ens, ensS
			}
		}
		if !changed {
			break
		}
	}
	e.obs = obs
	return obs
}

func reqKey(r []reqClause) string {
	var s []string
	for _, c := range r {
		s = append(s, c.lf.String())
	}
	sort.Strings(s)
	return strings.Join(s, ";")
}

func lfsKey(r []LF) string {
	var s []string
	for _, c := range r {
		s = append(s, c.String())
	}
	sort.Strings(s)
	return strings.Join(s, ";")
}

type goalSpec struct {
	kind string
	expr string
	goal LF
	pos  token.Pos
	side []LF
}

func (e *boundsEngine) analyseFunc(fc *FuncCtx) (obs []*boundsOb, requires []reqClause, ensures, ensuresSucc []LF) {
	b := e.ctx(fc)
	generic := b.genericParamAtoms()
	reqSeen := map[string]bool{}
	// the function's own preconditions (previous round) hold at entry and speak only about
	// parameters' entry values: usable as facts everywhere
	var own []LF
	declared := false
	if e.contract != nil {
		if c := e.contract(fc); c != nil {
			declared = true
			inv := map[string]string{}
			for k, v := range generic {
				inv[v] = k
			}
			for _, rq := range c {
				if f, ok := renameAtoms(rq, inv); ok {
					own = append(own, f)
				}
			}
		}
	}
	if fc.Obj != nil && !declared {
		if s := e.sum[fc.Obj]; s != nil {
			inv := map[string]string{}
			for k, v := range generic {
				inv[v] = k
			}
			for _, rq := range s.requires {
				if f, ok := renameAtoms(rq.lf, inv); ok {
					own = append(own, f)
				}
			}
		}
	}
	b.own = own
	for _, v := range fc.G.V {
		if v.Node == nil || !b.live[v.ID] {
			continue
		}
		b.useAt = v.ID
		goals := b.goalsAt(v)
		if len(goals) == 0 {
			continue
		}
		pf, neq := b.pathFacts(v.ID)
		for _, g := range goals {
			base := append(append([]LF{}, pf...), g.side...)
			if declared {
				base = append(base, own...)
			}
			base = strengthen(base, neq)
			withOwn := strengthen(append(append([]LF{}, base...), own...), neq)
			ob := &boundsOb{FC: fc, V: v.ID, Kind: g.kind, Expr: g.expr, Goal: g.goal, Pos: g.pos}
			ob.Construct = fmt.Sprintf("%s:%s:%s", fc.Name, g.kind, g.expr)
			lift := func(gl LF) bool {
				gen, ok := renameAtoms(gl, generic)
				if !ok {
					return false
				}
				if !reqSeen[gen.String()] {
					reqSeen[gen.String()] = true
					requires = append(requires, reqClause{lf: gen, origin: ob.Construct})
				}
				if ob.Detail != "" {
					ob.Detail += "; "
				}
				ob.Detail += gen.String() + " >= 0"
				return true
			}
			var lifts []LF
			if g.kind == "panic-unreachable" {
				switch {
				case infeasible(base) || b.proveFinite(base, g.goal):
					ob.Status = "proved"
				default:
					// the guards that lead here: if negating one parameter-only guard fact makes the
					// path impossible, that negation is what callers must establish
					lifted := false
					for _, f := range pf {
						gen, ok := renameAtoms(f, generic)
						if !ok {
							continue
						}
						// negation of f >= 0 is -f - 1 >= 0
						neg := gen.scale(-1).addConst(-1)
						if !reqSeen[neg.String()] {
							reqSeen[neg.String()] = true
							requires = append(requires, reqClause{lf: neg, origin: ob.Construct})
						}
						ob.Detail = neg.String() + " >= 0"
						lifted = true
						break
					}
					switch {
					case lifted:
						ob.Status = "requires"
					case infeasible(withOwn):
						ob.Status = "proved"
					default:
						ob.Status = "unproved"
						ob.Detail = "a designed panic is reachable"
					}
				}
				obs = append(obs, ob)
				continue
			}
			switch {
			case proves(base, g.goal) || b.proveFinite(base, g.goal):
				ob.Status = "proved"
			case lift(g.goal):
				ob.Status = "requires"
			case b.proveBySplit(base, g.goal, v.ID, 0, &lifts, false):
				ob.Status = "proved"
				if len(lifts) > 0 {
					ob.Status = "requires"
					for _, l := range lifts {
						lift(l)
					}
				}
			case proves(withOwn, g.goal) || b.proveFinite(withOwn, g.goal) || b.proveBySplit(withOwn, g.goal, v.ID, 0, nil, true):
				ob.Status = "proved"
			default:
				ob.Status = "unproved"
				ob.Detail = "cannot show " + g.goal.String() + " >= 0"
			}
			obs = append(obs, ob)
		}
	}
	b.useAt = -1
	ensures, ensuresSucc = b.inferEnsures()
	return
}

// goalsAt enumerates the bounds obligations of the expressions evaluated at vertex v.
func (b *bctx) goalsAt(v *Vertex) []goalSpec {
	var out []goalSpec
	at := v.ID
	add := func(kind string, n ast.Node, goal LF, side []LF) {
		out = append(out, goalSpec{kind: kind, expr: exprStr(n), goal: goal, pos: n.Pos(), side: side})
	}
	// left-hand sides of := are not evaluated
	skip := map[ast.Node]bool{}
	inspectNoLit(v.Node, func(n ast.Node) bool {
		if skip[n] {
			return false
		}
		switch x := n.(type) {
		case *ast.IndexExpr:
			t := b.info.TypeOf(x.X)
			if t == nil {
				return true
			}
			switch u := t.Underlying().(type) {
			case *types.Slice, *types.Array:
			case *types.Basic:
				if u.Info()&types.IsString == 0 {
					return true
				}
			case *types.Pointer:
				if _, ok := u.Elem().Underlying().(*types.Array); !ok {
					return true
				}
			default:
				return true
			}
			if tv, ok := b.info.Types[x.X]; ok && tv.IsType() {
				return true // generic instantiation
			}
			var side []LF
			ln, _ := b.sliceLen(x.X, at, &side)
			idx := b.term(x.Index, at, &side)
			if k, isC := idx.isConst(); !isC || k < 0 {
				if it := b.info.TypeOf(x.Index); it != nil {
					if bt, ok := it.Underlying().(*types.Basic); !ok || bt.Info()&types.IsUnsigned == 0 {
						add("index-lo", x, idx, side)
					}
				}
			}
			add("index-hi", x, ln.addConst(-1).plus(idx, -1), side)
		case *ast.SliceExpr:
			t := b.info.TypeOf(x.X)
			if t == nil {
				return true
			}
			var side []LF
			ln, cp := b.sliceLen(x.X, at, &side)
			limit := cp
			if bt, ok := t.Underlying().(*types.Basic); ok && bt.Info()&types.IsString != 0 {
				limit = ln
			}
			if _, ok := arrayLen(t); ok {
				limit = ln
			}
			lo := LF{}
			if x.Low != nil {
				lo = b.term(x.Low, at, &side)
				if k, isC := lo.isConst(); !isC || k < 0 {
					add("slice-lo", x, lo, side)
				}
			}
			if x.Max != nil {
				mx := b.term(x.Max, at, &side)
				add("slice-max", x, limit.plus(mx, -1), side)
				limit = mx
			}
			if x.High != nil {
				hi := b.term(x.High, at, &side)
				add("slice-hi", x, limit.plus(hi, -1), side)
				if x.Low != nil {
					add("slice-order", x, hi.plus(lo, -1), side)
				} else if k, isC := hi.isConst(); !isC || k < 0 {
					add("slice-order", x, hi, side)
				}
			} else if x.Low != nil {
				// x[lo:] : lo <= len(x)
				add("slice-hi", x, ln.plus(lo, -1), side)
			}
		case *ast.CallExpr:
			if inner, ok := isConversion(b.info, x); ok {
				// slice → array / pointer to array
				tt := b.info.TypeOf(x)
				if n, isArr := arrayLen(tt); isArr {
					if it := b.info.TypeOf(inner); it != nil {
						if _, isSlice := it.Underlying().(*types.Slice); isSlice {
							var side []LF
							ln, _ := b.sliceLen(inner, at, &side)
							add("to-array", x, ln.addConst(-n), side)
						}
					}
				}
				return true
			}
			if id, ok := ast.Unparen(x.Fun).(*ast.Ident); ok {
				if _, isBuiltin := b.info.Uses[id].(*types.Builtin); isBuiltin {
					if id.Name == "make" && len(x.Args) >= 2 {
						var side []LF
						n := b.term(x.Args[1], at, &side)
						if k, isC := n.isConst(); !isC || k < 0 {
							add("make-len", x, n, side)
						}
					}
					return true
				}
			}
			fn := Callee(b.info, x)
			if fn == nil {
				return true
			}
			if fn.Pkg() != nil && fn.Pkg().Path() == "unsafe" {
				return true
			}
			// unsafe.String(unsafe.SliceData(s), n): n <= len(s)
			for _, rq := range stdRequires(fn) {
				var side []LF
				if g, ok := b.instantiate(rq, x, fn, at, &side, nil); ok {
					add("callee-needs", x, g, side)
				}
			}
			if dc := b.eng.declaredContractOf(fn); dc != nil {
				for _, rq := range dc {
					var side []LF
					if g, ok := b.instantiate(rq, x, fn, at, &side, nil); ok {
						add("callee-contract["+rq.String()+"]", x, g, side)
					}
				}
				return true
			}
			for _, s := range b.eng.calleeSummaries(fn) {
				for _, rq := range s.requires {
					var side []LF
					if g, ok := b.instantiate(rq.lf, x, fn, at, &side, nil); ok {
						add("callee-needs["+rq.lf.String()+"]", x, g, side)
					} else {
						out = append(out, goalSpec{kind: "callee-needs[" + rq.lf.String() + "]", expr: exprStr(x), goal: lfConst(-1), pos: x.Pos()})
					}
				}
			}
		}
		return true
	})
	// explicit panic: the vertex must be unreachable
	inspectNoLit(v.Node, func(n ast.Node) bool {
		c, ok := n.(*ast.CallExpr)
		if !ok {
			return true
		}
		if id, ok := ast.Unparen(c.Fun).(*ast.Ident); ok && id.Name == "panic" {
			if _, isBuiltin := b.info.Uses[id].(*types.Builtin); isBuiltin {
				out = append(out, goalSpec{kind: "panic-unreachable", expr: exprStr(c), goal: lfConst(-1), pos: c.Pos()})
			}
		}
		return true
	})
	// unsafe.String / unsafe.Slice over SliceData
	inspectNoLit(v.Node, func(n ast.Node) bool {
		c, ok := n.(*ast.CallExpr)
		if !ok || len(c.Args) != 2 {
			return true
		}
		fn := Callee(b.info, c)
		_ = fn
		if s := exprStr(c.Fun); s == "unsafe.String" || s == "unsafe.Slice" {
			if inner, ok := ast.Unparen(c.Args[0]).(*ast.CallExpr); ok && exprStr(inner.Fun) == "unsafe.SliceData" && len(inner.Args) == 1 {
				var side []LF
				ln, _ := b.sliceLen(inner.Args[0], at, &side)
				n := b.term(c.Args[1], at, &side)
				add("unsafe-extent", c, ln.plus(n, -1), side)
			}
		}
		return true
	})
	return out
}

func (e *boundsEngine) calleeSummaries(fn *types.Func) []*fnSummary {
	if s := e.sum[fn]; s != nil {
		return []*fnSummary{s}
	}
	if recv := recvTypeOf(fn); recv != nil {
		if _, isIface := recv.Underlying().(*types.Interface); isIface {
			return e.implSummaries(fn)
		}
	}
	return nil
}

// inferEnsures proves template postconditions at the function's returns.
func (b *bctx) inferEnsures() (all, succ []LF) {
	fc := b.fc
	sig, ok := fc.sig()
	if !ok {
		return
	}
	res := sig.Results()
	if res.Len() == 0 {
		return
	}
	hasErr := false
	if res.Len() > 0 {
		if nt, ok := res.At(res.Len() - 1).Type().(*types.Named); ok && nt.Obj().Name() == "error" {
			hasErr = true
		}
	}
	generic := b.genericParamAtoms()
	type cand struct {
		name string
		mk   func(vals func(i int) (LF, LF, LF, bool), facts *[]LF) (LF, bool)
	}
	var cands []cand
	var intRes, sliceRes []int
	for i := 0; i < res.Len(); i++ {
		t := res.At(i).Type()
		if isIntType(t) {
			intRes = append(intRes, i)
		}
		switch u := t.Underlying().(type) {
		case *types.Slice:
			sliceRes = append(sliceRes, i)
		case *types.Basic:
			if u.Info()&types.IsString != 0 {
				sliceRes = append(sliceRes, i)
			}
		}
	}
	var sliceParams, intParams []int
	for o, i := range b.params {
		switch u := o.Type().Underlying().(type) {
		case *types.Slice:
			sliceParams = append(sliceParams, i)
		case *types.Basic:
			if u.Info()&types.IsString != 0 {
				sliceParams = append(sliceParams, i)
			} else if u.Info()&types.IsInteger != 0 {
				intParams = append(intParams, i)
			}
		}
	}
	sort.Ints(sliceParams)
	sort.Ints(intParams)
	pAtom := func(kind string, i int) LF {
		if kind == "" {
			return lfAtom(fmt.Sprintf("P%d", i))
		}
		return lfAtom(fmt.Sprintf("%s(P%d)", kind, i))
	}
	for _, r := range intRes {
		r := r
		cands = append(cands, cand{fmt.Sprintf("R%d", r), func(vals func(int) (LF, LF, LF, bool), f *[]LF) (LF, bool) {
			v, _, _, ok := vals(r)
			return v, ok
		}})
		for _, p := range sliceParams {
			p := p
			cands = append(cands, cand{fmt.Sprintf("len(P%d) - R%d", p, r), func(vals func(int) (LF, LF, LF, bool), f *[]LF) (LF, bool) {
				v, _, _, ok := vals(r)
				return pAtom("len", p).plus(v, -1), ok
			}})
			// pairs
			for _, r2 := range intRes {
				r2 := r2
				if r2 <= r {
					continue
				}
				cands = append(cands, cand{fmt.Sprintf("len(P%d) - R%d - R%d", p, r, r2), func(vals func(int) (LF, LF, LF, bool), f *[]LF) (LF, bool) {
					v, _, _, ok1 := vals(r)
					w, _, _, ok2 := vals(r2)
					return pAtom("len", p).plus(v, -1).plus(w, -1), ok1 && ok2
				}})
			}
		}
		for _, p := range intParams {
			p := p
			// result within [param, …] relations used by packers: R >= 0 covered; R <= P
			cands = append(cands, cand{fmt.Sprintf("P%d - R%d", p, r), func(vals func(int) (LF, LF, LF, bool), f *[]LF) (LF, bool) {
				v, _, _, ok := vals(r)
				return pAtom("", p).plus(v, -1), ok
			}})
		}
	}
	for _, r := range sliceRes {
		r := r
		for _, p := range sliceParams {
			p := p
			cands = append(cands, cand{fmt.Sprintf("len(P%d) - len(R%d)", p, r), func(vals func(int) (LF, LF, LF, bool), f *[]LF) (LF, bool) {
				_, l, _, ok := vals(r)
				return pAtom("len", p).plus(l, -1), ok
			}})
			// len(R) >= len(P) - K for the tag / header sizes used in this module
			for _, k := range []int64{0, 16} {
				k := k
				cands = append(cands, cand{fmt.Sprintf("len(R%d) - len(P%d) + %d", r, p, k), func(vals func(int) (LF, LF, LF, bool), f *[]LF) (LF, bool) {
					_, l, _, ok := vals(r)
					return l.plus(pAtom("len", p), -1).addConst(k), ok
				}})
				if k != 0 {
					cands = append(cands, cand{fmt.Sprintf("len(P%d) - len(R%d) - %d", p, r, k), func(vals func(int) (LF, LF, LF, bool), f *[]LF) (LF, bool) {
						_, l, _, ok := vals(r)
						return pAtom("len", p).plus(l, -1).addConst(-k), ok
					}})
				}
			}
		}
		// capacity of the result is at least its length is implicit; cap(R) >= K for constants: none
	}
	// int result bounded by constants (u16 lengths): R <= 65535
	for _, r := range intRes {
		r := r
		cands = append(cands, cand{fmt.Sprintf("65535 - R%d", r), func(vals func(int) (LF, LF, LF, bool), f *[]LF) (LF, bool) {
			v, _, _, ok := vals(r)
			return lfConst(65535).plus(v, -1), ok
		}})
	}
	if len(cands) == 0 {
		return
	}
	type retInfo struct {
		v      int
		mayNil bool
	}
	var rets []retInfo
	for _, rv := range fc.Returns() {
		if !b.live[rv] {
			continue
		}
		ek := ErrUnknown
		if hasErr {
			ek = fc.ErrAtReturn(rv)
		}
		rets = append(rets, retInfo{rv, !hasErr || ek != ErrNonNil})
	}
	if len(rets) == 0 {
		return
	}
	holdsAll := make([]bool, len(cands))
	holdsSucc := make([]bool, len(cands))
	for i := range cands {
		holdsAll[i], holdsSucc[i] = true, true
	}
	anySucc := false
	for _, ri := range rets {
		rs := fc.G.V[ri.v].Node.(*ast.ReturnStmt)
		b.useAt = ri.v
		pf, neq := b.pathFacts(ri.v)
		pf = append(pf, b.own...)
		var side []LF
		fwdApplied := false
		// on a return whose error result is the error of one call, success of the function
		// means success of that call
		b.assumeSucc = nil
		if hasErr && ri.mayNil {
			var errExpr ast.Expr
			if len(rs.Results) == res.Len() {
				errExpr = rs.Results[res.Len()-1]
			} else if len(rs.Results) == 1 {
				if call, ok := ast.Unparen(rs.Results[0]).(*ast.CallExpr); ok {
					b.assumeSucc = call
				}
			}
			var eo types.Object
			if errExpr != nil {
				eo = objOf(b.info, errExpr)
			} else if len(rs.Results) == 0 {
				eo = fc.ResultObj(res.Len() - 1)
			}
			if eo != nil {
				if rd := b.reachingDefs(ri.v, eo); len(rd) == 1 && rd[0] != fc.G.Entry {
					for _, cs := range fc.AllCalls() {
						if cs.V == rd[0] && cs.ResultVar(-1) == eo {
							b.assumeSucc = cs.Call
						}
					}
				}
			}
		}
		vals := func(i int) (LF, LF, LF, bool) {
			var e ast.Expr
			switch {
			case len(rs.Results) == res.Len():
				e = rs.Results[i]
			case len(rs.Results) == 0:
				// named results
				ro := fc.ResultObj(i)
				if ro == nil {
					return nil, nil, nil, false
				}
				if isIntType(ro.Type()) {
					return b.varTerm(ro, ri.v, &side), nil, nil, true
				}
				l, c := b.varSlice(ro, ri.v, &side, func(key string) (LF, LF) {
					la, ca := "len("+key+")", "cap("+key+")"
					side = append(side, lfAtom(la), lfAtom(ca).plus(lfAtom(la), -1))
					return lfAtom(la), lfAtom(ca)
				})
				return nil, l, c, true
			case len(rs.Results) == 1:
				// return f(...): the results are the call's results
				call, ok := ast.Unparen(rs.Results[0]).(*ast.CallExpr)
				if !ok {
					return nil, nil, nil, false
				}
				k := pointAtom(fmt.Sprintf("call:%s.%d", exprStr(call), i), ri.v)
				if !fwdApplied {
					fwdApplied = true
					b.applyEnsures(call, ri.v, &side)
				}
				rt := res.At(i).Type()
				if isIntType(rt) {
					b.rangeFacts(k, rt, &side)
					return lfAtom(k), nil, nil, true
				}
				la, ca := "len("+k+")", "cap("+k+")"
				side = append(side, lfAtom(la), lfAtom(ca).plus(lfAtom(la), -1))
				return nil, lfAtom(la), lfAtom(ca), true
			default:
				return nil, nil, nil, false
			}
			t := b.info.TypeOf(e)
			if isIntType(t) {
				return b.term(e, ri.v, &side), nil, nil, true
			}
			l, c := b.sliceLen(e, ri.v, &side)
			return nil, l, c, true
		}
		if ri.mayNil {
			anySucc = true
		}
		for i, c := range cands {
			if !holdsAll[i] && (!holdsSucc[i] || !ri.mayNil) {
				continue
			}
			g, ok := c.mk(vals, &side)
			proved := false
			if ok {
				// the goal mixes generic P atoms with local atoms: translate generic ones to local
				local := LF{}
				for a, cc := range g {
					la := a
					for k, v := range generic {
						if v == a {
							la = k
						}
					}
					local[la] = cc
				}
				fs := strengthen(append(append([]LF{}, pf...), side...), neq)
				proved = proves(fs, local) || b.proveFinite(fs, local) || b.proveBySplit(fs, local, ri.v, 0, nil, true)
			}
			if !proved {
				holdsAll[i] = false
				if ri.mayNil {
					holdsSucc[i] = false
				}
			} else if b.assumeSucc != nil {
				// proved under the assumption that the call succeeded: valid for success only
				holdsAll[i] = false
			}
		}
	}
	b.useAt = -1
	b.assumeSucc = nil
	mkGeneric := func(c cand) (LF, bool) {
		// rebuild with generic result atoms
		vals := func(i int) (LF, LF, LF, bool) {
			return lfAtom(fmt.Sprintf("R%d", i)), lfAtom(fmt.Sprintf("len(R%d)", i)), lfAtom(fmt.Sprintf("cap(R%d)", i)), true
		}
		var dummy []LF
		return c.mk(vals, &dummy)
	}
	for i, c := range cands {
		if holdsAll[i] {
			if g, ok := mkGeneric(c); ok {
				all = append(all, g)
			}
		} else if holdsSucc[i] && anySucc && hasErr {
			if g, ok := mkGeneric(c); ok {
				succ = append(succ, g)
			}
		}
	}
	return
}

func (fc *FuncCtx) sig() (*types.Signature, bool) {
	if fc.Obj != nil {
		s, ok := fc.Obj.Type().(*types.Signature)
		return s, ok
	}
	if fc.Lit != nil {
		if s, ok := fc.Info().TypeOf(fc.Lit).(*types.Signature); ok {
			return s, true
		}
	}
	return nil, false
}

// proveBySplit: when the goal mentions a variable with several reaching definitions, prove it
// once per definition, substituting the value assigned there and adding the conditions that
// dominate that definition (any execution reaching u has exactly one last definition).
func (b *bctx) proveBySplit(facts []LF, goal LF, u int, depth int, lifts *[]LF, useOwn bool) bool {
	if depth > 2 {
		return false
	}
	for _, a := range goal.atoms() {
		i, _, rd, frozen, ok := atomSet(a)
		if !ok || frozen {
			continue
		}
		base := atomBase(a, i)
		o, isVar := b.atomObj[base]
		if !isVar || len(b.fc.nonDeferredLitAssigns(o)) > 0 {
			continue
		}
		if strings.Contains(a, "E") && strings.Contains(a[i:], "E") {
			continue
		}
		if len(rd) < 2 || len(rd) > 6 {
			continue
		}
		isLen := strings.HasPrefix(a, "len(")
		isCap := strings.HasPrefix(a, "cap(")
		all := true
		for _, d := range rd {
			if d == b.fc.G.Entry {
				all = false
				break
			}
			var side []LF
			var val LF
			dv := b.fc.G.V[d]
			got := false
			switch st := dv.Node.(type) {
			case *ast.AssignStmt:
				if dv.Kind == VStmt && len(st.Lhs) == len(st.Rhs) {
					for idx, l := range st.Lhs {
						if objOf(b.info, l) != o {
							continue
						}
						switch {
						case isLen || isCap:
							if st.Tok == token.ASSIGN || st.Tok == token.DEFINE {
								ln, cp := b.sliceLen(st.Rhs[idx], d, &side)
								val = ln
								if isCap {
									val = cp
								}
								got = true
							}
						case st.Tok == token.ASSIGN || st.Tok == token.DEFINE:
							val = b.term(st.Rhs[idx], d, &side)
							got = true
						case st.Tok == token.ADD_ASSIGN:
							val = b.varTerm(o, d, &side).plus(b.term(st.Rhs[idx], d, &side), 1)
							got = true
						case st.Tok == token.SUB_ASSIGN:
							val = b.varTerm(o, d, &side).plus(b.term(st.Rhs[idx], d, &side), -1)
							got = true
						}
					}
				}
			case *ast.ValueSpec:
				for idx, id := range st.Names {
					if b.info.Defs[id] != o {
						continue
					}
					if len(st.Values) == len(st.Names) {
						if isLen || isCap {
							ln, cp := b.sliceLen(st.Values[idx], d, &side)
							val = ln
							if isCap {
								val = cp
							}
						} else {
							val = b.term(st.Values[idx], d, &side)
						}
						got = true
					} else if len(st.Values) == 0 {
						val = LF{}
						got = true
					}
				}
			case *ast.IncDecStmt:
				if !isLen && !isCap {
					val = b.varTerm(o, d, &side)
					if st.Tok == token.INC {
						val = val.addConst(1)
					} else {
						val = val.addConst(-1)
					}
					got = true
				}
			}
			if !got {
				all = false
				break
			}
			// substitute
			val = b.transport(val, d, u)
			sub := goal.clone()
			c := sub[a]
			delete(sub, a)
			for x, cc := range val {
				t := new(bigInt).Mul(cc, c)
				if cur, ok := sub[x]; ok {
					cur.Add(cur, t)
				} else {
					sub[x] = t
				}
			}
			for x, cc := range sub {
				if cc.Sign() == 0 {
					delete(sub, x)
				}
			}
			// facts: those at u (minus the ones about the replaced atom are harmless) + those dominating d
			df, dneq := b.pathFacts(d)
			var carried []LF
			for _, f := range append(df, side...) {
				carried = append(carried, b.transport(f, d, u))
			}
			fs := append(append([]LF{}, facts...), carried...)
			if useOwn {
				fs = append(fs, b.own...)
			}
			fs = strengthen(fs, dneq)
			if os.Getenv("BOUNDS_DEBUG") != "" {
				fmt.Fprintf(os.Stderr, "SPLIT %s u=%d d=%d sub=%s\n", a, u, d, sub.String())
				for _, f := range fs {
					fmt.Fprintf(os.Stderr, "    fact %s >= 0\n", f.String())
				}
			}
			if !proves(fs, sub) && !b.proveBySplit(fs, sub, u, depth+1, lifts, useOwn) {
				// a branch goal over parameters only becomes a precondition
				if _, ok := renameAtoms(sub, b.genericParamAtoms()); ok && lifts != nil {
					// only acceptable if not already provable from own requires (then it is proved)
					*lifts = append(*lifts, sub)
					continue
				}
				all = false
				break
			}
		}
		if all {
			return true
		}
	}
	return false
}

// declaredContractOf returns the declared contract of the called function or interface method.
func (e *boundsEngine) declaredContractOf(fn *types.Func) []LF {
	if e.contract == nil {
		return nil
	}
	if s := e.sum[fn]; s != nil {
		return e.contract(s.fc)
	}
	if recv := recvTypeOf(fn); recv != nil {
		if _, isIface := recv.Underlying().(*types.Interface); isIface {
			for _, s := range e.implSummaries(fn) {
				if c := e.contract(s.fc); c != nil {
					return c
				}
			}
		}
	}
	return nil
}

// proveFinite: case split over atoms with a known finite value set.
func (b *bctx) proveFinite(facts []LF, goal LF) bool {
	if len(b.finite) == 0 {
		return false
	}
	// atoms connected to the goal
	rel := map[string]bool{}
	for _, a := range goal.atoms() {
		rel[a] = true
	}
	for changed := true; changed; {
		changed = false
		for _, f := range facts {
			hit := false
			for _, a := range f.atoms() {
				if rel[a] {
					hit = true
				}
			}
			if hit {
				for _, a := range f.atoms() {
					if !rel[a] {
						rel[a] = true
						changed = true
					}
				}
			}
		}
	}
	var cand []string
	for a := range rel {
		if _, ok := b.finite[a]; ok {
			cand = append(cand, a)
		}
	}
	sort.Strings(cand)
	if len(cand) == 0 || len(cand) > 3 {
		return false
	}
	var rec func(i int, fs []LF) bool
	rec = func(i int, fs []LF) bool {
		if i == len(cand) {
			if infeasible(fs) {
				return true
			}
			return proves(fs, goal)
		}
		for _, k := range b.finite[cand[i]] {
			eq := lfAtom(cand[i]).addConst(-k)
			if !rec(i+1, append(append([]LF{}, fs...), eq, eq.scale(-1))) {
				return false
			}
		}
		return true
	}
	return rec(0, facts)
}
