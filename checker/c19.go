package main

import (
	"fmt"
	"go/ast"
	"go/constant"
	"go/token"
	"go/types"
	"regexp"
	"sort"
	"strings"
)

func init() {
	register(&PropCheck{ID: "C19", Pkgs: []string{"./clientgroups", "./probe"}, Run: runC19})
}

func runC19(p *Prog, r *Report) {
	r.Explanation = "Structural necessary conditions of 'client groups pick clients as their policy says': every client a group returns comes out of its own slice (round-robin and random index s.clients with an expression reduced modulo / bounded by len of the same slice; the probing policies publish only &pc.clients[i] of the slice the group was built from, and groups are built only from non-empty client lists); a round-robin turn is one atomic read-modify-write starting so that the first turn is index 0; each probing policy's best-of-round scan starts every round from index 0 with the worst possible score and replaces the best only on a strict improvement in configuration order, in the direction the policy names; the new choice is published only after the round's WaitGroup wait, every job signals completion on all paths and writes the history slot count mod ring-size of the client it was given — timeout / cleared bit on the failure edge."
	r.NotDecided = []string{"averages, maxima and bit counts as numbers", "ticker timing and the fake-clock histories themselves", "wrap of the round-robin counter after 2^63 (2^31 on 32-bit) selections", "fair scheduling of concurrent Select calls (only that each is one atomic RMW)"}
	r.Assumptions = []string{"sync/atomic, sync.WaitGroup, math/bits.OnesCount, slices.Max, math/rand/v2.IntN semantics"}
	c19R1(p, r)
	c19R2(p, r)
	c19R3(p, r)
	c19R4(p, r)
	c19R5(p, r)
	c19R6(p, r)
	c19R7(p, r)
}

var c19ProbeFuncs = []string{"probeAvailability", "probeLatency", "probeMinMaxLatency"}

// indexBoundedBy reports whether index expression e is `… % len(S)` or `rand.IntN(len(S))`
// (through conversions) where S prints as slice.
func indexBoundedBy(fc *FuncCtx, e ast.Expr, slice string) bool {
	info := fc.Info()
	e = ast.Unparen(e)
	if c, ok := e.(*ast.CallExpr); ok {
		if inner, isConv := isConversion(info, c); isConv {
			return indexBoundedBy(fc, fc.Resolve(inner), slice)
		}
		if fn := Callee(info, c); fn != nil && fn.Pkg() != nil && fn.Pkg().Path() == "math/rand/v2" && (fn.Name() == "IntN" || fn.Name() == "N") && len(c.Args) == 1 {
			return exprStr(c.Args[0]) == "len("+slice+")"
		}
		return false
	}
	if be, ok := e.(*ast.BinaryExpr); ok && be.Op == token.REM {
		s := exprStr(fc.Resolve(be.Y))
		return s == "len("+slice+")" || s == "uintptr(len("+slice+"))" || s == "uint(len("+slice+"))"
	}
	return false
}

func c19R1(p *Prog, r *Report) {
	const rule = "C19-R1"
	r.Rule(rule, "only members, by construction: selector Select methods return s.clients[E] with E reduced modulo len(s.clients) or drawn by rand.IntN(len(s.clients)) of the same slice, or the pointee of the atomically published pointer; every selected.Store publishes &pc.clients[i] or the constructor's &clients[0] of the very slice handed to the probe configuration; group methods obtain their client only through selector.Select(); AddClientGroup builds a group only under len(Clients) > 0 and from a slice of exactly that length")
	pkg := p.Pkg("clientgroups")
	// selectors
	nSel := 0
	p.AllFuncs(pkg, func(fc *FuncCtx) {
		if fc.Decl == nil || fc.Decl.Recv == nil || fc.Decl.Name.Name != "Select" {
			return
		}
		tn := recvTypeName(fc.Decl.Recv.List[0].Type)
		if !strings.HasSuffix(tn, "ClientSelector") {
			return
		}
		nSel++
		info := fc.Info()
		for _, ret := range fc.Returns() {
			rs := fc.G.V[ret].Node.(*ast.ReturnStmt)
			if len(rs.Results) != 1 {
				continue
			}
			e := fc.Resolve(rs.Results[0])
			ok := false
			detail := exprStr(e)
			switch x := ast.Unparen(e).(type) {
			case *ast.IndexExpr:
				sl := exprStr(x.X)
				idx := fc.Resolve(x.Index)
				ok = c19ClientsField(info, x.X) && (indexBoundedBy(fc, idx, sl) || c19BoundedVar(fc, x.Index, sl))
			case *ast.StarExpr:
				if c, isC := ast.Unparen(x.X).(*ast.CallExpr); isC {
					if c19SelectedOp(info, c, "Load") {
						ok = true
					}
				}
			}
			r.Check(ok, rule, "clientgroups.(*"+tn+").Select:returns-member", p.posStr(rs.Pos()), "returns "+detail, "Select returns "+detail+", which is not an element of the selector's own slice bounded by its length (non-member or index out of range)")
		}
	})
	r.Check(nSel >= 3, rule, "clientgroups:selectors-found", "clientgroups", fmt.Sprintf("%d selectors", nSel), fmt.Sprintf("only %d *ClientSelector.Select methods found", nSel))
	// Stores to selected
	nStore := 0
	nInitDirect := 0
	p.AllFuncs(pkg, func(fc *FuncCtx) {
		for _, ctx := range allCtxs(p, fc) {
			info := ctx.Info()
			for _, cs := range ctx.AllCalls() {
				if cs.Fn == nil || !c19SelectedOp(info, cs.Call, "Store") || len(cs.Call.Args) != 1 {
					continue
				}
				nStore++
				arg := ast.Unparen(cs.Call.Args[0])
				ok := false
				if objOf(info, arg) != nil && objOf(info, arg) == ctx.ParamObj(0) && baseFuncName(ctx) == "init" {
					ok = true // checked at init's call sites below
				}
				if ue, isU := arg.(*ast.UnaryExpr); isU && ue.Op == token.AND {
					if ix, isIx := ast.Unparen(ue.X).(*ast.IndexExpr); isIx && c19ClientsField(info, ix.X) {
						if root, _, okp := pathOf(info, ix.X); okp && root == ctx.ParamObj(2) {
							ok = true
						}
					}
					// a helper that publishes an element of a slice parameter: every call of the
					// helper hands it the probe configuration's client slice
					if ix, isIx := ast.Unparen(ue.X).(*ast.IndexExpr); isIx && !ok {
						if lifted := c06LiftToCallers(p, pkg, ctx, ix.X); len(lifted) > 0 {
							all := true
							for _, ls := range lifted {
								root, _, okp := pathOf(ls.fc.Info(), ls.arg)
								if !c19ClientsField(ls.fc.Info(), ls.arg) || !okp || root != ls.fc.ParamObj(2) {
									all = false
								}
							}
							ok = all
						}
					}
					// the initial choice written by the constructor itself (init expanded in place):
					// &clients[0] of the very slice handed to the probe configuration
					if ix, isIx := ast.Unparen(ue.X).(*ast.IndexExpr); isIx {
						if k, isC := constInt(info, ix.Index); isC && k == 0 {
							if slice := objOf(info, ix.X); slice != nil {
								for _, cs2 := range ctx.AllCalls() {
									if cs2.Fn != nil && cs2.Fn.Name() == "newProbeConfig" {
										for _, a := range cs2.Call.Args {
											if objOf(info, a) == slice {
												ok = true
												nInitDirect++
											}
										}
									}
								}
							}
						}
					}
				}
				r.Check(ok, rule, "clientgroups."+ctx.Name+":publishes-member@"+exprStr(arg), cs.Pos(), "publishes an element of the probe configuration's client slice", "the published client "+exprStr(arg)+" is not an element of the group's own client slice")
			}
		}
	})
	// init call sites: &clients[0] with clients the same slice passed on to newProbeConfig
	nInit := 0
	p.AllFuncs(pkg, func(fc *FuncCtx) {
		info := fc.Info()
		for _, cs := range fc.AllCalls() {
			if cs.Fn == nil || cs.Fn.Name() != "init" || len(cs.Call.Args) != 1 {
				continue
			}
			if namedTypeName(recvTypeOf(cs.Fn)) != "atomicClientSelector" {
				continue
			}
			nInit++
			ok := false
			var slice types.Object
			if ue, isU := ast.Unparen(cs.Call.Args[0]).(*ast.UnaryExpr); isU && ue.Op == token.AND {
				if ix, isIx := ast.Unparen(ue.X).(*ast.IndexExpr); isIx {
					if k, isC := constInt(info, ix.Index); isC && k == 0 {
						slice = objOf(info, ix.X)
					}
				}
			}
			if slice != nil {
				for _, cs2 := range fc.AllCalls() {
					if cs2.Fn != nil && cs2.Fn.Name() == "newProbeConfig" {
						for _, a := range cs2.Call.Args {
							if objOf(info, a) == slice {
								ok = true
							}
						}
					}
				}
			}
			r.Check(ok, rule, "clientgroups."+fc.Name+":initial-client-is-member", cs.Pos(), "the initial choice is element 0 of the slice given to the probe configuration", "the initial client is not &clients[0] of the slice handed to the probe configuration")
		}
	})
	r.Check(nInit+nInitDirect >= 2, rule, "clientgroups:atomic-init-sites", "clientgroups", fmt.Sprintf("%d", nInit), "atomic selector init call sites not found")
	// newProbeConfig: clients field is the parameter
	for _, tn := range []string{"TCPConnectivityProbeConfig", "UDPConnectivityProbeConfig"} {
		fc := p.Func("clientgroups", tn, "newProbeConfig")
		info := fc.Info()
		ok := false
		var params = map[types.Object]bool{}
		for i := 0; fc.ParamObj(i) != nil; i++ {
			params[fc.ParamObj(i)] = true
		}
		// the value returned is put together once (as a literal or field by field) and its one
		// slice-typed field is given a parameter
		for _, bv := range builtValues(fc, "probeConfig") {
			for _, val := range bv.Fields {
				if isSliceType(info.TypeOf(val)) && params[objOf(info, val)] {
					ok = true
				}
			}
		}
		r.Check(ok, rule, "clientgroups.(*"+tn+").newProbeConfig:clients-is-parameter", p.posStr(fc.Body.Pos()), "the probed clients are the group's clients", "the probe configuration's clients are not the group's client slice")
	}
	// group methods select through the selector
	nGM := 0
	p.AllFuncs(pkg, func(fc *FuncCtx) {
		if fc.Decl == nil || fc.Decl.Recv == nil {
			return
		}
		tn := recvTypeName(fc.Decl.Recv.List[0].Type)
		if !strings.HasSuffix(tn, "ClientGroup") {
			return
		}
		switch fc.Decl.Name.Name {
		case "NewStreamDialer", "DialStream", "NewSession":
		default:
			return
		}
		nGM++
		ok := false
		for _, ret := range fc.Returns() {
			rs := fc.G.V[ret].Node.(*ast.ReturnStmt)
			if len(rs.Results) == 1 {
				if c, isC := ast.Unparen(rs.Results[0]).(*ast.CallExpr); isC {
					if sel, isS := ast.Unparen(c.Fun).(*ast.SelectorExpr); isS && sel.Sel.Name == fc.Decl.Name.Name && c19IsSelectCall(fc.Info(), sel.X) {
						ok = true
					}
				}
			}
		}
		r.Check(ok, rule, "clientgroups.(*"+tn+")."+fc.Decl.Name.Name+":through-selector", p.posStr(fc.Body.Pos()), "delegates to selector.Select()", "the group method does not delegate to the client chosen by its selector")
	})
	r.Check(nGM >= 9, rule, "clientgroups:group-methods-found", "clientgroups", fmt.Sprintf("%d", nGM), fmt.Sprintf("only %d group methods found", nGM))
	// AddClientGroup: groups only from non-empty lists
	ag := p.Func("clientgroups", "ClientGroupConfig", "AddClientGroup")
	ainfo := ag.Info()
	for _, cs := range ag.AllCalls() {
		if cs.Fn == nil || !strings.Contains(cs.Fn.Name(), "ClientGroup") || !strings.HasPrefix(cs.Fn.Name(), "new") {
			continue
		}
		var clients types.Object
		for _, a := range cs.Call.Args {
			if o := objOf(ainfo, a); o != nil && isSliceType(o.Type()) {
				clients = o
			}
		}
		ok := false
		detail := ""
		if clients != nil {
			rhs, _, _, okd := ag.SoleDefRHS(clients)
			if okd {
				if c, isC := ast.Unparen(rhs).(*ast.CallExpr); isC && exprStr(c.Fun) == "make" && len(c.Args) == 2 {
					lenExpr := exprStr(c.Args[1])
					detail = lenExpr
					// guard lenExpr > 0
					for _, cv := range ag.G.V {
						x, y, op, okc := condParts(cv)
						if !okc || y == nil || exprStr(x) != lenExpr {
							continue
						}
						if k, isK := constInt(ainfo, y); !isK || k != 0 {
							continue
						}
						lab := -1
						switch op {
						case token.GTR, token.NEQ:
							lab = LTrue
						case token.EQL:
							lab = LFalse
						}
						for _, e := range cv.Succs {
							if e.Label == lab && ag.G.EdgeDominates([]Edge{e}, cs.V) {
								ok = true
							}
						}
					}
				}
			}
		}
		r.Check(ok, rule, "clientgroups.(*ClientGroupConfig).AddClientGroup:non-empty@"+exprStr(cs.Call.Fun), cs.Pos(), "built from make(…, "+detail+") under "+detail+" > 0", "a group can be built from an empty client slice (modulo by zero / &clients[0] out of range)")
	}
	// every client copied into the slice comes from the by-name map under the found edge
	r.Floor(rule, 30)
}

// c19BoundedVar: the index is a variable that every reaching definition reduces modulo
// len(slice) (e.g. `i %= n` forms are not accepted: they need a second step that is not atomic).
func c19BoundedVar(fc *FuncCtx, idx ast.Expr, slice string) bool {
	return false
}

func c19R2(p *Prog, r *Report) {
	const rule = "C19-R2"
	r.Rule(rule, "no skipped turn under concurrency: round-robin Select performs exactly one atomic operation on the shared index and it is Add(1) (a separate Load/Store/compare-and-swap pair is not one turn); the index is initialised to the value that makes the first turn index 0; nothing else writes the index")
	pkg := p.Pkg("clientgroups")
	nOps := map[string][]string{}
	var ctorInit map[string]bool
	p.AllFuncs(pkg, func(fc *FuncCtx) {
		for _, ctx := range allCtxs(p, fc) {
			info := ctx.Info()
			for _, cs := range ctx.AllCalls() {
				sel, ok := ast.Unparen(cs.Call.Fun).(*ast.SelectorExpr)
				if !ok {
					continue
				}
				inner, ok := ast.Unparen(sel.X).(*ast.SelectorExpr)
				if !ok || !c19IndexField(info, inner) {
					continue
				}
				key := baseFuncName(ctx)
				nOps[key] = append(nOps[key], sel.Sel.Name+"("+argsStr(cs.Call)+")")
				// init written out in a constructor: the selector is part of a value declared in
				// this very function (not yet published), and the store is the initial one
				isCtor := false
				if key != "Select" && key != "init" {
					if root, _, okp := pathOf(info, inner); okp {
						if rv, isVar := root.(*types.Var); isVar && rv != ctx.RecvObj() {
							isParam := false
							for i := 0; ctx.ParamObj(i) != nil; i++ {
								if ctx.ParamObj(i) == root {
									isParam = true
								}
							}
							if !isParam && len(ctx.Defs(root)) <= 1 {
								isCtor = true
							}
						}
					}
				}
				if isCtor {
					if ctorInit == nil {
						ctorInit = map[string]bool{}
					}
					ctorInit[key] = true
				}
				if key == "init" || isCtor {
					okInit := false
					if sel.Sel.Name == "Store" && len(cs.Call.Args) == 1 {
						if v, isC := constOf(info, cs.Call.Args[0]); isC {
							// value + 1 ≡ 0 (mod 2^k): all ones for the uintptr width
							if u, exact := constant.Uint64Val(constant.ToInt(v)); exact && (u == ^uint64(0) || u == uint64(^uint32(0))) {
								okInit = true
							}
						}
					}
					r.Check(okInit, rule, "clientgroups.(*roundRobinClientSelector).init:first-turn-is-zero", cs.Pos(), "index starts at all-ones so the first Add(1) yields 0", "the counter's initial value does not make the first turn client 0")
				}
			}
		}
	})
	ops := nOps["Select"]
	r.Check(len(ops) == 1 && ops[0] == "Add(1)", rule, "clientgroups.(*roundRobinClientSelector).Select:single-rmw", "clientgroups/clientgroups.go", "one Add(1)", fmt.Sprintf("a turn is not a single atomic Add(1): operations on the index in Select are %v — two concurrent selections can observe the same index or lose an increment, so clients are skipped or repeated", ops))
	for k, v := range nOps {
		if k != "Select" && k != "init" && !ctorInit[k] {
			r.Fail(rule, "clientgroups."+k+":touches-round-robin-index", "clientgroups", fmt.Sprintf("the round-robin index is accessed outside Select/init: %v", v))
		}
	}
	// the value used to index is the Add result masked to non-negative, modulo len
	fc := p.Func("clientgroups", "roundRobinClientSelector", "Select")
	info := fc.Info()
	okUse := false
	for _, ret := range fc.Returns() {
		rs := fc.G.V[ret].Node.(*ast.ReturnStmt)
		if ix, ok := ast.Unparen(fc.Resolve(rs.Results[0])).(*ast.IndexExpr); ok {
			idx := ast.Unparen(fc.Resolve(ix.Index))
			if be, ok := idx.(*ast.BinaryExpr); ok && be.Op == token.REM {
				hasAdd, nonNeg := false, false
				ast.Inspect(be.X, func(n ast.Node) bool {
					if c, ok := n.(*ast.CallExpr); ok {
						if cs, ok := ast.Unparen(c.Fun).(*ast.SelectorExpr); ok && cs.Sel.Name == "Add" {
							if in, ok := ast.Unparen(cs.X).(*ast.SelectorExpr); ok && c19IndexField(info, in) {
								hasAdd = true
							}
						}
					}
					if b, ok := n.(*ast.BinaryExpr); ok && b.Op == token.AND {
						if v, isC := constOf(info, b.Y); isC {
							if u, exact := constant.Uint64Val(constant.ToInt(v)); exact && (u == ^uint64(0)>>1 || u == uint64(^uint32(0)>>1)) {
								nonNeg = true
							}
						}
					}
					return true
				})
				// unsigned modulo needs no mask
				if t, ok := info.TypeOf(be.X).Underlying().(*types.Basic); ok && t.Info()&types.IsUnsigned != 0 {
					nonNeg = true
				}
				okUse = hasAdd && nonNeg
			}
		}
	}
	r.Check(okUse, rule, "clientgroups.(*roundRobinClientSelector).Select:index-from-turn", p.posStr(fc.Body.Pos()), "index = (Add(1) made non-negative) % len", "the index is not the turn number (made non-negative) modulo the group size")
	r.Floor(rule, 3)
}

func argsStr(c *ast.CallExpr) string {
	var s []string
	for _, a := range c.Args {
		s = append(s, exprStr(a))
	}
	return strings.Join(s, ",")
}

// c19Round describes one probing function's round.
type c19Round struct {
	fc        *FuncCtx
	wait      int
	add       int
	rng       *Vertex // range over probeResult
	bestIndex types.Object
}

func c19FindWait(fc *FuncCtx) (wait, add int) {
	wait, add = -1, -1
	for _, cs := range fc.AllCalls() {
		if cs.Fn == nil || cs.Fn.Pkg() == nil || cs.Fn.Pkg().Path() != "sync" {
			continue
		}
		switch cs.Fn.Name() {
		case "Wait":
			wait = cs.V
		case "Add":
			add = cs.V
		}
	}
	return
}

func c19R3(p *Prog, r *Report) {
	const rule = "C19-R3"
	r.Rule(rule, "first-best scan: in each probing loop the scan ranges over the per-client results in configuration order; the best index is (re)declared zero and the best score (re)initialised to the worst possible value inside the round (after the wait); the best is replaced only by the current index and score, only on a strict comparison in the policy's direction (more successes; lower average / lower worst latency); the score is computed from the current client's own history")
	for _, fn := range c19ProbeFuncs {
		fc := p.Inlined(p.Func("clientgroups", "atomicClientSelector", fn))
		info := fc.Info()
		wait, _ := c19FindWait(fc)
		pre := "clientgroups.(*atomicClientSelector)." + fn
		if wait < 0 {
			r.Fail(rule, pre+":wait", p.posStr(fc.Body.Pos()), "no WaitGroup.Wait found")
			continue
		}
		// the scan
		var scan *Vertex
		for _, v := range fc.G.V {
			if v.Kind != VRange {
				continue
			}
			rs := v.Stmt.(*ast.RangeStmt)
			o := objOf(info, rs.X)
			if o == nil {
				continue
			}
			if rhs, _, _, ok := fc.SoleDefRHS(o); ok && c19MakePerClient(fc, rhs) && fc.G.Dominates([]int{wait}, v.ID) {
				scan = v
			}
		}
		if scan == nil {
			r.Fail(rule, pre+":scan", p.posStr(fc.Body.Pos()), "no range over the per-client result slice (make(…, len(pc.clients))) after the wait: the scan order is not recognisably configuration order")
			continue
		}
		rs := scan.Stmt.(*ast.RangeStmt)
		key := objOf(info, rs.Key)
		val := objOf(info, rs.Value)
		if val == nil && key != nil {
			// `for i := range xs { x := xs[i] … }`: the element is the local given xs[i]
			for _, v := range fc.G.V {
				as, ok := v.Node.(*ast.AssignStmt)
				if !ok || len(as.Lhs) != 1 || len(as.Rhs) != 1 || !(rs.Body.Pos() <= as.Pos() && as.End() <= rs.Body.End()) {
					continue
				}
				if ix, isIx := ast.Unparen(as.Rhs[0]).(*ast.IndexExpr); isIx && objOf(info, ix.Index) == key && objOf(info, ix.X) != nil && objOf(info, ix.X) == objOf(info, rs.X) {
					val = objOf(info, as.Lhs[0])
				}
			}
		}
		if val == nil {
			r.Fail(rule, pre+":scan-element", p.posStr(rs.Pos()), "undecided: the scan does not name the current client's history (neither a range value nor a local given results[i])")
			continue
		}
		// best-index: variable assigned the key inside the body
		var bestIdx types.Object
		var updV = -1
		for _, v := range fc.G.V {
			as, ok := v.Node.(*ast.AssignStmt)
			if !ok || len(as.Lhs) != 1 || as.Tok != token.ASSIGN {
				continue
			}
			if key != nil && objOf(info, as.Rhs[0]) == key && rs.Body.Pos() <= as.Pos() && as.End() <= rs.Body.End() {
				bestIdx = objOf(info, as.Lhs[0])
				updV = v.ID
			}
		}
		if bestIdx == nil {
			r.Fail(rule, pre+":best-index", p.posStr(rs.Pos()), "no `best = i` update found in the scan")
			continue
		}
		// the strict comparison guarding the update
		var cmp *Vertex
		var score, best types.Object
		higherBetter := false
		for _, cv := range fc.G.V {
			x, y, op, ok := condParts(cv)
			if !ok || y == nil {
				continue
			}
			for _, e := range cv.Succs {
				if e.Label == LTrue && fc.G.EdgeDominates([]Edge{e}, updV) && rs.Body.Pos() <= cv.Node.Pos() && cv.Node.End() <= rs.Body.End() {
					cmp = cv
					_ = x
					_ = op
				}
			}
		}
		okStrict := false
		detail := "no comparison guards the update"
		if cmp != nil {
			x, y, op, _ := condParts(cmp)
			detail = exprStr(cmp.Node)
			switch op {
			case token.GTR:
				score, best, higherBetter = objOf(info, x), objOf(info, y), true
			case token.LSS:
				score, best, higherBetter = objOf(info, x), objOf(info, y), false
			}
			// mirrored forms: best < score (higher better) / best > score (lower better)
			if score != nil && best != nil {
				// which one is updated together with the index?
				updBest := false
				for _, v := range fc.G.V {
					if as, ok := v.Node.(*ast.AssignStmt); ok && len(as.Lhs) == 1 && objOf(info, as.Lhs[0]) == best && objOf(info, as.Rhs[0]) == score && fc.G.EdgeDominates(trueEdges(cmp), v.ID) {
						updBest = true
					}
				}
				if !updBest {
					// mirrored
					score, best = best, score
					higherBetter = !higherBetter
					for _, v := range fc.G.V {
						if as, ok := v.Node.(*ast.AssignStmt); ok && len(as.Lhs) == 1 && objOf(info, as.Lhs[0]) == best && objOf(info, as.Rhs[0]) == score && fc.G.EdgeDominates(trueEdges(cmp), v.ID) {
							updBest = true
						}
					}
				}
				okStrict = updBest
			}
		}
		r.Check(okStrict, rule, pre+":strict-improvement", p.posStr(rs.Pos()), "best replaced only on "+detail, "the best-so-far is not replaced under a strict comparison of the current score with the best score ("+detail+"): with >= / <= a later client with an equal score wins, not the first in configuration order")
		if !okStrict {
			continue
		}
		// direction per policy: a score that counts successes is maximised; durations are minimised
		isDur := namedTypeName(score.Type()) == "Duration"
		r.Check(isDur != higherBetter, rule, pre+":direction", p.posStr(cmp.Node.Pos()), map[bool]string{true: "more successes is better", false: "lower latency is better"}[higherBetter], "the comparison direction is inverted for this policy (the worst client is selected)")
		// all definitions of best index
		okDefs := true
		bad := ""
		for _, d := range fc.Defs(bestIdx) {
			v := fc.G.V[d]
			switch n := v.Node.(type) {
			case *ast.ValueSpec:
				zero := len(n.Values) == 0
				if len(n.Values) == 1 {
					if k, isC := constInt(info, n.Values[0]); isC && k == 0 {
						zero = true
					}
				}
				if !zero || !fc.G.Dominates([]int{wait}, d) {
					okDefs, bad = false, exprStr(n)
				}
			case *ast.AssignStmt:
				if d == updV {
					continue
				}
				k, isC := constInt(info, n.Rhs[0])
				if !(isC && k == 0 && fc.G.Dominates([]int{wait}, d)) {
					okDefs, bad = false, exprStr(n)
				}
			default:
				okDefs, bad = false, exprStr(v.Node)
			}
		}
		r.Check(okDefs, rule, pre+":scan-starts-at-first-client", p.posStr(rs.Pos()), "best index starts every round at 0", "the best index does not start each round at 0 ("+bad+"): when no client beats the initial score — e.g. all retained probes failed — the group stays on a stale choice instead of the first client in configuration order")
		// best score init: worst value, inside the round
		okInit := true
		badInit := ""
		nInit := 0
		for _, d := range fc.Defs(best) {
			v := fc.G.V[d]
			var init ast.Expr
			switch n := v.Node.(type) {
			case *ast.ValueSpec:
				init = nil // zero value
				// a bare declaration that a plain assignment overwrites before anything else can
				// happen to the variable (`var x T` … `x = worst`, or a named result) is not the
				// initialisation: the assignment is
				overwritten := false
				for _, d2 := range fc.Defs(best) {
					if as2, ok := fc.G.V[d2].Node.(*ast.AssignStmt); ok && d2 != d && as2.Tok == token.ASSIGN && fc.G.Dominates([]int{d}, d2) {
						between := fc.G.ReachAfter(d, func(u *Vertex) bool { return u.ID == d2 }, nil)
						used := false
						for _, u := range fc.G.V {
							if between[u.ID] && u.Node != nil && u.ID != d2 && usesObj(info, u.Node, best, false) {
								used = true
							}
						}
						if !used && !between[fc.G.Exit] {
							overwritten = true
						}
					}
				}
				if overwritten && len(n.Values) == 0 {
					continue
				}
			case *ast.AssignStmt:
				for i, l := range n.Lhs {
					if objOf(info, l) == best && len(n.Lhs) == len(n.Rhs) {
						init = n.Rhs[i]
					}
				}
				if init == nil {
					okInit, badInit = false, exprStr(n)
					continue
				}
				if objOf(info, init) == score && fc.G.EdgeDominates(trueEdges(cmp), d) {
					continue // the update on a strictly better score
				}
			default:
				okInit, badInit = false, exprStr(v.Node)
				continue
			}
			// an initialisation (declaration with or without a value, `:=`, or a plain assignment)
			nInit++
			worst := false
			if higherBetter {
				if init == nil {
					worst = true
				} else if k, isC := constInt(info, init); isC && k <= 0 {
					worst = true
				}
			} else if init != nil {
				s := exprStr(init)
				if strings.HasSuffix(s, "math.MaxInt64") || s == "time.Duration(math.MaxInt64)" {
					worst = true
				}
				// the configured timeout: a failed probe is recorded as exactly this value, so no
				// history can average / peak above it
				if sel, isSel := ast.Unparen(fc.Resolve(init)).(*ast.SelectorExpr); isSel && objOf(info, sel.X) == fc.ParamObj(2) && types.TypeString(info.TypeOf(sel), nil) == "time.Duration" && !c19IsTickerArg(fc, sel.Sel.Name) {
					worst = true
				}
			}
			if !worst || !fc.G.Dominates([]int{wait}, d) {
				okInit, badInit = false, exprStr(v.Node)
			}
		}
		r.Check(okInit && nInit == 1, rule, pre+":best-score-starts-worst", p.posStr(rs.Pos()), "best score starts every round at the worst value", "the best score is not re-initialised each round to the worst possible value ("+badInit+"): a stale or too-good bound keeps better clients from being selected")
		// score derives from the current element
		okScore := false
		for _, d := range fc.Defs(score) {
			if usesObj(info, fc.G.V[d].Node, val, false) {
				okScore = true
			}
		}
		if !okScore {
			// accumulation through an inner range over the value
			for _, v := range fc.G.V {
				if v.Kind == VRange && objOf(info, v.Stmt.(*ast.RangeStmt).X) == val {
					okScore = true
				}
			}
		}
		r.Check(okScore && val != nil, rule, pre+":score-of-current-client", p.posStr(rs.Pos()), "the score is computed from the current client's history", "the score compared is not computed from the current client's own history")
		c19ScoreShape(p, r, rule, pre, fc, fn, score, val)
	}
	r.Floor(rule, 15)
}

func trueEdges(v *Vertex) []Edge {
	var out []Edge
	for _, e := range v.Succs {
		if e.Label == LTrue {
			out = append(out, e)
		}
	}
	return out
}

// c19ScoreShape: the score is the policy's statistic over the whole retained history:
// OnesCount of the bit ring / sum over every slot divided by the slot count / max over every slot.
func c19ScoreShape(p *Prog, r *Report, rule, pre string, fc *FuncCtx, fn string, score, val types.Object) {
	info := fc.Info()
	ok := false
	detail := ""
	for _, d := range fc.Defs(score) {
		n := fc.G.V[d].Node
		s := exprStr(n)
		switch fn {
		case "probeAvailability":
			if strings.Contains(s, "bits.OnesCount("+val.Name()+")") || strings.Contains(s, "bits.OnesCount64(uint64("+val.Name()+"))") {
				ok = true
			}
		case "probeMinMaxLatency":
			if strings.Contains(s, "slices.Max("+val.Name()+"[:])") {
				ok = true
			}
		case "probeLatency":
			// sum of every slot … / len
			if as, isAs := n.(*ast.AssignStmt); isAs && as.Tok == token.QUO_ASSIGN {
				q := exprStr(as.Rhs[0])
				if strings.Contains(q, "len("+val.Name()+")") || strings.Contains(q, "latencyProbeResultSize") {
					ok = true
				}
			}
		}
		detail += s + "; "
	}
	if fn == "probeLatency" && ok {
		// the accumulation ranges over the whole value
		acc := false
		for _, v := range fc.G.V {
			if v.Kind == VRange && objOf(info, v.Stmt.(*ast.RangeStmt).X) == val {
				acc = true
			}
		}
		ok = acc
	}
	r.Check(ok, rule, pre+":statistic", p.posStr(fc.Body.Pos()), "the policy's statistic over the whole retained history", "the score is not the policy's statistic over the whole retained history: "+detail)
}

func c19R4(p *Prog, r *Report) {
	const rule = "C19-R4"
	r.Rule(rule, "previous choice served while probing, results attributed to the right client: the new choice is stored only after the round's wg.Wait(); the stored index equals the scan's best index; wg.Add(len(pc.clients)) precedes one job per element of pc.clients; each job carries the client and the result slot of the same range index and the round number, which is incremented once per round after the wait; every job's Run defers wg.Done() before anything else")
	for _, fn := range c19ProbeFuncs {
		fc := p.Inlined(p.Func("clientgroups", "atomicClientSelector", fn))
		info := fc.Info()
		pre := "clientgroups.(*atomicClientSelector)." + fn
		wait, add := c19FindWait(fc)
		if wait < 0 || add < 0 {
			r.Fail(rule, pre+":store-after-wait", p.posStr(fc.Body.Pos()), "the round has no WaitGroup Add/Wait pair: the choice is published without waiting for the round's probes")
			continue
		}
		// the round's scan and its best index (as found by C19-R3)
		var scanSlice, bestIdx types.Object
		for _, v := range fc.G.V {
			if v.Kind != VRange {
				continue
			}
			rs := v.Stmt.(*ast.RangeStmt)
			o := objOf(info, rs.X)
			if o == nil {
				continue
			}
			if rhs, _, _, ok := fc.SoleDefRHS(o); ok && c19MakePerClient(fc, rhs) && fc.G.Dominates([]int{wait}, v.ID) {
				scanSlice = o
				key := objOf(info, rs.Key)
				for _, u := range fc.G.V {
					as, ok := u.Node.(*ast.AssignStmt)
					if ok && len(as.Lhs) == 1 && as.Tok == token.ASSIGN && key != nil && objOf(info, as.Rhs[0]) == key && rs.Body.Pos() <= as.Pos() && as.End() <= rs.Body.End() {
						bestIdx = objOf(info, as.Lhs[0])
					}
				}
			}
		}
		for _, cs := range fc.AllCalls() {
			if !c19SelectedOp(info, cs.Call, "Store") {
				continue
			}
			// Store after Wait: no path from the ticker case to the store avoiding wait
			okAfter := wait >= 0 && fc.G.Dominates([]int{wait}, cs.V)
			// and within the same round: from the loop head every path to Store passes Wait (no carry over from the previous iteration)
			if okAfter {
				// after the Store, reaching it again requires passing Wait again
				if fc.G.ReachAfter(cs.V, func(v *Vertex) bool { return v.ID == wait }, nil)[cs.V] {
					okAfter = false
				}
			}
			r.Check(okAfter, rule, pre+":store-after-wait", cs.Pos(), "the choice is published only after the round's wait", "the new choice can be published before all probes of the round have finished (or without a new round): a half-measured round decides, and Select does not keep serving the previous choice while probes run")
			// the stored index is the best index: the index variable is the scan's best-index
			// variable, or every definition of it that reaches the store copies that variable
			okIdx := false
			if ue, ok := ast.Unparen(cs.Call.Args[0]).(*ast.UnaryExpr); ok {
				if ix, ok := ast.Unparen(ue.X).(*ast.IndexExpr); ok {
					io := objOf(info, ix.Index)
					if io != nil && bestIdx != nil {
						okIdx = copyOfVar(fc, cs.V, io, bestIdx, 0)
					}
				}
			}
			r.Check(okIdx, rule, pre+":stores-best-index", cs.Pos(), "the published element is the scan's best index", "the published element is not indexed by the scan's best index of this round")
			// a round may skip the store only when the published index already is the best one:
			// the skipping edge is the equality edge of a comparison between the best index and a
			// variable that follows the published index — zero like the constructor's choice at
			// first, and assigned the best index in exactly the rounds that store
			okTrack, whyTrack := c19StoreOrTracked(fc, wait, cs, bestIdx)
			r.Check(okTrack, rule, pre+":every-round-publishes-or-already-best", cs.Pos(), whyTrack, "a round can end with a best index that differs from the published choice without storing it: "+whyTrack)
		}
		// wg.Add(len(pc.clients)) before sends; sends in range over pc.clients
		okAdd := false
		var wgObj types.Object
		if add >= 0 {
			if es, ok := fc.G.V[add].Node.(*ast.ExprStmt); ok {
				if c, ok := es.X.(*ast.CallExpr); ok && len(c.Args) == 1 {
					okAdd = c19LenOfClients(fc, c.Args[0])
					if sel, ok := ast.Unparen(c.Fun).(*ast.SelectorExpr); ok {
						wgObj = objOf(info, sel.X)
					}
				}
			}
		}
		if wc, ok := fc.G.V[wait].Node.(*ast.ExprStmt); ok {
			if c, ok := wc.X.(*ast.CallExpr); ok {
				if sel, ok := ast.Unparen(c.Fun).(*ast.SelectorExpr); ok && objOf(info, sel.X) != wgObj {
					wgObj = nil // Add and Wait on different WaitGroups
				}
			}
		}
		// the interval is the configuration's duration handed to the ticker; the timeout is the other one
		intervalField := ""
		for _, cs := range fc.AllCalls() {
			if cs.Fn != nil && (cs.Fn.FullName() == "time.NewTicker" || cs.Fn.FullName() == "time.NewTimer" || cs.Fn.FullName() == "time.Tick") && len(cs.Call.Args) == 1 {
				if sel, ok := ast.Unparen(fc.Resolve(cs.Call.Args[0])).(*ast.SelectorExpr); ok {
					intervalField = sel.Sel.Name
				}
			}
		}
		var sendV *Vertex
		for _, v := range fc.G.V {
			if s, ok := v.Node.(*ast.SendStmt); ok {
				_ = s
				sendV = v
			}
		}
		okSend := false
		var countVar types.Object
		if sendV != nil && add >= 0 {
			// enclosing range over pc.clients
			for _, v := range fc.G.V {
				if v.Kind != VRange {
					continue
				}
				rs := v.Stmt.(*ast.RangeStmt)
				if c19ClientsField(info, fc.Resolve(rs.X)) && rs.Body.Pos() <= sendV.Node.Pos() && sendV.Node.End() <= rs.Body.End() {
					// exactly one send per iteration: the send dominates the back edge
					okSend = fc.G.Dominates([]int{add}, v.ID) && fc.G.Dominates([]int{v.ID}, wait)
					lit, _ := ast.Unparen(fc.Resolve(sendV.Node.(*ast.SendStmt).Value)).(*ast.CompositeLit)
					key, val := objOf(info, rs.Key), objOf(info, rs.Value)
					var okClient, okResult, okCount, okTimeout, okWG bool
					if lit != nil {
						for _, el := range lit.Elts {
							kv, ok := el.(*ast.KeyValueExpr)
							if !ok {
								continue
							}
							kid, ok := kv.Key.(*ast.Ident)
							if !ok {
								continue
							}
							fld, _ := info.Uses[kid].(*types.Var)
							if fld == nil {
								continue
							}
							value := fc.Resolve(kv.Value)
							switch c19JobRole(fld.Type()) {
							case "client":
								okClient = val != nil && objOf(info, kv.Value) == val
							case "result":
								if ue, ok := ast.Unparen(value).(*ast.UnaryExpr); ok && ue.Op == token.AND {
									if ix, ok := ast.Unparen(ue.X).(*ast.IndexExpr); ok && key != nil && objOf(info, ix.Index) == key && scanSlice != nil && objOf(info, ix.X) == scanSlice {
										okResult = true
									}
								}
							case "count":
								countVar = objOf(info, kv.Value)
								okCount = countVar != nil
							case "timeout":
								if sel, ok := ast.Unparen(value).(*ast.SelectorExpr); ok && objOf(info, sel.X) == fc.ParamObj(2) && intervalField != "" && sel.Sel.Name != intervalField {
									okTimeout = true
								}
							case "wg":
								if ue, ok := ast.Unparen(value).(*ast.UnaryExpr); ok && ue.Op == token.AND && wgObj != nil && objOf(info, ue.X) == wgObj {
									okWG = true
								}
							}
						}
					}
					r.Check(okClient && okResult, rule, pre+":job-pairs-client-with-its-slot", p.posStr(sendV.Node.Pos()), "job i probes client i into result i", "a job's client and result slot do not belong to the same index: outcomes are credited to the wrong client")
					r.Check(okCount && okTimeout && okWG, rule, pre+":job-carries-round", p.posStr(sendV.Node.Pos()), "job carries the round number, the timeout and the round's WaitGroup", "a job does not carry the round number / configured timeout / the round's WaitGroup")
				}
			}
		}
		r.Check(okAdd && okSend, rule, pre+":one-job-per-client", p.posStr(fc.Body.Pos()), "wg.Add(len(pc.clients)) then one job per client, then Wait", "the WaitGroup count does not match one job per client before the wait (the wait returns early or never)")
		// probeCount++ exactly once per round after wait
		nInc := 0
		okInc := true
		for _, v := range fc.G.V {
			if inc, ok := v.Node.(*ast.IncDecStmt); ok && countVar != nil && objOf(info, inc.X) == countVar && inc.Tok == token.INC {
				nInc++
				if !fc.G.Dominates([]int{wait}, v.ID) {
					okInc = false
				}
				// and it is on every path from wait back to the loop head
				if fc.G.ReachAfter(wait, func(u *Vertex) bool { return u.ID == v.ID }, nil)[wait] {
					okInc = false
				}
			}
		}
		// no other write to the round counter
		if countVar != nil {
			for _, d := range fc.Defs(countVar) {
				if _, isInc := fc.G.V[d].Node.(*ast.IncDecStmt); !isInc {
					if _, isSpec := fc.G.V[d].Node.(*ast.ValueSpec); !isSpec {
						if as, isAs := fc.G.V[d].Node.(*ast.AssignStmt); !isAs || as.Tok != token.DEFINE {
							okInc = false
						}
					}
				}
			}
		}
		r.Check(nInc == 1 && okInc, rule, pre+":round-counter", p.posStr(fc.Body.Pos()), "the round number advances once per round", "the round number does not advance exactly once per completed round: history slots are overwritten or skipped")
	}
	for _, tn := range []string{"availabilityProbeJob", "latencyProbeJob"} {
		fc := p.Func("clientgroups", tn, "Run")
		jn := c19JobNorm(p, fc)
		ok := false
		if len(fc.Body.List) > 0 {
			if d, isD := fc.Body.List[0].(*ast.DeferStmt); isD {
				if sel, isSel := ast.Unparen(d.Call.Fun).(*ast.SelectorExpr); isSel && sel.Sel.Name == "Done" && jn(sel.X) == "recv.<wg>" {
					ok = true
				}
			}
		}
		r.Check(ok, rule, "clientgroups.(*"+tn+").Run:done-on-every-path", p.posStr(fc.Body.Pos()), "wg.Done is deferred first", "the job does not defer wg.Done() first: a panicking or early-returning probe leaves the round waiting forever")
	}
	r.Floor(rule, 20)
}

func c19R5(p *Prog, r *Report) {
	const rule = "C19-R5"
	r.Rule(rule, "history ring: each job writes the slot count mod ring-size of its own result, with the ring size equal to the storage (bits.UintSize for the uint bit ring, the array length for latencies); on the probe's err == nil edge the success bit is set / the measured time since the job's start is stored, on the other edge the same bit is cleared / the configured timeout is stored; the probe runs under the job's timeout")
	// All expressions of a job's Run are compared after (1) resolving locals to their definitions,
	// (2) folding constants and (3) renaming the job's fields to their roles, which are told apart
	// by type (see c19JobRoles): names of fields, locals and receivers do not matter.
	// availability
	av := p.Func("clientgroups", "availabilityProbeJob", "Run")
	an := c19JobNorm(p, av)
	uintBits := fmt.Sprint(bitsUintSize(p))
	wantMask := "(1 << (recv.<count> % " + uintBits + "))"
	nMask := 0
	c19Branches(p, r, rule, av, "availabilityProbeJob", an, func(n ast.Node, success bool) bool {
		as, ok := n.(*ast.AssignStmt)
		if !ok || len(as.Lhs) != 1 || len(as.Rhs) != 1 || an(as.Lhs[0]) != "*recv.<result>" {
			return false
		}
		if an(as.Rhs[0]) != wantMask {
			return false
		}
		nMask++
		if success {
			return as.Tok == token.OR_ASSIGN
		}
		return as.Tok == token.AND_NOT_ASSIGN
	})
	r.Check(nMask > 0, rule, "clientgroups.(*availabilityProbeJob).Run:slot", p.posStr(av.Body.Pos()), "the bit written is uint(1) << (count % bits.UintSize)", "the bit for this round is not uint(1) << (count % bits.UintSize)")
	// latency
	lt := p.Func("clientgroups", "latencyProbeJob", "Run")
	ln := c19JobNorm(p, lt)
	linfo := lt.Info()
	// ring size equals the array length: the slot index must be count modulo the length of the
	// array the result pointer points to
	ringLen := int64(-1)
	if fld := c19JobFieldType(lt, "result"); fld != nil {
		if pt, ok := fld.Underlying().(*types.Pointer); ok {
			if at, ok := pt.Elem().Underlying().(*types.Array); ok {
				ringLen = at.Len()
			}
		}
	}
	wantSlot := fmt.Sprintf("(recv.<count> %% %d)", ringLen)
	nSlot, nBadSlot := 0, 0
	for _, v := range lt.G.V {
		as, ok := v.Node.(*ast.AssignStmt)
		if !ok || len(as.Lhs) != 1 {
			continue
		}
		if ix, ok := ast.Unparen(as.Lhs[0]).(*ast.IndexExpr); ok && ln(ix.X) == "recv.<result>" {
			nSlot++
			if ln(ix.Index) != wantSlot {
				nBadSlot++
			}
		}
	}
	r.Check(ringLen > 0 && nSlot > 0 && nBadSlot == 0, rule, "clientgroups.latencyProbeJob:ring-size", p.posStr(lt.Body.Pos()), "every write goes to slot count % (array length)", "the latency ring's modulus differs from the array length (or a write does not use count modulo the array length)")
	c19Branches(p, r, rule, lt, "latencyProbeJob", ln, func(n ast.Node, success bool) bool {
		as, ok := n.(*ast.AssignStmt)
		if !ok || len(as.Lhs) != 1 || len(as.Rhs) != 1 || as.Tok != token.ASSIGN {
			return false
		}
		ix, ok := ast.Unparen(as.Lhs[0]).(*ast.IndexExpr)
		if !ok || ln(ix.X) != "recv.<result>" || ln(ix.Index) != wantSlot {
			return false
		}
		if success {
			c, ok := ast.Unparen(lt.Resolve(as.Rhs[0])).(*ast.CallExpr)
			if !ok || len(c.Args) != 1 {
				return false
			}
			fn := Callee(linfo, c)
			if fn == nil || fn.FullName() != "time.Since" {
				return false
			}
			start := objOf(linfo, c.Args[0])
			return start != nil && lt.SoleDefRHSIs(start, "time.Now()")
		}
		return ln(as.Rhs[0]) == "recv.<timeout>"
	})
	// probes run under the timeout
	for _, fc := range []*FuncCtx{av, lt} {
		jn := c19JobNorm(p, fc)
		ok := false
		for _, cs := range fc.AllCalls() {
			if cs.Fn == nil || cs.Fn.Pkg() == nil || cs.Fn.Pkg().Path() != "context" {
				continue
			}
			switch cs.Fn.Name() {
			case "WithTimeout":
				ok = jn(cs.Call.Args[1]) == "recv.<timeout>"
			case "WithDeadline":
				// <a time.Now() value>.Add(timeout)
				if c, isC := ast.Unparen(fc.Resolve(cs.Call.Args[1])).(*ast.CallExpr); isC && len(c.Args) == 1 {
					if fn := Callee(fc.Info(), c); fn != nil && fn.FullName() == "(time.Time).Add" && jn(c.Args[0]) == "recv.<timeout>" {
						sel := ast.Unparen(c.Fun).(*ast.SelectorExpr)
						if o := objOf(fc.Info(), sel.X); o != nil && fc.SoleDefRHSIs(o, "time.Now()") {
							ok = true
						}
					}
				}
			}
		}
		r.Check(ok, rule, "clientgroups."+fc.Name+":runs-under-timeout", p.posStr(fc.Body.Pos()), "the probe's context expires after the job's timeout", "the probe is not bounded by the configured timeout")
	}
	r.Floor(rule, 8)
}

func fieldType(fc *FuncCtx, name string) types.Type {
	recv := fc.RecvObj()
	if recv == nil {
		return nil
	}
	t := recv.Type()
	if pt, ok := t.Underlying().(*types.Pointer); ok {
		t = pt.Elem()
	}
	st, ok := t.Underlying().(*types.Struct)
	if !ok {
		return nil
	}
	for i := 0; i < st.NumFields(); i++ {
		if st.Field(i).Name() == name {
			return st.Field(i).Type()
		}
	}
	return nil
}

// SoleDefRHSIs: obj has a single definition whose right-hand side prints as s.
func (fc *FuncCtx) SoleDefRHSIs(obj types.Object, s string) bool {
	rhs, _, _, ok := fc.SoleDefRHS(obj)
	return ok && exprStr(rhs) == s
}

// c19Branches: the probe call's err == nil edge leads to a success write, the other edge to
// a failure write, and every path from the probe to exit performs exactly the edge's write.
func c19Branches(p *Prog, r *Report, rule string, fc *FuncCtx, tn string, jn func(ast.Expr) string, isWrite func(n ast.Node, success bool) bool) {
	var probe *CallSite
	for _, cs := range fc.AllCalls() {
		if cs.Fn == nil && jn(cs.Call.Fun) == "recv.<probe>" {
			c := cs
			probe = &c
		}
	}
	pre := "clientgroups.(*" + tn + ").Run"
	if probe == nil {
		r.Fail(rule, pre+":probe-call", p.posStr(fc.Body.Pos()), "the job does not call its probe function")
		return
	}
	info := fc.Info()
	okClient := len(probe.Call.Args) == 2 && jn(probe.Call.Args[1]) == "recv.<client>"
	_ = info
	r.Check(okClient, rule, pre+":probes-own-client", probe.Pos(), "probes j.client", "the job does not probe its own client")
	for _, side := range []struct {
		want    Want
		success bool
		name    string
	}{{WantNil, true, "success"}, {WantNonNil, false, "failure"}} {
		edges := probe.ResultEdges(-1, side.want)
		ok := len(edges) > 0
		for _, e := range edges {
			// every path from e to exit passes a write of this side and none of the other side
			var mine, other []int
			for _, v := range fc.G.V {
				if v.Node == nil {
					continue
				}
				// a store whose value is a local set differently on the two edges (`x := failure
				// value; if err == nil { x = success value }; slot = x`) is judged by what the
				// local holds when the store is reached from this edge
				variants := []ast.Node{v.Node}
				if as, isAs := v.Node.(*ast.AssignStmt); isAs && len(as.Lhs) == 1 && len(as.Rhs) == 1 && as.Tok == token.ASSIGN {
					if lo, isVar := objOf(info, as.Rhs[0]).(*types.Var); isVar && !lo.IsField() && len(fc.Defs(lo)) > 1 {
						variants = nil
						for _, d := range defsReachingFromEdge(fc, e, lo, v.ID) {
							var rhs ast.Expr
							if da, ok := fc.G.V[d].Node.(*ast.AssignStmt); ok && len(da.Lhs) == len(da.Rhs) {
								for i, l := range da.Lhs {
									if objOf(info, l) == types.Object(lo) {
										rhs = da.Rhs[i]
									}
								}
							}
							if rhs == nil {
								variants = []ast.Node{v.Node}
								break
							}
							variants = append(variants, &ast.AssignStmt{Lhs: as.Lhs, TokPos: as.TokPos, Tok: as.Tok, Rhs: []ast.Expr{rhs}})
						}
					}
				}
				allMine, anyOther := len(variants) > 0, false
				for _, n := range variants {
					if !isWrite(n, side.success) {
						allMine = false
					}
					if isWrite(n, !side.success) {
						anyOther = true
					}
				}
				if allMine {
					mine = append(mine, v.ID)
				}
				if anyOther {
					other = append(other, v.ID)
				}
			}
			isMine := map[int]bool{}
			for _, m := range mine {
				isMine[m] = true
			}
			reach := fc.G.Reach([]int{e.To}, func(v *Vertex) bool { return isMine[v.ID] }, nil)
			if reach[fc.G.Exit] || len(mine) == 0 {
				ok = false
			}
			all := fc.G.Reach([]int{e.To}, nil, nil)
			for _, o := range other {
				if all[o] {
					ok = false
				}
			}
		}
		why := map[bool]string{true: "a successful probe does not record success (set bit / measured latency) in this round's slot", false: "a failed probe is not recorded as a failure (cleared bit / the timeout) in this round's slot"}[side.success]
		r.Check(ok, rule, pre+":records-"+side.name, probe.Pos(), "the "+side.name+" edge writes this round's slot accordingly", why)
	}
}

func c19R6(p *Prog, r *Report) {
	const rule = "C19-R6"
	r.Rule(rule, "what counts as a successful probe: the TCP probe returns nil only past a successful dial through the client, a successfully read response and the status == 204 edge; the UDP probe returns nil only past a successful session, send, unpack, a matching transaction ID, the response bit and RCODE success")
	tp := p.Func("probe", "TCPProbe", "Probe")
	up := p.Func("probe", "UDPProbe", "Probe")
	for _, fc := range []*FuncCtx{tp, up} {
		pre := fc.Name
		var need [][]Edge
		var names []string
		for _, cs := range fc.AllCalls() {
			if cs.Fn == nil {
				continue
			}
			switch cs.Fn.Name() {
			case "DialStream", "ReadResponse", "NewSession", "ListenUDP", "PackInPlace", "WriteToUDPAddrPort", "UnpackInPlace", "Start":
				if es := cs.ResultEdges(-1, WantNil); len(es) > 0 {
					need = append(need, es)
					names = append(names, cs.Fn.Name()+" ok")
				} else {
					r.Fail(rule, pre+":"+cs.Fn.Name()+"-checked", cs.Pos(), "the error of "+cs.Fn.Name()+" is not tested")
				}
			}
		}
		for _, cv := range fc.G.V {
			x, y, op, ok := condParts(cv)
			if !ok {
				continue
			}
			s := strings.ReplaceAll(exprStr(cv.Node), " ", "")
			lab := -1
			// conditions told by the field selected and the type it is selected from, so that
			// the names of the locals do not matter: <http.Response>.StatusCode vs
			// http.StatusNoContent, <dnsmessage.Header>.ID vs <…Header>.ID, <Header>.RCode vs
			// RCodeSuccess, <Header>.Response
			fieldOf := func(e ast.Expr) string {
				sel, ok := ast.Unparen(e).(*ast.SelectorExpr)
				if !ok {
					return ""
				}
				return namedTypeName(fc.Info().TypeOf(sel.X)) + "." + sel.Sel.Name
			}
			kind := ""
			if y != nil {
				fx, fy := fieldOf(x), fieldOf(y)
				cx, cy := exprStr(x), exprStr(y)
				switch {
				case (fx == "Response.StatusCode" && cy == "http.StatusNoContent") || (fy == "Response.StatusCode" && cx == "http.StatusNoContent"):
					kind = "status == 204"
				case fx == "Header.ID" && fy == "Header.ID":
					kind = "transaction ID matches"
				case (fx == "Header.RCode" && cy == "dnsmessage.RCodeSuccess") || (fy == "Header.RCode" && cx == "dnsmessage.RCodeSuccess"):
					kind = "RCODE success"
				}
				if kind != "" {
					switch op {
					case token.EQL:
						lab = LTrue
					case token.NEQ:
						lab = LFalse
					default:
						kind = ""
					}
				}
			} else if fieldOf(x) == "Header.Response" {
				kind, lab = "response bit", LTrue
			}
			if kind != "" {
				s = kind
			}
			_, _, _ = x, y, op
			if lab >= 0 {
				var es []Edge
				for _, e := range cv.Succs {
					if e.Label == lab {
						es = append(es, e)
					}
				}
				need = append(need, es)
				names = append(names, s)
			}
		}
		nNil := 0
		for _, ret := range fc.Returns() {
			if fc.ErrAtReturn(ret) == ErrNonNil {
				continue
			}
			if rs := fc.G.V[ret].Node.(*ast.ReturnStmt); len(rs.Results) == 1 && !isNilExpr(fc.Info(), rs.Results[0]) {
				// `return err` where err is the tested non-nil error
				continue
			}
			nNil++
			for i, es := range need {
				r.Check(fc.G.EdgeDominates(es, ret), rule, pre+":success-only-past:"+names[i], p.posStr(fc.G.V[ret].Node.Pos()), "success lies past "+names[i], "the probe can report success without "+names[i]+": a dead client is counted as available")
			}
		}
		want := 3
		if fc == up {
			want = 9
		}
		r.Check(nNil == 1 && len(need) >= want, rule, pre+":one-success-return", p.posStr(fc.Body.Pos()), fmt.Sprintf("one success return, %d conditions", len(need)), fmt.Sprintf("%d success returns, %d of at least %d success conditions recognised", nNil, len(need), want))
	}
	r.Floor(rule, 12)
}

// Role predicates by type: the rules do not depend on the names of fields and locals.

func isSliceType(t types.Type) bool {
	if t == nil {
		return false
	}
	_, ok := t.Underlying().(*types.Slice)
	return ok
}

func c19FieldOf(info *types.Info, e ast.Expr) (owner string, f *types.Var) {
	sel, ok := ast.Unparen(e).(*ast.SelectorExpr)
	if !ok {
		return "", nil
	}
	s := info.Selections[sel]
	if s == nil || s.Kind() != types.FieldVal {
		return "", nil
	}
	v, _ := s.Obj().(*types.Var)
	return namedTypeName(s.Recv()), v
}

// c19ClientsField: e selects the slice-typed field of a selector or of the probe configuration
// (the group's client list).
func c19ClientsField(info *types.Info, e ast.Expr) bool {
	owner, f := c19FieldOf(info, e)
	return f != nil && isSliceType(f.Type()) && (strings.HasSuffix(owner, "ClientSelector") || owner == "probeConfig")
}

// c19SelectedOp: call is the named method of the atomic.Pointer field of atomicClientSelector.
func c19SelectedOp(info *types.Info, call *ast.CallExpr, name string) bool {
	if !isAtomicPointerOp(Callee(info, call), name) {
		return false
	}
	sel, ok := ast.Unparen(call.Fun).(*ast.SelectorExpr)
	if !ok {
		return false
	}
	owner, f := c19FieldOf(info, sel.X)
	return f != nil && owner == "atomicClientSelector"
}

// c19IndexField: e selects the atomic.Uintptr field of roundRobinClientSelector (the turn counter).
func c19IndexField(info *types.Info, e ast.Expr) bool {
	owner, f := c19FieldOf(info, e)
	return f != nil && owner == "roundRobinClientSelector" && types.TypeString(f.Type(), nil) == "sync/atomic.Uintptr"
}

// c19IsSelectCall: e is a call of a *ClientSelector's Select method.
func c19IsSelectCall(info *types.Info, e ast.Expr) bool {
	c, ok := ast.Unparen(e).(*ast.CallExpr)
	if !ok {
		return false
	}
	fn := Callee(info, c)
	return fn != nil && fn.Name() == "Select" && strings.HasSuffix(namedTypeName(recvTypeOf(fn)), "ClientSelector")
}

// c19MakePerClient: rhs is make(T, len(<the probe configuration's client list>)).
func c19MakePerClient(fc *FuncCtx, rhs ast.Expr) bool {
	c, ok := ast.Unparen(rhs).(*ast.CallExpr)
	if !ok || len(c.Args) != 2 {
		return false
	}
	if id, ok := ast.Unparen(c.Fun).(*ast.Ident); !ok || id.Name != "make" {
		return false
	}
	return c19LenOfClients(fc, c.Args[1])
}

// c19LenOfClients: e is len(<the client list>), possibly through a local (n := len(pc.clients)).
func c19LenOfClients(fc *FuncCtx, e ast.Expr) bool {
	l, ok := ast.Unparen(fc.Resolve(e)).(*ast.CallExpr)
	if !ok || len(l.Args) != 1 {
		return false
	}
	if id, ok := ast.Unparen(l.Fun).(*ast.Ident); !ok || id.Name != "len" {
		return false
	}
	return c19ClientsField(fc.Info(), fc.Resolve(l.Args[0]))
}

// c19JobRole tells a probe job's fields apart by type: the WaitGroup pointer, the probe function,
// the timeout, the client (the type parameter), the result pointer and the round counter.
func c19JobRole(t types.Type) string {
	switch u := t.(type) {
	case *types.TypeParam:
		return "client"
	case *types.Pointer:
		if types.TypeString(u.Elem(), nil) == "sync.WaitGroup" {
			return "wg"
		}
		return "result"
	case *types.Signature:
		return "probe"
	}
	if types.TypeString(t, nil) == "time.Duration" {
		return "timeout"
	}
	if b, ok := t.Underlying().(*types.Basic); ok && b.Info()&types.IsInteger != 0 {
		return "count"
	}
	return ""
}

func c19JobStruct(fc *FuncCtx) *types.Struct {
	recv := fc.RecvObj()
	if recv == nil {
		return nil
	}
	t := recv.Type()
	if pt, ok := t.Underlying().(*types.Pointer); ok {
		t = pt.Elem()
	}
	st, _ := t.Underlying().(*types.Struct)
	return st
}

// c19JobFieldType returns the type of the job field playing the given role.
func c19JobFieldType(fc *FuncCtx, role string) types.Type {
	st := c19JobStruct(fc)
	if st == nil {
		return nil
	}
	for i := 0; i < st.NumFields(); i++ {
		if c19JobRole(st.Field(i).Type()) == role {
			return st.Field(i).Type()
		}
	}
	return nil
}

// c19JobNorm returns the normaliser for expressions of a job method: locals resolved, constants
// folded, the receiver written "recv" and each of its fields written "<role>".
func c19JobNorm(p *Prog, fc *FuncCtx) func(ast.Expr) string {
	st := c19JobStruct(fc)
	type fr struct {
		re *regexp.Regexp
		to string
	}
	var subs []fr
	if st != nil {
		seen := map[string]bool{}
		for i := 0; i < st.NumFields(); i++ {
			role := c19JobRole(st.Field(i).Type())
			if role == "" || seen[role] {
				role = "?" + st.Field(i).Name() // ambiguous or unknown: never matches a pattern
			}
			seen[role] = true
			subs = append(subs, fr{regexp.MustCompile(`recv\.` + regexp.QuoteMeta(st.Field(i).Name()) + `\b`), "recv.<" + role + ">"})
		}
	}
	return func(e ast.Expr) string {
		s := normExpr(p, fc, e)
		for _, x := range subs {
			s = x.re.ReplaceAllString(s, x.to)
		}
		return s
	}
}

// bitsUintSize: math/bits.UintSize on the analysed platform.
func bitsUintSize(p *Prog) int64 {
	for _, pkg := range p.All {
		if pkg.PkgPath == "math/bits" && pkg.Types != nil {
			if c, ok := pkg.Types.Scope().Lookup("UintSize").(*types.Const); ok {
				if k, exact := constant.Int64Val(c.Val()); exact {
					return k
				}
			}
		}
	}
	return 64
}

// copyOfVar: at vertex `at`, obj is target itself or every definition of obj reaching `at` is a
// plain copy (x = y / x := y) of a variable that is, at that definition, a copy of target.
func copyOfVar(fc *FuncCtx, at int, obj, target types.Object, depth int) bool {
	if obj == target {
		return true
	}
	if depth > 4 {
		return false
	}
	info := fc.Info()
	defs := fc.ReachingDefs(at, obj)
	if len(defs) == 0 {
		return false
	}
	for _, d := range defs {
		if d == fc.G.Entry {
			return false
		}
		var rhs ast.Expr
		switch n := fc.G.V[d].Node.(type) {
		case *ast.AssignStmt:
			if len(n.Lhs) != len(n.Rhs) {
				return false
			}
			for i, l := range n.Lhs {
				if objOf(info, l) == obj {
					rhs = n.Rhs[i]
				}
			}
		case *ast.ValueSpec:
			for i, id := range n.Names {
				if info.Defs[id] == obj && i < len(n.Values) {
					rhs = n.Values[i]
				}
			}
		}
		if rhs == nil {
			return false
		}
		src := objOf(info, rhs)
		if src == nil || !copyOfVar(fc, d, src, target, depth+1) {
			return false
		}
	}
	return true
}

// c19IsTickerArg: the configuration field of that name is the one handed to time.NewTicker (the
// probing interval, as opposed to the per-probe timeout).
func c19IsTickerArg(fc *FuncCtx, field string) bool {
	for _, cs := range fc.AllCalls() {
		if cs.Fn != nil && (cs.Fn.FullName() == "time.NewTicker" || cs.Fn.FullName() == "time.NewTimer" || cs.Fn.FullName() == "time.Tick") && len(cs.Call.Args) == 1 {
			if sel, ok := ast.Unparen(fc.Resolve(cs.Call.Args[0])).(*ast.SelectorExpr); ok && sel.Sel.Name == field {
				return true
			}
		}
	}
	return false
}

// c19R7: each policy's constructor starts that policy's probing loop. The group constructors of
// the two probe configurations (TCP and UDP) are siblings: new<Policy>ClientGroup hands
// newAtomicClientGroup a start function whose goroutine runs the selector's probe<Policy>; the
// two siblings agree, and the name of the probing method is the policy of the constructor.
func c19R7(p *Prog, r *Report) {
	const rule = "C19-R7"
	r.Rule(rule, "policy wiring: for both probe configurations, new<Policy>ClientGroup starts exactly one probing goroutine and it runs atomicClientSelector.probe<Policy> (availability, latency, min-max latency); the TCP and UDP siblings start the same method for the same policy")
	started := map[string]map[string]string{} // policy -> config type -> probing method
	for _, tn := range []string{"TCPConnectivityProbeConfig", "UDPConnectivityProbeConfig"} {
		for _, pol := range []string{"Availability", "Latency", "MinMaxLatency"} {
			fc := p.LookupFunc("clientgroups", tn, "new"+pol+"ClientGroup")
			if fc == nil {
				r.Fail(rule, "clientgroups.(*"+tn+").new"+pol+"ClientGroup:exists", "", "constructor not found")
				continue
			}
			var methods []string
			for _, ctx := range allCtxs(p, fc) {
				for _, v := range ctx.G.V {
					gs, ok := v.Node.(*ast.GoStmt)
					if !ok {
						continue
					}
					if fn := Callee(ctx.Info(), gs.Call); fn != nil && namedTypeName(recvTypeOf(fn)) == "atomicClientSelector" {
						methods = append(methods, fn.Name())
					}
				}
			}
			construct := "clientgroups.(*" + tn + ").new" + pol + "ClientGroup:starts-probe" + pol
			r.Check(len(methods) == 1 && methods[0] == "probe"+pol, rule, construct, p.posStr(fc.Body.Pos()), "starts probe"+pol, fmt.Sprintf("the %s group of %s starts %v instead of probe%s: clients are ranked by another policy's statistic than the one configured", pol, tn, methods, pol))
			if started[pol] == nil {
				started[pol] = map[string]string{}
			}
			if len(methods) == 1 {
				started[pol][tn] = methods[0]
			}
		}
	}
	for pol, m := range started {
		r.Check(len(m) == 2 && m["TCPConnectivityProbeConfig"] == m["UDPConnectivityProbeConfig"], rule, "clientgroups:siblings-agree:"+pol, "clientgroups/probe.go", "TCP and UDP start the same probing method", fmt.Sprintf("the TCP and UDP constructors of the %s policy start different probing methods: %v", pol, m))
	}
	r.Floor(rule, 6)
}

// c19StoreOrTracked decides that every path from the round's wait to the next wait passes the
// store, or leaves on the equality edge of `cur != best` / `cur == best` where cur is a variable
// that always equals the published index (see the call site).
func c19StoreOrTracked(fc *FuncCtx, wait int, store CallSite, bestIdx types.Object) (bool, string) {
	info := fc.Info()
	if bestIdx == nil {
		return false, "the scan's best index was not found"
	}
	// paths of one round that avoid the store
	skip := fc.G.ReachAfter(wait, func(v *Vertex) bool { return v.ID == store.V || v.ID == wait }, nil)
	reWait := false
	for _, e := range fc.G.V[wait].Preds {
		if skip[e.From] {
			reWait = true
		}
	}
	if !reWait && !skip[fc.G.Exit] {
		return true, "every round stores"
	}
	// the comparison whose equality edge the skipping paths must cross
	var cur types.Object
	var eqEdges []Edge
	for _, v := range fc.G.V {
		x, y, op, ok := condParts(v)
		if !ok || y == nil || (op != token.EQL && op != token.NEQ) {
			continue
		}
		xo, yo := objOf(info, x), objOf(info, y)
		var other types.Object
		switch {
		case xo != nil && copyOfVar(fc, v.ID, xo, bestIdx, 0):
			other = yo
		case yo != nil && copyOfVar(fc, v.ID, yo, bestIdx, 0):
			other = xo
		}
		if other == nil || !skip[v.ID] && !fc.G.Dominates([]int{v.ID}, store.V) {
			continue
		}
		if cur != nil && cur != other {
			return false, "the best index is compared with several variables"
		}
		cur = other
		lab := LTrue
		if op == token.NEQ {
			lab = LFalse
		}
		for _, e := range v.Succs {
			if e.Label == lab {
				eqEdges = append(eqEdges, e)
			}
		}
	}
	if cur == nil {
		return false, "a round can skip the store without comparing the best index with the current choice"
	}
	// every skipping path crosses an equality edge
	isEq := map[Edge]bool{}
	for _, e := range eqEdges {
		isEq[e] = true
	}
	plain := fc.G.ReachAfter(wait, func(v *Vertex) bool { return v.ID == store.V || v.ID == wait }, func(e Edge) bool { return isEq[e] })
	for _, e := range fc.G.V[wait].Preds {
		if plain[e.From] {
			return false, "a round can skip the store without the best index being equal to " + cur.Name()
		}
	}
	// cur follows the published index
	nSet := 0
	for _, d := range fc.Defs(cur) {
		switch n := fc.G.V[d].Node.(type) {
		case *ast.ValueSpec:
			if len(n.Values) == 0 {
				continue
			}
			return false, cur.Name() + " does not start at the constructor's choice (index 0)"
		case *ast.AssignStmt:
			var rhs ast.Expr
			if len(n.Lhs) == len(n.Rhs) {
				for i, l := range n.Lhs {
					if objOf(info, l) == cur {
						rhs = n.Rhs[i]
					}
				}
			}
			if rhs == nil {
				return false, cur.Name() + " is assigned something other than the best index"
			}
			if k, isC := constInt(info, rhs); isC && k == 0 && n.Tok == token.DEFINE && !fc.G.ReachAfter(wait, nil, nil)[d] {
				continue // declared zero before the first round
			}
			ro := objOf(info, rhs)
			if ro == nil || !copyOfVar(fc, d, ro, bestIdx, 0) {
				return false, cur.Name() + " is assigned something other than the best index"
			}
			nSet++
			// in exactly the rounds that store
			if skip[d] && !plain[d] {
				continue // reached (around the store) only past cur == best: assigning the best index changes nothing
			}
			if skip[d] {
				// assigned before the store: the store follows on every path to the next round
				afterD := fc.G.ReachAfter(d, func(v *Vertex) bool { return v.ID == store.V || v.ID == wait }, nil)
				for _, e := range fc.G.V[wait].Preds {
					if afterD[e.From] {
						return false, cur.Name() + " can change in a round that does not store"
					}
				}
			}
		default:
			return false, cur.Name() + " is modified by " + exprStr(fc.G.V[d].Node)
		}
	}
	// a round that stores also updates cur: no path from the wait through the store to the next wait avoids every assignment
	isSet := map[int]bool{}
	for _, d := range fc.Defs(cur) {
		if _, ok := fc.G.V[d].Node.(*ast.AssignStmt); ok && fc.G.ReachAfter(wait, nil, nil)[d] {
			isSet[d] = true
		}
	}
	noSet := fc.G.ReachAfter(wait, func(v *Vertex) bool { return isSet[v.ID] || v.ID == wait }, nil)
	if noSet[store.V] {
		after := fc.G.ReachAfter(store.V, func(v *Vertex) bool { return isSet[v.ID] || v.ID == wait }, nil)
		for _, e := range fc.G.V[wait].Preds {
			if after[e.From] {
				return false, "a round that stores the best index leaves " + cur.Name() + " at the previous choice: a later round that finds the earlier choice best again is skipped"
			}
		}
	}
	if nSet == 0 {
		return false, cur.Name() + " is never updated"
	}
	return true, "rounds that do not store leave on " + cur.Name() + " == best index, and " + cur.Name() + " is set to the best index in exactly the rounds that store"
}

// defsReachingFromEdge: the definitions of obj whose value can be the one read at vertex at on a
// path that starts by crossing edge e — definitions met after the edge, and, when at can be
// reached from the edge without meeting any, the definitions that reached the edge's source.
func defsReachingFromEdge(fc *FuncCtx, e Edge, obj types.Object, at int) []int {
	isDef := map[int]bool{}
	for _, d := range fc.Defs(obj) {
		isDef[d] = true
	}
	var out []int
	noDef := fc.G.Reach([]int{e.To}, func(v *Vertex) bool { return isDef[v.ID] && v.ID != at }, nil)
	fromEdge := fc.G.Reach([]int{e.To}, nil, nil)
	for d := range isDef {
		if d != at && fromEdge[d] && reachesWithoutDef(fc.G, d, at, isDef) {
			out = append(out, d)
		}
	}
	if noDef[at] && !isDef[e.To] {
		for _, d := range fc.ReachingDefs(e.From, obj) {
			if d != fc.G.Entry {
				out = append(out, d)
			}
		}
	}
	sort.Ints(out)
	return out
}
