package main

import (
	"fmt"
	"go/ast"
	"go/types"
)

func init() {
	register(&PropCheck{ID: "C20", Pkgs: []string{"./cred", "./service"}, Run: runC20})
}

func runC20(p *Prog, r *Report) {
	r.Explanation = "Structural necessary conditions of 'a crash or write failure while saving credentials never destroys the store': the store path is only ever replaced by rename of a fully written, synced and closed temporary file in the same directory (every step's error checked, temp file removed on failure); the save worker cannot exit on shutdown while a save is queued; mutating operations queue a save on every success path; Stop waits for the worker and the manager is a stopped service; the cached file content marker changes only after a successful write."
	r.NotDecided = []string{"file-system semantics of rename/fsync (trusted)", "behaviour at each byte offset of a write (made irrelevant by the rename protocol, not simulated)", "directory fsync after rename (not required by the rule)"}
	r.Assumptions = []string{"os.Rename within one directory replaces the destination atomically (POSIX)", "os.CreateTemp creates a new file that no reader opens under the store's name"}
	c20R1(p, r)
	c20R2(p, r)
	c20R3(p, r)
	// R4: a reload must not undo an acknowledged change that is still waiting for its save. The
	// unchanged-content short-cut of LoadFromFile is what protects it (the file still holds the
	// previous save, which is exactly what the manager remembers having written); if save and load do
	// not remember precisely the bytes on disk, a reload in the debounce window parses the old file,
	// reverts the cache, and the queued save then writes the reverted set. Same analysis as C08-R10.
	{
		sub := NewReport("C20", "quick")
		c08R10(p, sub)
		r.Rule("C20-R4", "a reload in the save's debounce window keeps the pending change: "+sub.RuleDocs["C08-R10"])
		for _, o := range sub.Obs {
			o.Rule = "C20-R4"
			r.Obs = append(r.Obs, o)
		}
		r.Floor("C20-R4", 2)
	}
}

// storePathArg reports whether expression e inside fc denotes the ManagedServer.path field, directly
// or through a parameter that every/any caller in the package binds to that field.
func storePathArg(p *Prog, fc *FuncCtx, e ast.Expr, depth int) bool {
	info := fc.Info()
	e = fc.Resolve(e)
	if sel, ok := e.(*ast.SelectorExpr); ok {
		if s, isSel := info.Selections[sel]; isSel && s.Kind() == types.FieldVal && s.Obj().Name() == "path" && namedTypeName(s.Recv()) == "ManagedServer" {
			return true
		}
		return false
	}
	if depth > 3 || fc.Obj == nil {
		return false
	}
	obj := objOf(info, e)
	if obj == nil {
		return false
	}
	for i := 0; ; i++ {
		po := fc.ParamObj(i)
		if po == nil {
			break
		}
		if po != obj {
			continue
		}
		// look at call sites in the package
		found := false
		p.AllFuncs(fc.Pkg, func(caller *FuncCtx) {
			scan := func(c *FuncCtx) {
				for _, cs := range c.AllCalls() {
					if cs.Fn != nil && cs.Fn.Origin() == fc.Obj && i < len(cs.Call.Args) {
						if storePathArg(p, c, cs.Call.Args[i], depth+1) {
							found = true
						}
					}
				}
			}
			scan(caller)
			for _, lit := range caller.Lits() {
				scan(p.LitCtx(caller, lit))
			}
		})
		return found
	}
	return false
}

func osFn(fn *types.Func, name string) bool { return funcIs(fn, "os", "", name) }

func c20R1(p *Prog, r *Report) {
	const rule = "C20-R1"
	r.Rule(rule, "the credential store path is never opened for writing in place (os.WriteFile/Create/OpenFile); it is only replaced by os.Rename of a temporary file created in the same directory, after Write, Sync and Close each succeeded, and the temporary file is removed when a step fails")
	pkg := p.Pkg("cred")
	nRename := 0
	p.AllFuncs(pkg, func(top *FuncCtx) {
		// helpers expanded: the write / sync / close steps may live in a helper of the function
		// that renames
		top = p.Inlined(top)
		var fcs []*FuncCtx
		fcs = append(fcs, top)
		for _, lit := range top.Lits() {
			fcs = append(fcs, p.LitCtx(top, lit))
		}
		for _, fc := range fcs {
			info := fc.Info()
			for _, cs := range fc.AllCalls() {
				if cs.Fn == nil || cs.Fn.Pkg() == nil || cs.Fn.Pkg().Path() != "os" {
					continue
				}
				switch cs.Fn.Name() {
				case "WriteFile", "Create", "OpenFile", "Truncate":
					if len(cs.Call.Args) > 0 && storePathArg(p, fc, cs.Call.Args[0], 0) {
						if cs.Fn.Name() == "OpenFile" {
							// read-only open is fine
							if v, ok := constInt(info, cs.Call.Args[1]); ok && v == 0 {
								continue
							}
						}
						r.Fail(rule, fc.Name+":in-place-write:os."+cs.Fn.Name(), cs.Pos(),
							"the store file is written in place: os."+cs.Fn.Name()+" truncates it first, so a crash, kill or write error (disk full) mid-save leaves an empty or torn store and the server no longer starts")
					}
				case "Rename":
					if len(cs.Call.Args) == 2 && storePathArg(p, fc, cs.Call.Args[1], 0) {
						nRename++
						c20CheckRename(p, r, rule, fc, cs)
					}
				}
			}
		}
	})
	if nRename == 0 {
		r.Fail(rule, "cred:rename-onto-store-path", "", "no os.Rename onto the store path found: the store is not replaced atomically")
	}
	// saveToFile must reach the rename (directly or via helper)
	sv := p.Func("cred", "ManagedServer", "saveToFile")
	reaches := false
	for _, cs := range sv.AllCalls() {
		if cs.Fn == nil {
			continue
		}
		if osFn(cs.Fn, "Rename") {
			reaches = true
		}
		if callee := p.CtxOfObj(cs.Fn); callee != nil && callee.Pkg == sv.Pkg {
			for _, c2 := range callee.AllCalls() {
				if c2.Fn != nil && osFn(c2.Fn, "Rename") {
					reaches = true
				}
			}
		}
	}
	r.Check(reaches, rule, "cred.(*ManagedServer).saveToFile:uses-atomic-replace", p.posStr(sv.Body.Pos()), "saveToFile writes through the rename protocol", "saveToFile does not reach the rename protocol")
	// success means written: every return that may carry a nil error lies past the err == nil
	// edge of the atomic write
	var writes []CallSite
	for _, cs := range sv.AllCalls() {
		if cs.Fn == nil {
			continue
		}
		isWrite := osFn(cs.Fn, "Rename")
		if callee := p.CtxOfObj(cs.Fn); callee != nil && callee.Pkg == sv.Pkg {
			for _, c2 := range callee.AllCalls() {
				if c2.Fn != nil && osFn(c2.Fn, "Rename") {
					isWrite = true
				}
			}
		}
		if isWrite {
			writes = append(writes, cs)
		}
	}
	for _, ret := range sv.Returns() {
		if sv.ErrAtReturn(ret) == ErrNonNil {
			continue
		}
		ok := false
		for _, w := range writes {
			if w.SuccessGuards(ret) {
				ok = true
			}
		}
		r.Check(ok, rule, "cred.(*ManagedServer).saveToFile:success-means-written@"+exprStr(sv.G.V[ret].Node), p.posStr(sv.G.V[ret].Node.Pos()), "a nil error is returned only after the atomic write succeeded", "saveToFile can report success without having written the current user set (a path to `return nil` bypasses the write): the store keeps a stale set — e.g. deleted users come back after a restart — while the API acknowledged the change")
	}
	// cachedContent assigned only after the write succeeded
	for _, fa := range sv.FieldAccesses(mp("cred"), "ManagedServer", map[string]bool{"cachedContent": true}) {
		if !fa.Write {
			continue
		}
		guarded := false
		for _, cs := range sv.AllCalls() {
			if cs.Fn == nil {
				continue
			}
			callee := p.CtxOfObj(cs.Fn)
			isWrite := osFn(cs.Fn, "Rename")
			if callee != nil && callee.Pkg == sv.Pkg {
				for _, c2 := range callee.AllCalls() {
					if c2.Fn != nil && osFn(c2.Fn, "Rename") {
						isWrite = true
					}
				}
			}
			if isWrite && cs.SuccessGuards(fa.V) {
				guarded = true
			}
		}
		r.Check(guarded, rule, "cred.(*ManagedServer).saveToFile:cachedContent-after-success", p.posStr(fa.Sel.Pos()),
			"cachedContent is updated only on the err == nil edge of the write", "cachedContent is updated although the write may have failed: the next reload of the unchanged (old) file is skipped or a changed file is misjudged")
	}
	r.Floor(rule, 8)
}

func c20CheckRename(p *Prog, r *Report, rule string, fc *FuncCtx, ren CallSite) {
	info := fc.Info()
	prefix := fc.Name + ":rename"
	// source is f.Name() of an os.CreateTemp result
	src := fc.Resolve(ren.Call.Args[0])
	recv, _, isName := methodCall(info, src, "os", "File", "Name")
	var fileObj types.Object
	if isName {
		fileObj = objOf(info, recv)
	}
	var create *CallSite
	for _, cs := range fc.CallsTo(func(fn *types.Func) bool { return osFn(fn, "CreateTemp") }) {
		if cs.ResultVar(0) != nil && cs.ResultVar(0) == fileObj {
			c := cs
			create = &c
		}
	}
	if create == nil {
		r.Fail(rule, prefix+":source-is-temp-file", ren.Pos(), "the file renamed onto the store is not the Name() of an os.CreateTemp result in this function")
		return
	}
	r.OK(rule, prefix+":source-is-temp-file", ren.Pos(), "renames the os.CreateTemp file")
	// same directory
	dirOK := false
	if c, ok := funcCall(info, fc.Resolve(create.Call.Args[0]), "path/filepath", "Dir"); ok && len(c.Args) == 1 {
		if samePathOrObj(fc, c.Args[0], ren.Call.Args[1]) {
			dirOK = true
		}
	}
	r.Check(dirOK, rule, prefix+":temp-in-same-directory", create.Pos(), "temporary file is created in filepath.Dir(store path)", "temporary file is not created in the directory of the store (rename across file systems is not atomic and may fail)")
	r.Check(create.SuccessGuards(ren.V), rule, prefix+":after-create-ok", ren.Pos(), "rename only after CreateTemp succeeded", "rename reachable although CreateTemp failed")
	// write, sync, close on that file, each success-guarding the rename, in order
	step := func(names ...string) *CallSite {
		for _, cs := range fc.AllCalls() {
			if cs.Fn == nil || namedTypeName(recvTypeOf(cs.Fn)) != "File" || cs.Fn.Pkg().Path() != "os" {
				continue
			}
			sel, ok := ast.Unparen(cs.Call.Fun).(*ast.SelectorExpr)
			if !ok || objOf(info, sel.X) != fileObj {
				continue
			}
			for _, n := range names {
				if cs.Fn.Name() == n && cs.SuccessGuards(ren.V) {
					c := cs
					return &c
				}
			}
		}
		return nil
	}
	w := step("Write", "WriteString")
	s := step("Sync")
	c := step("Close")
	r.Check(w != nil, rule, prefix+":after-write-ok", ren.Pos(), "rename only on the err == nil edge of the write of the temporary file", "rename reachable without a successful write of the whole document (error unchecked or write missing): a short write replaces the store with a torn document")
	r.Check(s != nil, rule, prefix+":after-sync-ok", ren.Pos(), "rename only on the err == nil edge of File.Sync", "rename reachable without a successful File.Sync: after a crash the renamed file may be empty")
	r.Check(c != nil, rule, prefix+":after-close-ok", ren.Pos(), "rename only on the err == nil edge of File.Close", "rename reachable without a successful File.Close")
	if w != nil && s != nil && c != nil {
		order := fc.G.Dominates([]int{w.V}, s.V) && fc.G.Dominates([]int{s.V}, c.V)
		r.Check(order, rule, prefix+":write-sync-close-order", ren.Pos(), "write, then sync, then close", "write / sync / close are not in this order")
	}
	// the rename's own error is returned
	retOK := false
	if rs, ok := fc.G.V[ren.V].Node.(*ast.ReturnStmt); ok && len(rs.Results) > 0 && ast.Unparen(rs.Results[len(rs.Results)-1]) == ren.Call {
		retOK = true
	} else if ren.ResultVar(-1) != nil && len(ren.ResultEdges(-1, WantNil)) > 0 {
		retOK = true
	}
	r.Check(retOK, rule, prefix+":rename-error-propagated", ren.Pos(), "the rename's error is returned or checked", "the rename's error is dropped: a failed replace is reported as saved")
	// cleanup of the temporary file on failure
	cleanup := false
	check := func(c *FuncCtx) {
		for _, cs := range c.AllCalls() {
			if cs.Fn == nil || !(osFn(cs.Fn, "Remove") || osFn(cs.Fn, "RemoveAll")) || len(cs.Call.Args) != 1 {
				continue
			}
			// what is deleted must be the temporary file and nothing else — in particular not
			// the store itself, which only ever is the target of the rename
			arg := c.ResolveUp(cs.Call.Args[0])
			rv, _, isN := methodCall(info, arg, "os", "File", "Name")
			isTemp := isN && objOf(info, rv) == fileObj
			r.Check(isTemp, rule, prefix+":removes-only-the-temp-file@"+exprStr(cs.Call), cs.Pos(), "deletes the temporary file", "the cleanup deletes "+exprStr(cs.Call.Args[0])+", which is not the temporary file of this write: a failed save removes the live store (or leaves the temporary file behind)")
			if isTemp {
				cleanup = true
			}
		}
	}
	check(fc)
	for _, lit := range fc.Lits() {
		check(p.LitCtx(fc, lit))
	}
	r.Check(cleanup, rule, prefix+":temp-removed-on-failure", create.Pos(), "os.Remove of the temporary file exists on the failure path", "temporary files of failed saves are never removed")
}

func samePathOrObj(fc *FuncCtx, a, b ast.Expr) bool {
	info := fc.Info()
	if oa, ob := objOf(info, a), objOf(info, b); oa != nil && oa == ob {
		return true
	}
	if samePath(info, a, b) {
		return true
	}
	a, b = fc.Resolve(a), fc.Resolve(b)
	if a == b {
		return true
	}
	if oa, ob := objOf(info, a), objOf(info, b); oa != nil && oa == ob {
		return true
	}
	return samePath(info, a, b)
}

func c20R2(p *Prog, r *Report) { credFlushRule(p, r, "C20-R2") }

// credFlushRule is shared by C20 (shutdown flush) and C08 (the store file tracks the accepted set).
func credFlushRule(p *Prog, r *Report, rule string) {
	r.Rule(rule, "acknowledged changes are flushed: every mutating ManagedServer operation queues a save on each path that returns success, and in the save worker every path from a receive on ctx.Done() to the worker's exit passes a save or a non-blocking poll of the save queue that found it empty")
	// must-save methods
	pkg := p.Pkg("cred")
	mustSave := map[*types.Func]bool{}
	sv := p.Func("cred", "ManagedServer", "saveToFile")
	mustSave[sv.Obj] = true
	for changed := true; changed; {
		changed = false
		p.AllFuncs(pkg, func(fc *FuncCtx) {
			if fc.Obj == nil || mustSave[fc.Obj] {
				return
			}
			var saves []int
			for _, cs := range fc.AllCalls() {
				if cs.Fn != nil && mustSave[cs.Fn.Origin()] {
					saves = append(saves, cs.V)
				}
			}
			if len(saves) > 0 && fc.G.Dominates(saves, fc.G.Exit) {
				mustSave[fc.Obj] = true
				changed = true
			}
		})
	}
	dq := p.Func("cred", "ManagedServer", "dequeueSave")
	info := dq.Info()
	isQueueRecv := func(n ast.Node) bool { // <-s.saveQueue
		found := false
		inspectNoLit(n, func(x ast.Node) bool {
			if u, ok := x.(*ast.UnaryExpr); ok && u.Op.String() == "<-" {
				if sel, ok := ast.Unparen(u.X).(*ast.SelectorExpr); ok && sel.Sel.Name == "saveQueue" {
					found = true
				}
			}
			return true
		})
		return found
	}
	isDoneRecv := func(n ast.Node) bool { // <-ctx.Done()
		found := false
		inspectNoLit(n, func(x ast.Node) bool {
			if u, ok := x.(*ast.UnaryExpr); ok && u.Op.String() == "<-" {
				if c, ok := ast.Unparen(u.X).(*ast.CallExpr); ok {
					if fn := Callee(info, c); fn != nil && fn.Name() == "Done" && fn.Pkg() != nil && fn.Pkg().Path() == "context" {
						found = true
					}
				}
			}
			return true
		})
		return found
	}
	// default edges of non-blocking polls of the queue
	pollEmpty := map[Edge]bool{}
	for _, v := range dq.G.V {
		if v.Kind != VSelect {
			continue
		}
		sel := v.Stmt.(*ast.SelectStmt)
		hasQueue, hasDefault, others := false, false, 0
		for _, cl := range sel.Body.List {
			cc := cl.(*ast.CommClause)
			switch {
			case cc.Comm == nil:
				hasDefault = true
			case isQueueRecv(cc.Comm):
				hasQueue = true
			default:
				others++
			}
		}
		if hasQueue && hasDefault && others == 0 {
			for _, e := range v.Succs {
				if e.Label == -1 {
					pollEmpty[e] = true
				}
			}
		}
	}
	saveV := map[int]bool{}
	for _, cs := range dq.AllCalls() {
		if cs.Fn != nil && mustSave[cs.Fn.Origin()] {
			saveV[cs.V] = true
		}
	}
	nDone := 0
	for _, v := range dq.G.V {
		if v.Kind != VStmt || !isDoneRecv(v.Node) {
			continue
		}
		// only comm statements of select clauses or plain receives
		nDone++
		reach := dq.G.ReachAfter(v.ID, func(x *Vertex) bool { return saveV[x.ID] }, func(e Edge) bool { return pollEmpty[e] })
		r.Check(!reach[dq.G.Exit], rule, fmt.Sprintf("cred.(*ManagedServer).dequeueSave:ctx-done#%d", nDone-1), p.posStr(v.Node.Pos()),
			"every path from this shutdown signal to the worker's exit saves or finds the queue empty",
			"the worker can exit on shutdown while a save is queued (select picks ctx.Done() at random when both are ready): a change acknowledged before shutdown is never written")
	}
	if nDone == 0 {
		r.Fail(rule, "cred.(*ManagedServer).dequeueSave:ctx-done", "", "the save worker never observes shutdown")
	}
	// the worker saves after each dequeued job
	var recvs []int
	for _, v := range dq.G.V {
		if v.Kind == VStmt && isQueueRecv(v.Node) {
			recvs = append(recvs, v.ID)
		}
	}
	for i, rv := range recvs {
		// from a successful dequeue, exit or the next blocking wait is not reachable without a save
		reach := dq.G.ReachAfter(rv, func(x *Vertex) bool { return saveV[x.ID] }, nil)
		r.Check(!reach[dq.G.Exit], rule, fmt.Sprintf("cred.(*ManagedServer).dequeueSave:dequeue#%d-leads-to-save", i), p.posStr(dq.G.V[rv].Node.Pos()),
			"a dequeued job cannot reach the worker's exit without a save", "a dequeued save job can be dropped (exit reachable without saving)")
	}
	// mutating operations enqueue on success
	for _, name := range []string{"AddCredential", "UpdateCredential", "DeleteCredential"} {
		fc := p.Func("cred", "ManagedServer", name)
		var enq []int
		for _, cs := range fc.CallsTo(isFn(mp("cred"), "ManagedServer", "enqueueSave")) {
			enq = append(enq, cs.V)
		}
		nOK := 0
		all := true
		for _, ret := range fc.Returns() {
			if fc.ErrAtReturn(ret) == ErrNonNil {
				continue
			}
			nOK++
			if !fc.G.Dominates(enq, ret) {
				all = false
			}
		}
		r.Check(all && nOK > 0, rule, "cred.(*ManagedServer)."+name+":success-enqueues-save", p.posStr(fc.Body.Pos()),
			"every return that may report success is preceded by enqueueSave", "a successful "+name+" can return without queueing a save: the change is never persisted")
	}
	// enqueueSave is a non-blocking send on saveQueue with capacity >= 1
	enq := p.Func("cred", "ManagedServer", "enqueueSave")
	sends := 0
	for _, v := range enq.G.V {
		if ss, ok := v.Node.(*ast.SendStmt); ok {
			if sel, ok := ast.Unparen(ss.Chan).(*ast.SelectorExpr); ok && sel.Sel.Name == "saveQueue" {
				sends++
			}
		}
	}
	r.Check(sends == 1, rule, "cred.(*ManagedServer).enqueueSave:sends", p.posStr(enq.Body.Pos()), "enqueueSave sends on saveQueue", "enqueueSave does not send on saveQueue")
	// capacity: make(chan struct{}, k) with k >= 1 where saveQueue is initialised
	capOK := false
	nInit := 0
	p.AllFuncs(pkg, func(fc *FuncCtx) {
		// however the manager is put together: literal key or assignment to the field
		for _, val := range fieldInits(fc, "saveQueue") {
			nInit++
			ok := false
			if c, isCall := ast.Unparen(val).(*ast.CallExpr); isCall && len(c.Args) == 2 {
				if id, isId := ast.Unparen(c.Fun).(*ast.Ident); isId && id.Name == "make" {
					if k, isC := constInt(fc.Info(), c.Args[1]); isC && k >= 1 {
						ok = true
					}
				}
			}
			capOK = ok && (capOK || nInit == 1)
		}
	})
	r.Check(capOK, rule, "cred:saveQueue-buffered", "", "saveQueue is created with capacity >= 1, so a non-blocking enqueue while the worker is busy is remembered", "saveQueue is unbuffered: a change made while the worker is saving or cooling down is silently not queued")
	r.Floor(rule, 8)
}

func c20R3(p *Prog, r *Report) {
	const rule = "C20-R3"
	r.Rule(rule, "Stop waits for the save worker: the worker runs under the ManagedServer's WaitGroup, ManagedServer.Stop waits on it, Manager.Start/Stop visit every server, the credential manager is in the service list the service manager stops, and only the worker path calls saveToFile")
	start := p.Func("cred", "ManagedServer", "Start")
	stop := p.Func("cred", "ManagedServer", "Stop")
	// Start: s.wg.Go(func(){ s.dequeueSave(ctx) })
	startOK := false
	for _, cs := range start.AllCalls() {
		if cs.Fn != nil && cs.Fn.Name() == "Go" && namedTypeName(recvTypeOf(cs.Fn)) == "WaitGroup" && len(cs.Call.Args) == 1 {
			if lit, ok := ast.Unparen(cs.Call.Args[0]).(*ast.FuncLit); ok {
				lc := p.LitCtx(start, lit)
				if len(lc.CallsTo(isFn(mp("cred"), "ManagedServer", "dequeueSave"))) == 1 {
					if sel, ok := ast.Unparen(cs.Call.Fun).(*ast.SelectorExpr); ok && pathKey(start.Info(), sel.X) == fmt.Sprintf("%p.wg", start.RecvObj()) {
						startOK = true
					}
				}
			}
		}
	}
	r.Check(startOK, rule, "cred.(*ManagedServer).Start:worker-under-waitgroup", p.posStr(start.Body.Pos()), "the save worker is started with s.wg.Go", "the save worker is not tracked by the ManagedServer's WaitGroup: Stop cannot wait for a final save")
	stopOK := false
	for _, cs := range stop.AllCalls() {
		if cs.Fn != nil && cs.Fn.Name() == "Wait" && namedTypeName(recvTypeOf(cs.Fn)) == "WaitGroup" {
			if sel, ok := ast.Unparen(cs.Call.Fun).(*ast.SelectorExpr); ok && pathKey(stop.Info(), sel.X) == fmt.Sprintf("%p.wg", stop.RecvObj()) && stop.G.Dominates([]int{cs.V}, stop.G.Exit) {
				stopOK = true
			}
		}
	}
	r.Check(stopOK, rule, "cred.(*ManagedServer).Stop:waits", p.posStr(stop.Body.Pos()), "Stop waits on the same WaitGroup on every path", "Stop returns without waiting for the save worker: the process may exit mid-save or before the final save")
	// Manager.Start / Stop range over servers
	for _, pair := range [][2]string{{"Start", "Start"}, {"Stop", "Stop"}} {
		fc := p.Func("cred", "Manager", pair[0])
		ok := false
		for _, cs := range fc.CallsTo(isFn(mp("cred"), "ManagedServer", pair[1])) {
			// inside a range over m.servers
			for _, v := range fc.G.V {
				if v.Kind == VRange {
					rs := v.Stmt.(*ast.RangeStmt)
					if sel, isSel := ast.Unparen(rs.X).(*ast.SelectorExpr); isSel && sel.Sel.Name == "servers" && rs.Body.Pos() <= cs.Call.Pos() && cs.Call.End() <= rs.Body.End() {
						if selc, isSelc := ast.Unparen(cs.Call.Fun).(*ast.SelectorExpr); isSelc && rs.Value != nil && objOf(fc.Info(), selc.X) == objOf(fc.Info(), rs.Value) {
							ok = true
						}
					}
				}
			}
		}
		r.Check(ok, rule, "cred.(*Manager)."+pair[0]+":every-server", p.posStr(fc.Body.Pos()), pair[0]+" visits every managed server", "Manager."+pair[0]+" does not call "+pair[1]+" on every managed server")
	}
	// who calls saveToFile
	pkg := p.Pkg("cred")
	p.AllFuncs(pkg, func(top *FuncCtx) {
		var fcs []*FuncCtx
		fcs = append(fcs, top)
		for _, lit := range top.Lits() {
			fcs = append(fcs, p.LitCtx(top, lit))
		}
		for _, fc := range fcs {
			for _, cs := range fc.CallsTo(isFn(mp("cred"), "ManagedServer", "saveToFile")) {
				// caller must be the worker or a helper only called by the worker
				name := baseFuncName(fc)
				ok := name == "dequeueSave" || onlyCalledBy(p, pkg, top.Obj, "dequeueSave")
				r.Check(ok, rule, "who-calls:saveToFile:"+fc.Name, cs.Pos(), "called on the save worker's path only (single writer of the store file and of cachedContent)", "saveToFile is called outside the save worker: two writers can interleave on the store file and race on cachedContent")
			}
		}
	})
	// service manager: cred manager appended to services
	svc := p.Func("service", "Config", "Manager")
	info := svc.Info()
	var mgrObj types.Object
	for _, cs := range svc.CallsTo(isFn(mp("cred"), "", "NewManager")) {
		mgrObj = cs.ResultVar(0)
	}
	appended := false
	if mgrObj != nil {
		for _, v := range svc.G.V {
			as, ok := v.Node.(*ast.AssignStmt)
			if !ok || len(as.Rhs) != 1 {
				continue
			}
			c, ok := ast.Unparen(as.Rhs[0]).(*ast.CallExpr)
			if !ok {
				continue
			}
			if id, ok := ast.Unparen(c.Fun).(*ast.Ident); ok && id.Name == "append" && len(c.Args) >= 2 {
				if base := objOf(info, c.Args[0]); base != nil && namedTypeName(sliceElem(base.Type())) == "Service" {
					for _, a := range c.Args[1:] {
						if objOf(info, a) == mgrObj {
							appended = true
						}
					}
				}
			}
		}
	}
	r.Check(appended, rule, "service.(*Config).Manager:credmgr-is-a-service", p.posStr(svc.Body.Pos()), "the credential manager is appended to the services the manager starts and stops", "the credential manager is not in the service list: its Stop (which waits for the final save) is never called")
	r.Floor(rule, 6)
}

// onlyCalledBy reports whether fn (a function in pkg) is called only from functions named caller.
func onlyCalledBy(p *Prog, pkg interface{}, fn *types.Func, caller string) bool {
	if fn == nil {
		return false
	}
	n, bad := 0, 0
	for _, pk := range p.All {
		if pk.Syntax == nil {
			continue
		}
		p.AllFuncs(pk, func(top *FuncCtx) {
			var fcs []*FuncCtx
			fcs = append(fcs, top)
			for _, lit := range top.Lits() {
				fcs = append(fcs, p.LitCtx(top, lit))
			}
			for _, fc := range fcs {
				for _, cs := range fc.AllCalls() {
					if cs.Fn != nil && cs.Fn.Origin() == fn {
						n++
						if baseFuncName(fc) != caller {
							bad++
						}
					}
				}
			}
		})
	}
	return n > 0 && bad == 0
}
