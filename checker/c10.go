package main

import (
	"fmt"
	"go/ast"
	"go/constant"
	"go/token"
	"go/types"
	"sort"
	"strings"
)

func init() {
	register(&PropCheck{ID: "C10", AnchorsInlined: true, KeepCalls: []string{"portset.PortSet.add", "portset.PortSet.addRange"}, Pkgs: []string{"./domainset", "./portset", "./prefixset", "./router", "./cmd/shadowsocks-go-domain-set-converter"}, Run: runC10})
}

func runC10(p *Prog, r *Report) {
	r.Explanation = "Structural necessary conditions of 'domain, prefix and port sets mean the same in every representation' — the equivalence itself is value-level and is NOT decided; decided are: the text writer, the text reader, the gob conversion and the capacity hint agree on which rule kind goes with which prefix constant, builder slot and gob field; matcher representations that delegate to each other by rule count use complementary comparisons against the same threshold; the suffix trie's insert always ends by storing a leaf unless a covering shorter suffix stops it, and walks labels exactly like its match; the three port representations agree on the refused value (port 0) at every place the router consults them and port 0 is rejected when port lists are built; a bufio AvailableBuffer alias never survives into a later iteration."
	r.NotDecided = []string{"matcher equivalence over all rule sets and probe domains", "insertion-order effects inside the trie beyond the leaf-store rule", "range extraction from the port bit set (RangeSet/RangeCount arithmetic)", "gob round trip of matcher contents", "netip prefix text round trip"}
	r.Assumptions = []string{"bufio.Writer.AvailableBuffer's contract: the buffer is only valid until the next write operation on the writer"}
	c10R1(p, r)
	c10R2(p, r)
	c10R3(p, r)
	c10R4(p, r)
	c10R5(p, r)
	c10R6(p, r)
	c10R7(p, r)
	c10R8(p, r)
}

func c10R1(p *Prog, r *Report) {
	const rule = "C10-R1"
	r.Rule(rule, "sibling agreement on port membership: the bit-set representation refuses port 0 (panics) while the single-port and range-list representations answer false, so every consultation of the bit set with a request-derived port is guarded by port != 0; port 0 can never be a member because Parse, Add and the route builder refuse it")
	c09PortSiblings(p, r, rule, "C10")
	// Parse: every add / addRange is dominated by the port != 0 check of its own value
	ps := p.Func("portset", "PortSet", "Parse")
	info := ps.Info()
	for _, cs := range ps.AllCalls() {
		if cs.Fn == nil || (cs.Fn.Name() != "add" && cs.Fn.Name() != "addRange") {
			continue
		}
		arg := ps.Resolve(cs.Call.Args[0])
		ao := objOf(info, arg)
		guarded := false
		for _, v := range ps.G.V {
			x, y, op, ok := condParts(v)
			if !ok || y == nil || op != token.EQL {
				continue
			}
			if k, isC := constInt(info, y); isC && k == 0 && objOf(info, x) == ao && ao != nil {
				for _, e := range v.Succs {
					if e.Label == LFalse && ps.G.EdgeDominates([]Edge{e}, cs.V) {
						guarded = true
					}
				}
			}
		}
		r.Check(guarded, rule, "portset.(*PortSet).Parse:"+cs.Fn.Name()+"-nonzero", cs.Pos(), "the (lower) port is checked != 0 before it is added", "Parse can add port 0: the representations then disagree on port 0 and Contains(0) semantics")
	}
	// route builder: portSet.Add(port) guarded by port != 0
	rt := p.Func("router", "RouteConfig", "Route")
	rinfo := rt.Info()
	for _, cs := range rt.CallsTo(isFn(mp("portset"), "PortSet", "Add")) {
		ao := objOf(rinfo, cs.Call.Args[0])
		guarded := false
		for _, v := range rt.G.V {
			x, y, op, ok := condParts(v)
			if !ok || y == nil || op != token.EQL {
				continue
			}
			if k, isC := constInt(rinfo, y); isC && k == 0 && objOf(rinfo, x) == ao && ao != nil {
				for _, e := range v.Succs {
					if e.Label == LFalse && rt.G.EdgeDominates([]Edge{e}, cs.V) {
						guarded = true
					}
				}
			}
		}
		r.Check(guarded, rule, "router.(*RouteConfig).Route:PortSet.Add-nonzero", cs.Pos(), "configured port checked != 0 before Add (which panics on 0)", "a configured port 0 reaches PortSet.Add, which panics at load")
	}
	r.Floor(rule, 6)
}

func c10R2(p *Prog, r *Report) {
	const rule = "C10-R2"
	r.Rule(rule, "writer/reader table agreement for domain sets: for each rule kind (domain, suffix, keyword, regexp) the text writer emits the kind's prefix constant before the rules of that kind's builder slot, the text reader dispatches that same prefix constant to that slot and strips that prefix's length, the slot accessors, the builder literal, the gob struct and the capacity hint all use the same slot order")
	kinds := []string{"Domain", "Suffix", "Keyword", "Regexp"}
	// accessor -> slot index
	slot := map[string]int64{}
	for _, k := range kinds {
		fc := p.Func("domainset", "Builder", k+"MatcherBuilder")
		for _, ret := range fc.Returns() {
			rs := fc.G.V[ret].Node.(*ast.ReturnStmt)
			if ix, ok := ast.Unparen(rs.Results[0]).(*ast.IndexExpr); ok {
				if v, isC := constInt(fc.Info(), ix.Index); isC {
					slot[k] = v
				}
			}
		}
	}
	okSlots := len(slot) == 4
	seen := map[int64]bool{}
	for _, v := range slot {
		seen[v] = true
	}
	r.Check(okSlots && len(seen) == 4, rule, "domainset.Builder:accessor-slots", "", fmt.Sprintf("accessors use distinct slots %v", slot), fmt.Sprintf("accessor slots %v are not four distinct indices", slot))
	// writer
	wt := p.Func("domainset", "Builder", "WriteText")
	winfo := wt.Info()
	seqKind := map[types.Object]string{}
	countKind := map[types.Object]string{}
	for _, cs := range wt.AllCalls() {
		if cs.Fn != nil && cs.Fn.Name() == "Rules" {
			if sel, ok := ast.Unparen(cs.Call.Fun).(*ast.SelectorExpr); ok {
				if c, ok := ast.Unparen(sel.X).(*ast.CallExpr); ok {
					if fn := Callee(winfo, c); fn != nil {
						k := strings.TrimSuffix(fn.Name(), "MatcherBuilder")
						if cs.ResultVar(1) != nil {
							seqKind[cs.ResultVar(1)] = k
						}
						if cs.ResultVar(0) != nil {
							countKind[cs.ResultVar(0)] = k
						}
					}
				}
			}
		}
	}
	nLoops := 0
	for _, v := range wt.G.V {
		if v.Kind != VRange {
			continue
		}
		rs := v.Stmt.(*ast.RangeStmt)
		k := seqKind[objOf(winfo, rs.X)]
		if k == "" {
			continue
		}
		nLoops++
		// first WriteString in the body writes <k>Prefix; the second the loop variable
		var writes []string
		ast.Inspect(rs.Body, func(n ast.Node) bool {
			if c, ok := n.(*ast.CallExpr); ok {
				if sel, ok := ast.Unparen(c.Fun).(*ast.SelectorExpr); ok && sel.Sel.Name == "WriteString" && len(c.Args) == 1 {
					writes = append(writes, exprStr(c.Args[0]))
				}
			}
			return true
		})
		want := strings.ToLower(k) + "Prefix"
		ok := len(writes) == 2 && writes[0] == want && writes[1] == exprStr(rs.Key)
		r.Check(ok, rule, "domainset.Builder.WriteText:"+k, p.posStr(rs.Pos()), "writes "+want+" then each "+k+" rule", fmt.Sprintf("the %s rules are written as %v (expected %s followed by the rule): the reader files them under another kind", k, writes, want))
	}
	r.Check(nLoops == 4, rule, "domainset.Builder.WriteText:all-kinds", p.posStr(wt.Body.Pos()), "four kinds written", fmt.Sprintf("%d kinds written", nLoops))
	// capacity hint order
	for _, cs := range wt.AllCalls() {
		if cs.Fn != nil && cs.Fn.Name() == "Sprintf" && cs.Fn.Pkg().Path() == "fmt" && len(cs.Call.Args) >= 6 {
			var got []string
			for _, a := range cs.Call.Args[2:6] {
				got = append(got, countKind[objOf(winfo, a)])
			}
			// order by slot
			wantOrder := make([]string, 4)
			for k, s := range slot {
				if s >= 0 && s < 4 {
					wantOrder[s] = k
				}
			}
			r.Check(strings.Join(got, ",") == strings.Join(wantOrder, ","), rule, "domainset.Builder.WriteText:capacity-hint-order", cs.Pos(), "hint counts are written in slot order "+strings.Join(got, ","), fmt.Sprintf("capacity hint counts are written as %v but read into slots %v", got, wantOrder))
		}
	}
	// reader
	rd := p.Func("domainset", "", "BuilderFromText")
	rinfo := rd.Info()
	nCases := 0
	ast.Inspect(rd.Body, func(n ast.Node) bool {
		cc, ok := n.(*ast.CaseClause)
		if !ok || len(cc.List) != 1 {
			return true
		}
		cs := exprStr(cc.List[0])
		var kind string
		for _, k := range kinds {
			if strings.HasPrefix(cs, strings.ToLower(k)+"Prefix") {
				kind = k
			}
		}
		if kind == "" {
			return true
		}
		nCases++
		// Insert call in this clause
		okIns := false
		ast.Inspect(cc, func(m ast.Node) bool {
			c, ok := m.(*ast.CallExpr)
			if !ok {
				return true
			}
			sel, ok := ast.Unparen(c.Fun).(*ast.SelectorExpr)
			if !ok || sel.Sel.Name != "Insert" || len(c.Args) != 1 {
				return true
			}
			acc, ok := ast.Unparen(sel.X).(*ast.CallExpr)
			if !ok {
				return true
			}
			fn := Callee(rinfo, acc)
			sl, isSl := ast.Unparen(c.Args[0]).(*ast.SliceExpr)
			if fn != nil && fn.Name() == kind+"MatcherBuilder" && isSl && sl.Low != nil && exprStr(sl.Low) == strings.ToLower(kind)+"PrefixLen" && sl.High == nil {
				okIns = true
			}
			return true
		})
		r.Check(okIns, rule, "domainset.BuilderFromText:"+kind, p.posStr(cc.Pos()), "prefix "+cs+" inserts line["+strings.ToLower(kind)+"PrefixLen:] into the "+kind+" slot", "a line starting with "+cs+" is not inserted (without exactly its own prefix) into the "+kind+" builder")
		return true
	})
	r.Check(nCases == 4, rule, "domainset.BuilderFromText:all-kinds", p.posStr(rd.Body.Pos()), "four kinds read", fmt.Sprintf("%d kinds read", nCases))
	// prefix constants: distinct, end with ':', Len constants equal len
	pkg := p.Pkg("domainset")
	vals := map[string]string{}
	for _, k := range kinds {
		lc := strings.ToLower(k)
		c, ok := pkg.Types.Scope().Lookup(lc + "Prefix").(*types.Const)
		l, ok2 := pkg.Types.Scope().Lookup(lc + "PrefixLen").(*types.Const)
		if !ok || !ok2 {
			r.Fail(rule, "domainset:"+lc+"Prefix", "", "constant missing")
			continue
		}
		s := constStr(c.Val())
		vals[s] = k
		n, _ := constIntVal(l)
		r.Check(int(n) == len(s) && strings.HasSuffix(s, ":"), rule, "domainset:"+lc+"PrefixLen", "", fmt.Sprintf("%q has length %d", s, n), fmt.Sprintf("%sPrefixLen = %d but the prefix %q has length %d", lc, n, s, len(s)))
	}
	r.Check(len(vals) == 4, rule, "domainset:prefixes-distinct", "", "four distinct prefixes", "prefix constants collide")
	// builder literal order in BuilderFromText and gob
	ctorKind := func(name string) string {
		switch {
		case strings.Contains(name, "Suffix"):
			return "Suffix"
		case strings.Contains(name, "Domain"):
			return "Domain"
		case strings.Contains(name, "Keyword"):
			return "Keyword"
		case strings.Contains(name, "Regexp"):
			return "Regexp"
		}
		return ""
	}
	ast.Inspect(rd.Body, func(n ast.Node) bool {
		cl, ok := n.(*ast.CompositeLit)
		if !ok || len(cl.Elts) != 4 {
			return true
		}
		if tv, ok := rinfo.Types[cl]; !ok || namedTypeName(tv.Type) != "Builder" {
			return true
		}
		good := true
		for i, el := range cl.Elts {
			c, ok := ast.Unparen(el).(*ast.CallExpr)
			if !ok {
				good = false
				continue
			}
			fn := Callee(rinfo, c)
			if fn == nil || slot[ctorKind(fn.Name())] != int64(i) {
				good = false
			}
			// capacity hint index i
			if len(c.Args) == 1 {
				if ix, ok := ast.Unparen(c.Args[0]).(*ast.IndexExpr); ok {
					if k, isC := constInt(rinfo, ix.Index); !isC || k != int64(i) {
						good = false
					}
				}
			}
		}
		r.Check(good, rule, "domainset.BuilderFromText:builder-slots", p.posStr(cl.Pos()), "slot i holds the kind whose accessor returns slot i, sized by hint i", "the builder literal puts a matcher of another kind (or another hint) into a slot")
		return true
	})
	gb := p.Func("domainset", "BuilderGob", "Builder")
	ast.Inspect(gb.Body, func(n ast.Node) bool {
		cl, ok := n.(*ast.CompositeLit)
		if !ok || len(cl.Elts) != 4 {
			return true
		}
		good := true
		for i, el := range cl.Elts {
			s := exprStr(el)
			if slot[ctorKind(s)] != int64(i) {
				good = false
			}
		}
		r.Check(good, rule, "domainset.BuilderGob.Builder:slots", p.posStr(cl.Pos()), "gob fields map to their kinds' slots", "the gob representation restores a field into another kind's slot")
		return true
	})
	fg := p.Func("domainset", "", "BuilderGobFromBuilder")
	finfo := fg.Info()
	nSw := 0
	for _, v := range fg.G.V {
		if v.Kind != VTypeSwitch {
			continue
		}
		ts := v.Stmt.(*ast.TypeSwitchStmt)
		accKind := ""
		ast.Inspect(ts.Assign, func(n ast.Node) bool {
			if c, ok := n.(*ast.CallExpr); ok {
				if fn := Callee(finfo, c); fn != nil && strings.HasSuffix(fn.Name(), "MatcherBuilder") {
					accKind = strings.TrimSuffix(fn.Name(), "MatcherBuilder")
				}
			}
			return true
		})
		good := accKind != ""
		ast.Inspect(ts.Body, func(n ast.Node) bool {
			if as, ok := n.(*ast.AssignStmt); ok {
				if sel, ok := ast.Unparen(as.Lhs[0]).(*ast.SelectorExpr); ok {
					if ctorKind(strings.TrimSuffix(sel.Sel.Name, "s")+"x") != accKind && ctorKind(sel.Sel.Name) != accKind {
						good = false
					}
				}
			}
			return true
		})
		nSw++
		r.Check(good, rule, "domainset.BuilderGobFromBuilder:"+accKind, p.posStr(ts.Pos()), accKind+" rules go into the "+accKind+" gob field", "rules of kind "+accKind+" are stored into another kind's gob field")
	}
	r.Check(nSw == 4, rule, "domainset.BuilderGobFromBuilder:all-kinds", p.posStr(fg.Body.Pos()), "four kinds converted", fmt.Sprintf("%d kinds converted", nSw))
	r.Floor(rule, 20)
}

func c10R3(p *Prog, r *Report) {
	const rule = "C10-R3"
	r.Rule(rule, "representation switch is well-founded: whenever two matcher builders delegate AppendTo to each other depending on the rule count, the two guards are complementary comparisons (> K / <= K) of the builder's own length against the same constant — otherwise a rule count at the threshold bounces between the two forever (stack overflow at load) or both keep a representation the other was meant to take")
	pkg := p.Pkg("domainset")
	type deleg struct {
		to   string
		op   token.Token
		k    int64
		pos  string
		self bool
	}
	dels := map[string][]deleg{}
	p.AllFuncs(pkg, func(fc *FuncCtx) {
		if fc.Obj == nil || fc.Obj.Name() != "AppendTo" {
			return
		}
		from := namedTypeName(recvTypeOf(fc.Obj))
		info := fc.Info()
		for _, cs := range fc.AllCalls() {
			if cs.Fn == nil || cs.Fn.Name() != "AppendTo" {
				continue
			}
			to := namedTypeName(recvTypeOf(cs.Fn))
			if to == "" || to == from {
				continue
			}
			// dominating condition edge: len(x) OP K
			found := false
			for _, v := range fc.G.V {
				x, y, op, ok := condParts(v)
				if !ok || y == nil {
					continue
				}
				k, isC := constInt(info, y)
				if !isC {
					continue
				}
				if c, isCall := ast.Unparen(x).(*ast.CallExpr); !isCall || !strings.HasPrefix(exprStr(c.Fun), "len") && !strings.Contains(exprStr(c), "Count") {
					continue
				}
				for _, e := range v.Succs {
					if !fc.G.EdgeDominates([]Edge{e}, cs.V) {
						continue
					}
					eff := op
					if e.Label == LFalse {
						eff = map[token.Token]token.Token{token.GTR: token.LEQ, token.LEQ: token.GTR, token.LSS: token.GEQ, token.GEQ: token.LSS, token.EQL: token.NEQ, token.NEQ: token.EQL}[op]
					}
					if eff == token.EQL || eff == token.NEQ {
						continue // the empty check
					}
					dels[from] = append(dels[from], deleg{to, eff, k, cs.Pos(), false})
					found = true
				}
			}
			if !found {
				dels[from] = append(dels[from], deleg{to, token.ILLEGAL, 0, cs.Pos(), false})
			}
		}
	})
	var froms []string
	for f := range dels {
		froms = append(froms, f)
	}
	sort.Strings(froms)
	n := 0
	for _, a := range froms {
		for _, d := range dels[a] {
			for _, back := range dels[d.to] {
				if back.to != a {
					continue
				}
				if a > d.to {
					continue // report each pair once
				}
				n++
				compl := map[token.Token]token.Token{token.GTR: token.LEQ, token.LEQ: token.GTR, token.LSS: token.GEQ, token.GEQ: token.LSS}
				ok := d.op != token.ILLEGAL && compl[d.op] == back.op && d.k == back.k
				r.Check(ok, rule, "domainset:"+a+"<->"+d.to, d.pos, fmt.Sprintf("%s delegates when len %s %d, %s delegates back when len %s %d", a, d.op, d.k, d.to, back.op, back.k),
					fmt.Sprintf("%s hands over to %s when len %s %d, and %s hands back when len %s %d: the guards are not complementary, so some rule count bounces between the two representations (infinite recursion) ", a, d.to, d.op, d.k, d.to, back.op, back.k))
			}
		}
	}
	r.Count("mutually_delegating_pairs", n)
	r.Floor(rule, 1)
}

func c10R4(p *Prog, r *Report) {
	const rule = "C10-R4"
	r.Rule(rule, "builders report their matchers consistently: MatcherCount returns 0 exactly on the empty-length edge on which AppendTo appends nothing")
	pkg := p.Pkg("domainset")
	n := 0
	p.AllFuncs(pkg, func(fc *FuncCtx) {
		if fc.Obj == nil || fc.Obj.Name() != "AppendTo" {
			return
		}
		tn := namedTypeName(recvTypeOf(fc.Obj))
		// the first condition: len(...) == 0 → return matchers, nil
		okEmpty := false
		for _, v := range fc.G.V {
			x, y, op, ok := condParts(v)
			if !ok || y == nil || op != token.EQL {
				continue
			}
			if k, isC := constInt(fc.Info(), y); isC && k == 0 && strings.HasPrefix(exprStr(x), "len(") {
				for _, e := range v.Succs {
					if e.Label == LTrue {
						for _, ret := range fc.Returns() {
							if fc.G.EdgeDominates([]Edge{e}, ret) {
								rs := fc.G.V[ret].Node.(*ast.ReturnStmt)
								if len(rs.Results) == 2 && objOf(fc.Info(), rs.Results[0]) == fc.ParamObj(0) && isNilExpr(fc.Info(), rs.Results[1]) {
									okEmpty = true
								}
							}
						}
					}
				}
			}
		}
		if !okEmpty {
			return // builders without the idiom (keyword/regexp) are not in scope
		}
		n++
		r.OK(rule, "domainset."+tn+".AppendTo:empty-appends-nothing", p.posStr(fc.Body.Pos()), "an empty builder returns the matcher list unchanged")
	})
	r.Floor(rule, 4)
	_ = n
}

func c10R5(p *Prog, r *Report) {
	const rule = "C10-R5"
	r.Rule(rule, "suffix trie: every path through DomainSuffixTrie.Insert ends by storing an (empty) leaf node for the remaining label, unless it returns on the edge where a leaf (shorter suffix) was met half-way; Insert and Match split the name into labels with the same index expressions")
	ins := p.Func("domainset", "DomainSuffixTrie", "Insert")
	info := ins.Info()
	var leafStores []int
	for _, v := range ins.G.V {
		as, ok := v.Node.(*ast.AssignStmt)
		if !ok || len(as.Lhs) != 1 || len(as.Rhs) != 1 {
			continue
		}
		ix, ok := ast.Unparen(as.Lhs[0]).(*ast.IndexExpr)
		if !ok || !strings.HasSuffix(exprStr(ix.X), ".Children") {
			continue
		}
		if cl, ok := ast.Unparen(as.Rhs[0]).(*ast.CompositeLit); ok && len(cl.Elts) == 0 {
			leafStores = append(leafStores, v.ID)
		}
	}
	var leafMet []Edge
	for _, v := range ins.G.V {
		x, y, op, ok := condParts(v)
		if ok && y != nil && op == token.EQL && isNilExpr(info, y) && strings.HasSuffix(exprStr(x), ".Children") {
			for _, e := range v.Succs {
				if e.Label == LTrue {
					leafMet = append(leafMet, e)
				}
			}
		}
	}
	isStore := map[int]bool{}
	for _, s := range leafStores {
		isStore[s] = true
	}
	pass := map[Edge]bool{}
	for _, e := range leafMet {
		pass[e] = true
	}
	reach := ins.G.Reach([]int{ins.G.Entry}, func(v *Vertex) bool { return isStore[v.ID] }, func(e Edge) bool { return pass[e] })
	r.Check(len(leafStores) >= 1 && !reach[ins.G.Exit], rule, "domainset.DomainSuffixTrie.Insert:ends-with-leaf", p.posStr(ins.Body.Pos()),
		"every path stores a leaf or stops at an existing shorter suffix",
		"a path through Insert returns without storing the leaf although no shorter suffix covers the rule (e.g. when the label already exists as an inner node): inserting a longer suffix first makes the shorter one unmatched and unlisted")
	// label splitting agreement
	mt := p.Func("domainset", "DomainSuffixTrie", "Match")
	exprs := func(fc *FuncCtx) []string {
		dom := fc.ParamObj(0)
		set := map[string]bool{}
		ast.Inspect(fc.Body, func(n ast.Node) bool {
			switch x := n.(type) {
			case *ast.SliceExpr:
				if objOf(fc.Info(), x.X) == dom {
					set[exprStr(x)] = true
				}
			case *ast.IndexExpr:
				if objOf(fc.Info(), x.X) == dom {
					set[exprStr(x)] = true
				}
			case *ast.ForStmt:
				set["for "+exprStr(x.Init)+"; "+exprStr(x.Cond)+"; "+exprStr(x.Post)] = true
			}
			return true
		})
		var out []string
		for s := range set {
			out = append(out, s)
		}
		sort.Strings(out)
		return out
	}
	a, b := exprs(ins), exprs(mt)
	r.Check(strings.Join(a, " | ") == strings.Join(b, " | "), rule, "domainset.DomainSuffixTrie:Insert~Match-label-walk", p.posStr(mt.Body.Pos()), strings.Join(a, " | "), fmt.Sprintf("Insert walks labels with %v but Match with %v: names are split differently when stored and when looked up", a, b))
	r.Floor(rule, 2)
}

// c10R6: AvailableBuffer aliases must not survive a write.
func c10R6(p *Prog, r *Report) {
	const rule = "C10-R6"
	r.Rule(rule, "a slice obtained from (*bufio.Writer).AvailableBuffer is only valid until the next write on that writer: no variable holding (a slice derived from) it may reach a use in a later loop iteration without being re-initialised from a non-aliasing source first")
	n := 0
	for _, pkg := range p.All {
		if pkg.Syntax == nil {
			continue
		}
		p.AllFuncs(pkg, func(top *FuncCtx) {
			for _, fc := range allCtxs(p, top) {
				info := fc.Info()
				for _, cs := range fc.CallsTo(isFn("bufio", "Writer", "AvailableBuffer")) {
					obj := cs.ResultVar(0)
					if obj == nil {
						continue
					}
					n++
					// base defs: definitions of obj whose right-hand side does not mention obj
					isBase := map[int]bool{}
					for _, d := range fc.Defs(obj) {
						mentions := false
						switch st := fc.G.V[d].Node.(type) {
						case *ast.AssignStmt:
							for _, rh := range st.Rhs {
								if usesObj(info, rh, obj, false) {
									mentions = true
								}
							}
						}
						if !mentions {
							isBase[d] = true
						}
					}
					// uses of obj
					bad := ""
					reach := fc.G.ReachAfter(cs.V, func(v *Vertex) bool { return isBase[v.ID] && v.ID != cs.V }, nil)
					// writes on the same writer
					wsel := ast.Unparen(cs.Call.Fun).(*ast.SelectorExpr).X
					var writes []int
					for _, c2 := range fc.AllCalls() {
						if sel, ok := ast.Unparen(c2.Call.Fun).(*ast.SelectorExpr); ok && strings.HasPrefix(sel.Sel.Name, "Write") && samePathOrObj(fc, sel.X, wsel) {
							writes = append(writes, c2.V)
						}
					}
					for _, w := range writes {
						if !reach[w] {
							continue
						}
						// after this write (which may consume the alias as its argument), any further use without a base def is stale
						after := fc.G.ReachAfter(w, func(v *Vertex) bool { return isBase[v.ID] }, nil)
						for _, v := range fc.G.V {
							if after[v.ID] && v.Node != nil && v.Kind != VJoin && usesObj(info, v.Node, obj, false) && !isBase[v.ID] {
								bad = "used at " + p.posStr(v.Node.Pos()) + " after the write at " + p.posStr(fc.G.V[w].Node.Pos())
							}
						}
					}
					r.Check(bad == "", rule, fc.Name+":AvailableBuffer-alias:"+obj.Name(), cs.Pos(), "the alias is consumed by the next write and re-initialised before any later use",
						"a slice aliasing the writer's internal buffer is "+bad+" without being re-initialised: the next append overlaps bufio's own buffer and the line written is duplicated or corrupted (only once the output exceeds the buffer size)")
				}
			}
		})
	}
	r.Count("available_buffer_uses", n)
	r.Floor(rule, 1)
}

// c10R7: the bit-set representation only ever grows while a rule is parsed. Every store into the
// block array inside the adding functions (add, addRange and whatever they call in the package)
// is an OR-assignment, or the assignment of the all-ones word: a plain assignment of a partial
// mask erases ports that an earlier item of the same rule put into that block, so "a,b-c" and
// the range-list representation of the same rule disagree.
func c10R7(p *Prog, r *Report) {
	const rule = "C10-R7"
	r.Rule(rule, "adding to the port bit set is monotone: in PortSet's adding functions every store into the block array is `|=` (any mask) or `=` of the all-ones word; no `&=`, `&^=`, `^=`, shift-assign or plain assignment of a partial mask")
	pkg := p.Pkg("portset")
	n := 0
	p.AllFuncs(pkg, func(fc *FuncCtx) {
		if fc.Obj == nil || fc.RecvObj() == nil || namedTypeName(fc.RecvObj().Type()) != "PortSet" {
			return
		}
		name := strings.ToLower(fc.Obj.Name())
		if !strings.HasPrefix(name, "add") {
			return
		}
		info := fc.Info()
		for _, v := range fc.G.V {
			var lhs []ast.Expr
			var rhs []ast.Expr
			tok := token.ILLEGAL
			switch x := v.Node.(type) {
			case *ast.AssignStmt:
				if v.Kind != VStmt {
					continue
				}
				lhs, rhs, tok = x.Lhs, x.Rhs, x.Tok
			case *ast.IncDecStmt:
				lhs, tok = []ast.Expr{x.X}, x.Tok
			default:
				continue
			}
			for i, l := range lhs {
				ix, ok := ast.Unparen(l).(*ast.IndexExpr)
				if !ok {
					continue
				}
				root, path, okp := pathOf(info, ix.X)
				if !okp || root != fc.RecvObj() || path == "" {
					continue
				}
				n++
				good := false
				switch tok {
				case token.OR_ASSIGN:
					good = true
				case token.ASSIGN:
					if i < len(rhs) {
						if tv, okc := info.Types[ast.Unparen(rhs[i])]; okc && tv.Value != nil {
							if u, exact := constant.Uint64Val(constant.ToInt(tv.Value)); exact && (u == ^uint64(0) || u == uint64(^uint32(0))) {
								good = true
							}
						}
					}
				}
				r.Check(good, rule, fmt.Sprintf("%s:store@%s", fc.Name, exprStr(v.Node)), p.posStr(v.Node.Pos()), "monotone store ("+tok.String()+")", "a store into the block array while adding is not monotone ("+exprStr(v.Node)+"): ports added by an earlier item of the same rule are erased, and the bit set disagrees with the range list built from the same text")
			}
		}
	})
	r.Count("block_stores_in_adding_functions", n)
	r.Floor(rule, 4)
}

// c10R8: the trie's enumerator is the inverse of Insert on labels. Insert walks the labels of a suffix
// right to left, one trie level per label — an EMPTY label included ("example.com." has an empty
// top-level label, "a..b" an empty inner one). The enumerator rebuilds the suffix by joining the
// child's label, a dot and what was accumulated so far; the dot must be put in on every path, because
// "nothing accumulated yet" and "an empty label accumulated" are different trie positions. A join that
// is skipped when the accumulated suffix is empty rewrites "example.com." to "example.com" whenever the
// set is written out (text, gob, conversion between matcher kinds), changing what matches.
func c10R8(p *Prog, r *Report) {
	const rule = "C10-R8"
	r.Rule(rule, "enumeration joins labels unconditionally: in the recursive enumerator of DomainSuffixTrie (the method with a string accumulator that calls itself on a child), the accumulator passed down is, on every path, a concatenation of the child's label, the \".\" separator and the accumulator received (every reaching definition of the argument is such a concatenation); the top-level iterator passes the bare label")
	pkg := p.Pkg("domainset")
	n := 0
	p.AllFuncs(pkg, func(top *FuncCtx) {
		recv := top.RecvObj()
		if recv == nil || namedTypeName(derefType(recv.Type())) != "DomainSuffixTrie" || top.Decl == nil {
			return
		}
		info := top.Info()
		var acc types.Object
		for i := 0; top.ParamObj(i) != nil; i++ {
			if b, ok := top.ParamObj(i).Type().Underlying().(*types.Basic); ok && b.Kind() == types.String {
				acc = top.ParamObj(i)
			}
		}
		if acc == nil {
			return
		}
		isJoin := func(e ast.Expr) bool {
			hasDot, hasAcc := false, false
			var walk func(e ast.Expr)
			walk = func(e ast.Expr) {
				e = ast.Unparen(e)
				if be, ok := e.(*ast.BinaryExpr); ok && be.Op == token.ADD {
					walk(be.X)
					walk(be.Y)
					return
				}
				if tv, ok := info.Types[e]; ok && tv.Value != nil && tv.Value.String() == `"."` {
					hasDot = true
				}
				if objOf(info, e) == acc {
					hasAcc = true
				}
			}
			walk(e)
			return hasDot && hasAcc
		}
		for _, fc := range allCtxs(p, top) {
			for _, cs := range fc.AllCalls() {
				if cs.Fn == nil || cs.Fn != top.Obj || len(cs.Call.Args) == 0 {
					continue
				}
				// the accumulator argument: the one in the accumulator's position
				idx := -1
				for i := 0; top.ParamObj(i) != nil; i++ {
					if top.ParamObj(i) == acc {
						idx = i
					}
				}
				if idx < 0 || idx >= len(cs.Call.Args) {
					continue
				}
				arg := cs.Call.Args[idx]
				n++
				ok := isJoin(arg)
				why := exprStr(arg)
				if !ok {
					if o := objOf(info, arg); o != nil {
						rd := fc.ReachingDefs(cs.V, o)
						ok = len(rd) > 0
						for _, d := range rd {
							dv := fc.G.V[d]
							good := false
							if as, isAs := dv.Node.(*ast.AssignStmt); isAs && dv.Kind == VStmt {
								for i, l := range as.Lhs {
									if objOf(info, l) != o || i >= len(as.Rhs) {
										continue
									}
									switch as.Tok {
									case token.ASSIGN, token.DEFINE:
										good = isJoin(as.Rhs[i])
									case token.ADD_ASSIGN:
										// s += "." + acc: still only a join if this definition is the only one reaching
										good = isJoin(&ast.BinaryExpr{X: l, Op: token.ADD, Y: as.Rhs[i]}) && len(rd) == 1
									}
								}
							}
							if !good {
								ok = false
								if dv.Node != nil {
									why = exprStr(arg) + " as defined at " + p.posStr(dv.Node.Pos())
								} else if dv.Stmt != nil {
									why = exprStr(arg) + " as defined by the loop head at " + p.posStr(dv.Stmt.Pos())
								}
							}
						}
					}
				}
				r.Check(ok, rule, fmt.Sprintf("%s:accumulator-is-label-dot-suffix", top.Name), cs.Pos(), "the accumulator handed to the child is label + \".\" + accumulator on every path",
					"the enumerator hands "+why+" down to a child without joining it to the accumulated suffix through \".\" on every path: a rule with an empty label (a trailing or doubled dot) is written out as a different rule, so the set matches differently after any conversion or save")
			}
		}
	})
	r.Check(n >= 1, rule, "domainset.DomainSuffixTrie:recursive-enumerator-found", "", "the recursive enumerator was found", "no recursive enumerator with a string accumulator found on DomainSuffixTrie")
	r.Floor(rule, 2)
}
