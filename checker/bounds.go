package main

// bounds.go: a modular bounds prover for index, slice, slice-to-array and length-demanding
// call operations. For every such operation it builds the goal inequalities, collects the
// facts that hold on every path to the operation (conditions whose edge dominates it,
// definitions of single-assignment locals, type ranges, summaries of callees and of a small
// table of standard-library functions) and refutes the goal's negation with Fourier–Motzkin.
// A goal over parameters only that cannot be proved locally becomes a precondition
// ("requires") of the function and is re-checked at every call site.

import (
	"fmt"
	"go/ast"
	"go/constant"
	"go/token"
	"go/types"
	"sort"
	"strings"
)

// ---------------------------------------------------------------- engine

type fnSummary struct {
	fc *FuncCtx
	// requires: inequalities (>= 0) over parameter atoms "P<i>" (int params), "len(P<i>)", "cap(P<i>)",
	// and "len(R)" / "cap(R)" for the receiver's fields are not supported.
	requires []reqClause
	// ensures: inequalities over "R<k>", "len(R<k>)", and the parameter atoms, valid at every
	// return at which the error result (if any) may be nil.
	ensures []LF
	// ensuresSucc: valid at the returns at which the error result may be nil only.
	ensuresSucc []LF
}

type reqClause struct {
	lf     LF
	origin string // construct that needs it
}

type boundsOb struct {
	FC        *FuncCtx
	V         int
	Kind      string
	Expr      string
	Goal      LF
	Status    string // proved | requires | unproved
	Detail    string
	Pos       token.Pos
	Construct string
}

type boundsEngine struct {
	fieldInv map[*types.Var]*fieldInv
	contract func(fc *FuncCtx) []LF // declared precondition of a function (generic atoms), nil if none
	p       *Prog
	sum     map[*types.Func]*fnSummary
	ctxs    map[*FuncCtx]*bctx
	obs     []*boundsOb
	inScope func(fc *FuncCtx) bool
}

type bctx struct {
	eng     *boundsEngine
	p       *Prog
	fc      *FuncCtx
	info    *types.Info
	rd      map[string][]int
	defs    map[types.Object][]int
	raBlk   map[int]VSet    // ReachAfter(q, block q)
	raFrom  map[[2]int]VSet // ReachAfter(d, block q)
	domE    map[Edge]VSet   // vertices NOT dominated by the edge (reachable avoiding it)
	live    VSet
	atomObj map[string]types.Object // multi-def atom (without #point) -> object
	atomFld map[string]string       // field atom base -> printed selector path
	atomMem map[string][]int        // content atom base -> vertices that may change the content
	fldAsg  map[string]bool
	nonneg  map[types.Object]int // 0 unknown, 1 yes, 2 no
	params  map[types.Object]int
	depth   int
	useAt   int
	own     []LF
	calls   map[*ast.CallExpr]CallSite
	finite  map[string][]int64 // atom -> finite value set
	pfCache map[int][2][]LF
	fdCache map[string][]int
	pathSel map[string]*ast.SelectorExpr
	addrTaken map[types.Object]bool
	pfBusy  map[int]bool
	assumeSucc *ast.CallExpr // while inferring success postconditions: this call is known to have succeeded
}

func newBoundsEngine(p *Prog) *boundsEngine {
	return &boundsEngine{p: p, sum: map[*types.Func]*fnSummary{}, ctxs: map[*FuncCtx]*bctx{}}
}

func (e *boundsEngine) ctx(fc *FuncCtx) *bctx {
	if b, ok := e.ctxs[fc]; ok {
		return b
	}
	b := &bctx{eng: e, p: e.p, fc: fc, info: fc.Info(), rd: map[string][]int{}, defs: map[types.Object][]int{}, raBlk: map[int]VSet{}, raFrom: map[[2]int]VSet{}, domE: map[Edge]VSet{}, atomObj: map[string]types.Object{}, atomFld: map[string]string{}, atomMem: map[string][]int{}, fldAsg: map[string]bool{}, nonneg: map[types.Object]int{}, params: map[types.Object]int{}}
	b.live = fc.G.Live()
	b.useAt = -1
	b.calls = map[*ast.CallExpr]CallSite{}
	b.finite = map[string][]int64{}
	for _, cs := range fc.AllCalls() {
		b.calls[cs.Call] = cs
	}
	for i := 0; ; i++ {
		po := fc.ParamObj(i)
		if po == nil {
			break
		}
		b.params[po] = i
	}
	b.addrTaken = map[types.Object]bool{}
	for _, v := range fc.G.V {
		if v.Node == nil {
			continue
		}
		inspectNoLit(v.Node, func(n ast.Node) bool {
			if ue, ok := n.(*ast.UnaryExpr); ok && ue.Op == token.AND {
				if o := objOf(b.info, ue.X); o != nil {
					b.addrTaken[o] = true
				}
			}
			return true
		})
		for sel := range writeTargets(b.info, v.Node) {
			b.fldAsg[exprStr(sel)] = true
		}
		inspectNoLit(v.Node, func(n ast.Node) bool {
			if ue, ok := n.(*ast.UnaryExpr); ok && ue.Op == token.AND {
				if sel, ok := ast.Unparen(ue.X).(*ast.SelectorExpr); ok {
					b.fldAsg[exprStr(sel)] = true
				}
			}
			return true
		})
	}
	e.ctxs[fc] = b
	return b
}

func (b *bctx) reachingDefs(at int, o types.Object) []int {
	k := fmt.Sprintf("%d/%p", at, o)
	if r, ok := b.rd[k]; ok {
		return r
	}
	r := b.fc.ReachingDefs(at, o)
	b.rd[k] = r
	return r
}

func (b *bctx) defsOf(o types.Object) []int {
	if d, ok := b.defs[o]; ok {
		return d
	}
	d := b.fc.Defs(o)
	b.defs[o] = d
	return d
}

// stable: the value of o observed at q is still its value at u.
func (b *bctx) stable(o types.Object, q, u int) bool {
	if q == u {
		return true
	}
	if len(b.fc.nonDeferredLitAssigns(o)) > 0 {
		return false
	}
	return b.stableDefs(b.defsOf(o), q, u)
}

func (b *bctx) reachAfterBlock(q int) VSet {
	ra, ok := b.raBlk[q]
	if !ok {
		ra = b.fc.G.ReachAfter(q, func(v *Vertex) bool { return v.ID == q }, nil)
		b.raBlk[q] = ra
	}
	return ra
}

// between: vertex p can execute after the last execution of q and before u.
func (b *bctx) between(p, q, u int) bool {
	if p == q {
		return false
	}
	if !b.reachAfterBlock(q)[p] {
		return false
	}
	if p == u {
		return b.reachFromAvoid(p, q)[u]
	}
	return b.reachFromAvoid(p, q)[u]
}

func (b *bctx) reachFromAvoid(d, q int) VSet {
	key := [2]int{d, q}
	rf, ok := b.raFrom[key]
	if !ok {
		rf = b.fc.G.ReachAfter(d, func(v *Vertex) bool { return v.ID == q }, nil)
		b.raFrom[key] = rf
	}
	return rf
}

// stableDefs: no vertex of defs executes between the last execution of q and u (a definition
// at u itself happens after the use).
func (b *bctx) stableDefs(defs []int, q, u int) bool {
	if q == u {
		return true
	}
	ra := b.reachAfterBlock(q)
	for _, d := range defs {
		if d == q {
			// q evaluates, then (re)defines: later uses see the new value
			if _, isRange := b.fc.G.V[q].Stmt.(*ast.RangeStmt); !isRange || b.fc.G.V[q].Kind != VRange {
				return false
			}
			continue
		}
		if !ra[d] {
			continue
		}
		if b.reachFromAvoid(d, q)[u] {
			return false
		}
	}
	return true
}

func (b *bctx) fieldDefs(path string) []int {
	if d, ok := b.fdCache[path]; ok {
		return d
	}
	// the field object and its owner struct, for may-alias reasoning by type
	var fobj *types.Var
	var owner types.Type
	if x, ok := b.pathSel[path]; ok {
		if sel := b.info.Selections[x]; sel != nil && sel.Kind() == types.FieldVal {
			fobj, _ = sel.Obj().(*types.Var)
			owner = derefType(b.info.TypeOf(x.X))
		}
	}
	sameOwner := func(t types.Type) bool {
		if owner == nil || t == nil {
			return false
		}
		d := derefType(t)
		return types.Identical(d, owner) || structContains(d, owner, 0)
	}
	root := path
	if i := strings.IndexAny(path, ".["); i > 0 {
		root = path[:i]
	}
	var out []int
	for _, v := range b.fc.G.V {
		if v.Node == nil {
			continue
		}
		hit := false
		for sel := range writeTargets(b.info, v.Node) {
			ws := exprStr(sel)
			// a write to the path itself, to a prefix of it (whole sub-struct) or through it
			if ws == path || strings.HasPrefix(path, ws+".") {
				hit = true
			}
			// the same field of a possibly aliased object
			if fobj != nil {
				if s2 := b.info.Selections[sel]; s2 != nil && s2.Obj() == fobj {
					hit = true
				}
			}
		}
		if as, ok := v.Node.(*ast.AssignStmt); ok && v.Kind == VStmt && owner != nil {
			for _, l := range as.Lhs {
				// *p = T{...} or s = T{...} replaces every field of an object of the owner type
				if t := b.info.TypeOf(l); t != nil {
					if _, isPtr := t.Underlying().(*types.Pointer); !isPtr && (types.Identical(t, owner) || structContains(t, owner, 0)) {
						if _, isIdentDef := ast.Unparen(l).(*ast.Ident); !isIdentDef || as.Tok == token.ASSIGN {
							hit = true
						}
					}
				}
			}
		}
		if as, ok := v.Node.(*ast.AssignStmt); ok && v.Kind == VStmt {
			for _, l := range as.Lhs {
				ls := exprStr(l)
				if ls == root || ls == "*"+root {
					hit = true // the root variable (or what it points to) is replaced
				}
			}
		}
		inspectNoLit(v.Node, func(n ast.Node) bool {
			switch x := n.(type) {
			case *ast.UnaryExpr:
				if x.Op == token.AND {
					xs := exprStr(x.X)
					if xs == path || strings.HasPrefix(path, xs+".") || xs == root {
						hit = true
					}
				}
			case *ast.CallExpr:
				if _, isConv := isConversion(b.info, x); isConv {
					return true
				}
				// a method called on the root object itself (possibly through embedding) may
				// change its fields; so may a callee that receives the root pointer
				if sel, ok := ast.Unparen(x.Fun).(*ast.SelectorExpr); ok {
					if s := b.info.Selections[sel]; s != nil && s.Kind() == types.MethodVal {
						rs := exprStr(sel.X)
						if rs == root || strings.HasPrefix(path, rs+".") && rs != path {
							// receiver is the root or an enclosing sub-struct of the field
							if recvMayMutate(s) {
								hit = true
							}
						}
					}
				}
				if sel, ok := ast.Unparen(x.Fun).(*ast.SelectorExpr); ok {
					if s := b.info.Selections[sel]; s != nil && s.Kind() == types.MethodVal && recvMayMutate(s) && sameOwner(b.info.TypeOf(sel.X)) {
						hit = true // a method on a possibly aliased object of the owner type
					}
				}
				for _, a := range x.Args {
					as := exprStr(ast.Unparen(a))
					if t := b.info.TypeOf(a); t != nil {
						if _, isPtr := t.Underlying().(*types.Pointer); isPtr && (as == root || sameOwner(t)) {
							hit = true
						}
					}
				}
			}
			return true
		})
		if hit {
			out = append(out, v.ID)
		}
	}
	// closures that mention the root may run at any time
	for _, lit := range b.fc.Lits() {
		if !b.fc.IsDeferredLit(lit) && strings.Contains(fullStr(lit), root) {
			for _, v := range b.fc.G.V {
				out = append(out, v.ID)
			}
			break
		}
	}
	if b.fdCache == nil {
		b.fdCache = map[string][]int{}
	}
	b.fdCache[path] = out
	return out
}

func derefType(t types.Type) types.Type {
	if t == nil {
		return nil
	}
	if p, ok := t.Underlying().(*types.Pointer); ok {
		return p.Elem()
	}
	return t
}

// structContains: struct type outer contains a value of type inner (by value, transitively).
func structContains(outer, inner types.Type, depth int) bool {
	if depth > 4 || outer == nil || inner == nil {
		return false
	}
	st, ok := outer.Underlying().(*types.Struct)
	if !ok {
		return false
	}
	for i := 0; i < st.NumFields(); i++ {
		ft := st.Field(i).Type()
		if types.Identical(ft, inner) || structContains(ft, inner, depth+1) {
			return true
		}
	}
	return false
}

// recvMayMutate: the selected method has a pointer receiver (or is reached through a pointer).
func recvMayMutate(s *types.Selection) bool {
	fn, ok := s.Obj().(*types.Func)
	if !ok {
		return true
	}
	sig := fn.Type().(*types.Signature)
	if sig.Recv() == nil {
		return true
	}
	if _, isPtr := sig.Recv().Type().Underlying().(*types.Pointer); isPtr {
		return true
	}
	if _, isIface := sig.Recv().Type().Underlying().(*types.Interface); isIface {
		return true
	}
	return false
}

func (b *bctx) edgeDominates(e Edge, u int) bool {
	na, ok := b.domE[e]
	if !ok {
		na = b.fc.G.Reach([]int{b.fc.G.Entry}, nil, func(x Edge) bool { return x == e })
		b.domE[e] = na
	}
	return b.live[u] && !na[u]
}

// ---------------------------------------------------------------- atoms

func objKey(o types.Object) string { return fmt.Sprintf("%s·%d", o.Name(), int(o.Pos())) }

// Atoms that denote a value which can change carry the set of definition vertices that may
// have produced it: "v:x·123#4,9" (E = function entry). Expression, call and conversion atoms
// carry the vertex that evaluated them: "call:f(x).0#12". Two occurrences of the same name
// denote the same value as long as none of the vertices in the set executes between the two
// evaluations; transport() renames ("freezes") an atom when that cannot be excluded.
func pointAtom(base string, at int) string { return fmt.Sprintf("%s#%d", base, at) }

func setAtom(base string, set []int, entry int) string {
	var parts []string
	s := append([]int{}, set...)
	sort.Ints(s)
	for _, d := range s {
		if d == entry {
			parts = append(parts, "E")
		} else {
			parts = append(parts, fmt.Sprint(d))
		}
	}
	return base + "#" + strings.Join(parts, ",")
}

// atomSet parses the vertex set of an atom; frozen atoms ("…!n") report frozen=true.
func atomSet(a string) (i, j int, set []int, frozen, ok bool) {
	i = strings.LastIndex(a, "#")
	if i < 0 {
		return 0, 0, nil, false, false
	}
	j = i + 1
	for j < len(a) && (a[j] >= '0' && a[j] <= '9' || a[j] == ',' || a[j] == 'E') {
		j++
	}
	if j == i+1 {
		return 0, 0, nil, false, false
	}
	for _, part := range strings.Split(a[i+1:j], ",") {
		if part == "E" || part == "" {
			continue
		}
		var n int
		fmt.Sscanf(part, "%d", &n)
		set = append(set, n)
	}
	if j < len(a) && a[j] == '!' {
		frozen = true
	}
	return i, j, set, frozen, true
}

// atomBase returns the variable key inside an atom such as "len(v:b·12#3,4)" -> "b·12".
func atomBase(a string, i int) string {
	k := strings.LastIndexAny(a[:i], "(:")
	return a[k+1 : i]
}

// transport carries a linear form whose atoms were evaluated at vertex from to a use at vertex
// to: an atom is frozen (renamed apart) when one of its producing vertices may execute in
// between, because the same name evaluated at the use would then denote a newer value.
func (b *bctx) transport(f LF, from, to int) LF {
	if from == to {
		return f
	}
	out := LF{}
	for a, c := range f {
		na := a
		if i, j, set, frozen, ok := atomSet(a); ok && !frozen {
			_ = i
			stale := false
			for _, d := range set {
				if d == from || b.between(d, from, to) {
					// d == from: the vertex that evaluated (and possibly redefines) it
					if d == from {
						if b.redefinesAt(a, i, from) {
							stale = true
						}
						continue
					}
					stale = true
				}
			}
			if stale {
				na = a[:j] + fmt.Sprintf("!%d", from) + a[j:]
			}
		}
		if cur, ok := out[na]; ok {
			cur.Add(cur, c)
		} else {
			out[na] = new(bigInt).Set(c)
		}
	}
	for x, c := range out {
		if c.Sign() == 0 {
			delete(out, x)
		}
	}
	return out
}

// redefinesAt: vertex d is one of the definitions of the variable behind atom a.
func (b *bctx) redefinesAt(a string, i, d int) bool {
	base := atomBase(a, i)
	if o, ok := b.atomObj[base]; ok {
		for _, x := range b.defsOf(o) {
			if x == d {
				return true
			}
		}
		return false
	}
	if path, ok := b.atomFld[base]; ok {
		for _, x := range b.fieldDefs(path) {
			if x == d {
				return true
			}
		}
		return false
	}
	if defs, ok := b.atomMem[base]; ok {
		for _, x := range defs {
			if x == d {
				return true
			}
		}
	}
	return false
}

func (b *bctx) transportAll(facts *[]LF, n0, from, to int) {
	for i := n0; i < len(*facts); i++ {
		(*facts)[i] = b.transport((*facts)[i], from, to)
	}
}

// reachingAmong: which of the given definition vertices (or the entry) may be the last one
// executed before vertex at.
func (b *bctx) reachingAmong(key string, defs []int, at int) []int {
	ck := fmt.Sprintf("%d/%s", at, key)
	if r, ok := b.rd[ck]; ok {
		return r
	}
	g := b.fc.G
	isDef := map[int]bool{}
	for _, d := range defs {
		isDef[d] = true
	}
	var out []int
	if reachesWithoutDef(g, g.Entry, at, isDef) {
		out = append(out, g.Entry)
	}
	seen := map[int]bool{}
	for _, d := range defs {
		if seen[d] {
			continue
		}
		seen[d] = true
		if reachesWithoutDef(g, d, at, isDef) {
			out = append(out, d)
		}
	}
	b.rd[ck] = out
	return out
}

// ---------------------------------------------------------------- type ranges

func typeRange(t types.Type) (lo, hi int64, hasLo, hasHi bool) {
	bt, ok := t.Underlying().(*types.Basic)
	if !ok {
		return
	}
	switch bt.Kind() {
	case types.Uint8:
		return 0, 255, true, true
	case types.Uint16:
		return 0, 65535, true, true
	case types.Uint32:
		return 0, 1<<32 - 1, true, true
	case types.Uint, types.Uint64, types.Uintptr:
		return 0, 0, true, false
	case types.Int8:
		return -128, 127, true, true
	case types.Int16:
		return -32768, 32767, true, true
	case types.Int32:
		return -(1 << 31), 1<<31 - 1, true, true
	}
	return
}

func (b *bctx) rangeFacts(atom string, t types.Type, facts *[]LF) {
	if t == nil {
		return
	}
	lo, hi, hasLo, hasHi := typeRange(t)
	if hasLo {
		*facts = append(*facts, lfAtom(atom).addConst(-lo))
	}
	if hasHi {
		*facts = append(*facts, lfConst(hi).plus(lfAtom(atom), -1))
	}
}

func isIntType(t types.Type) bool {
	if t == nil {
		return false
	}
	bt, ok := t.Underlying().(*types.Basic)
	return ok && bt.Info()&types.IsInteger != 0
}

// widening: converting from→to preserves the numeric value for every value of from.
func widening(from, to types.Type) bool {
	fb, ok1 := from.Underlying().(*types.Basic)
	tb, ok2 := to.Underlying().(*types.Basic)
	if !ok1 || !ok2 || fb.Info()&types.IsInteger == 0 || tb.Info()&types.IsInteger == 0 {
		return false
	}
	size := func(k types.BasicKind) int {
		switch k {
		case types.Int8, types.Uint8:
			return 8
		case types.Int16, types.Uint16:
			return 16
		case types.Int32, types.Uint32:
			return 32
		case types.UntypedInt, types.UntypedRune:
			return 0
		}
		return 64
	}
	fu, tu := fb.Info()&types.IsUnsigned != 0, tb.Info()&types.IsUnsigned != 0
	fs, ts := size(fb.Kind()), size(tb.Kind())
	switch {
	case fu && tu:
		return ts >= fs
	case !fu && !tu:
		return ts >= fs
	case fu && !tu:
		return ts > fs
	}
	return false
}

// ---------------------------------------------------------------- terms

// term evaluates integer expression e at vertex at.
func (b *bctx) term(e ast.Expr, at int, facts *[]LF) LF {
	e = ast.Unparen(e)
	b.depth++
	defer func() { b.depth-- }()
	if b.depth > 40 {
		return lfAtom(pointAtom("deep:"+exprStr(e), at))
	}
	if k, ok := constInt(b.info, e); ok {
		return lfConst(k)
	}
	t := b.info.TypeOf(e)
	fresh := func(prefix string) LF {
		a := pointAtom(prefix+exprStr(e), at)
		b.rangeFacts(a, t, facts)
		return lfAtom(a)
	}
	switch x := e.(type) {
	case *ast.Ident:
		o := objOf(b.info, x)
		if o == nil {
			return fresh("id:")
		}
		return b.varTerm(o, at, facts)
	case *ast.BinaryExpr:
		switch x.Op {
		case token.ADD:
			return b.term(x.X, at, facts).plus(b.term(x.Y, at, facts), 1)
		case token.SUB:
			// unsigned subtraction may wrap: only linear for signed types
			if bt, ok := t.Underlying().(*types.Basic); ok && bt.Info()&types.IsUnsigned != 0 {
				return fresh("expr:")
			}
			return b.term(x.X, at, facts).plus(b.term(x.Y, at, facts), -1)
		case token.MUL:
			if k, ok := constInt(b.info, x.X); ok {
				return b.term(x.Y, at, facts).scale(k)
			}
			if k, ok := constInt(b.info, x.Y); ok {
				return b.term(x.X, at, facts).scale(k)
			}
		case token.SHL:
			if k, ok := constInt(b.info, x.Y); ok && k >= 0 && k < 31 {
				return b.term(x.X, at, facts).scale(int64(1) << uint(k))
			}
		case token.REM:
			if k, ok := constInt(b.info, x.Y); ok && k > 0 {
				a := pointAtom("expr:"+exprStr(e), at)
				inner := b.term(x.X, at, facts)
				if proves(*facts, inner) { // operand non-negative
					*facts = append(*facts, lfAtom(a), lfConst(k-1).plus(lfAtom(a), -1))
				} else {
					*facts = append(*facts, lfConst(k-1).plus(lfAtom(a), -1), lfAtom(a).addConst(k-1))
				}
				return lfAtom(a)
			}
		case token.AND:
			for _, side := range []ast.Expr{x.Y, x.X} {
				if k, ok := constInt(b.info, side); ok && k >= 0 {
					a := pointAtom("expr:"+exprStr(e), at)
					*facts = append(*facts, lfAtom(a), lfConst(k).plus(lfAtom(a), -1))
					return lfAtom(a)
				}
			}
		case token.QUO, token.SHR:
			a := pointAtom("expr:"+exprStr(e), at)
			inner := b.term(x.X, at, facts)
			if k, ok := constInt(b.info, x.Y); ok && k > 0 && proves(*facts, inner) {
				// 0 <= q <= inner
				*facts = append(*facts, lfAtom(a), inner.plus(lfAtom(a), -1))
			}
			b.rangeFacts(a, t, facts)
			return lfAtom(a)
		}
		return fresh("expr:")
	case *ast.UnaryExpr:
		if x.Op == token.SUB {
			return b.term(x.X, at, facts).scale(-1)
		}
		if x.Op == token.ADD {
			return b.term(x.X, at, facts)
		}
		return fresh("expr:")
	case *ast.CallExpr:
		return b.callTerm(x, at, facts)
	case *ast.SelectorExpr:
		// field of integer type
		if _, _, ok := pathOf(b.info, x); ok {
			var a string
			b.notePathSel(x)
			if len(b.fieldDefs(exprStr(x))) == 0 {
				a = "fld:" + b.pathName(x)
			} else {
				base := "fld:" + b.pathName(x)
				b.atomFld[b.pathName(x)] = exprStr(x)
				a = setAtom(base, b.reachingAmong(base, b.fieldDefs(exprStr(x)), at), b.fc.G.Entry)
			}
			b.rangeFacts(a, t, facts)
			b.fieldFacts(x, a, facts)
			return lfAtom(a)
		}
		a := pointAtom("fld:"+exprStr(e), at)
		b.rangeFacts(a, t, facts)
		b.fieldFacts(x, a, facts)
		return lfAtom(a)
	case *ast.IndexExpr:
		if o := objOf(b.info, x.X); o != nil && b.declaredHere(o) {
			if k, isC := constInt(b.info, x.Index); isC {
				base := fmt.Sprintf("%s[%d]", objKey(o), k)
				if _, ok := b.atomMem[base]; !ok {
					b.atomMem[base] = b.contentDefs(o)
				}
				a := setAtom("mem:"+base, b.reachingAmong("mem:"+base, b.atomMem[base], at), b.fc.G.Entry)
				b.rangeFacts(a, t, facts)
				return lfAtom(a)
			}
		}
		return fresh("mem:")
	case *ast.StarExpr:
		return fresh("mem:")
	}
	return fresh("expr:")
}

// sliceRoot: the variable a slice expression is rooted in (x, x[a:b], x[a:b][c:]).
func sliceRoot(info *types.Info, e ast.Expr) types.Object {
	for {
		switch x := ast.Unparen(e).(type) {
		case *ast.Ident:
			return objOf(info, x)
		case *ast.SliceExpr:
			e = x.X
		default:
			return nil
		}
	}
}

// freshOnly: every definition of local slice variable o is a fresh allocation (make) or a
// reslice of itself; parameters and anything else may alias other slices.
func (b *bctx) freshOnly(o types.Object) bool {
	if _, isParam := b.params[o]; isParam || !b.declaredHere(o) || b.addrTaken[o] {
		return false
	}
	defs := b.defsOf(o)
	if len(defs) == 0 {
		return false
	}
	for _, d := range defs {
		v := b.fc.G.V[d]
		ok := false
		switch st := v.Node.(type) {
		case *ast.AssignStmt:
			if len(st.Lhs) == len(st.Rhs) {
				for i, l := range st.Lhs {
					if objOf(b.info, l) != o {
						continue
					}
					rhs := ast.Unparen(st.Rhs[i])
					if c, isC := rhs.(*ast.CallExpr); isC {
						if id, isId := ast.Unparen(c.Fun).(*ast.Ident); isId && id.Name == "make" {
							ok = true
						}
					}
					if ro := sliceRoot(b.info, rhs); ro == o {
						ok = true
					}
				}
			}
		case *ast.ValueSpec:
			for i, n := range st.Names {
				if b.info.Defs[n] != o {
					continue
				}
				if len(st.Values) == 0 {
					ok = true
				} else if len(st.Values) == len(st.Names) {
					if c, isC := ast.Unparen(st.Values[i]).(*ast.CallExpr); isC {
						if id, isId := ast.Unparen(c.Fun).(*ast.Ident); isId && id.Name == "make" {
							ok = true
						}
					}
				}
			}
		}
		if !ok {
			return false
		}
	}
	return true
}

func sliceElem(t types.Type) types.Type {
	if t == nil {
		return nil
	}
	switch u := t.Underlying().(type) {
	case *types.Slice:
		return u.Elem()
	case *types.Array:
		return u.Elem()
	case *types.Pointer:
		if a, ok := u.Elem().Underlying().(*types.Array); ok {
			return a.Elem()
		}
	}
	return nil
}

func arrayOfElem(t, elem types.Type) bool {
	if t == nil || elem == nil {
		return false
	}
	if a, ok := t.Underlying().(*types.Array); ok {
		return types.Identical(a.Elem(), elem)
	}
	return false
}

// pureReader: standard functions that only read their slice arguments.
func pureReader(fn *types.Func) bool {
	if fn.Pkg() == nil {
		return false
	}
	pkg, name := fn.Pkg().Path(), fn.Name()
	switch pkg {
	case "encoding/binary":
		return strings.HasPrefix(name, "Uint")
	case "bytes":
		switch name {
		case "Equal", "Compare", "IndexByte", "Index", "HasPrefix", "HasSuffix", "Contains", "LastIndexByte":
			return true
		}
	case "net/netip":
		return strings.HasPrefix(name, "AddrFrom") || name == "AddrPortFrom"
	case "unsafe":
		return true
	case "strings", "strconv", "fmt", "errors", "unique", "time":
		return true
	case "crypto/subtle":
		return name == "ConstantTimeCompare"
	}
	return false
}

// passesSlice: expression a mentions slice variable o other than by reading one of its
// elements or taking its length.
func passesSlice(info *types.Info, a ast.Expr, o types.Object) bool {
	found := false
	var walk func(n ast.Node) bool
	walk = func(n ast.Node) bool {
		switch x := n.(type) {
		case *ast.IndexExpr:
			if objOf(info, x.X) == o {
				ast.Inspect(x.Index, walk)
				return false
			}
		case *ast.CallExpr:
			if id, ok := ast.Unparen(x.Fun).(*ast.Ident); ok && (id.Name == "len" || id.Name == "cap") {
				return false
			}
		case *ast.Ident:
			if objOf(info, x) == o {
				found = true
			}
		}
		return true
	}
	ast.Inspect(a, walk)
	return found
}

// contentDefs: vertices that may change the elements of slice variable o: assignments to o or
// to o[...], calls that receive o (or a slice of it), and address-taking.
func (b *bctx) contentDefs(o types.Object) []int {
	var out []int
	if bt, ok := o.Type().Underlying().(*types.Basic); ok && bt.Info()&types.IsString != 0 {
		// strings are immutable: only assignments to the variable change what o[i] means
		return b.defsOf(o)
	}
	elem := sliceElem(o.Type())
	sameElem := func(t types.Type) bool {
		e := sliceElem(t)
		return e != nil && elem != nil && types.Identical(e, elem)
	}
	for _, v := range b.fc.G.V {
		if v.Node == nil {
			if v.Kind == VRange {
				out = append(out, v.ID)
			}
			continue
		}
		hit := false
		if as, ok := v.Node.(*ast.AssignStmt); ok {
			for _, l := range as.Lhs {
				switch lx := ast.Unparen(l).(type) {
				case *ast.Ident:
					if objOf(b.info, lx) == o {
						hit = true
					}
				case *ast.IndexExpr:
					// an element write through o or through any slice that may share its array
					if objOf(b.info, lx.X) == o {
						hit = true
					} else if sameElem(b.info.TypeOf(lx.X)) {
						if ro := sliceRoot(b.info, lx.X); ro == nil || ro == o || !b.freshOnly(ro) || !b.freshOnly(o) {
							hit = true
						}
					}
				case *ast.StarExpr:
					if sameElem(b.info.TypeOf(lx)) || arrayOfElem(b.info.TypeOf(lx), elem) {
						hit = true
					}
				}
			}
		}
		inspectNoLit(v.Node, func(n ast.Node) bool {
			switch c := n.(type) {
			case *ast.CallExpr:
				if id, ok := ast.Unparen(c.Fun).(*ast.Ident); ok {
					if _, isB := b.info.Uses[id].(*types.Builtin); isB {
						switch id.Name {
						case "len", "cap":
							return false
						case "copy":
							if len(c.Args) == 2 && (passesSlice(b.info, c.Args[0], o) || sameElem(b.info.TypeOf(c.Args[0]))) {
								hit = true
							}
							return true
						case "append", "min", "max", "make", "new", "panic", "print", "println", "delete", "clear":
							return true
						}
					}
				}
				if _, isConv := isConversion(b.info, c); isConv {
					return true
				}
				if fn := Callee(b.info, c); fn != nil && pureReader(fn) {
					return true
				}
				for _, a := range c.Args {
					if passesSlice(b.info, a, o) {
						hit = true
						continue
					}
					// another slice of the same element type may alias o's array, unless both are
					// rooted in distinct variables that only ever hold fresh allocations
					if t := b.info.TypeOf(a); t != nil && (sameElem(t) || arrayOfElem(derefType(t), elem)) {
						if _, isStr := t.Underlying().(*types.Basic); !isStr {
							if ro := sliceRoot(b.info, a); ro != nil && ro != o && b.freshOnly(ro) && b.freshOnly(o) {
								continue
							}
							hit = true
						}
					}
				}
				// a method on a value that may hold the slice
				if sel, ok := ast.Unparen(c.Fun).(*ast.SelectorExpr); ok {
					if passesSlice(b.info, sel.X, o) {
						hit = true
					}
				}
			case *ast.UnaryExpr:
				if c.Op == token.AND && usesObj(b.info, c.X, o, false) {
					hit = true
				}
			}
			return true
		})
		if hit {
			out = append(out, v.ID)
		}
	}
	if len(b.fc.Lits()) > 0 {
		for _, lit := range b.fc.Lits() {
			if usesObj(b.info, lit, o, true) {
				// captured by a closure: be conservative
				for _, v := range b.fc.G.V {
					out = append(out, v.ID)
				}
				break
			}
		}
	}
	return out
}

func (b *bctx) notePathSel(x *ast.SelectorExpr) {
	if b.pathSel == nil {
		b.pathSel = map[string]*ast.SelectorExpr{}
	}
	if _, ok := b.pathSel[exprStr(x)]; !ok {
		b.pathSel[exprStr(x)] = x
	}
}

// fieldFacts adds the inferred invariant of the selected struct field.
func (b *bctx) fieldFacts(x *ast.SelectorExpr, atom string, facts *[]LF) {
	sel := b.info.Selections[x]
	if sel == nil || sel.Kind() != types.FieldVal || b.eng.fieldInv == nil {
		return
	}
	f, ok := sel.Obj().(*types.Var)
	if !ok {
		return
	}
	inv := b.eng.fieldInv[f.Origin()]
	if inv == nil {
		return
	}
	if inv.hasLo {
		*facts = append(*facts, lfAtom(atom).addConst(-inv.lo))
	}
	if len(inv.set) > 0 {
		*facts = append(*facts, lfConst(inv.set[len(inv.set)-1]).plus(lfAtom(atom), -1))
		b.finite[atom] = inv.set
	}
}

// pathName prints a selector path with the root variable made unique.
func (b *bctx) pathName(e ast.Expr) string {
	root, path, ok := pathOf(b.info, e)
	if !ok || root == nil {
		return exprStr(e)
	}
	return objKey(root) + path
}

func (b *bctx) varTerm(o types.Object, at int, facts *[]LF) LF {
	n0 := len(*facts)
	v, isVar := o.(*types.Var)
	if !isVar {
		if c, isC := o.(*types.Const); isC {
			if k, exact := constant.Int64Val(constant.ToInt(c.Val())); exact {
				return lfConst(k)
			}
		}
		return lfAtom("obj:" + objKey(o))
	}
	key := objKey(o)
	if v.IsField() || v.Pkg() == nil || v.Parent() == nil || (v.Pkg() != nil && v.Parent() == v.Pkg().Scope()) {
		a := "glob:" + key
		b.rangeFacts(a, o.Type(), facts)
		return lfAtom(a)
	}
	// variable of an enclosing function (closure), or one whose address is taken: opaque at
	// this point (it may change through the alias at any time)
	if !b.declaredHere(o) || b.addrTaken[o] {
		a := pointAtom("free:"+key, at)
		b.rangeFacts(a, o.Type(), facts)
		return lfAtom(a)
	}
	rd := b.reachingDefs(at, o)
	if len(rd) == 1 && rd[0] == b.fc.G.Entry {
		a := "v:" + key
		b.atomObj[key] = o
		b.rangeFacts(a, o.Type(), facts)
		return lfAtom(a)
	}
	if len(rd) == 1 && len(b.fc.nonDeferredLitAssigns(o)) == 0 {
		d := rd[0]
		dv := b.fc.G.V[d]
		switch st := dv.Node.(type) {
		case *ast.AssignStmt:
			if dv.Kind == VStmt {
				if len(st.Lhs) == len(st.Rhs) {
					for i, l := range st.Lhs {
						if objOf(b.info, l) != o {
							continue
						}
						var val LF
						switch st.Tok {
						case token.ASSIGN, token.DEFINE:
							val = b.term(st.Rhs[i], d, facts)
						case token.ADD_ASSIGN:
							val = b.varTerm(o, d, facts).plus(b.term(st.Rhs[i], d, facts), 1)
						case token.SUB_ASSIGN:
							val = b.varTerm(o, d, facts).plus(b.term(st.Rhs[i], d, facts), -1)
						default:
							val = nil
						}
						if val != nil {
							b.transportAll(facts, n0, d, at)
							return b.transport(val, d, at)
						}
					}
				} else if len(st.Rhs) == 1 {
					if call, ok := ast.Unparen(st.Rhs[0]).(*ast.CallExpr); ok {
						for i, l := range st.Lhs {
							if objOf(b.info, l) == o {
								val := b.callResult(call, i, d, facts)
								b.transportAll(facts, n0, d, at)
								return b.transport(val, d, at)
							}
						}
					}
				}
			}
		case *ast.ValueSpec:
			for i, id := range st.Names {
				if b.info.Defs[id] != o {
					continue
				}
				if len(st.Values) == len(st.Names) {
					val := b.term(st.Values[i], d, facts)
					b.transportAll(facts, n0, d, at)
					return b.transport(val, d, at)
				}
				if len(st.Values) == 0 {
					return LF{}
				}
				if len(st.Values) == 1 {
					if call, ok := ast.Unparen(st.Values[0]).(*ast.CallExpr); ok {
						val := b.callResult(call, i, d, facts)
						b.transportAll(facts, n0, d, at)
						return b.transport(val, d, at)
					}
				}
			}
		case *ast.IncDecStmt:
			val := b.varTerm(o, d, facts)
			b.transportAll(facts, n0, d, at)
			val = b.transport(val, d, at)
			if st.Tok == token.INC {
				return val.addConst(1)
			}
			return val.addConst(-1)
		}
		if dv.Kind == VRange {
			rs := dv.Stmt.(*ast.RangeStmt)
			if rs.Key != nil && objOf(b.info, rs.Key) == o {
				a := pointAtom("v:"+key, d)
				b.atomObj[key] = o
				*facts = append(*facts, lfAtom(a))
				xt := b.info.TypeOf(rs.X)
				if xt != nil {
					switch xt.Underlying().(type) {
					case *types.Slice, *types.Array, *types.Pointer:
						ln, _ := b.sliceLen(rs.X, d, facts)
						*facts = append(*facts, ln.addConst(-1).plus(lfAtom(a), -1))
					case *types.Basic:
						if isIntType(xt) {
							n := b.term(rs.X, d, facts)
							*facts = append(*facts, n.addConst(-1).plus(lfAtom(a), -1))
						} else {
							// string: index < len
							ln, _ := b.sliceLen(rs.X, d, facts)
							*facts = append(*facts, ln.addConst(-1).plus(lfAtom(a), -1))
						}
					}
				}
				// the key is only valid inside this iteration: it is redefined by the head itself
				b.transportAll(facts, n0, d, at)
				return b.transport(lfAtom(a), d, at)
			}
		}
	}
	// several reaching definitions (or unknown form): the value produced by one of them
	a := setAtom("v:"+key, rd, b.fc.G.Entry)
	b.atomObj[key] = o
	b.rangeFacts(a, o.Type(), facts)
	if b.nonNegInvariant(o) {
		*facts = append(*facts, lfAtom(a))
	}
	return lfAtom(a)
}

func (b *bctx) declaredHere(o types.Object) bool {
	body := b.fc.Body
	if b.fc.Decl != nil {
		return o.Pos() >= b.fc.Decl.Pos() && o.Pos() <= b.fc.Decl.End()
	}
	if b.fc.Lit != nil {
		return o.Pos() >= b.fc.Lit.Pos() && o.Pos() <= b.fc.Lit.End()
	}
	return o.Pos() >= body.Pos() && o.Pos() <= body.End()
}

// nonNegInvariant: every definition of o keeps it non-negative: constants >= 0, ++, += of a
// non-negative constant, len(...)/cap(...)/copy(...), or an unsigned conversion.
func (b *bctx) nonNegInvariant(o types.Object) bool {
	if s := b.nonneg[o]; s != 0 {
		return s == 1
	}
	b.nonneg[o] = 2
	ok := true
	if _, isParam := b.params[o]; isParam {
		ok = false
	}
	for _, d := range b.defsOf(o) {
		v := b.fc.G.V[d]
		switch st := v.Node.(type) {
		case *ast.AssignStmt:
			if len(st.Lhs) != len(st.Rhs) {
				ok = false
				continue
			}
			for i, l := range st.Lhs {
				if objOf(b.info, l) != o {
					continue
				}
				rhs := ast.Unparen(st.Rhs[i])
				k, isC := constInt(b.info, rhs)
				switch st.Tok {
				case token.ASSIGN, token.DEFINE:
					if isC && k >= 0 {
						continue
					}
					if c, isCall := rhs.(*ast.CallExpr); isCall {
						if id, isId := ast.Unparen(c.Fun).(*ast.Ident); isId && (id.Name == "len" || id.Name == "cap" || id.Name == "copy") {
							continue
						}
					}
					ok = false
				case token.ADD_ASSIGN:
					if isC && k >= 0 {
						continue
					}
					var f []LF
					if proves(f, b.term(rhs, d, &f)) || func() bool { var ff []LF; t := b.term(rhs, d, &ff); return proves(ff, t) }() {
						continue
					}
					ok = false
				default:
					ok = false
				}
			}
		case *ast.ValueSpec:
			for i, id := range st.Names {
				if b.info.Defs[id] != o {
					continue
				}
				if len(st.Values) == 0 {
					continue
				}
				if len(st.Values) == len(st.Names) {
					if k, isC := constInt(b.info, st.Values[i]); isC && k >= 0 {
						continue
					}
				}
				ok = false
			}
		case *ast.IncDecStmt:
			if st.Tok != token.INC {
				ok = false
			}
		default:
			if v.Kind == VRange {
				continue
			}
			ok = false
		}
	}
	if len(b.fc.nonDeferredLitAssigns(o)) > 0 {
		ok = false
	}
	if ok {
		b.nonneg[o] = 1
	}
	return ok
}

// callTerm: integer-valued call expression.
func (b *bctx) callTerm(c *ast.CallExpr, at int, facts *[]LF) LF {
	t := b.info.TypeOf(c)
	fresh := func() LF {
		a := pointAtom("call:"+exprStr(c), at)
		b.rangeFacts(a, t, facts)
		return lfAtom(a)
	}
	if inner, ok := isConversion(b.info, c); ok {
		from := b.info.TypeOf(inner)
		if from != nil && t != nil && isIntType(from) && isIntType(t) {
			if widening(from, t) {
				return b.term(inner, at, facts)
			}
			// value-preserving when the operand is provably within the target's range
			var f []LF
			v := b.term(inner, at, &f)
			lo, hi, hasLo, hasHi := typeRange(t)
			ctxFacts := append(append(append([]LF{}, *facts...), f...), b.own...)
			if b.useAt >= 0 {
				pf, nq := b.pathFactsCached(at)
				ctxFacts = strengthen(append(ctxFacts, pf...), nq)
			}
			okLo := !hasLo || proves(ctxFacts, v.addConst(-lo))
			okHi := !hasHi || proves(ctxFacts, lfConst(hi).plus(v, -1))
			if tb, isB := t.Underlying().(*types.Basic); isB && (tb.Kind() == types.Int || tb.Kind() == types.Int64) {
				// from an unsigned 64-bit: negative results are possible only above MaxInt64; treat as preserving when non-negative is all we need is unsound; keep opaque
				okLo, okHi = false, false
				if fb, isFB := from.Underlying().(*types.Basic); isFB && fb.Info()&types.IsUnsigned == 0 {
					okLo, okHi = true, true
				}
			}
			if okLo && okHi {
				*facts = append(*facts, f...)
				return v
			}
		}
		return fresh()
	}
	switch f := ast.Unparen(c.Fun).(type) {
	case *ast.Ident:
		if _, isBuiltin := b.info.Uses[f].(*types.Builtin); isBuiltin {
			switch f.Name {
			case "len":
				ln, _ := b.sliceLen(c.Args[0], at, facts)
				return ln
			case "cap":
				_, cp := b.sliceLen(c.Args[0], at, facts)
				return cp
			case "min", "max":
				a := pointAtom("call:"+exprStr(c), at)
				for _, arg := range c.Args {
					v := b.term(arg, at, facts)
					if f.Name == "min" {
						*facts = append(*facts, v.plus(lfAtom(a), -1))
					} else {
						*facts = append(*facts, lfAtom(a).plus(v, -1))
					}
				}
				// min of non-negatives is non-negative etc.: the result equals one of the arguments;
				// with two arguments add the disjunction-free consequence a >= x + y - max(x,y) is not linear; skip
				if f.Name == "min" {
					all := true
					for _, arg := range c.Args {
						var ff []LF
						v := b.term(arg, at, &ff)
						if !proves(append(append([]LF{}, *facts...), ff...), v) {
							all = false
						}
					}
					if all {
						*facts = append(*facts, lfAtom(a))
					}
				}
				return lfAtom(a)
			case "copy":
				a := pointAtom("call:"+exprStr(c), at)
				ld, _ := b.sliceLen(c.Args[0], at, facts)
				ls, _ := b.sliceLen(c.Args[1], at, facts)
				*facts = append(*facts, lfAtom(a), ld.plus(lfAtom(a), -1), ls.plus(lfAtom(a), -1))
				return lfAtom(a)
			}
		}
	}
	return b.callResult(c, 0, at, facts)
}

// callResult: the i-th result of call c evaluated at vertex at, as an integer term.
func (b *bctx) callResult(c *ast.CallExpr, i int, at int, facts *[]LF) LF {
	a := pointAtom(fmt.Sprintf("call:%s.%d", exprStr(c), i), at)
	var rt types.Type
	if tup, ok := b.info.TypeOf(c).(*types.Tuple); ok {
		if i < tup.Len() {
			rt = tup.At(i).Type()
		}
	} else if i == 0 {
		rt = b.info.TypeOf(c)
	}
	b.rangeFacts(a, rt, facts)
	if fn := Callee(b.info, c); fn != nil && fn.Pkg() != nil && i == 0 && len(c.Args) >= 1 {
		switch fn.Pkg().Path() + "." + fn.Name() {
		case "slices.Index", "slices.IndexFunc", "bytes.IndexByte", "bytes.IndexFunc", "bytes.LastIndexByte", "strings.IndexByte", "strings.LastIndexByte", "strings.IndexFunc":
			// library fact: -1 <= result <= len(first argument) - 1
			ln, _ := b.sliceLen(c.Args[0], at, facts)
			*facts = append(*facts, lfAtom(a).addConst(1), ln.plus(lfAtom(a), -1).addConst(-1))
		}
	}
	b.applyEnsures(c, at, facts)
	return lfAtom(a)
}

// ---------------------------------------------------------------- slices

// sliceLen returns the length and a lower bound of the capacity of slice/string/array
// expression e as evaluated at vertex at.
func (b *bctx) sliceLen(e ast.Expr, at int, facts *[]LF) (ln, cp LF) {
	e = ast.Unparen(e)
	b.depth++
	defer func() { b.depth-- }()
	t := b.info.TypeOf(e)
	if v, ok := constOf(b.info, e); ok && v.Kind() == constant.String {
		n := int64(len(constant.StringVal(v)))
		return lfConst(n), lfConst(n)
	}
	if n, ok := arrayLen(t); ok {
		return lfConst(n), lfConst(n)
	}
	isStr := false
	if bt, ok := t.Underlying().(*types.Basic); ok && bt.Info()&types.IsString != 0 {
		isStr = true
	}
	atoms := func(key string) (LF, LF) {
		la := "len(" + key + ")"
		*facts = append(*facts, lfAtom(la))
		if isStr {
			return lfAtom(la), lfAtom(la)
		}
		ca := "cap(" + key + ")"
		*facts = append(*facts, lfAtom(ca).plus(lfAtom(la), -1))
		return lfAtom(la), lfAtom(ca)
	}
	if b.depth > 40 {
		return atoms(pointAtom("deep:"+exprStr(e), at))
	}
	switch x := e.(type) {
	case *ast.Ident:
		o := objOf(b.info, x)
		if o == nil {
			return atoms(pointAtom("id:"+x.Name, at))
		}
		return b.varSlice(o, at, facts, atoms)
	case *ast.SliceExpr:
		ly, cy := b.sliceLen(x.X, at, facts)
		lo := LF{}
		if x.Low != nil {
			lo = b.term(x.Low, at, facts)
		}
		hi := ly
		if x.High != nil {
			hi = b.term(x.High, at, facts)
		}
		ln = hi.plus(lo, -1)
		if x.Max != nil {
			cp = b.term(x.Max, at, facts).plus(lo, -1)
		} else {
			cp = cy.plus(lo, -1)
		}
		if isStr {
			cp = ln
		}
		return ln, cp
	case *ast.CallExpr:
		if inner, ok := isConversion(b.info, x); ok {
			it := b.info.TypeOf(inner)
			if it != nil {
				switch it.Underlying().(type) {
				case *types.Slice, *types.Basic:
					if _, isB := it.Underlying().(*types.Basic); !isB || it.Underlying().(*types.Basic).Info()&types.IsString != 0 {
						l, _ := b.sliceLen(inner, at, facts)
						return l, l
					}
				}
			}
			return atoms(pointAtom("conv:"+exprStr(e), at))
		}
		if id, ok := ast.Unparen(x.Fun).(*ast.Ident); ok {
			if _, isBuiltin := b.info.Uses[id].(*types.Builtin); isBuiltin {
				switch id.Name {
				case "make":
					if len(x.Args) >= 2 {
						n := b.term(x.Args[1], at, facts)
						c := n
						if len(x.Args) == 3 {
							c = b.term(x.Args[2], at, facts)
						}
						return n, c
					}
				case "append":
					ly, _ := b.sliceLen(x.Args[0], at, facts)
					n := ly
					if x.Ellipsis.IsValid() && len(x.Args) == 2 {
						lz, _ := b.sliceLen(x.Args[1], at, facts)
						n = ly.plus(lz, 1)
					} else {
						n = ly.addConst(int64(len(x.Args) - 1))
					}
					ca := "cap(" + pointAtom("call:"+exprStr(e), at) + ")"
					*facts = append(*facts, lfAtom(ca).plus(n, -1))
					return n, lfAtom(ca)
				}
			}
		}
		if fn := Callee(b.info, x); fn != nil && fn.Pkg() != nil {
			full := fn.Pkg().Path() + "." + fn.Name()
			switch full {
			case "slices.Grow":
				ly, cy := b.sliceLen(x.Args[0], at, facts)
				n := b.term(x.Args[1], at, facts)
				ca := "cap(" + pointAtom("call:"+exprStr(e), at) + ")"
				*facts = append(*facts, lfAtom(ca).plus(ly.plus(n, 1), -1), lfAtom(ca).plus(cy, -1))
				return ly, lfAtom(ca)
			case "bytes.Clone", "slices.Clone", "strings.Clone":
				ly, _ := b.sliceLen(x.Args[0], at, facts)
				return ly, ly
			case "unsafe.Slice", "unsafe.String":
				n := b.term(x.Args[1], at, facts)
				return n, n
			case "encoding/binary.AppendUint16", "encoding/binary.AppendUint32", "encoding/binary.AppendUint64":
			}
			if recvTypeOf(fn) != nil && strings.HasPrefix(fn.Name(), "AppendUint") && fn.Pkg().Path() == "encoding/binary" {
				ly, _ := b.sliceLen(x.Args[0], at, facts)
				k := map[string]int64{"AppendUint16": 2, "AppendUint32": 4, "AppendUint64": 8}[fn.Name()]
				n := ly.addConst(k)
				ca := "cap(" + pointAtom("call:"+exprStr(e), at) + ")"
				*facts = append(*facts, lfAtom(ca).plus(n, -1))
				return n, lfAtom(ca)
			}
		}
		key := pointAtom(fmt.Sprintf("call:%s.%d", exprStr(e), 0), at)
		l, c := atoms(key)
		b.applyEnsures(x, at, facts)
		return l, c
	case *ast.SelectorExpr:
		var l, c LF
		if _, _, ok := pathOf(b.info, x); ok {
			b.notePathSel(x)
			if len(b.fieldDefs(exprStr(x))) == 0 {
				l, c = atoms("fld:" + b.pathName(x))
			} else {
				b.atomFld[b.pathName(x)] = exprStr(x)
				base := "fld:" + b.pathName(x)
				l, c = atoms(setAtom(base, b.reachingAmong(base, b.fieldDefs(exprStr(x)), at), b.fc.G.Entry))
			}
		} else {
			l, c = atoms(pointAtom("fld:"+exprStr(e), at))
		}
		if sel := b.info.Selections[x]; sel != nil && sel.Kind() == types.FieldVal && b.eng.fieldInv != nil {
			if f, ok := sel.Obj().(*types.Var); ok {
				if inv := b.eng.fieldInv[f.Origin()]; inv != nil && inv.isSlice {
					*facts = append(*facts, l.addConst(-inv.lenLo), c.addConst(-inv.capLo))
				}
			}
		}
		return l, c
	case *ast.CompositeLit:
		keyed := false
		for _, el := range x.Elts {
			if _, ok := el.(*ast.KeyValueExpr); ok {
				keyed = true
			}
		}
		if !keyed {
			n := int64(len(x.Elts))
			return lfConst(n), lfConst(n)
		}
	case *ast.StarExpr:
		if n, ok := arrayLen(b.info.TypeOf(x)); ok {
			return lfConst(n), lfConst(n)
		}
	}
	return atoms(pointAtom("expr:"+exprStr(e), at))
}

func arrayLen(t types.Type) (int64, bool) {
	if t == nil {
		return 0, false
	}
	switch u := t.Underlying().(type) {
	case *types.Array:
		return u.Len(), true
	case *types.Pointer:
		if a, ok := u.Elem().Underlying().(*types.Array); ok {
			return a.Len(), true
		}
	}
	return 0, false
}

func (b *bctx) varSlice(o types.Object, at int, facts *[]LF, atoms func(string) (LF, LF)) (LF, LF) {
	n0 := len(*facts)
	key := objKey(o)
	v, isVar := o.(*types.Var)
	if !isVar || v.IsField() || v.Pkg() == nil || v.Parent() == nil || v.Parent() == v.Pkg().Scope() {
		return atoms("glob:" + key)
	}
	if !b.declaredHere(o) || b.addrTaken[o] {
		return atoms(pointAtom("free:"+key, at))
	}
	rd := b.reachingDefs(at, o)
	if len(rd) == 1 && rd[0] == b.fc.G.Entry {
		b.atomObj[key] = o
		if _, isParam := b.params[o]; !isParam {
			// declared without value: nil slice
			if !b.fc.isNamedResult(v) {
				return atoms("v:" + key)
			}
			return LF{}, LF{}
		}
		return atoms("v:" + key)
	}
	if len(rd) == 1 && len(b.fc.nonDeferredLitAssigns(o)) == 0 {
		d := rd[0]
		dv := b.fc.G.V[d]
		reb := func(l, c LF) (LF, LF) {
			b.transportAll(facts, n0, d, at)
			return b.transport(l, d, at), b.transport(c, d, at)
		}
		switch st := dv.Node.(type) {
		case *ast.AssignStmt:
			if dv.Kind == VStmt && (st.Tok == token.ASSIGN || st.Tok == token.DEFINE) {
				if len(st.Lhs) == len(st.Rhs) {
					for i, l := range st.Lhs {
						if objOf(b.info, l) == o {
							return reb(b.sliceLen(st.Rhs[i], d, facts))
						}
					}
				} else if len(st.Rhs) == 1 {
					if call, ok := ast.Unparen(st.Rhs[0]).(*ast.CallExpr); ok {
						for i, l := range st.Lhs {
							if objOf(b.info, l) == o {
								k := pointAtom(fmt.Sprintf("call:%s.%d", exprStr(call), i), d)
								ln, cp := atoms(k)
								b.applyEnsures(call, d, facts)
								return reb(ln, cp)
							}
						}
					}
				}
			}
		case *ast.ValueSpec:
			for i, id := range st.Names {
				if b.info.Defs[id] != o {
					continue
				}
				if len(st.Values) == len(st.Names) {
					return reb(b.sliceLen(st.Values[i], d, facts))
				}
				if len(st.Values) == 0 {
					if n, ok := arrayLen(o.Type()); ok {
						return lfConst(n), lfConst(n)
					}
					return LF{}, LF{}
				}
			}
		}
	}
	b.atomObj[key] = o
	return atoms(setAtom("v:"+key, rd, b.fc.G.Entry))
}

// ---------------------------------------------------------------- path facts

// pathFacts collects the inequalities implied by every condition edge that dominates u.
// neq returns the forms known to be non-zero (from != / == edges) for later strengthening.
func (b *bctx) pathFacts(u int) (out []LF, neq []LF) {
	type contentEq struct {
		key string
		idx LF
		val int64
	}
	var ceqs []contentEq
	defer func() {
		// x[i] == c1 and x[j] == c2 with c1 != c2 imply i != j
		for i := 0; i < len(ceqs); i++ {
			for j := i + 1; j < len(ceqs); j++ {
				if ceqs[i].key == ceqs[j].key && ceqs[i].val != ceqs[j].val {
					neq = append(neq, ceqs[i].idx.plus(ceqs[j].idx, -1))
				}
			}
		}
	}()
	for _, cv := range b.fc.G.V {
		if cv.Kind != VCond && cv.Kind != VSwitchCase {
			continue
		}
		if !b.live[cv.ID] {
			continue
		}
		for _, e := range cv.Succs {
			if e.Label != LTrue && e.Label != LFalse {
				continue
			}
			if cv.ID == u || !b.edgeDominates(e, u) {
				continue
			}
			x, y, op, ok := condParts(cv)
			if !ok || y == nil {
				continue
			}
			tx, ty := b.info.TypeOf(x), b.info.TypeOf(y)
			if !isIntType(tx) && !isIntType(ty) {
				continue
			}
			// element compared with a constant: remember (slice, index, constant)
			if (op == token.EQL && e.Label == LTrue) || (op == token.NEQ && e.Label == LFalse) {
				for _, pair := range [][2]ast.Expr{{x, y}, {y, x}} {
					ix, isIx := ast.Unparen(pair[0]).(*ast.IndexExpr)
					k, isC := constInt(b.info, pair[1])
					if !isIx || !isC {
						continue
					}
					if o := objOf(b.info, ix.X); o != nil && b.stable(o, cv.ID, u) && len(b.contentWritesBetween(o, cv.ID, u)) == 0 {
						var side []LF
						idx := b.term(ix.Index, cv.ID, &side)
						ceqs = append(ceqs, contentEq{objKey(o), b.transport(idx, cv.ID, u), k})
						for _, f := range side {
							out = append(out, b.transport(f, cv.ID, u))
						}
					}
				}
			}
			// every local variable mentioned by the condition must be unchanged since
			stableVars := true
			for _, side := range []ast.Expr{x, y} {
				inspectNoLit(side, func(n ast.Node) bool {
					if id, ok := n.(*ast.Ident); ok {
						if o, isVar := b.info.Uses[id].(*types.Var); isVar && !o.IsField() && b.declaredHere(o) {
							if !b.stable(o, cv.ID, u) {
								stableVars = false
							}
						}
					}
					return true
				})
			}
			if !stableVars {
				continue
			}
			var side []LF
			lx := b.term(x, cv.ID, &side)
			ly := b.term(y, cv.ID, &side)
			var fs, nq []LF
			holds := e.Label == LTrue
			switch op {
			case token.LSS:
				if holds {
					fs = append(fs, lfGT(ly, lx))
				} else {
					fs = append(fs, lfGE(lx, ly))
				}
			case token.LEQ:
				if holds {
					fs = append(fs, lfGE(ly, lx))
				} else {
					fs = append(fs, lfGT(lx, ly))
				}
			case token.GTR:
				if holds {
					fs = append(fs, lfGT(lx, ly))
				} else {
					fs = append(fs, lfGE(ly, lx))
				}
			case token.GEQ:
				if holds {
					fs = append(fs, lfGE(lx, ly))
				} else {
					fs = append(fs, lfGT(ly, lx))
				}
			case token.EQL:
				if holds {
					fs = append(fs, lfGE(lx, ly), lfGE(ly, lx))
				} else {
					nq = append(nq, lfGE(lx, ly))
				}
			case token.NEQ:
				if !holds {
					fs = append(fs, lfGE(lx, ly), lfGE(ly, lx))
				} else {
					nq = append(nq, lfGE(lx, ly))
				}
			}
			for _, f := range append(fs, side...) {
				out = append(out, b.transport(f, cv.ID, u))
			}
			for _, f := range nq {
				neq = append(neq, b.transport(f, cv.ID, u))
			}
		}
	}
	return out, neq
}

// contentWritesBetween: vertices that may change o's elements between cv and u.
func (b *bctx) contentWritesBetween(o types.Object, cv, u int) []int {
	var out []int
	for _, d := range b.contentDefs(o) {
		if b.between(d, cv, u) {
			out = append(out, d)
		}
	}
	return out
}

// pathFactsCached memoises pathFacts per vertex (guarding against re-entrance).
func (b *bctx) pathFactsCached(u int) ([]LF, []LF) {
	if b.pfCache == nil {
		b.pfCache = map[int][2][]LF{}
	}
	if r, ok := b.pfCache[u]; ok {
		return r[0], r[1]
	}
	if b.pfBusy[u] {
		return nil, nil
	}
	if b.pfBusy == nil {
		b.pfBusy = map[int]bool{}
	}
	b.pfBusy[u] = true
	pf, nq := b.pathFacts(u)
	delete(b.pfBusy, u)
	b.pfCache[u] = [2][]LF{pf, nq}
	return pf, nq
}

// strengthen turns d != 0 into d >= 1 or d <= -1 when the sign of d is known.
func strengthen(facts []LF, neq []LF) []LF {
	for _, d := range neq {
		if proves(facts, d) {
			facts = append(facts, d.addConst(-1))
		} else if proves(facts, d.scale(-1)) {
			facts = append(facts, d.scale(-1).addConst(-1))
		}
	}
	return facts
}

// ---------------------------------------------------------------- summaries

// paramAtomMap maps the callee's parameter atoms to generic names P<i>, len(P<i>), cap(P<i>).
func (b *bctx) genericParamAtoms() map[string]string {
	m := map[string]string{}
	for o, i := range b.params {
		k := objKey(o)
		m["v:"+k] = fmt.Sprintf("P%d", i)
		m["len(v:"+k+")"] = fmt.Sprintf("len(P%d)", i)
		m["cap(v:"+k+")"] = fmt.Sprintf("cap(P%d)", i)
	}
	return m
}

func renameAtoms(f LF, m map[string]string) (LF, bool) {
	out := LF{}
	for a, c := range f {
		if a == "" {
			out[a] = c
			continue
		}
		na, ok := m[a]
		if !ok {
			return nil, false
		}
		out[na] = c
	}
	return out, true
}

// instantiate maps generic atoms to the caller's terms at the call vertex.
func (b *bctx) instantiate(f LF, call *ast.CallExpr, fn *types.Func, at int, facts *[]LF, results func(i int) (LF, LF, LF)) (LF, bool) {
	out := LF{}
	sig := fn.Type().(*types.Signature)
	argOf := func(i int) ast.Expr {
		if sig.Variadic() && i >= sig.Params().Len()-1 {
			return nil
		}
		if i < len(call.Args) {
			return call.Args[i]
		}
		return nil
	}
	for a, c := range f {
		if a == "" {
			out = out.plus(LF{"": c}, 1)
			continue
		}
		var val LF
		var idx int
		switch {
		case scan1(a, "P%d", &idx):
			arg := argOf(idx)
			if arg == nil {
				return nil, false
			}
			val = b.term(arg, at, facts)
		case scan1(a, "len(P%d)", &idx):
			arg := argOf(idx)
			if arg == nil {
				return nil, false
			}
			val, _ = b.sliceLen(arg, at, facts)
		case scan1(a, "cap(P%d)", &idx):
			arg := argOf(idx)
			if arg == nil {
				return nil, false
			}
			_, val = b.sliceLen(arg, at, facts)
		case scan1(a, "R%d", &idx):
			if results == nil {
				return nil, false
			}
			val, _, _ = results(idx)
		case scan1(a, "len(R%d)", &idx):
			if results == nil {
				return nil, false
			}
			_, val, _ = results(idx)
		case scan1(a, "cap(R%d)", &idx):
			if results == nil {
				return nil, false
			}
			_, _, val = results(idx)
		default:
			return nil, false
		}
		if val == nil {
			return nil, false
		}
		// multiply
		for x, cc := range val {
			t := new(bigInt).Mul(cc, c)
			if cur, ok := out[x]; ok {
				cur.Add(cur, t)
			} else {
				out[x] = t
			}
		}
	}
	for x, c := range out {
		if c.Sign() == 0 {
			delete(out, x)
		}
	}
	return out, true
}

func scan1(s, format string, out *int) bool {
	var n int
	var rest string
	c, _ := fmt.Sscanf(s, format+"%s", &n, &rest)
	if c >= 1 && rest == "" {
		// make sure the whole string matched: re-print
		if fmt.Sprintf(format, n) == s {
			*out = n
			return true
		}
	}
	return false
}

// applyEnsures adds the facts the callee guarantees about its results (named by the caller's
// call-result atoms) at vertex at. Facts that hold only on the callee's success returns are
// added only when the caller is past the call's err == nil edge — decided by the caller of
// this function through dominance at use time; here we add them tagged by the call point and
// rely on successGuard below.
func (b *bctx) applyEnsures(c *ast.CallExpr, at int, facts *[]LF) {
	fn := Callee(b.info, c)
	results := func(i int) (LF, LF, LF) {
		k := pointAtom(fmt.Sprintf("call:%s.%d", exprStr(c), i), at)
		return lfAtom(k), lfAtom("len(" + k + ")"), lfAtom("cap(" + k + ")")
	}
	if fn == nil {
		return
	}
	for _, en := range stdEnsures(fn) {
		if f, ok := b.instantiate(en, c, fn, at, facts, results); ok {
			*facts = append(*facts, f)
		}
	}
	if succ := stdEnsuresSucc(fn); len(succ) > 0 {
		if cs, ok := b.calls[c]; (ok && b.useAt >= 0 && b.useAt != cs.V && cs.SuccessGuards(b.useAt)) || b.assumeSucc == c {
			for _, en := range succ {
				if f, ok := b.instantiate(en, c, fn, at, facts, results); ok {
					*facts = append(*facts, f)
				}
			}
		}
	}
	sums := b.eng.calleeSummaries(fn)
	if len(sums) == 0 {
		return
	}
	guarded := b.assumeSucc == c
	if cs, ok := b.calls[c]; ok && b.useAt >= 0 && b.useAt != cs.V && !guarded {
		guarded = cs.SuccessGuards(b.useAt)
	}
	common := func(get func(s *fnSummary) []LF) []LF {
		var acc map[string]LF
		for _, s := range sums {
			cur := map[string]LF{}
			for _, en := range get(s) {
				cur[en.String()] = en
			}
			if acc == nil {
				acc = cur
				continue
			}
			for k := range acc {
				if _, ok := cur[k]; !ok {
					delete(acc, k)
				}
			}
		}
		var keys []string
		for k := range acc {
			keys = append(keys, k)
		}
		sort.Strings(keys)
		var out []LF
		for _, k := range keys {
			out = append(out, acc[k])
		}
		return out
	}
	for _, en := range common(func(s *fnSummary) []LF { return s.ensures }) {
		if f, ok := b.instantiate(en, c, fn, at, facts, results); ok {
			*facts = append(*facts, f)
		}
	}
	if guarded {
		for _, en := range common(func(s *fnSummary) []LF { return append(append([]LF{}, s.ensures...), s.ensuresSucc...) }) {
			if f, ok := b.instantiate(en, c, fn, at, facts, results); ok {
				*facts = append(*facts, f)
			}
		}
	}
}

func (e *boundsEngine) implSummaries(fn *types.Func) []*fnSummary {
	recv := recvTypeOf(fn)
	iface, ok := recv.Underlying().(*types.Interface)
	if !ok {
		return nil
	}
	var out []*fnSummary
	var keys []*types.Func
	for f := range e.sum {
		keys = append(keys, f)
	}
	sort.Slice(keys, func(i, j int) bool { return keys[i].FullName() < keys[j].FullName() })
	for _, f := range keys {
		if f.Name() != fn.Name() {
			continue
		}
		rt := recvTypeOf(f)
		if rt == nil {
			continue
		}
		if types.Implements(rt, iface) || types.Implements(types.NewPointer(rt), iface) {
			out = append(out, e.sum[f])
		}
	}
	return out
}

// stdEnsures: guarantees of standard-library functions, over P<i> / R<k> atoms.
func stdEnsures(fn *types.Func) []LF {
	if fn.Pkg() == nil {
		return nil
	}
	name := fn.Name()
	pkg := fn.Pkg().Path()
	recv := ""
	if rt := recvTypeOf(fn); rt != nil {
		recv = namedTypeName(rt)
	}
	ge := func(a string, b string, k int64) LF { // a - b + k >= 0
		f := lfAtom(a)
		if b != "" {
			f = f.plus(lfAtom(b), -1)
		}
		return f.addConst(k)
	}
	switch {
	case pkg == "io" && name == "ReadFull", pkg == "io" && name == "ReadAtLeast":
		return []LF{ge("R0", "", 0), ge("len(P1)", "R0", 0)}
	case name == "Read" && (pkg == "io" || pkg == "net" || pkg == "bufio" || pkg == "bytes" || pkg == "crypto/rand"),
		name == "Write" && (pkg == "io" || pkg == "net" || pkg == "bufio" || pkg == "bytes"):
		return []LF{ge("R0", "", 0), ge("len(P0)", "R0", 0)}
	case pkg == "net" && (name == "ReadMsgUDPAddrPort" || name == "ReadMsgUDP"):
		return []LF{ge("R0", "", 0), ge("len(P0)", "R0", 0), ge("R1", "", 0), ge("len(P1)", "R1", 0)}
	case pkg == "net" && (name == "ReadFromUDPAddrPort" || name == "ReadFromUDP" || name == "ReadFrom"):
		return []LF{ge("R0", "", 0), ge("len(P0)", "R0", 0)}
	case pkg == "bufio" && recv == "Reader" && name == "Peek":
		return []LF{ge("P0", "len(R0)", 0)}
	case pkg == "bufio" && recv == "Reader" && name == "Buffered":
		return []LF{ge("R0", "", 0)}
	case (pkg == "bytes" || pkg == "strings") && strings.HasPrefix(name, "Index"), (pkg == "bytes" || pkg == "strings") && strings.HasPrefix(name, "LastIndex"):
		return []LF{ge("R0", "", 1), ge("len(P0)", "R0", -1)}
	case pkg == "encoding/base64" && name == "DecodedLen", pkg == "encoding/base64" && name == "EncodedLen":
		return []LF{ge("R0", "", 0)}
	case pkg == "crypto/cipher" && recv == "AEAD" && name == "Overhead":
		// every AEAD of this module is AES-GCM (checked by C06-R4): 16-byte tag
		return []LF{ge("R0", "", -16), lfConst(16).plus(lfAtom("R0"), -1)}
	case pkg == "crypto/cipher" && recv == "AEAD" && name == "NonceSize":
		return []LF{ge("R0", "", -12), lfConst(12).plus(lfAtom("R0"), -1)}
	case pkg == "crypto/cipher" && recv == "AEAD" && name == "Seal":
		// len(result) = len(dst) + len(plaintext) + 16
		f := lfAtom("len(R0)").plus(lfAtom("len(P0)"), -1).plus(lfAtom("len(P2)"), -1).addConst(-16)
		return []LF{f, f.scale(-1)}
	}
	return nil
}

// stdEnsuresSucc: guarantees that hold when the call's error result is nil.
func stdEnsuresSucc(fn *types.Func) []LF {
	if fn.Pkg() == nil {
		return nil
	}
	recv := ""
	if rt := recvTypeOf(fn); rt != nil {
		recv = namedTypeName(rt)
	}
	switch {
	case fn.Pkg().Path() == "crypto/cipher" && recv == "AEAD" && fn.Name() == "Open":
		// len(result) = len(dst) + len(ciphertext) - 16
		f := lfAtom("len(R0)").plus(lfAtom("len(P0)"), -1).plus(lfAtom("len(P2)"), -1).addConst(16)
		return []LF{f, f.scale(-1)}
	case fn.Pkg().Path() == "io" && (fn.Name() == "ReadFull"):
		return []LF{lfAtom("R0").plus(lfAtom("len(P1)"), -1)}
	case fn.Pkg().Path() == "bufio" && recv == "Reader" && fn.Name() == "Peek":
		return []LF{lfAtom("len(R0)").plus(lfAtom("P0"), -1)}
	}
	return nil
}

// stdRequires: length demands of standard-library functions over P<i>.
func stdRequires(fn *types.Func) []LF {
	if fn.Pkg() == nil {
		return nil
	}
	if fn.Pkg().Path() == "crypto/cipher" && namedTypeName(recvTypeOf(fn)) == "Block" && (fn.Name() == "Encrypt" || fn.Name() == "Decrypt") {
		// AES block size (every cipher.Block of the module comes from aes.NewCipher: C06-R3)
		return []LF{lfAtom("len(P0)").addConst(-16), lfAtom("len(P1)").addConst(-16)}
	}
	if fn.Pkg().Path() == "encoding/binary" {
		need := int64(0)
		switch {
		case strings.HasSuffix(fn.Name(), "Uint16"):
			need = 2
		case strings.HasSuffix(fn.Name(), "Uint32"):
			need = 4
		case strings.HasSuffix(fn.Name(), "Uint64"):
			need = 8
		}
		if need > 0 && (strings.HasPrefix(fn.Name(), "Uint") || strings.HasPrefix(fn.Name(), "PutUint")) {
			return []LF{lfAtom("len(P0)").addConst(-need)}
		}
	}
	return nil
}
